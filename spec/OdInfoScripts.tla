---------------------------- MODULE OdInfoScripts ----------------------------
(* X03 - what TLC enumerates for the replay on the real code:
     DictSpec   object dictionaries: every sequence of 0..MaxObjs shapes out of Shapes,
                the long lists BigDict(n), n \in BigNs, and the sequences of shapes in Wanted
                (dictionaries for dedicated sessions; defined by the root module the check writes)
     SplitSpec  every legal fragmentation (sequence of data sizes) of a response whose service
                data has `total` bytes, the first `fixed` of which must travel in the first
                fragment, when a fragment carries at most `cap` bytes - for all triples in Triples
     SlotSpec   reply scripts: what the terminal does with the first MaxLen requests (answer
                at once, after polls, after / between unrelated mail, refuse in three ways);
                at most one refusal per script                                               *)
EXTENDS OdInfoDicts, Json
CONSTANTS MaxObjs, Shapes, BigNs, Wanted, Triples, MaxLen, Kinds, Refusals
VARIABLES hist, par

DInit == \/ hist = <<>> /\ par \in {0} \cup BigNs
         \/ hist \in Wanted /\ par = -1
DNext == /\ par = 0 /\ Len(hist) < MaxObjs
         /\ \E s \in Shapes : hist' = Append(hist, s)
         /\ UNCHANGED par
DictSpec == DInit /\ [][DNext]_<<hist, par>>
EmitDict == IF par <= 0 THEN PrintT(<<"DICT", par, ToJson(hist), ToJson(MkDict(hist))>>)
            ELSE PrintT(<<"DICT", par, ToJson(<<"biglist">>), ToJson(BigDict(par))>>)

RECURSIVE Total(_)
Total(s) == IF s = <<>> THEN 0 ELSE Head(s) + Total(Tail(s))
PInit == hist = <<>> /\ par \in Triples            \* fixed * 10000 + total * 100 + cap
PFixed == par \div 10000
PTotal == (par \div 100) % 100
PCap == par % 100
PNext == /\ Total(hist) < PTotal
         /\ \E n \in 1 .. PCap :
              /\ hist = <<>> => n >= PFixed
              /\ Total(hist) + n <= PTotal
              /\ hist' = Append(hist, n)
         /\ UNCHANGED par
SplitSpec == PInit /\ [][PNext]_<<hist, par>>
EmitSplit == Total(hist) = PTotal => PrintT(<<"SPLIT", PFixed, PTotal, PCap, ToJson(hist)>>)

SInit == hist = <<>> /\ par = 0
SNext == /\ Len(hist) < MaxLen
         /\ \E k \in Kinds :
              /\ (k \in Refusals => \A i \in 1 .. Len(hist) : hist[i] \notin Refusals)
              /\ hist' = Append(hist, k)
         /\ UNCHANGED par
SlotSpec == SInit /\ [][SNext]_<<hist, par>>
EmitSlots == Len(hist) = MaxLen => PrintT(<<"SLOTS", ToJson(hist)>>)

(* all three in one run: par tells them apart (dictionaries <= 0 or a BigNs member < 1000,
   splits >= 10000, reply scripts 5000)                                                     *)
AInit == DInit \/ PInit \/ (hist = <<>> /\ par = 5000)
ANext == \/ par < 1000 /\ DNext
         \/ par >= 10000 /\ PNext
         \/ par = 5000 /\ SNext
AllSpec == AInit /\ [][ANext]_<<hist, par>>
EmitAll == CASE par < 1000 -> EmitDict [] par >= 10000 -> EmitSplit [] OTHER -> EmitSlots
=============================================================================
