SPECIFICATION MCSpec
CONSTANTS MaxCycles = 3
          ByteVals = {0, 1, 2, 3}
          InVals = {0, 3}
          WkcVals = {0, 1, 2, 257, 258}
          Honest = FALSE
CONSTRAINT Bound
INVARIANTS TypeOK
           ErrAccounting
           ClearedOnWire
           OutputsOnWire
           HonestDetect
