---------------------------- MODULE SdoScripts ----------------------------
(* Environment behaviours for C16: what the terminal does with its first MaxLen replies
   (later replies are plain): answer at once, after 1 or 2 polls of the mailbox status, after
   unrelated mail (EoE, CoE emergency, both), with a smaller fragment than would fit, with a
   normal instead of an expedited response, or abort.  At most one abort per script.        *)
EXTENDS Integers, Sequences, TLC, Json
CONSTANTS MaxLen, Kinds
VARIABLES hist
SInit == hist = <<>>
SNext == /\ Len(hist) < MaxLen
         /\ \E k \in Kinds :
              /\ (k = "abort" => \A i \in 1 .. Len(hist) : hist[i] # "abort")
              /\ hist' = Append(hist, k)
SSpec == SInit /\ [][SNext]_hist
Emit == Len(hist) = MaxLen => PrintT(<<"SCRIPT", ToJson(hist)>>)
=============================================================================
