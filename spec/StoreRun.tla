------------------------------ MODULE StoreRun ------------------------------
(* Runs of emitted programs on the eBPF machine for C08 / C09.  A case is EbpfRun's case plus
     expect |-> [has |-> BOOLEAN, arr |-> <<bytes, ...>> (in the order of case.arr),
                 hash |-> <<[fd, key, val], ...>>]
   When the same run was made on the real kernel (`has`), the machine must end through `exit` with
   exactly the map contents the kernel left; the final state is printed either way (without a
   kernel the driver loads it into the fake kernel's maps, so that the Python side continues on it). *)
EXTENDS EbpfRun
Agrees(k, r) ==
    /\ r.st = <<"exit">>
    /\ \A j \in DOMAIN k.expect.arr : r.arr[j] = k.expect.arr[j]
    /\ r.hash = {<<k.expect.hash[j].fd, k.expect.hash[j].key, k.expect.hash[j].val>> : j \in DOMAIN k.expect.hash}
MReport == LET k == Cases[cid]  r == Result(k) IN
           PrintT(<<"MRUN", cid, (~k.expect.has) \/ Agrees(k, r), ToJson(r)>>)
=============================================================================
