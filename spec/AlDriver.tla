------------------------------- MODULE AlDriver -------------------------------
(* C14 - state changes walk the EtherCAT state machine in order.

   Two parts are composed.

   The terminal's AL part: a state in {INIT, PREOP, SAFEOP, OP}, an error flag, and at most one
   pending request.  A request written to AL control takes d \in 0..K polls of AL status to be
   reported (d polls still show the old state; d = 0: effective at once); a later write
   replaces a pending one; an error may appear at any poll (it cancels the pending request);
   the error flag is cleared only by a request carrying the acknowledge flag, and a request
   without it is refused while the flag is set.  A terminal may also take an acknowledgement
   the other way round ("early"): the error flag goes at once, the fall back to INIT takes
   the d polls, which still show the OLD state without error, and a request written meanwhile
   waits behind the fall back.  A request (without acknowledge) for a state more than one
   step above the current one is an invalid state change: the terminal sets its error flag.

   The master's obligations exactly as the property states them, as enabling conditions of
   the master's actions (read AL status, acknowledge, request a state, return, raise):
     - the first thing the master learns is the reported state; a reported error is first
       acknowledged by writing INIT|ack, and INIT is then the start state;
     - it requests only the successor of the state reached so far, never above the target,
       and only when the previously requested state has been reported;
     - it returns only once a state >= target was reported (after an acknowledgement: the
       target itself, reported after the acknowledgement);
     - once a poll shows the error flag while it is changing state, all it may do is raise;
       it raises for no other reason.
   Reading AL status is never restricted (the property does not restrict it).  Where the
   property leaves freedom (polling between the acknowledgement and the first request, and
   what to do if the error is still shown there) every choice is allowed.                   *)
EXTENDS Integers, TLC

CONSTANT K                     \* a requested transition takes 0..K polls to be reported

INIT == 1
PREOP == 2
SAFEOP == 4
OP == 8
States == {INIT, PREOP, SAFEOP, OP}
Targets == {PREOP, SAFEOP, OP}
Succ(s) == CASE s = INIT -> PREOP [] s = PREOP -> SAFEOP [] s = SAFEOP -> OP [] OTHER -> 0
AckInit == 17                  \* 0x11: request INIT with the acknowledge flag

VARIABLES tst, terr, pend,     \* terminal: state, error flag, pending request
          fall,                \* terminal: polls left of an early-acknowledged fall back to INIT (-1: none)
          target,              \* what the master was asked for
          started,             \* the master has read AL status at least once
          needAck,             \* that first read showed the error flag
          acked,               \* the master wrote INIT|ack
          cur,                 \* the state reached so far: reported, or INIT after the acknowledgement
          req,                 \* requested state not yet reported (0: none)
          errObl,              \* "no" | "may" (error seen where raising is optional) | "must"
          outcome              \* "none" | "returned" | "raised"

tvars == <<tst, terr, pend, fall>>
mvars == <<target, started, needAck, acked, cur, req, errObl, outcome>>
vars == <<tvars, mvars>>

NoPend == [req |-> 0, ack |-> FALSE, left |-> 0]

-----------------------------------------------------------------------------
(* terminal *)
Apply(r, a) == IF terr /\ ~a THEN UNCHANGED <<tst, terr>>       \* refused: error not acknowledged
               ELSE IF ~a /\ r > tst /\ r # Succ(tst)
                    THEN terr' = TRUE /\ UNCHANGED tst            \* invalid requested state change
               ELSE tst' = r /\ terr' = FALSE

TWrite(r, a, d) ==
    /\ r \in States /\ d \in 0 .. K
    /\ IF fall >= 0                 \* waits behind the fall back to INIT
       THEN pend' = [req |-> r, ack |-> a, left |-> d] /\ UNCHANGED <<tst, terr>>
       ELSE IF d = 0 THEN Apply(r, a) /\ pend' = NoPend
       ELSE pend' = [req |-> r, ack |-> a, left |-> d] /\ UNCHANGED <<tst, terr>>
    /\ UNCHANGED fall

(* INIT|ack taken "early": error flag off at once, d polls of the old state, then INIT *)
TAckEarly(d) ==
    /\ d \in 1 .. K
    /\ terr' = FALSE /\ fall' = d /\ pend' = NoPend /\ UNCHANGED tst

TPoll(inject) ==
    IF inject THEN terr' = TRUE /\ pend' = NoPend /\ fall' = -1 /\ UNCHANGED tst
    ELSE IF fall > 0 THEN fall' = fall - 1 /\ UNCHANGED <<tst, terr, pend>>
    ELSE IF fall = 0 THEN tst' = INIT /\ fall' = -1 /\ UNCHANGED <<terr, pend>>
    ELSE IF pend.req = 0 THEN UNCHANGED tvars
    ELSE IF pend.left > 0 THEN pend' = [pend EXCEPT !.left = @ - 1] /\ UNCHANGED <<tst, terr, fall>>
    ELSE Apply(pend.req, pend.ack) /\ pend' = NoPend /\ UNCHANGED fall

-----------------------------------------------------------------------------
(* master *)
PreAck == needAck /\ ~acked
AckWindow == acked /\ cur = INIT /\ req = 0      \* after the acknowledgement, before the first request

MRead(inject) ==
    /\ outcome = "none"
    /\ TPoll(inject)
    /\ IF ~started
       THEN /\ started' = TRUE
            /\ needAck' = terr'
            /\ cur' = IF terr' THEN 0 ELSE tst'
            /\ UNCHANGED <<acked, req, errObl>>
       ELSE /\ UNCHANGED <<started, needAck, acked>>
            /\ IF terr'
               THEN /\ errObl' = IF PreAck THEN errObl
                                 ELSE IF AckWindow /\ errObl # "must" THEN "may"
                                 ELSE "must"
                    /\ UNCHANGED <<cur, req>>
               ELSE /\ errObl' = IF errObl = "may" THEN "no" ELSE errObl
                    /\ IF req # 0 /\ tst' = req
                       THEN cur' = req /\ req' = 0
                       ELSE UNCHANGED <<cur, req>>
    /\ UNCHANGED <<target, outcome>>

MAck(d, early) ==
    /\ outcome = "none" /\ started /\ PreAck
    /\ IF early THEN TAckEarly(d) ELSE TWrite(INIT, TRUE, d)
    /\ acked' = TRUE /\ cur' = INIT
    /\ UNCHANGED <<target, started, needAck, req, errObl, outcome>>

MRequest(s, d) ==
    /\ outcome = "none" /\ started /\ ~PreAck /\ errObl # "must"
    /\ req = 0                       \* the previously requested state was reported
    /\ s = Succ(cur)                 \* one step at a time, in order
    /\ s <= target                   \* never above the target
    /\ TWrite(s, FALSE, d)
    /\ req' = s /\ errObl' = "no"
    /\ UNCHANGED <<target, started, needAck, acked, cur, outcome>>

MReturn ==
    /\ outcome = "none" /\ started /\ ~PreAck /\ errObl # "must"
    /\ req = 0
    /\ cur >= target /\ (acked => cur = target)
    /\ outcome' = "returned"
    /\ UNCHANGED <<tvars, target, started, needAck, acked, cur, req, errObl>>

MRaise ==
    /\ outcome = "none" /\ errObl # "no"
    /\ outcome' = "raised"
    /\ UNCHANGED <<tvars, target, started, needAck, acked, cur, req, errObl>>

-----------------------------------------------------------------------------
Init == /\ tst \in States /\ terr \in BOOLEAN /\ pend = NoPend /\ fall = -1
        /\ target \in Targets
        /\ started = FALSE /\ needAck = FALSE /\ acked = FALSE
        /\ cur = 0 /\ req = 0 /\ errObl = "no" /\ outcome = "none"

Read == \E inject \in BOOLEAN : MRead(inject)
Act == \/ \E d \in 0 .. K, early \in BOOLEAN : MAck(d, early)
       \/ \E s \in States, d \in 0 .. K : MRequest(s, d)
       \/ MReturn \/ MRaise
Next == Read \/ Act

Spec == Init /\ [][Next]_vars /\ WF_vars(Read) /\ WF_vars(Act)

-----------------------------------------------------------------------------
TypeOK == /\ tst \in States /\ terr \in BOOLEAN
          /\ pend \in [req : States \cup {0}, ack : BOOLEAN, left : 0 .. K] /\ fall \in -1 .. K
          /\ target \in Targets /\ started \in BOOLEAN /\ needAck \in BOOLEAN /\ acked \in BOOLEAN
          /\ cur \in States \cup {0} /\ req \in Targets \cup {0}
          /\ errObl \in {"no", "may", "must"} /\ outcome \in {"none", "returned", "raised"}

(* consequences of the obligations for the terminal, checked on the composition *)
NeverAboveTarget == req <= target /\ pend.req <= target
(* the terminal is where the master says - once it has settled: a terminal that takes the
   acknowledgement early can show its old state, equal to the requested one, while still
   falling back to INIT; no master can tell that from the report it waits for *)
Settled == fall = -1 /\ pend.req = 0
ReturnedMeansThere == (outcome = "returned" /\ Settled) => (tst >= target /\ (acked => tst = target))
RaisedMeansError == outcome = "raised" => terr
(* the terminal is walked through its state machine: a reset to INIT or one step up *)
Walk == [][tst' # tst => (tst' = INIT \/ tst' = Succ(tst))]_vars
(* a master that keeps acting comes to an outcome: terminals within the bound never make it wait for ever *)
Terminates == <>(outcome # "none")
=============================================================================
