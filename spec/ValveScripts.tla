---------------------------- MODULE ValveScripts ----------------------------
(* Environment behaviours for C27: every history of NCycles update cycles after the reset.
   Between two updates the environment steps commute and later ones of a kind supersede earlier
   ones, so every history of SetTarget / Switches / Advance / Update steps is equivalent to one
   in the normal form  SetTarget(v) ; Switches(o, c) ; [Advance(dt)] ; Update  per cycle, which
   is what is enumerated (dt = 0: no Advance step).  Printed once each, as the flat step list. *)
EXTENDS Integers, Sequences, TLC, Json
CONSTANTS NCycles, Dts
VARIABLES hist, n
Cycle(v, o, c, dt) ==
    <<[op |-> "target", v |-> v], [op |-> "switches", o |-> o, c |-> c]>>
    \o (IF dt > 0 THEN <<[op |-> "advance", dt |-> dt]>> ELSE <<>>)
    \o <<[op |-> "update"]>>
SInit == hist = <<[op |-> "reset"]>> /\ n = 0
SNext == /\ n < NCycles
         /\ n' = n + 1
         /\ \E v, o, c \in BOOLEAN, dt \in Dts : hist' = hist \o Cycle(v, o, c, dt)
SSpec == SInit /\ [][SNext]_<<hist, n>>
Emit == n = NCycles => PrintT(<<"SCRIPT", ToJson(hist)>>)
=============================================================================
