------------------------------ MODULE Ind_Mailbox ------------------------------
(* X05 - Mailbox.tla under Apalache.  Why a restatement: Mailbox!Reqs applies SelectSeq to an
   untyped LAMBDA, which Apalache's type checker rejects ("Cannot apply m to the argument dir"), so
   the module cannot be INSTANCEd; the actions below are the text of Mailbox.tla, unchanged, and
   Ind_MailboxEq (cfg Ind_MailboxEq_ow / _wo) shows with TLC that wrapper and original admit the same
   behaviours on the constants of MC_Mailbox.  The inductive invariant is the one of
   Ind_MailboxProof.tla, restated with positions bounded by BoundW + 1.  Apalache
   checks it for every set of users \subseteq {u1 .. u5} and every wire of up to BoundW messages in the
   starting state (the TLAPS proof has no such bounds; this is the cross-check by a second tool,
   and the place where a counterexample to induction would be printed).                          *)
EXTENDS Integers, Sequences, FiniteSets

CONSTANTS
  \* @type: Set(Str);
  Users,
  \* @type: Str;
  None,
  \* @type: Set(Int);
  InitCounters

VARIABLES
  \* @type: Str -> Str;
  phase,
  \* @type: Str -> Int;
  opno,
  \* @type: Str;
  holder,
  \* @type: Bool;
  pending,
  \* @type: Int;
  counter,
  \* @type: Seq({ u: Str, op: Int, dir: Str, cnt: Int });
  wire

BoundW == 5
AllUsers == {"u1", "u2", "u3", "u4", "u5"}
CInit == Users \in SUBSET AllUsers /\ None = "none" /\ InitCounters \in SUBSET (0 .. 7)

(* ---- the actions of Mailbox.tla, text unchanged ---------------------------------------------- *)
mvars == <<phase, opno, holder, pending, counter, wire>>

Succ(c) == (c % 7) + 1

MInit == /\ phase = [u \in Users |-> "idle"]
         /\ opno = [u \in Users |-> 0]
         /\ holder = None /\ pending = FALSE
         /\ counter \in InitCounters
         /\ wire = <<>>

Begin(u) == /\ phase[u] = "idle"
            /\ phase' = [phase EXCEPT ![u] = "waiting"]
            /\ opno' = [opno EXCEPT ![u] = @ + 1]
            /\ UNCHANGED <<holder, pending, counter, wire>>

Acquire(u) == /\ phase[u] = "waiting" /\ holder = None
              /\ holder' = u /\ phase' = [phase EXCEPT ![u] = "holding"]
              /\ UNCHANGED <<opno, pending, counter, wire>>

Send(u, c) == /\ holder = u /\ phase[u] = "holding" /\ ~pending
              /\ c = counter
              /\ counter' = Succ(counter)
              /\ pending' = TRUE
              /\ wire' = Append(wire, [u |-> u, op |-> opno[u], dir |-> "req", cnt |-> c])
              /\ UNCHANGED <<phase, opno, holder>>

Recv(u, final) == /\ holder = u /\ phase[u] = "holding" /\ pending
                  /\ pending' = ~final
                  /\ wire' = Append(wire, [u |-> u, op |-> opno[u], dir |-> "rsp", cnt |-> 0])
                  /\ UNCHANGED <<phase, opno, holder, counter>>

Release(u) == /\ holder = u /\ phase[u] = "holding" /\ ~pending
              /\ holder' = None
              /\ phase' = [phase EXCEPT ![u] = "released"]
              /\ UNCHANGED <<opno, pending, counter, wire>>

End(u) == /\ phase[u] = "released"
          /\ phase' = [phase EXCEPT ![u] = "idle"]
          /\ UNCHANGED <<opno, holder, pending, counter, wire>>

MNext == \E u \in Users : \/ Begin(u) \/ Acquire(u) \/ Send(u, counter)
                          \/ \E f \in BOOLEAN : Recv(u, f)
                          \/ Release(u) \/ End(u)
MSpec == MInit /\ [][MNext]_mvars
(* ---------------------------------------------------------------------------------------------- *)

Init == MInit
Next == MNext

Phases == {"idle", "waiting", "holding", "released"}
Pos == 1 .. (BoundW + 1)
In(i) == i <= Len(wire)

OneHolderQ == /\ \A u, v \in Users : (phase[u] = "holding" /\ phase[v] = "holding") => u = v
              /\ (holder # None => phase[holder] = "holding")
NotInterleaved == \A i, k \in Pos : (In(i) /\ In(k) /\ i < k /\ wire[i].u = wire[k].u /\ wire[i].op = wire[k].op)
                     => \A j \in Pos : (i <= j /\ j <= k) => (wire[j].u = wire[i].u /\ wire[j].op = wire[i].op)
Answered == \A i \in Pos : (In(i + 1) /\ wire[i].dir = "req") => (wire[i + 1].dir = "rsp" /\ wire[i + 1].u = wire[i].u)
ChainQ == \A i, j \in Pos :
             (In(i) /\ In(j) /\ i < j /\ wire[i].dir = "req" /\ wire[j].dir = "req"
                    /\ \A k \in Pos : (i < k /\ k < j) => wire[k].dir # "req")
                => wire[j].cnt = Succ(wire[i].cnt)

TypeInv == /\ DOMAIN phase = Users /\ DOMAIN opno = Users
           /\ \A u \in Users : phase[u] \in Phases /\ opno[u] >= 0
           /\ holder \in Users \cup {None}
           /\ counter \in 0 .. 7
           /\ \A i \in Pos : In(i) => (wire[i].u \in Users /\ wire[i].op >= 0 /\ wire[i].dir \in {"req", "rsp"}
                                       /\ wire[i].cnt \in 0 .. 7)
HoldInv == /\ \A u \in Users : phase[u] = "holding" <=> holder = u
           /\ pending => holder # None
LastReq == (Len(wire) > 0 /\ wire[Len(wire)].dir = "req") => (pending /\ holder = wire[Len(wire)].u)
OpInv == /\ \A i \in Pos : In(i) => wire[i].op <= opno[wire[i].u]
         /\ \A i \in Pos : (In(i) /\ phase[wire[i].u] = "waiting") => wire[i].op < opno[wire[i].u]
         /\ \A i \in Pos : (In(i) /\ holder # None /\ wire[i].u = holder /\ wire[i].op = opno[holder])
               => \A j \in Pos : (i <= j /\ In(j)) => (wire[j].u = holder /\ wire[j].op = opno[holder])
CtrInv == \A i \in Pos :
             (In(i) /\ wire[i].dir = "req" /\ \A k \in Pos : (i < k /\ In(k)) => wire[k].dir # "req")
                => counter = Succ(wire[i].cnt)

IndInv == TypeInv /\ HoldInv /\ LastReq /\ OpInv /\ CtrInv /\ NotInterleaved /\ Answered /\ ChainQ /\ OneHolderQ

IndInit == /\ phase \in [Users -> Phases]
           /\ opno \in [Users -> 0 .. 3]
           /\ holder \in Users \cup {None}
           /\ pending \in BOOLEAN
           /\ counter \in 0 .. 7
           /\ \E n \in 0 .. BoundW : \E a, b, c, d, e \in [u : Users, op : 0 .. 3, dir : {"req", "rsp"}, cnt : 0 .. 7] :
                 wire = SubSeq(<<a, b, c, d, e>>, 1, n)
           /\ IndInv
(* expected to be VIOLATED from IndInit: the induction hypothesis is not vacuous *)
Witness == ~(Len(wire) = 4 /\ pending /\ \E i \in 1 .. 3 : wire[i].u # wire[4].u)
=============================================================================
