SPECIFICATION SSpec
CONSTANTS MaxCats = 2
          MaxCatLen = 3
          MaxTail = 1
          MaxBusy = 1
          PatLen = 2
          MaxInit = 1
          Deep = FALSE
INVARIANT Emit
CHECK_DEADLOCK FALSE
