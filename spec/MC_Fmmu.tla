---------------------------- MODULE MC_Fmmu ----------------------------
(* exhaustive model of Fmmu: all map/unmap histories on 1..MaxN FMMUs *)
EXTENDS Fmmu
=============================================================================
