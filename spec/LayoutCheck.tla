----------------------------- MODULE LayoutCheck -----------------------------
(* Judges observed layouts (C08).  A case is
     [vars |-> <<[inst, name, f |-> [n, c], known, pos]>>, mapsize, maplen]
   one entry per variable a program instance (the program object or one of its sub-program
   objects) can name: `pos` is what the real ArrayMap.collect left in that instance's __dict__
   (known = FALSE when it left nothing), `mapsize` the value size of the map that was created and
   `maplen` the length of the buffer the Python side uses.  Required: every variable has a
   position, its Size(format) bytes lie inside the map, no two variables share a byte.          *)
EXTENDS Layout, TLC, Json, IOUtils
Cases == JsonDeserialize(IOEnv.TRACE_FILE)
VARIABLE cid
Slots(k) == [i \in DOMAIN k.vars |-> Slot(k.vars[i].pos, k.vars[i].f)]
AllKnown(k) == \A i \in DOMAIN k.vars : k.vars[i].known
Verdict(k) ==
    IF ~AllKnown(k) THEN <<FALSE, "no position", {i \in DOMAIN k.vars : ~k.vars[i].known}>>
    ELSE LET s == Slots(k) IN
         IF ~Inside(s, k.mapsize) THEN <<FALSE, "outside the map", Outside(s, k.mapsize)>>
         ELSE IF ~Disjoint(s) THEN <<FALSE, "overlap", Overlaps(s)>>
         ELSE IF k.maplen < k.mapsize THEN <<FALSE, "buffer shorter than the map", {}>>
         ELSE <<TRUE, "ok", {}>>
Init == cid \in 1 .. Len(Cases)
Next == FALSE /\ cid' = cid
Report == LET v == Verdict(Cases[cid]) IN PrintT(<<"LAYOUT", cid, v[1], v[2], v[3]>>)
=============================================================================
