INIT Init
NEXT Next
INVARIANT Good
CHECK_DEADLOCK FALSE
