------------------------------ MODULE Lifecycle ------------------------------
(* C24 - cancelling the task of a sync group releases what the group holds and ends cancelled.

   Part 1 is what the property speaks about, as a resource ledger of one sync group:
     outcome   how its task ended,
     op[t]     terminal t was asked to go OPERATIONAL and has not been asked back to
               SAFE-OPERATIONAL since,
     fm[t]     number of FMMUs of terminal t the group holds in the master's table,
     prog/grp  fast kind: its entry in the dispatcher's program table / in ec.sync_groups,
     child     process kind: its subprocess,
   with one action per observable event and the judgement `Violations` at the end: if the task
   was cancelled (at whatever point, however often) it ended CANCELLED, no terminal is left with
   an unanswered OPERATIONAL request, no FMMU is held, the program is unregistered (fast), the
   subprocess is not running (process).  Nothing is demanded of a task that was never cancelled,
   nothing about the order of the releases, nothing about the FMMU deactivation register write
   on the exception path (cf. Fmmu!UnmapAbort).

   Part 2 is a design of run() for the three kinds - the phases in which the resources are
   taken, a Cancel enabled at every await (and before the first step), up to MaxCancel of them,
   cleanup that a further Cancel does not stop - which TLC checks exhaustively against the
   judgement of part 1 (MC_Lifecycle).  With Protected = FALSE the design has the OPERATIONAL
   requests outside the protected region; the model checker must then find the violation (the
   check runs this as a self-test of the judgement).

   Traces of the real code are validated against part 1 only (LifecycleTrace): the property
   leaves the order of acquisition and release free, so the design's phases are not imposed.   *)
EXTENDS Integers, Sequences, FiniteSets, TLC

CONSTANTS Terms,        \* terminals (numbers)
          MaxCancel,    \* at most this many cancel() calls in the design
          Protected     \* design variant, see above

Kinds == {"slow", "fast", "process"}
SAFEOP == 4
OPERATIONAL == 8

VARIABLES kind, outcome, ncancel, op, fm, prog, grp, child, ended,      \* part 1
          pc, need, writers, stop                                       \* part 2

rvars == <<kind, outcome, ncancel, op, fm, prog, grp, child, ended>>
dvars == <<pc, need, writers, stop>>
vars == <<rvars, dvars>>

-----------------------------------------------------------------------------
(* Part 1: the ledger *)

RInit(k) == /\ kind = k /\ outcome = "none" /\ ncancel = 0
            /\ op = [t \in Terms |-> FALSE] /\ fm = [t \in Terms |-> 0]
            /\ prog = FALSE /\ grp = FALSE /\ child = "none" /\ ended = FALSE

Start == /\ outcome = "none" /\ outcome' = "running"
         /\ UNCHANGED <<kind, ncancel, op, fm, prog, grp, child, ended>>
Spawn == /\ kind = "process" /\ child = "none" /\ child' = "running"
         /\ UNCHANGED <<kind, outcome, ncancel, op, fm, prog, grp, ended>>
ChildExit == /\ child = "running" /\ child' = "exited"
             /\ UNCHANGED <<kind, outcome, ncancel, op, fm, prog, grp, ended>>
Register == /\ kind = "fast" /\ ~prog /\ prog' = TRUE /\ grp' = TRUE
            /\ UNCHANGED <<kind, outcome, ncancel, op, fm, child, ended>>
Unregister == /\ prog /\ prog' = FALSE /\ grp' = FALSE
              /\ UNCHANGED <<kind, outcome, ncancel, op, fm, child, ended>>
(* a write of v to the AL control register reached terminal t *)
AskAL(t, v) == /\ t \in Terms
               /\ op' = IF v = OPERATIONAL THEN [op EXCEPT ![t] = TRUE]
                        ELSE IF v = SAFEOP THEN [op EXCEPT ![t] = FALSE] ELSE op
               /\ UNCHANGED <<kind, outcome, ncancel, fm, prog, grp, child, ended>>
(* the master's table of terminal t now holds n FMMUs *)
SetFm(t, n) == /\ t \in Terms /\ n >= 0 /\ fm' = [fm EXCEPT ![t] = n]
               /\ UNCHANGED <<kind, outcome, ncancel, op, prog, grp, child, ended>>
Frame == UNCHANGED rvars
(* terminal t stops answering (it dropped off the segment): the ledger does not move - what the
   group owes at the end does not depend on the terminals' cooperation; a request counts as made
   when it goes on the wire                                                                    *)
Silent(t) == t \in Terms /\ UNCHANGED rvars
Cancel == /\ outcome = "running" /\ ncancel' = ncancel + 1
          /\ UNCHANGED <<kind, outcome, op, fm, prog, grp, child, ended>>
Done(o) == /\ outcome = "running" /\ o \notin {"none", "running"} /\ outcome' = o
           /\ UNCHANGED <<kind, ncancel, op, fm, prog, grp, child, ended>>

(* the judgement, on the ledger when everything has come to rest; g = the group is (observed)
   in ec.sync_groups *)
Violations(g) ==
    (IF outcome # "cancelled" THEN {<<"task ended", outcome>>} ELSE {})
    \cup {<<"asked OPERATIONAL, not asked back to SAFE-OPERATIONAL: terminal", t>> : t \in {u \in Terms : op[u]}}
    \cup {<<"FMMUs still held: terminal", t>> : t \in {u \in Terms : fm[u] > 0}}
    \cup (IF kind = "fast" /\ prog THEN {<<"program table entry not deleted">>} ELSE {})
    \cup (IF kind = "fast" /\ g THEN {<<"group still in sync_groups">>} ELSE {})
    \cup (IF kind = "process" /\ child = "running" THEN {<<"subprocess still running">>} ELSE {})
Obliged == ncancel > 0
End(g) == /\ outcome \notin {"none", "running"} /\ ~ended
          /\ Obliged => Violations(g) = {}
          /\ ended' = TRUE /\ grp' = g
          /\ UNCHANGED <<kind, outcome, ncancel, op, fm, prog, child>>

-----------------------------------------------------------------------------
(* Part 2: a design of run().  For the process kind the phases are those of the child (the same
   run() started by subprocess_loop); the parent's task only waits, and a Cancel sets the stop
   flag that the child's loop reads at the head of every cycle.                                 *)

DInit == /\ \E k \in Kinds : RInit(k)
         /\ pc = IF kind = "process" THEN "spawn" ELSE "idle"
         /\ need \in [Terms -> 0 .. 2]
         /\ writers \in SUBSET Terms
         /\ stop = FALSE

Local == kind # "process"
CancelPoints == {"first", "prime1", "prime2", "map", "safeop", "opreq", "cycle", "c_op", "c_fm",
                 "c_exit"}
Handler(p) == CASE p = "first" -> "finish"
                [] p \in {"prime1", "prime2"} -> "c_prog"
                [] p \in {"map", "safeop"} -> "c_fm"
                [] p = "opreq" -> IF Protected THEN "c_op" ELSE "c_fm"
                [] p = "cycle" -> "c_op"
                [] OTHER -> p                         \* cleanup goes on

DSpawn == pc = "spawn" /\ Spawn /\ pc' = "idle" /\ UNCHANGED <<need, writers, stop>>
DStart == pc = "idle" /\ Start /\ pc' = "first" /\ UNCHANGED <<need, writers, stop>>
DCancel == /\ (IF Local THEN pc \in CancelPoints ELSE outcome = "running")
           /\ ncancel < MaxCancel /\ Cancel
           /\ IF Local THEN pc' = Handler(pc) /\ UNCHANGED stop
                       ELSE stop' = TRUE /\ UNCHANGED pc
           /\ UNCHANGED <<need, writers>>
DFirst == /\ pc = "first"
          /\ IF kind = "fast" THEN Register /\ pc' = "prime1" ELSE UNCHANGED rvars /\ pc' = "map"
          /\ UNCHANGED <<need, writers, stop>>
DPrime == /\ pc \in {"prime1", "prime2"} /\ Frame
          /\ pc' = IF pc = "prime1" THEN "prime2" ELSE "map"
          /\ UNCHANGED <<need, writers, stop>>
DMap == /\ pc = "map"
        /\ IF \E t \in Terms : fm[t] < need[t]
           THEN (\E t \in Terms : fm[t] < need[t] /\ SetFm(t, fm[t] + 1)) /\ UNCHANGED pc
           ELSE UNCHANGED rvars /\ pc' = "safeop"
        /\ UNCHANGED <<need, writers, stop>>
DSafeOp == pc = "safeop" /\ UNCHANGED rvars /\ pc' = "frame" /\ UNCHANGED <<need, writers, stop>>
DFrame == pc = "frame" /\ Frame /\ pc' = "opreq" /\ UNCHANGED <<need, writers, stop>>
DOpReq == /\ pc = "opreq"
          /\ IF \E t \in writers : ~op[t]
             THEN (\E t \in writers : ~op[t] /\ AskAL(t, OPERATIONAL)) /\ UNCHANGED pc
             ELSE UNCHANGED rvars /\ pc' = "cycle"
          /\ UNCHANGED <<need, writers, stop>>
DCycle == /\ pc = "cycle" /\ Frame
          /\ pc' = IF stop THEN "c_op" ELSE "cycle"
          /\ UNCHANGED <<need, writers, stop>>
DCleanOp == /\ pc = "c_op"
            /\ IF \E t \in Terms : op[t]
               THEN (\E t \in Terms : op[t] /\ AskAL(t, SAFEOP)) /\ UNCHANGED pc
               ELSE UNCHANGED rvars /\ pc' = "c_fm"
            /\ UNCHANGED <<need, writers, stop>>
DCleanFm == /\ pc = "c_fm"
            /\ IF \E t \in Terms : fm[t] > 0
               THEN (\E t \in Terms : fm[t] > 0 /\ SetFm(t, 0)) /\ UNCHANGED pc
               ELSE /\ UNCHANGED rvars
                    /\ pc' = CASE kind = "fast" -> "c_prog" [] kind = "process" -> "c_exit"
                               [] OTHER -> "finish"
            /\ UNCHANGED <<need, writers, stop>>
DCleanProg == pc = "c_prog" /\ Unregister /\ pc' = "finish" /\ UNCHANGED <<need, writers, stop>>
DChildExit == pc = "c_exit" /\ ChildExit /\ pc' = "finish" /\ UNCHANGED <<need, writers, stop>>
DFinish == /\ pc = "finish" /\ Done(IF ncancel > 0 THEN "cancelled" ELSE "returned")
           /\ pc' = "over" /\ UNCHANGED <<need, writers, stop>>
DEnd == pc = "over" /\ End(grp) /\ pc' = "ended" /\ UNCHANGED <<need, writers, stop>>

DStep == \/ DSpawn \/ DStart \/ DFirst \/ DPrime \/ DMap \/ DSafeOp \/ DFrame \/ DOpReq \/ DCycle
         \/ DCleanOp \/ DCleanFm \/ DCleanProg \/ DChildExit \/ DFinish \/ DEnd
DNext == DStep \/ DCancel
DSpec == DInit /\ [][DNext]_vars /\ WF_vars(DStep)

TypeOK == /\ kind \in Kinds
          /\ outcome \in {"none", "running", "cancelled", "returned"}
          /\ ncancel \in 0 .. MaxCancel
          /\ op \in [Terms -> BOOLEAN] /\ fm \in [Terms -> 0 .. 2]
          /\ prog \in BOOLEAN /\ grp \in BOOLEAN /\ child \in {"none", "running", "exited"}
(* the design never gets stuck before the judgement: the only state without a step is the end,
   or an uncancelled group cycling for ever (which is a step)                                  *)
Stuck == ~ENABLED DNext
OnlyEndIsFinal == Stuck => ended
(* a task at rest that was cancelled satisfies the judgement (End is enabled) *)
Judged == (pc = "over" /\ Obliged) => Violations(grp) = {}
(* every cancelled group comes to rest *)
CancelledEnds == (ncancel > 0) ~> ended
=============================================================================
