SPECIFICATION VSpec
INVARIANT VObserve
CHECK_DEADLOCK FALSE
