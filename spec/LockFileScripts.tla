---------------------------- MODULE LockFileScripts ----------------------------
(* Schedules for C15 (cross-process): every interleaving of the system-call steps of the
   participants - open (O_EXCL attempt, falling back to a plain open), init (the creator's
   initialising write), try (one non-blocking lockf), read (pread of the counter byte; the
   replay then takes the counters for its messages), write (pwrite), unlock - where each
   participant runs Cycles lock cycles and makes at most MaxFail failing lock attempts.
   Every hold of the lock ends in one of the Modes - "ok" (the block returns), "raise" (an
   exception leaves the block after its messages went out), "cancel" (the task is cancelled
   there) - chosen at the read step; at most MaxExc holds of a schedule end exceptionally.
   `same` tells whether the participants use the same terminal.  Each complete schedule is
   printed once with the number of steps another participant makes inside a creation window. *)
EXTENDS Integers, Sequences, FiniteSets, TLC, Json
CONSTANTS Procs, Cycles, MaxFail, Same,
          Pre,           \* the lock file exists already (left by earlier participants)
          Modes, MaxExc
VARIABLES hist, exists, st, cyc, fails, window, nexc
svars == <<hist, exists, st, cyc, fails, window, nexc>>

Busy(p) == st[p] \in {"locked", "holding", "written"}
Blocked(p) == Same /\ \E q \in Procs \ {p} : Busy(q)
Step(p, a) == hist' = Append(hist, [p |-> p, a |-> a, mode |-> ""]) /\ UNCHANGED nexc
ReadStep(p, m) == /\ hist' = Append(hist, [p |-> p, a |-> "read", mode |-> m])
                  /\ nexc' = IF m = "ok" THEN nexc ELSE nexc + 1
InWindow(p) == \E q \in Procs \ {p} : st[q] = "created"

SInit == /\ hist = <<>> /\ exists = Pre /\ window = 0 /\ nexc = 0
         /\ st = [p \in Procs |-> "start"]
         /\ cyc = [p \in Procs |-> 0] /\ fails = [p \in Procs |-> 0]

SNext == \E p \in Procs :
    /\ window' = IF InWindow(p) THEN window + 1 ELSE window
    /\ \/ /\ st[p] = "start" /\ Step(p, "open")
          /\ st' = [st EXCEPT ![p] = IF exists THEN "open" ELSE "created"]
          /\ exists' = TRUE /\ UNCHANGED <<cyc, fails>>
       \/ /\ st[p] = "created" /\ Step(p, "init")
          /\ st' = [st EXCEPT ![p] = "open"] /\ UNCHANGED <<exists, cyc, fails>>
       \/ /\ st[p] = "open" /\ cyc[p] < Cycles /\ Step(p, "try")
          /\ IF Blocked(p)
             THEN fails[p] < MaxFail /\ fails' = [fails EXCEPT ![p] = @ + 1] /\ UNCHANGED st
             ELSE st' = [st EXCEPT ![p] = "locked"] /\ UNCHANGED fails
          /\ UNCHANGED <<exists, cyc>>
       \/ /\ st[p] = "locked"
          /\ \E m \in Modes : (m # "ok" => nexc < MaxExc) /\ ReadStep(p, m)
          /\ st' = [st EXCEPT ![p] = "holding"] /\ UNCHANGED <<exists, cyc, fails>>
       \/ /\ st[p] = "holding" /\ Step(p, "write")
          /\ st' = [st EXCEPT ![p] = "written"] /\ UNCHANGED <<exists, cyc, fails>>
       \/ /\ st[p] = "written" /\ Step(p, "unlock")
          /\ st' = [st EXCEPT ![p] = "open"] /\ cyc' = [cyc EXCEPT ![p] = @ + 1]
          /\ UNCHANGED <<exists, fails>>
SSpec == SInit /\ [][SNext]_svars

Complete == \A p \in Procs : st[p] = "open" /\ cyc[p] = Cycles
Emit == Complete => PrintT(<<"SCHEDULE", window, ToJson(hist)>>)
=============================================================================
