---------------------------- MODULE LockFileScripts ----------------------------
(* Schedules for C15 (cross-process): every interleaving of the system-call steps of the
   users of a layout - per process: open (O_EXCL attempt, falling back to a plain open), init
   (the creator's initialising write); per user: try (one non-blocking lockf), read (pread of
   the counter byte; the replay then takes the counters for its messages), write (pwrite),
   unlock - where each user runs Cycles lock cycles and makes at most MaxFail failing attempts.

   Layout  "same":  two processes, one user each, same terminal
           "mixed": two processes, one user each, different terminals
           "multi": process P with two users (tasks) on terminals 0 and 1 - so P holds the locks
                    of two terminals at the same time - and process Q with one user on terminal 0
   Every hold ends in one of the Modes - "ok" (the block returns), "raise" (an exception leaves
   the block after its messages went out), "cancel" (the task is cancelled there) - chosen at
   the read step; at most MaxExc holds of a schedule end exceptionally.
   Atomic = TRUE keeps try+read and write+unlock of a user together (coarser interleaving for
   the larger layouts).  Each complete schedule is printed once with the number of steps others
   make inside a creation window.                                                          *)
EXTENDS Integers, Sequences, FiniteSets, TLC, Json
CONSTANTS Layout, Cycles, MaxFail,
          Pre,           \* the lock file exists already (left by earlier participants)
          Modes, MaxExc, Atomic
Users == IF Layout = "multi" THEN {"u1", "u2", "u3"} ELSE {"u1", "u2"}
ProcOf(u) == IF Layout = "multi" THEN (IF u = "u3" THEN "Q" ELSE "P") ELSE (IF u = "u1" THEN "P" ELSE "Q")
ByteOf(u) == CASE Layout = "same" -> 0
               [] Layout = "mixed" -> (IF u = "u1" THEN 0 ELSE 1)
               [] Layout = "multi" -> (IF u = "u2" THEN 1 ELSE 0)
Procs == {ProcOf(u) : u \in Users}

VARIABLES hist, exists, pst, st, cyc, fails, window, nexc, must
svars == <<hist, exists, pst, st, cyc, fails, window, nexc, must>>

Busy(u) == st[u] \in {"locked", "holding", "written"}
Blocked(u) == \E v \in Users \ {u} : Busy(v) /\ ByteOf(v) = ByteOf(u)
Rec(q, u, a, m) == [p |-> q, u |-> u, a |-> a, mode |-> m]
InWindow(q) == \E r \in Procs \ {q} : pst[r] = "created"

SInit == /\ hist = <<>> /\ exists = Pre /\ window = 0 /\ nexc = 0 /\ must = ""
         /\ pst = [q \in Procs |-> "start"]
         /\ st = [u \in Users |-> "idle"]
         /\ cyc = [u \in Users |-> 0] /\ fails = [u \in Users |-> 0]

ProcStep(q) ==
    /\ must = ""
    /\ window' = IF InWindow(q) THEN window + 1 ELSE window
    /\ \/ /\ pst[q] = "start" /\ hist' = Append(hist, Rec(q, "", "open", ""))
          /\ pst' = [pst EXCEPT ![q] = IF exists THEN "open" ELSE "created"]
          /\ exists' = TRUE
       \/ /\ pst[q] = "created" /\ hist' = Append(hist, Rec(q, "", "init", ""))
          /\ pst' = [pst EXCEPT ![q] = "open"] /\ UNCHANGED exists
    /\ UNCHANGED <<st, cyc, fails, nexc, must>>

UserStep(u) ==
    LET q == ProcOf(u) IN
    /\ must \in {"", u}
    /\ window' = IF InWindow(q) THEN window + 1 ELSE window
    /\ \/ /\ pst[q] = "open" /\ st[u] = "idle" /\ cyc[u] < Cycles
          /\ hist' = Append(hist, Rec(q, u, "try", ""))
          /\ IF Blocked(u)
             THEN fails[u] < MaxFail /\ fails' = [fails EXCEPT ![u] = @ + 1] /\ UNCHANGED <<st, must>>
             ELSE st' = [st EXCEPT ![u] = "locked"] /\ UNCHANGED fails
                  /\ must' = IF Atomic THEN u ELSE ""
          /\ UNCHANGED <<cyc, nexc>>
       \/ /\ st[u] = "locked"
          /\ \E m \in Modes : /\ (m # "ok" => nexc < MaxExc)
                              /\ hist' = Append(hist, Rec(q, u, "read", m))
                              /\ nexc' = IF m = "ok" THEN nexc ELSE nexc + 1
          /\ st' = [st EXCEPT ![u] = "holding"] /\ must' = "" /\ UNCHANGED <<cyc, fails>>
       \/ /\ st[u] = "holding" /\ hist' = Append(hist, Rec(q, u, "write", ""))
          /\ st' = [st EXCEPT ![u] = "written"] /\ must' = (IF Atomic THEN u ELSE "")
          /\ UNCHANGED <<cyc, fails, nexc>>
       \/ /\ st[u] = "written" /\ hist' = Append(hist, Rec(q, u, "unlock", ""))
          /\ st' = [st EXCEPT ![u] = "idle"] /\ cyc' = [cyc EXCEPT ![u] = @ + 1] /\ must' = ""
          /\ UNCHANGED <<fails, nexc>>
    /\ UNCHANGED <<exists, pst>>

SNext == (\E q \in Procs : ProcStep(q)) \/ (\E u \in Users : UserStep(u))
SSpec == SInit /\ [][SNext]_svars

Complete == \A u \in Users : st[u] = "idle" /\ cyc[u] = Cycles
Emit == Complete => PrintT(<<"SCHEDULE", window, ToJson(hist)>>)
=============================================================================
