SPECIFICATION MCSpec
CONSTANTS MaxBusy = 2
          ImageLen = 14
          MaxAddr = 9
INVARIANTS ReadCorrect
           NeverRejected
           STypeOK
PROPERTY Terminates
CHECK_DEADLOCK TRUE
