------------------------------ MODULE EbpfRun ------------------------------
(* Batch runner: executes each case of a JSON file with the machine of Ebpf.tla and prints the
   final state.  Used for the fidelity cross-check machine = kernel and by checks that judge the
   final state themselves (they EXTEND this module and add invariants).

   case = [programs |-> <<insns, ...>>, entry |-> program number,
           maps |-> <<[type, ks, vs, max], ...>>            (index = map number used by LD_IMM64)
           progs |-> <<<<program number or 0, ...>>, ...>>  (per map; used for prog arrays)
           orc |-> <<word, ...>>, pkt |-> bytes,
           arr |-> <<[fd, bytes], ...>>, hash |-> <<[fd, key, val], ...>>, fuel |-> n]          *)
EXTENDS Ebpf, Json, IOUtils
Cases == JsonDeserialize(IOEnv.TRACE_FILE)

Env(k) == [programs |-> k.programs, maps |-> k.maps, progs |-> k.progs, orc |-> k.orc]
(* the initial memory as a CONCRETE function (built with :> and @@): a function constructor would
   stay unevaluated in TLC and rebuild the fresh stack at every read                           *)
RECURSIVE ArrFn(_, _), HashFn(_, _)
ArrFn(k, j) == IF j > Len(k.arr) THEN (RCtx :> <<>>)
               ELSE (Rg("arr", k.arr[j].fd, <<>>) :> k.arr[j].bytes) @@ ArrFn(k, j + 1)
HashFn(k, j) == IF j > Len(k.hash) THEN (RPkt :> k.pkt)
                ELSE (Rg("hash", k.hash[j].fd, k.hash[j].key) :> k.hash[j].val) @@ HashFn(k, j + 1)
Mem(k) == (RStack :> FreshStack) @@ ArrFn(k, 1) @@ HashFn(k, 1)
Final(k) == RunF(Env(k), Cpu0(k.entry), Mem(k), k.fuel)

R0Of(c) == IF c.reg[0].t = "s" THEN c.reg[0].v ELSE <<>>
Result(k) ==
    LET f == Final(k) IN
    [st |-> f.c.st, r0 |-> R0Of(f.c), pkt |-> f.m[RPkt], tail |-> f.c.tail, pc |-> f.c.pc,
     arr |-> [j \in 1 .. Len(k.arr) |-> f.m[Rg("arr", k.arr[j].fd, <<>>)]],
     hash |-> {<<r.fd, r.key, f.m[r]>> : r \in {x \in DOMAIN f.m : x.k = "hash"}}]

VARIABLE cid
Init == cid \in 1 .. Len(Cases)
Next == FALSE /\ cid' = cid
Report == PrintT(<<"RUN", cid, ToJson(Result(Cases[cid]))>>)
=============================================================================
