------------------------------ MODULE EbpfRun ------------------------------
(* Batch runner: executes each case of a JSON file with the machine of Ebpf.tla and prints the
   final state.  Used for the fidelity cross-check machine = kernel and by checks that judge the
   final state themselves (they EXTEND this module and add invariants).

   case = [programs |-> <<insns, ...>>, entry |-> program number,
           maps |-> <<[type, ks, vs, max], ...>>            (index = map number used by LD_IMM64)
           progs |-> <<<<program number or 0, ...>>, ...>>  (per map; used for prog arrays)
           orc |-> <<word, ...>>, pkt |-> bytes,
           arr |-> <<[fd, bytes], ...>>, hash |-> <<[fd, key, val], ...>>, fuel |-> n]          *)
EXTENDS Ebpf, Json, IOUtils
Cases == JsonDeserialize(IOEnv.TRACE_FILE)

Env(k) == [programs |-> k.programs, maps |-> k.maps, progs |-> k.progs, orc |-> k.orc]
Mem0(k) ==
    LET arrR == {Rg("arr", k.arr[j].fd, <<>>) : j \in 1 .. Len(k.arr)}
        hashR == {Rg("hash", k.hash[j].fd, k.hash[j].key) : j \in 1 .. Len(k.hash)}
        dom == {RStack, RPkt, RCtx} \cup arrR \cup hashR IN
    [r \in dom |->
        IF r = RStack THEN FreshStack
        ELSE IF r = RPkt THEN k.pkt
        ELSE IF r = RCtx THEN <<>>
        ELSE IF r.k = "arr" THEN (CHOOSE j \in 1 .. Len(k.arr) : k.arr[j].fd = r.fd) \* index
        ELSE (CHOOSE j \in 1 .. Len(k.hash) : k.hash[j].fd = r.fd /\ k.hash[j].key = r.key)]
(* the CHOOSEs above pick an index; resolve it to the bytes *)
Mem(k) == LET m0 == Mem0(k) IN
    [r \in DOMAIN m0 |-> IF r.k = "arr" THEN k.arr[m0[r]].bytes
                         ELSE IF r.k = "hash" THEN k.hash[m0[r]].val ELSE m0[r]]
Final(k) == RunF(Env(k), Cpu0(k.entry), Mem(k), k.fuel)

R0Of(c) == IF c.reg[0].t = "s" THEN c.reg[0].v ELSE <<>>
Result(k) ==
    LET f == Final(k) IN
    [st |-> f.c.st, r0 |-> R0Of(f.c), pkt |-> f.m[RPkt], tail |-> f.c.tail, pc |-> f.c.pc,
     arr |-> [j \in 1 .. Len(k.arr) |-> f.m[Rg("arr", k.arr[j].fd, <<>>)]],
     hash |-> {<<r.fd, r.key, f.m[r]>> : r \in {x \in DOMAIN f.m : x.k = "hash"}}]

VARIABLE cid
Init == cid \in 1 .. Len(Cases)
Next == FALSE /\ cid' = cid
Report == PrintT(<<"RUN", cid, ToJson(Result(Cases[cid]))>>)
=============================================================================
