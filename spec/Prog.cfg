INIT Init
NEXT Next
INVARIANT ObserveProg
CHECK_DEADLOCK FALSE
