------------------------------ MODULE Ind_Valve ------------------------------
(* X05 - Valve.tla under Apalache: the actions are those of the original module (INSTANCE, not
   restated); moving time, clock and the time steps are UNBOUNDED integers (MC_Valve: moving
   times {0, 1, 3}, steps 1..2, clock <= 8); the configuration (moving time, safe state) may be
   changed by the environment at any time.  TypeOK /\ CoilFollows /\ NeverStuck is inductive as
   it stands; ErrorReaction is checked as an action invariant from every IndInv state.         *)
EXTENDS Integers

VARIABLES
  \* @type: Int;
  mt,
  \* @type: Bool;
  safe,
  \* @type: Bool;
  target,
  \* @type: Bool;
  coil,
  \* @type: Bool;
  error,
  \* @type: Bool;
  open,
  \* @type: Bool;
  closed,
  \* @type: Int;
  clock,
  \* @type: Int;
  lastGood,
  \* @type: Bool;
  fresh

V == INSTANCE Valve

Init == \E m \in Nat : \E s, c0, t0, o0, c1 \in BOOLEAN : V!VInit(m, s, c0, t0, o0, c1)
Next == \/ \E v \in BOOLEAN : V!SetTarget(v)
        \/ \E o, c \in BOOLEAN : V!Switches(o, c)
        \/ \E dt \in Nat : V!Advance(dt)
        \/ \E conf \in BOOLEAN : V!Update(conf)
        \/ \E m \in Nat : V!SetMovingTime(m)
        \/ \E s \in BOOLEAN : V!SetSafeState(s)

IndInv == /\ mt \in Nat /\ clock \in Nat /\ lastGood \in Nat
          /\ V!TypeOK /\ V!CoilFollows /\ V!NeverStuck
IndInit == /\ mt \in Nat /\ clock \in Nat /\ lastGood \in Nat
           /\ safe \in BOOLEAN /\ target \in BOOLEAN /\ coil \in BOOLEAN /\ error \in BOOLEAN
           /\ open \in BOOLEAN /\ closed \in BOOLEAN /\ fresh \in BOOLEAN
           /\ IndInv
(* action invariant: an error is only ever raised together with the safe state *)
ErrorReactionStep == (error' /\ ~error) => (coil' = safe /\ target' = safe)
(* expected to be VIOLATED from IndInit: the induction hypothesis is not vacuous *)
Witness == ~(fresh /\ coil # safe /\ lastGood < clock /\ mt > 5)
=============================================================================
