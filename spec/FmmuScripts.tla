---------------------------- MODULE FmmuScripts ----------------------------
(* Environment behaviours for C20: every sequence of map / unmap / abort operations of length
   MaxLen in which only mappings believed live are ended.  Printed once each, for replay on the
   real Terminal.map_fmmu (the driver skips the ending of a mapping whose map failed).          *)
EXTENDS Integers, Sequences, TLC, Json
CONSTANTS Logicals, MaxLen,
          EndKinds      \* how a mapping may end: "unmap" (normally), "abort" (an exception thrown into its body),
                        \* "unmapfail" / "abortfail" (the same while the terminal does not answer any more)
VARIABLES hist, live
Op(kind, m, w) == [op |-> kind, m |-> m, write |-> w]
SInit == hist = <<>> /\ live = {}
SNext == /\ Len(hist) < MaxLen
         /\ \E m \in Logicals :
              \/ /\ m \notin live
                 /\ \E w \in BOOLEAN : hist' = Append(hist, Op("map", m, w))
                 /\ live' = live \cup {m}
              \/ /\ m \in live
                 /\ \E k \in EndKinds : hist' = Append(hist, Op(k, m, FALSE))
                 /\ live' = live \ {m}
SSpec == SInit /\ [][SNext]_<<hist, live>>
Emit == Len(hist) = MaxLen => PrintT(<<"SCRIPT", ToJson(hist)>>)
=============================================================================
