---------------------------- MODULE FmmuAddrTrace ----------------------------
(* Trace validation for C20: every recorded run of the real Terminal.map_fmmu context managers must be a
   behaviour of FmmuAddr, with the slot and the register writes bound from the trace.  A trace names its
   mappings 1, 2, ... and gives each an address (addr); several mappings may have the same address.      *)
EXTENDS FmmuAddr, Json, IOUtils, TLCExt
Traces == JsonDeserialize(IOEnv.TRACE_FILE)
VARIABLES tid, l
tvars == <<avars, tid, l>>
Ev == Traces[tid].ev[l]
Tbl(e) == [i \in 0 .. (n - 1) |-> e.tbl[i + 1]]      \* fmmu_used as observed after the event (addresses)

TInit == /\ tid \in 1 .. Len(Traces) /\ l = 1
         /\ AInit(Traces[tid].n, [m \in Ids |-> IF m <= Len(Traces[tid].addr) THEN Traces[tid].addr[m] ELSE 1])

TMapOk(e) == /\ e.op = "map" /\ e.res = "ok"
             /\ MapOk(e.m, e.write, e.slot)
             /\ e.reg.idx = e.slot          \* the registers programmed are those of the slot taken
             /\ reg'[e.slot] = [active |-> e.reg.act = 1, dir |-> e.reg.dir, logical |-> e.reg.logical]
TMapFail(e) == e.op = "map" /\ e.res = "fail" /\ MapFail(e.m)
TUnmap(e) == /\ e.op = "unmap" /\ Unmap(e.m)
             /\ slot[e.deact] = e.m         \* the deactivation went to the mapping's own slot
TAbort(e) == e.op = "abort" /\ UnmapAbort(e.m)

TNext == /\ l <= Len(Traces[tid].ev)
         /\ l' = l + 1 /\ UNCHANGED tid
         /\ LET e == Ev IN
              /\ (TMapOk(e) \/ TMapFail(e) \/ TUnmap(e) \/ TAbort(e))
              \* the master's own table shows exactly the addresses of the live mappings, each in its slot -
              \* except while other mappings of a concurrently started batch are still being set up
              /\ (("loose" \in DOMAIN e /\ e.loose) \/ Table' = Tbl(e))
TSpec == TInit /\ [][TNext]_tvars

Max2(a, b) == IF a > b THEN a ELSE b
Progress == TLCSet(tid, Max2(TLCGet(tid), l))
ASSUME \A i \in 1 .. Len(Traces) : TLCSet(i, 0)
Post == \A i \in 1 .. Len(Traces) : PrintT(<<"RESULT", i, TLCGet(i) - 1, Len(Traces[i].ev)>>)
=============================================================================
