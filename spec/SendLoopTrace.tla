--------------------------- MODULE SendLoopTrace ---------------------------
(* Trace validation for C12: every recorded run of the real EtherCat object (harness/slrun.py)
   must be a behaviour of SendLoop.

   Logged events are bound to the specification's visible actions:
       submit  -> Submit(r, size)        cancel -> Cancel(r) (the client gives up)
       sendto  -> PP_Send(f) with exactly the datagrams seen on the wire
       bus     -> Bus_Return / Bus_Delay / Bus_Dup / Bus_Lose(f) with the working counters
                  and the (tokens of the) bytes the bus put at each datagram position
       recv    -> Recv(f)
       outcome -> what the client of r observed, judged against fut[r]
       stall   -> matches no action: a master that stops serving the queue is never allowed
   The send loop's and process_packet's internal steps (SL_*, Reject, PP_Complete) are not
   logged: they are silent steps, any number of which may happen between two events.
   ccl = requests whose client was cancelled before it observed the completion.            *)
EXTENDS SendLoop, Json, IOUtils, TLCExt
Traces == JsonDeserialize(IOEnv.TRACE_FILE)
VARIABLES tid, l, ccl
tvars == <<vars, tid, l, ccl>>
Ev == Traces[tid].ev[l]

TInit == /\ tid \in 1 .. Len(Traces) /\ l = 1 /\ ccl = {} /\ Init

(* Look-ahead (an optimisation that does not change which runs are accepted): the batching the
   specification leaves open is fixed by the run's own sendto events - Traces[tid].fr is the list
   of their datagram lists, an index over the trace written by the harness.  A path on which
   the packet under construction is not going to be the next frame seen on the wire cannot
   match the sendto event of that frame, so it is not explored: the packet always is a prefix
   of the next frame still to be made, it is shipped exactly when it equals it, and a held
   request is dropped only if it never appears on the wire.                                 *)
Fr == Traces[tid].fr
NextD == IF Len(frames) < Len(Fr) THEN Fr[Len(frames) + 1] ELSE <<>>
IsPrefix(p, q) == Len(p) <= Len(q) /\ \A i \in DOMAIN p : p[i] = q[i]
EverSent(r) == \E i \in DOMAIN Fr : \E k \in DOMAIN Fr[i] : Fr[i][k] = r

Silent == \/ SL_Get
          \/ SL_Append /\ IsPrefix(pkt', NextD) /\ slpc' = (IF pkt' = NextD THEN "flush" ELSE "get")
          \/ SL_Overflow /\ pkt = NextD
          \/ SL_Flush /\ pkt = NextD
          \/ SL_Drop /\ ~EverSent(held)
          \/ \E r \in 1 .. sub : Reject(r)
          \/ \E f \in DOMAIN frames : \E k \in DOMAIN frames[f].d : PP_Complete(f, k)

OnLostFrame(r) == \E p \in Place(r) : frames[p[1]].st = "lost"

(* what the client of r saw *)
Outcome(e) ==
    /\ e.r \in 1 .. sub
    /\ \/ e.kind = "cancelled" /\ e.r \in ccl
       \/ e.kind = "result" /\ e.r \notin ccl /\ fut[e.r] = Result(e.t) /\ e.nbytes = size[e.r]
       \/ e.kind = "error" /\ e.r \notin ccl /\ fut[e.r].k = "E"
       \/ e.kind = "none" /\ e.r \notin ccl /\ fut[e.r] = Pending /\ OnLostFrame(e.r)   \* end of run
    /\ UNCHANGED <<vars, ccl>>

Logged(e) ==
    \/ /\ e.ev = "submit" /\ Submit(e.r, e.size) /\ UNCHANGED ccl
    \/ /\ e.ev = "cancel" /\ e.r \in 1 .. sub /\ ccl' = ccl \cup {e.r}
       /\ IF fut[e.r] = Pending THEN Cancel(e.r) ELSE UNCHANGED vars
    \/ /\ e.ev = "sendto" /\ PP_Send(e.f) /\ UNCHANGED ccl
       /\ frames[e.f].d = e.d
       /\ \A k \in DOMAIN e.d : e.n[k] = size[e.d[k]]
       /\ e.nbytes = Header + DBytes(e.d)
    \/ /\ e.ev = "bus" /\ UNCHANGED ccl
       /\ \/ e.kind = "return" /\ Bus_Return(e.f, e.wkc, e.tok)
          \/ e.kind = "delay" /\ Bus_Delay(e.f, e.wkc, e.tok)
          \/ e.kind = "dup" /\ Bus_Dup(e.f, e.wkc, e.tok)
          \/ e.kind = "lose" /\ Bus_Lose(e.f)
    \/ /\ e.ev = "recv" /\ Recv(e.f) /\ UNCHANGED ccl
    \/ /\ e.ev = "outcome" /\ Outcome(e)

TNext == /\ l <= Len(Traces[tid].ev) /\ UNCHANGED tid
         /\ \/ Silent /\ UNCHANGED <<l, ccl>>
            \/ Logged(Ev) /\ l' = l + 1
TSpec == TInit /\ [][TNext]_tvars

Max2(a, b) == IF a > b THEN a ELSE b
Progress == TLCSet(tid, Max2(TLCGet(tid), l))
ASSUME \A i \in 1 .. Len(Traces) : TLCSet(i, 0)
Post == \A i \in 1 .. Len(Traces) : PrintT(<<"RESULT", i, TLCGet(i) - 1, Len(Traces[i].ev)>>)
=============================================================================
