---------------------------- MODULE LockFileTrace ----------------------------
(* Trace validation for C15 (cross-process): each replayed schedule of system calls on the real
   LockFile / ParallelMailboxLock objects must be a behaviour of LockFile: the outcome of every
   step (created / opened, lock obtained or not, the byte read, the counters handed out) and
   the bytes of the lock file after every step are bound from the observation.
   One TLC run validates all traces of one layout (ProcOf, Bytes).                 *)
EXTENDS LockFile, Json, IOUtils, TLCExt
(* layouts (see LockFileScripts): users u1, u2 (, u3) in processes P, Q *)
ProcTwo == [u \in Users |-> IF u = "u1" THEN "P" ELSE "Q"]
BytesSame == [u \in Users |-> 0]
BytesMixed == [u \in Users |-> IF u = "u1" THEN 0 ELSE 1]
ProcMulti == [u \in Users |-> IF u = "u3" THEN "Q" ELSE "P"]     \* P holds two terminals' locks
BytesMulti == [u \in Users |-> IF u = "u2" THEN 1 ELSE 0]
Traces == JsonDeserialize(IOEnv.TRACE_FILE)
VARIABLES tid, l
tvars == <<lvars, tid, l>>
T == Traces[tid]

(* T.pre: content of a lock file left by earlier participants (empty: no file yet) *)
TInit == /\ tid \in 1 .. Len(Traces) /\ l = 1
         /\ exists = (Len(T.pre) > 0) /\ phys = T.pre
         /\ owner = [b \in 0 .. N - 1 |-> None]
         /\ ppc = [q \in Procs |-> "start"]
         /\ pc = [u \in Users |-> "idle"]
         /\ ctr = [u \in Users |-> 0]
         /\ last = [b \in 0 .. N - 1 |-> None]

Step(e) ==
    \/ e.a = "open" /\ e.exc = "" /\ e.res = "created" /\ Create(e.p)
    \/ e.a = "open" /\ e.exc = "" /\ e.res = "opened" /\ OpenExisting(e.p)
    \/ e.a = "init" /\ e.exc = "" /\ WriteInit(e.p)
    \/ e.a = "try" /\ e.exc = "" /\ TryLockf(e.u, e.ok)
    \/ /\ e.a = "read" /\ e.exc = ""                  \* the participant obtains a counter: the
       /\ ReadByte(e.u, e.counter)                     \* logical one, 0 while the byte is missing
    \/ e.a = "next" /\ e.exc = "" /\ Next(e.u, e.value)
    \/ e.a = "write" /\ e.exc = "" /\ WriteByte(e.u)
    \/ e.a = "unlock" /\ e.exc = "" /\ Unlockf(e.u)

TNext == /\ l <= Len(T.ev)
         /\ l' = l + 1 /\ UNCHANGED tid
         /\ LET e == T.ev[l] IN
              /\ Step(e)
              /\ e.file = phys'                        \* the file is what the specification says
TSpec == TInit /\ [][TNext]_tvars

Max2(a, b) == IF a > b THEN a ELSE b
Progress == TLCSet(tid, Max2(TLCGet(tid), l))
ASSUME \A i \in 1 .. Len(Traces) : TLCSet(i, 0)
Post == \A i \in 1 .. Len(Traces) : PrintT(<<"RESULT", i, TLCGet(i) - 1, Len(Traces[i].ev)>>)
=============================================================================
