SPECIFICATION PSpec
INVARIANT Observe
CHECK_DEADLOCK FALSE
