SPECIFICATION XSpec
INVARIANT Observe
CHECK_DEADLOCK FALSE
