---------------------------- MODULE MC_Lifecycle ----------------------------
(* exhaustive model of the design of Lifecycle: all three kinds, every subset of writers, 0..2
   FMMUs per terminal, up to MaxCancel cancellations at every await *)
EXTENDS Lifecycle
=============================================================================
