---------------------------- MODULE AllocRef ----------------------------
(* The allocation scheme as designed, as a TLA+ function of the configuration: one datagram per
   directly addressed region in terminal order, an Aerotech-style terminal's one-byte trigger
   datagrams, then one LRD for all logically addressed inputs and one LWR for all logically
   addressed outputs; group number n of a master owns the logical addresses from Stride * n,
   inputs first, outputs from + Half.  TLC checks that this scheme meets the requirement of
   Alloc for every configuration it enumerates (so the requirement is satisfiable and the window
   arithmetic is sound inside the frame limit) - the real allocator is judged separately, on
   what it is observed to do.                                                                  *)
EXTENDS Integers, Sequences, TLC
CONSTANTS MaxFrame, MaxDgrams, Stride, Half
A == INSTANCE Alloc WITH wins <- {}

Max2(a, b) == IF a > b THEN a ELSE b
AddDg(acc, cmd, n, p, o, a) ==
    [acc EXCEPT !.dg = Append(@, [cmd |-> cmd, hp |-> acc.pos, len |-> n, more |-> 1,
                                  adr |-> a, pos |-> p, ofs |-> o]),
                !.pos = @ + A!Dg(n)]
Note(acc, kind, off) == [acc EXCEPT !.ent = Append(@, <<kind, off>>)]

PutIn(t, acc) ==
    IF ~A!Needed(t, "i") THEN Note(acc, "N", 0)
    ELSE CASE t.mode = "D" -> Note(AddDg(acc, "FPRD", t.din, t.position, t.inoff, 0),
                                   "P", acc.pos + A!DgHead)
           [] t.mode = "A" -> Note(AddDg([acc EXCEPT !.fin = @ + t.din], "FPRD", 1, t.position,
                                         t.inoff + t.pin - 1, 0), "L", acc.fin)
           [] OTHER -> Note([acc EXCEPT !.fin = @ + t.din], "L", acc.fin)
PutOut(t, acc) ==
    IF ~A!Needed(t, "o") THEN Note(acc, "N", 0)
    ELSE CASE t.mode = "D" -> Note(AddDg(acc, "FPWR", t.dout, t.position, t.outoff, 0),
                                   "P", acc.pos + A!DgHead)
           [] t.mode = "A" -> Note(AddDg(AddDg(acc, "FPWR", t.dout, t.position, t.outoff, 0),
                                         "FPWR", 1, t.position, t.outoff + t.pout - 1, 0),
                                   "P", acc.pos + A!DgHead)
           [] OTHER -> Note([acc EXCEPT !.fout = @ + t.dout], "L", acc.fout)
RECURSIVE Lay(_, _, _)
Lay(ts, k, acc) == IF k > Len(ts) THEN acc ELSE Lay(ts, k + 1, PutOut(ts[k], PutIn(ts[k], acc)))

Empty == [pos |-> A!PacketHead, fin |-> 0, fout |-> 0, ent |-> <<>>,
          dg |-> <<[cmd |-> "NOP", hp |-> 2, len |-> 2, more |-> 1, adr |-> 0, pos |-> 0, ofs |-> 0]>>]
Where(e, shared) == CASE e[1] = "P" -> e[2] [] e[1] = "L" -> shared + e[2] [] OTHER -> -1
Addr(e, base) == IF e[1] = "L" THEN base + e[2] ELSE -1
Finish(ts, acc, withIn, all, base) ==
    [res |-> "ok", exc |-> "", terms |-> ts,
     flen |-> Max2(46, all.pos), elen |-> all.pos - 2,
     dg |-> [j \in DOMAIN all.dg |-> IF j = Len(all.dg) THEN [all.dg[j] EXCEPT !.more = 0]
                                                         ELSE all.dg[j]],
     assign |-> [k \in DOMAIN ts |-> [i |-> Where(acc.ent[2 * k - 1], acc.pos + A!DgHead),
                                      o |-> Where(acc.ent[2 * k], withIn.pos + A!DgHead)]],
     lmap |-> [k \in DOMAIN ts |-> [i |-> Addr(acc.ent[2 * k - 1], base),
                                    o |-> Addr(acc.ent[2 * k], base + Half)]]]
WithIn(acc, base) == IF acc.fin > 0 THEN AddDg(acc, "LRD", acc.fin, 0, 0, base) ELSE acc
WithOut(acc, base) == IF acc.fout > 0 THEN AddDg(acc, "LWR", acc.fout, 0, 0, base + Half) ELSE acc
Close(ts, acc, withIn, base) == Finish(ts, acc, withIn, WithOut(withIn, base), base)
Open(ts, acc, base) == Close(ts, acc, WithIn(acc, base), base)
RefObs(ts, base) ==
    IF A!TooLarge(ts) THEN [res |-> "overflow", exc |-> "", terms |-> ts]
    ELSE Open(ts, Lay(ts, 1, Empty), base)

\* a configuration: terminals ts (in station order) with group numbers gs
Placed(ts) == [k \in DOMAIN ts |-> [mode |-> ts[k].mode, pin |-> ts[k].pin, pout |-> ts[k].pout,
                                    rw |-> ts[k].rw, din |-> ts[k].din, dout |-> ts[k].dout,
                                    position |-> 5 + 3 * k, inoff |-> 6144 + 72 * k,
                                    outoff |-> 4096 + 64 * k]]
RECURSIVE Pick(_, _, _, _)
Pick(ps, gs, g, k) == IF k > Len(ps) THEN <<>>
                      ELSE (IF gs[k] = g THEN <<ps[k]>> ELSE <<>>) \o Pick(ps, gs, g, k + 1)
Good(obs, w) == \/ obs.res = "ok" /\ A!Fits(obs, w)
                \/ obs.res = "overflow" /\ A!TooLarge(obs.terms)
After(obs, w) == IF obs.res = "ok" THEN w \cup A!Windows(obs) ELSE w
RECURSIVE Run(_, _, _, _, _)
Step(ps, gs, g, n, w, obs) == Good(obs, w) /\ Run(ps, gs, g + 1, n, After(obs, w))
Run(ps, gs, g, n, w) == IF g > n THEN TRUE
                        ELSE Step(ps, gs, g, n, w, RefObs(Pick(ps, gs, g, 1), Stride * g))
RECURSIVE Top(_, _)
Top(gs, k) == IF k > Len(gs) THEN 0 ELSE Max2(gs[k], Top(gs, k + 1))
ConfigOK(ts, gs) == Run(Placed(ts), gs, 1, Top(gs, 1), {})
=============================================================================
