---------------------------- MODULE Alloc ----------------------------
(* C18 - sync groups give each terminal disjoint, exactly-sized process data.

   The specification is a requirement on an OBSERVED allocation.  Where the property leaves
   freedom (number and order of datagrams, where a region sits, which logical addresses are
   handed out, auxiliary datagrams) nothing is prescribed: the observed choice is taken from the
   trace and only judged.

   A master hands out allocations to sync groups one after the other; the state of the master
   that matters for the property is the set of logical address windows already in use.

   Configuration of one group: a sequence of terminals
     [mode     "F" FMMU (logical) addressing, "D" direct (station address) addressing,
               "A" Aerotech-style custom allocator (addressing free, region sizes declared),
      pin/pout size of the terminal's input / output process data (0 = none),
      din/dout size of the region the cyclic frame has to reserve (= pin/pout for F and D,
               the declared packet sizes in_size/out_size for A),
      rw       some device of the group writes the terminal,
      position, inoff, outoff   station address and start of the in/out sync manager area]

   Observation of one group g:
     res       "ok" | "overflow" (allocate raised OverflowError) | "error" (anything else)
     flen      length of the assembled cyclic frame (EtherCAT frame = Ethernet payload)
     elen      length field of the EtherCAT frame header
     dg        the datagrams found by walking that frame:
               [cmd, hp (offset of the 10-byte datagram header), len, more, adr (32-bit logical
                address), pos/ofs (the same four bytes read as station address / offset)]
     assign    per terminal [i, o]: pdo_assign[t][IN/OUT] or -1 when absent
     lmap      per terminal [i, o]: fmmu_maps[t][IN/OUT] or -1 when absent                     *)
EXTENDS Integers, Sequences, FiniteSets, TLC
CONSTANTS MaxFrame,    \* largest EtherCAT frame that fits one Ethernet frame (1500)
          MaxDgrams    \* most datagrams the master puts into one frame besides the identifying one

Dirs == {"i", "o"}
Size(t, d) == IF d = "i" THEN t.din ELSE t.dout
\* inputs always, outputs only when written
Needed(t, d) == IF d = "i" THEN t.pin > 0 /\ t.din > 0
                           ELSE t.rw /\ t.pout > 0 /\ t.dout > 0
PdoOff(t, d) == IF d = "i" THEN t.inoff ELSE t.outoff

Start(g, k, d) == IF d = "i" THEN g.assign[k].i ELSE g.assign[k].o
Logical(g, k, d) == IF d = "i" THEN g.lmap[k].i ELSE g.lmap[k].o

---------------------------------------------------------------------------
(* the frame: a chain of datagrams, each 10 bytes header + len bytes data + 2 bytes counter,
   delimited by the length field of the frame header; every datagram but the last must announce
   its successor (the flag of the last one is no concern of this property)                     *)
DgHead == 10
DgTail == 2
DataLo(x) == x.hp + DgHead
DataHi(x) == x.hp + DgHead + x.len
LogicalCmds == {"LRD", "LWR", "LRW"}
LCmds(d) == IF d = "i" THEN {"LRD", "LRW"} ELSE {"LWR", "LRW"}
PCmds(d) == IF d = "i" THEN {"FPRD", "FPRW"} ELSE {"FPWR", "FPRW"}

FrameOK(g) ==
    /\ g.flen <= MaxFrame
    /\ Len(g.dg) >= 1
    /\ g.dg[1].hp = 2
    /\ \A j \in 1 .. Len(g.dg) - 1 :
          /\ g.dg[j].more = 1
          /\ g.dg[j + 1].hp = DataHi(g.dg[j]) + DgTail
    /\ DataHi(g.dg[Len(g.dg)]) + DgTail = g.elen + 2
    /\ g.elen + 2 <= g.flen

Inside(x, s, n) == DataLo(x) <= s /\ s + n <= DataHi(x)

\* frame bytes [s, s+n) travel in a station-addressed datagram to terminal t's own area
ViaDirect(g, t, s, n, d) ==
    \E j \in DOMAIN g.dg :
       LET x == g.dg[j] IN
         /\ x.cmd \in PCmds(d)
         /\ Inside(x, s, n)
         /\ x.pos = t.position
         /\ x.ofs + (s - DataLo(x)) = PdoOff(t, d)

\* logical addresses [a, a+n) are carried by exactly one datagram of the frame, at [s, s+n)
Carriers(g, a, n, d) ==
    {j \in DOMAIN g.dg : /\ g.dg[j].cmd \in LCmds(d)
                         /\ g.dg[j].adr < a + n
                         /\ a < g.dg[j].adr + g.dg[j].len}
ViaLogical(g, s, n, a, d) ==
    /\ Cardinality(Carriers(g, a, n, d)) = 1
    /\ \A j \in Carriers(g, a, n, d) :
         LET x == g.dg[j] IN
           /\ Inside(x, s, n)
           /\ x.adr <= a
           /\ DataLo(x) + (a - x.adr) = s

RegionOK(g, k, d) ==
    LET t == g.terms[k]
        s == Start(g, k, d)
        n == Size(t, d)
        a == Logical(g, k, d)
    IN /\ s >= 0
       /\ CASE t.mode = "F" -> a >= 0 /\ ViaLogical(g, s, n, a, d)
            [] t.mode = "D" -> ViaDirect(g, t, s, n, d)
            [] OTHER        -> IF a >= 0 THEN ViaLogical(g, s, n, a, d)
                                         ELSE ViaDirect(g, t, s, n, d)

Regions(g) == {r \in (DOMAIN g.terms) \X Dirs : Needed(g.terms[r[1]], r[2])}
Apart(alo, ahi, blo, bhi) == ahi <= blo \/ bhi <= alo
Disjoint(g) ==
    \A r, q \in Regions(g) :
       r # q => Apart(Start(g, r[1], r[2]), Start(g, r[1], r[2]) + Size(g.terms[r[1]], r[2]),
                      Start(g, q[1], q[2]), Start(g, q[1], q[2]) + Size(g.terms[q[1]], q[2]))

GroupOK(g) ==
    /\ FrameOK(g)
    /\ \A r \in Regions(g) : RegionOK(g, r[1], r[2])
    /\ Disjoint(g)

---------------------------------------------------------------------------
(* when may a group be rejected?  Only when it is too large for one frame.  The property does
   not fix a layout, so the most generous reading is used: a rejection is justified as soon as
   the customary layout (one datagram per directly addressed region, one LRD for all logically
   addressed inputs, one LWR for all logically addressed outputs, plus the one-byte datagrams by
   which an Aerotech-style terminal's buffers are released/triggered) does not fit.            *)
RECURSIVE SumFrom(_, _)
SumFrom(s, k) == IF k > Len(s) THEN 0 ELSE s[k] + SumFrom(s, k + 1)
Sum(F(_), ts) == SumFrom([k \in DOMAIN ts |-> F(ts[k])], 1)
Dg(n) == DgHead + n + DgTail
Have(b, n) == IF b THEN n ELSE 0

OwnBytes(t) ==
    CASE t.mode = "D" -> Have(Needed(t, "i"), Dg(t.din)) + Have(Needed(t, "o"), Dg(t.dout))
      [] t.mode = "A" -> Have(Needed(t, "i"), Dg(1))
                         + Have(Needed(t, "o"), Dg(t.dout) + Dg(1))
      [] OTHER -> 0
OwnDgrams(t) ==
    CASE t.mode = "D" -> Have(Needed(t, "i"), 1) + Have(Needed(t, "o"), 1)
      [] t.mode = "A" -> Have(Needed(t, "i"), 1) + Have(Needed(t, "o"), 2)
      [] OTHER -> 0
SharedIn(t) == Have(t.mode \in {"F", "A"} /\ Needed(t, "i"), t.din)
SharedOut(t) == Have(t.mode = "F" /\ Needed(t, "o"), t.dout)
PacketHead == 16   \* EtherCAT header + the identifying datagram
CustomaryBytes(ts) ==
    PacketHead + Sum(OwnBytes, ts)
    + Have(Sum(SharedIn, ts) > 0, Dg(Sum(SharedIn, ts)))
    + Have(Sum(SharedOut, ts) > 0, Dg(Sum(SharedOut, ts)))
CustomaryDgrams(ts) ==
    Sum(OwnDgrams, ts) + Have(Sum(SharedIn, ts) > 0, 1) + Have(Sum(SharedOut, ts) > 0, 1)
TooLarge(ts) == CustomaryBytes(ts) > MaxFrame \/ CustomaryDgrams(ts) > MaxDgrams

---------------------------------------------------------------------------
(* the master *)
VARIABLE wins      \* logical windows <<lo, hi>> in use by the groups allocated so far
Windows(g) == {<<g.dg[j].adr, g.dg[j].adr + g.dg[j].len>> :
                 j \in {i \in DOMAIN g.dg : g.dg[i].cmd \in LogicalCmds /\ g.dg[i].len > 0}}

\* g's allocation is good on a master on which the windows w are already in use
Fits(g, w) == /\ GroupOK(g)
              /\ \A x \in Windows(g), v \in w : Apart(x[1], x[2], v[1], v[2])

AInit == wins = {}
Accept(g) == /\ g.res = "ok"
             /\ Fits(g, wins)
             /\ wins' = wins \cup Windows(g)
Reject(g) == /\ g.res = "overflow"
             /\ TooLarge(g.terms)
             /\ UNCHANGED wins
Allocate(g) == Accept(g) \/ Reject(g)
=============================================================================
