----------------------------- MODULE SiiEval -----------------------------
(* C17 - TLC judges what the real code decoded.

   Cases (JSON, from checks/c17.py): one per image
       image : the bytes of the EEPROM
       source: "eeprom" | "sdo"    where the PDO layout is to come from; with "sdo":
       od    : [out |-> assignment, inp |-> assignment], an assignment being the sequence of
               the mapping-entry sequences <<bits, subindex, index>> of the assigned PDOs
               (what the terminal's CoE server answers)
       runs  : one per interface script (read width, busy durations) - what the real
               read_eeprom / parse_sync_managers / parse_pdos / EtherCat.eeprom_read returned
   A behaviour walks through the runs of one case; the decoded image (SiiImage applied to the
   image) is computed once per case and kept in the variable exp.  Each step prints a verdict
       <<"VERDICT", case, run, wellformed, eeprom, syncm, pdos, raw>>                         *)
EXTENDS SiiImage, TLC, Json, IOUtils
Cases == JsonDeserialize(IOEnv.TRACE_FILE)
VARIABLES tid, l, exp

LayoutWith(o, i) == [outbits |-> o.bits, inbits |-> i.bits, entries |-> o.entries \o i.entries]
EepromLayout(cats) == LayoutWith(Pdos(CatOrEmpty(cats, CatRxPdo), SmOut),
                                 Pdos(CatOrEmpty(cats, CatTxPdo), SmIn))
OdLayout(od) == LayoutWith(MapWalk(Flatten(od.out, 1, <<>>), 1, 0, SmOut, <<>>),
                           MapWalk(Flatten(od.inp, 1, <<>>), 1, 0, SmIn, <<>>))
LayoutWellFormed(l0) == \A i \in 1 .. Len(l0.entries) : l0.entries[i].fmt # "?"

ExpectWith(c, w, smd) ==
    [id |-> Identity(c.image), cats |-> w.cats,
     hasSm |-> HasCat(w.cats, CatSyncM), sm |-> smd,
     pdoDue |-> HasCat(w.cats, CatSyncM) /\ (c.source = "sdo" <=> HasMailbox(smd)),
     layout |-> IF c.source = "sdo" THEN OdLayout(c.od) ELSE EepromLayout(w.cats),
     wf |-> /\ Len(c.image) >= 2 * FirstCategoryWord
            /\ w.ok /\ DistinctTypes(w.cats) /\ SmWellFormed(smd)
            /\ PdosWellFormed(CatOrEmpty(w.cats, CatRxPdo), SmOut)
            /\ PdosWellFormed(CatOrEmpty(w.cats, CatTxPdo), SmIn)]
ExpectCats(c, w) == ExpectWith(c, w, CatOrEmpty(w.cats, CatSyncM))
Expect(c) == ExpectCats(c, Categories(c.image))

SeqToSet(s) == {s[i] : i \in 1 .. Len(s)}

EepromOK(e, o) == /\ o.status = "ok"
                  /\ o.id = e.id
                  /\ Len(o.cats) = Len(e.cats)
                  /\ SeqToSet(o.cats) = SeqToSet(e.cats)
SyncmOK(e, o) == e.hasSm => (o.status = "ok" /\ SyncManagersOK(e.sm, o))
PdosOK(e, o) == e.pdoDue => /\ o.status = "ok"
                            /\ o.outbits = e.layout.outbits
                            /\ o.inbits = e.layout.inbits
                            /\ LayoutOK(e.layout.entries, o.entries)
RawOK(img, o) == \A k \in 1 .. Len(o) :
                    o[k].status = "ok" /\ o[k].data = ImageBytes(img, 2 * o[k].addr, 4)

Init == /\ tid \in 1 .. Len(Cases) /\ l = 1 /\ exp = Expect(Cases[tid])
Next == /\ l <= Len(Cases[tid].runs)
        /\ l' = l + 1 /\ UNCHANGED <<tid, exp>>
        /\ LET r == Cases[tid].runs[l] IN
             PrintT(<<"VERDICT", tid, l, exp.wf /\ LayoutWellFormed(exp.layout),
                      EepromOK(exp, r.eeprom), SyncmOK(exp, r.sm),
                      PdosOK(exp, r.pdos), RawOK(Cases[tid].image, r.raw)>>)
Spec == Init /\ [][Next]_<<tid, l, exp>>
=============================================================================
