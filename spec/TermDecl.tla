----------------------------- MODULE TermDecl -----------------------------
(* X09 - the declarations of the bundled terminal classes against a device's own description.

   A terminal class (ebpfcat/terminals.py) declares process variables:
       ProcessDesc(index, subindex[, size])   "a process variable as found in the current PDO mapping read
                                               from the terminal" (docstring, ebpfcat.py)
       PacketDesc(sm, position, size)         "the byte position in the process data" of a sync manager
       Struct channels                        "the offset in the CoE address space from the template structure"
   A device describes its process data itself, in two places:
       SII categories 50 (TxPDO, inputs) / 51 (RxPDO, outputs)  (ETG.1000.6 / ETG.2010: per PDO the index,
            number of entries, SYNC MANAGER (0xFF = not assigned), ...; per entry index, subindex, name,
            data type, bit length, flags)
       CoE objects 0x1C12 / 0x1C13 (the PDOs assigned to the output / input sync manager; subindex 0 = how
            many) and the mapping objects 0x16xx / 0x1Axx (entry = bit length, subindex, index)
   Which of the two a master has to use: the CoE objects if the terminal has both mailboxes
   (Terminal.parse_pdos: "parse the PDO assignment from the SDO if available, or EEPROM if not").

   What is demanded, and where it is taken from:
   R1 resolves   every ProcessDesc of a class that matches the device (vendor, product code in the class's
                 `compatibility`, doc/ethercat.rst) denotes an entry the device maps - under the assignment the
                 class itself configures (`out_pdos` / `in_pdos`) - and resolving it does not fail
   R2 location   it resolves to the sync manager, byte and bit the device's description gives that entry:
                 entries lie one after the other from bit 0 of the sync manager's area, in the order of the
                 assignment (ETG.1000.6 5.6.7.4); no override: the entry itself (a bit for an entry shorter than
                 a byte, else a format of the entry's width); integer override n: "the number of a bit ... in
                 the parameter" = bit n of the entry; format override: "reinterprets" the bytes at the entry's
                 position
   R3 fit        what the variable covers fits what is declared: a bit override points inside the entry, a
                 format starts on the entry's byte boundary, is a struct format, stays inside the sync manager's
                 area, and - if it is wider than the entry (the "status word" idiom of doc/ethercat.rst:
                 `attrs = ProcessDesc(0x6000, 1, 'H')`) - covers only entries of the same object and padding
   R4 overlap    two declared variables share bits only if one contains the other (a word and its bits)
   R5 sizes      pdo_out_sz / pdo_in_sz = the mapped bits of the direction rounded up to bytes
                 (EBPFTerminal.apply_eeprom); the sync manager's length register holds it, and the sync manager
                 is enabled iff it is not 0 (Terminal.write_pdo_sm)
   R6 table      Terminal.parse_pdos's table `pdos` and the bit counts it returns are this description: same
                 (index, subindex) keys, each at its place
   R7 assignment a class that declares out_pdos / in_pdos leaves 0x1C12 / 0x1C13 holding exactly that list
                 (EBPFTerminal.write_pdos; subindex 0 = the number of assigned PDOs)
                 and the list is one the device allows: no PDO twice, no PDO together with one it excludes
                 (the device's PDO parameter objects 0x14xx / 0x18xx, subindex 6)
   R8 service    every ServiceDesc(index, subindex) of a matching class is an entry of the device's dictionary
   R9 identity   initialize succeeds on a matching device with a well-formed description, and a class whose
                 `compatibility` does not contain the device's identity refuses it (EBPFTerminal.apply_eeprom)

   The module is constant-level: TLC evaluates it on the real EEPROM images and dictionary records of
   ebpfcat/testdata.py (TermDeclEval), on TLC-enumerated PDO assignments (TermDeclScripts) and, exhaustively,
   on all small descriptions (MC_TermDecl: consequences of the definitions).  SiiImage (C17) is reused for
   bytes, categories, sync managers and identity; the PDO decoding is new here because it keeps what C17 did
   not need: the PDO's sync-manager field, the entry's data type, padding entries.                        *)
EXTENDS SiiImage, FiniteSets

Force(f, n) == SubSeq(f, 1, n)      \* TLC: a concrete tuple instead of an unevaluated function
NotAssigned == 255                  \* sync-manager field of a PDO that is not assigned by default
Idx1C12 == 7186
Idx1C13 == 7187

---------------------------------------------------------------------------
(* 0. categories of an image as it is read from a device: cells beyond the recorded image read 0xFF
      (SiiImage.ImageByte), so an image that stops after its last category is ended by the end marker the
      master reads there (the records of testdata.py are stored this way).  A category must lie wholly
      inside the image.                                                                                  *)
PU16(img, o) == ImageByte(img, o) + 256 * ImageByte(img, o + 1)
RECURSIVE CatWalkP(_, _, _)
CatWalkP(img, o, acc) ==
    IF PU16(img, o) = EndMarker THEN [ok |-> TRUE, cats |-> acc]
    ELSE IF o + 4 + 2 * PU16(img, o + 2) > Len(img) THEN [ok |-> FALSE, cats |-> acc]
    ELSE CatWalkP(img, o + 4 + 2 * PU16(img, o + 2),
                  Append(acc, [type |-> PU16(img, o), data |-> Bytes(img, o + 4, 2 * PU16(img, o + 2))]))
CategoriesP(img) == CatWalkP(img, 2 * FirstCategoryWord, <<>>)

---------------------------------------------------------------------------
(* 1. a PDO list: <<[index, sm, ents]>>, ents = <<[idx, sub, dtype, bits]>>  (dtype -1: not stated)      *)

(* from an SII category 50 / 51; offsets are 0-based byte offsets into the category data d *)
SiiEnt(d, p) == [idx |-> U16(d, p), sub |-> d[p + 3], dtype |-> d[p + 5], bits |-> d[p + 6]]
RECURSIVE SiiEnts(_, _, _, _)
SiiEnts(d, p, n, acc) == IF n = 0 THEN acc ELSE SiiEnts(d, p + 8, n - 1, Append(acc, SiiEnt(d, p)))
RECURSIVE SiiPdoList(_, _, _)
SiiPdoList(d, o, acc) ==
    IF o = Len(d) THEN [ok |-> TRUE, pdos |-> acc]
    ELSE IF o + 8 > Len(d) \/ o + 8 + 8 * d[o + 3] > Len(d) THEN [ok |-> FALSE, pdos |-> acc]
    ELSE SiiPdoList(d, o + 8 + 8 * d[o + 3],
                    Append(acc, [index |-> U16(d, o), sm |-> d[o + 4],
                                 ents |-> SiiEnts(d, o + 8, d[o + 3], <<>>)]))
SiiPdos(d) == SiiPdoList(d, 0, <<>>)

(* from a dictionary record od = <<[idx, sub, data]>> (data = the bytes an SDO upload returns).  A record
   that has no subindex 0 for an object counts its consecutive subindices from 1 (this is how the package's
   own MockTerminal reads these records)                                                               *)
OdHas(od, i, s) == \E k \in 1 .. Len(od) : od[k].idx = i /\ od[k].sub = s
OdVal(od, i, s) == od[CHOOSE k \in 1 .. Len(od) : od[k].idx = i /\ od[k].sub = s].data
OdKnown(od, i) == \E k \in 1 .. Len(od) : od[k].idx = i
RECURSIVE Consecutive(_, _, _)
Consecutive(od, i, n) == IF OdHas(od, i, n + 1) THEN Consecutive(od, i, n + 1) ELSE n
OdCount(od, i) == IF OdHas(od, i, 0) THEN OdVal(od, i, 0)[1] ELSE Consecutive(od, i, 0)
OdListWF(od, i, w) == \A k \in 1 .. OdCount(od, i) : OdHas(od, i, k) /\ Len(OdVal(od, i, k)) = w
DeviceAssignment(od, a) == Force([k \in 1 .. OdCount(od, a) |-> U16(OdVal(od, a, k), 0)], OdCount(od, a))
CoEEnt(v) == [idx |-> U16(v, 2), sub |-> v[2], dtype |-> -1, bits |-> v[1]]
CoEPdo(od, p, smno) == [index |-> p, sm |-> smno,
                        ents |-> Force([j \in 1 .. OdCount(od, p) |-> CoEEnt(OdVal(od, p, j))], OdCount(od, p))]
NonZero(s) == SelectSeq(s, LAMBDA x : x # 0)          \* an assignment slot holding 0 is unused
AssignmentWF(od, asg) == \A k \in 1 .. Len(asg) : asg[k] = 0 \/ (OdKnown(od, asg[k]) /\ OdListWF(od, asg[k], 4))
CoEPdos(od, asg, smno) == LET nz == NonZero(asg) IN
                          Force([k \in 1 .. Len(nz) |-> CoEPdo(od, nz[k], smno)], Len(nz))

(* PDOs that must not be assigned together: the PDO parameter object of PDO p (0x1400.. for 0x1600..,
   0x1800.. for 0x1A00..) lists in subindex 6 the PDOs that p excludes (ETG.1000.6 5.6.7.4 / ETG.1020)   *)
ParamObj(p) == p - 512
Excluded(od, p) ==
    IF OdHas(od, ParamObj(p), 6)
    THEN {U16(OdVal(od, ParamObj(p), 6), 2 * (k - 1)) : k \in 1 .. (Len(OdVal(od, ParamObj(p), 6)) \div 2)} \ {0}
    ELSE {}
AssignmentAdmissible(od, asg) ==
    \A i, j \in 1 .. Len(asg) : (i # j /\ asg[i] # 0) => (asg[j] # asg[i] /\ asg[j] \notin Excluded(od, asg[i]))

---------------------------------------------------------------------------
(* 2. layout of a direction: the entries of the assigned PDOs one after the other from bit 0; padding
      entries (index 0) are kept - they are part of what a wide view may cover                          *)
RECURSIVE EntsOf(_, _, _)
EntsOf(ps, k, acc) == IF k > Len(ps) THEN acc ELSE EntsOf(ps, k + 1, acc \o ps[k].ents)
RECURSIVE Place(_, _, _, _, _)
Place(es, k, pos, dir, acc) ==
    IF k > Len(es) THEN [bits |-> pos, placed |-> acc]
    ELSE Place(es, k + 1, pos + es[k].bits, dir,
               Append(acc, [idx |-> es[k].idx, sub |-> es[k].sub, dtype |-> es[k].dtype,
                            bits |-> es[k].bits, dir |-> dir, pos |-> pos]))
DirLayout(ps, dir) == Place(EntsOf(ps, 1, <<>>), 1, 0, dir, <<>>)
Assigned(ps) == SelectSeq(ps, LAMBDA p : p.sm # NotAssigned)
MkLayout(o, i) == [out |-> o, inp |-> i, all |-> o.placed \o i.placed]
Layout(outPdos, inPdos) == MkLayout(DirLayout(outPdos, SmOut), DirLayout(inPdos, SmIn))
AllPlaced(lay) == lay.all
DirBits(lay, dir) == IF dir = SmOut THEN lay.out.bits ELSE lay.inp.bits
DirBytes(lay, dir) == (DirBits(lay, dir) + 7) \div 8

(* an SII PDO assigned to sync manager k must be of the category of k's direction *)
SiiDirWF(ps, sms, mode) == \A i \in 1 .. Len(ps) :
    ps[i].sm = NotAssigned \/ (ps[i].sm < Len(sms) /\ sms[ps[i].sm + 1].mode = mode)

---------------------------------------------------------------------------
(* 3. struct formats, given as character codes (TLC cannot take a string apart)                          *)
LetterWidth(c) == CASE c \in {98, 66, 63, 99, 115, 112} -> 1      \* b B ? c s p
                    [] c \in {104, 72, 101} -> 2                   \* h H e
                    [] c \in {105, 73, 108, 76, 102} -> 4          \* i I l L f
                    [] c \in {113, 81, 100} -> 8                   \* q Q d
                    [] OTHER -> 0
RECURSIVE Digits(_, _, _)
Digits(cs, k, acc) == IF k >= Len(cs) THEN acc ELSE Digits(cs, k + 1, 10 * acc + (cs[k] - 48))
(* one value: a single letter, or <count>s / <count>p *)
FmtValid(cs) == /\ Len(cs) \in 1 .. 4
                /\ LetterWidth(cs[Len(cs)]) > 0
                /\ \A k \in 1 .. Len(cs) - 1 : cs[k] \in 48 .. 57
                /\ Len(cs) > 1 => (cs[Len(cs)] \in {115, 112} /\ Digits(cs, 1, 0) >= 1)
FmtWidth(cs) == IF Len(cs) = 1 THEN LetterWidth(cs[1]) ELSE Digits(cs, 1, 0)

---------------------------------------------------------------------------
(* 4. declarations and what they resolve to.
      declaration d = [kind "process" | "packet", idx, off, sub, dsm, pos, poff, ov]
          process: object idx + off (off = the struct channel's CoE offset), subindex sub
          packet : sync manager dsm, byte pos + poff (poff = the struct channel's offset for dsm)
          ov     = [k |-> "none"] | [k |-> "bit", n] | [k |-> "fmt", c = character codes]
      resolution r = [sm, byte, bit (NoBit for a multi-byte value), fmtc (<<>> for a bit)]
      In ProcVar.tla's terms the variable is [start, off |-> r.byte, bit |-> r.bit, n |-> FmtWidth(r.fmtc)].  *)
EffIdx(d) == d.idx + d.off
MatchesOf(lay, d) == LET all == AllPlaced(lay) IN
    {k \in 1 .. Len(all) : all[k].idx # 0 /\ all[k].idx = EffIdx(d) /\ all[k].sub = d.sub}

ProcLocOK(e, ov, r) ==
    /\ r.sm = e.dir
    /\ CASE ov.k = "none" ->
              IF e.bits < 8
              THEN r.byte = e.pos \div 8 /\ r.bit = e.pos % 8 /\ r.fmtc = <<>>
              ELSE /\ e.pos % 8 = 0 /\ r.byte = e.pos \div 8 /\ r.bit = NoBit
                   /\ Len(r.fmtc) = 1 /\ 8 * LetterWidth(r.fmtc[1]) = e.bits
         [] ov.k = "bit" ->
              r.byte = (e.pos + ov.n) \div 8 /\ r.bit = (e.pos + ov.n) % 8 /\ r.fmtc = <<>>
         [] ov.k = "fmt" ->
              r.byte = e.pos \div 8 /\ r.bit = NoBit /\ r.fmtc = ov.c
(* the one deviation that is recognised (observation `bitrel`): the override bit counted from bit 0 of the byte
   in which the entry starts instead of from the entry's first bit - the two differ only for an entry that
   does not start on a byte boundary                                                                     *)
ByteRelBit(e, ov, r) == ov.k = "bit" /\ r.sm = e.dir /\ r.byte = e.pos \div 8 /\ r.bit = ov.n /\ r.fmtc = <<>>
PackLocOK(d, r) ==
    /\ r.sm = d.dsm /\ r.byte = d.pos + d.poff
    /\ IF d.ov.k = "bit" THEN r.bit = d.ov.n /\ r.fmtc = <<>>
       ELSE r.bit = NoBit /\ d.ov.k = "fmt" /\ r.fmtc = d.ov.c

(* the bits a resolved variable covers, in its sync manager's area *)
Lo(r) == IF r.bit # NoBit THEN 8 * r.byte + r.bit ELSE 8 * r.byte
Hi(r) == IF r.bit # NoBit THEN 8 * r.byte + r.bit + 1 ELSE 8 * r.byte + 8 * FmtWidth(r.fmtc)
ResWF(r) == r.byte >= 0 /\ (IF r.bit # NoBit THEN r.bit \in 0 .. 7 /\ r.fmtc = <<>> ELSE FmtValid(r.fmtc))

(* a wide view [lo, hi) of the entry at index idx: every entry it touches lies wholly inside it and
   belongs to the same object, or is padding                                                            *)
ViewOK(lay, dir, idx, lo, hi) == LET all == AllPlaced(lay) IN
    \A k \in 1 .. Len(all) :
        (all[k].dir = dir /\ all[k].pos < hi /\ all[k].pos + all[k].bits > lo) =>
            /\ all[k].pos >= lo /\ all[k].pos + all[k].bits <= hi
            /\ all[k].idx \in {0, idx}

ProcFit(lay, e, ov, r) ==
    CASE ov.k = "none" -> IF e.bits \in 2 .. 7 THEN "partial" ELSE "exact"
      [] ov.k = "bit" -> IF ov.n \notin 0 .. 7 THEN "badbit"
                         ELSE IF ov.n >= e.bits THEN "bitoutside" ELSE "bit"
      [] ov.k = "fmt" -> IF ~FmtValid(ov.c) THEN "badformat"
                         ELSE IF e.pos % 8 # 0 THEN "misaligned"
                         ELSE IF Hi(r) > 8 * DirBytes(lay, e.dir) THEN "outside"
                         ELSE IF 8 * FmtWidth(ov.c) = e.bits THEN "exact"
                         ELSE IF 8 * FmtWidth(ov.c) < e.bits THEN "narrow"
                         ELSE IF ViewOK(lay, e.dir, e.idx, Lo(r), Hi(r)) THEN "view" ELSE "foreign"
PackFit(lay, d, r) ==
    IF d.ov.k = "bit" /\ d.ov.n \notin 0 .. 7 THEN "badbit"
    ELSE IF d.ov.k = "fmt" /\ ~FmtValid(d.ov.c) THEN "badformat"
    ELSE IF d.ov.k = "none" THEN "badformat"
    ELSE IF Hi(r) > 8 * DirBytes(lay, d.dsm) THEN "outside" ELSE "packet"
FitAccepted == {"exact", "bit", "narrow", "view", "packet", "partial"}

(* verdict on one declaration with its observed resolution o = [status, sm, byte, bit, fmtc]:
   <<resolution code, fit code>>                                                                        *)
DeclVerdict(lay, d, o) ==
    IF d.kind = "packet" THEN
        IF o.status # "ok" THEN <<"raised", "n/a">>
        ELSE IF ~ResWF(o) \/ ~PackLocOK(d, o) THEN <<"wrongplace", "n/a">>
        ELSE <<"ok", PackFit(lay, d, o)>>
    ELSE LET all == AllPlaced(lay)
             m == MatchesOf(lay, d) IN
        IF m = {} THEN <<IF o.status = "keyerror" THEN "unmapped" ELSE "phantom", "n/a">>
        ELSE IF o.status # "ok" THEN <<"lost", "n/a">>
        ELSE IF ~ResWF(o) \/ ~\E k \in m : ProcLocOK(all[k], d.ov, o) THEN
            <<IF \E k \in m : ByteRelBit(all[k], d.ov, o) THEN "bitrel" ELSE "wrongplace", "n/a">>
        ELSE <<"ok", ProcFit(lay, all[CHOOSE k \in m : ProcLocOK(all[k], d.ov, o)], d.ov, o)>>

(* R4: the pairs of resolved variables that share bits without one containing the other; two variables
   covering exactly the same bits must be the same declaration (an alias), not two different objects     *)
SameTarget(d1, d2) == /\ d1.kind = d2.kind /\ d1.ov = d2.ov
                      /\ IF d1.kind = "process" THEN EffIdx(d1) = EffIdx(d2) /\ d1.sub = d2.sub
                         ELSE d1.dsm = d2.dsm /\ d1.pos + d1.poff = d2.pos + d2.poff
BadOverlap(d1, o1, d2, o2) ==
    /\ o1.status = "ok" /\ o2.status = "ok" /\ ResWF(o1) /\ ResWF(o2)
    /\ o1.sm = o2.sm /\ Lo(o1) < Hi(o2) /\ Lo(o2) < Hi(o1)
    /\ IF Lo(o1) = Lo(o2) /\ Hi(o1) = Hi(o2) THEN ~SameTarget(d1, d2)
       ELSE ~(Lo(o1) <= Lo(o2) /\ Hi(o2) <= Hi(o1)) /\ ~(Lo(o2) <= Lo(o1) /\ Hi(o1) <= Hi(o2))
Overlaps(decls) == {p \in (1 .. Len(decls)) \X (1 .. Len(decls)) :
                      p[1] < p[2] /\ BadOverlap(decls[p[1]], decls[p[1]].res, decls[p[2]], decls[p[2]].res)}

---------------------------------------------------------------------------
(* 5. the table (R6) and the sizes (R5)                                                                  *)
TableKeys(lay) == LET all == AllPlaced(lay) IN {<<all[k].idx, all[k].sub>> : k \in {j \in 1 .. Len(all) : all[j].idx # 0}}
NoOv == [k |-> "none"]
TableOK(lay, tab, outbits, inbits) == LET all == AllPlaced(lay) IN
    /\ outbits = lay.out.bits /\ inbits = lay.inp.bits
    /\ {<<tab[i].idx, tab[i].sub>> : i \in 1 .. Len(tab)} = TableKeys(lay)
    /\ \A i, j \in 1 .. Len(tab) : (tab[i].idx = tab[j].idx /\ tab[i].sub = tab[j].sub) => i = j
    /\ \A i \in 1 .. Len(tab) : \E k \in 1 .. Len(all) :
          all[k].idx = tab[i].idx /\ all[k].sub = tab[i].sub /\ all[k].idx # 0 /\ ProcLocOK(all[k], NoOv, tab[i])
SizesOK(lay, szout, szin) == szout = DirBytes(lay, SmOut) /\ szin = DirBytes(lay, SmIn)

(* the sync-manager registers (regs[i] = [len, act] of sync manager i - 1) after initialisation; judged only
   where exactly one sync manager has the mode                                                          *)
RegsOK(sms, regs, mode, bytes) ==
    LET S == {i \in 1 .. Len(sms) : sms[i].mode = mode} IN
    Cardinality(S) = 1 =>
        \A i \in S : i <= Len(regs) /\ regs[i].len = bytes /\ regs[i].act = (IF bytes > 0 THEN 1 ELSE 0)

(* is every mapped entry representable at all (an entry of 8 or more bits: byte aligned, 1/2/4/8 bytes)?  *)
Representable(lay) == LET all == AllPlaced(lay) IN
    \A k \in 1 .. Len(all) : (all[k].idx # 0 /\ all[k].bits >= 8) =>
                                 (all[k].pos % 8 = 0 /\ all[k].bits \in {8, 16, 32, 64})

---------------------------------------------------------------------------
(* 6. identity (R9): cls = [hascompat, compat = <<[v, p]>> as 4-byte sequences, named = the product code a
      class without `compatibility` carries in its name (Beckhoff: number * 65536 + "R0"/"R,"), generic]  *)
Matching(cls, id) ==
    IF cls.hascompat THEN \E k \in 1 .. Len(cls.compat) : cls.compat[k].v = id.vendorId /\ cls.compat[k].p = id.productCode
    ELSE cls.generic \/ (cls.named = id.productCode /\ id.vendorId = <<2, 0, 0, 0>>)
Refuses(cls, id) == cls.hascompat /\ ~Matching(cls, id)

(* static well-formedness of a class's declarations, whatever the device (all bundled classes) *)
OvStaticOK(ov) == CASE ov.k = "none" -> TRUE [] ov.k = "bit" -> ov.n \in 0 .. 7 [] ov.k = "fmt" -> FmtValid(ov.c)
DeclStaticOK(d) == OvStaticOK(d.ov) /\ (d.kind = "packet" => d.ov.k # "none" /\ d.dsm \in {SmOut, SmIn})
=============================================================================
