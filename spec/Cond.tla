-------------------------------- MODULE Cond --------------------------------
(* C03: a with-block runs its body exactly when its condition is true and its Else block exactly
   when it is false, and execution continues after the construct.  The real emitted bytecode of a
   program made of nested / sequenced with-blocks whose bodies set marker bytes is executed on the
   eBPF machine; the set of markers found set at the end must equal Exec(stmts) of Dsl.tla.

   case = EbpfRun's case record plus  stmts (statement list), leaves, n (as in Codegen), and
          marks = <<[i, fd, off], ...>>  where marker i's byte is (initially 0, set to 1)        *)
EXTENDS Codegen

MarksSet(k, f) == {k.marks[j].i : j \in {x \in 1 .. Len(k.marks) :
                       LoadBytes(f.m, Rg("arr", k.marks[x].fd, <<>>), k.marks[x].off, 1)[1] # 0}}
CondVerdictOf(k, f, ex) ==
    IF ~Exited(f.c) THEN <<"fault", f.c.st, {}, {}>>
    ELSE IF ~ex.ok THEN <<"skipped", <<>>, {}, {}>>
    ELSE IF MarksSet(k, f) = ex.m THEN <<"ok", <<>>, MarksSet(k, f), ex.m>>
    ELSE <<"wrong", <<>>, MarksSet(k, f), ex.m>>
CondVerdict(k) == CondVerdictOf(k, Final(k), Exec(k.stmts, Leaves(k), k.n))
ObserveCond == PrintT(<<"VERDICT", cid>> \o CondVerdict(Cases[cid])
                      \o <<StmtsSwNeg(Cases[cid].stmts, 1, Leaves(Cases[cid]), Cases[cid].n)>>)
=============================================================================
