---- MODULE MC_AllocBoundary ----
EXTENDS AllocBoundary
mcModes == {"F", "D", "A"}
mcIn == <<{0, 1}, {0, 64}>>
mcOut == <<{0, 8}, {0, 700}>>
mcDeltas == {-1, 0, 1}
====
