---------------------------- MODULE AllocBoundary ----------------------------
(* Configurations for C18 at the frame limit: every configuration of AllocConfigs (one group),
   with one of its needed regions resized so that the customary layout of Alloc has exactly
   MaxFrame + delta bytes, delta in Deltas.  The base size of the resized region does not matter,
   so slots must offer one non-zero size each (no configuration is then printed twice).        *)
EXTENDS AllocConfigs
CONSTANTS MaxFrame, MaxDgrams, Deltas
A == INSTANCE Alloc WITH wins <- {}

Resize(t, d, n) == IF d = "i" THEN [t EXCEPT !.din = n, !.pin = Pdo(t.mode, n)]
                              ELSE [t EXCEPT !.dout = n, !.pout = Pdo(t.mode, n)]
Fill(k, d, delta) == A!Size(ts[k], d) + (MaxFrame + delta - A!CustomaryBytes(ts))
EmitB == \A k \in DOMAIN ts, d \in A!Dirs, delta \in Deltas :
            (A!Needed(ts[k], d) /\ Fill(k, d, delta) >= 1) =>
               PrintT(<<"CFG", ToJson([ts |-> [ts EXCEPT ![k] = Resize(ts[k], d, Fill(k, d, delta))],
                                       gs |-> gs, delta |-> delta])>>)
=============================================================================
