SPECIFICATION Spec
CONSTANTS MaxPdos = 2
          MaxEnts = 2
          Objs = {24576, 24592}
          Subs = {1}
          Widths = {1, 3, 16}
INVARIANTS T1_Contiguous T2_Inside T3_SiiRoundTrip T4_CoERoundTrip T5_AgreesC17 T6_Defaults T7_BitInside T8_Unassigned LayIsLayout
CHECK_DEADLOCK FALSE
