---------------------------- MODULE FmmuTrace ----------------------------
(* Trace validation for C20: every recorded run of the real Terminal.map_fmmu context managers
   must be a behaviour of Fmmu, with the slot and register writes bound from the trace.        *)
EXTENDS Fmmu, Json, IOUtils, TLCExt
Traces == JsonDeserialize(IOEnv.TRACE_FILE)
VARIABLES tid, l
tvars == <<fvars, tid, l>>
Ev == Traces[tid].ev[l]
Tbl(e) == [i \in 0 .. (n - 1) |-> e.tbl[i + 1]]      \* fmmu_used as observed after the event

TInit == /\ tid \in 1 .. Len(Traces) /\ l = 1 /\ FInit(Traces[tid].n)

TMapOk(e) == /\ e.op = "map" /\ e.res = "ok"
             /\ MapOk(e.m, e.write, e.slot)
             /\ e.reg.idx = e.slot          \* the registers programmed are those of the slot taken
             /\ reg'[e.slot] = [active |-> e.reg.act = 1, dir |-> e.reg.dir, logical |-> e.reg.logical]
TMapFail(e) == e.op = "map" /\ e.res = "fail" /\ MapFail(e.m)
TUnmap(e) == /\ e.op = "unmap" /\ Unmap(e.m)
             /\ slot[e.deact] = e.m         \* the deactivation went to the mapping's own slot
TAbort(e) == e.op = "abort" /\ UnmapAbort(e.m)

TNext == /\ l <= Len(Traces[tid].ev)
         /\ l' = l + 1 /\ UNCHANGED tid
         /\ LET e == Ev IN
              /\ (TMapOk(e) \/ TMapFail(e) \/ TUnmap(e) \/ TAbort(e))
              \* the master's own table agrees with the specification - except while other mappings of a
              \* concurrently started batch are still being set up (they have reserved their FMMU already):
              \* such events are marked loose, the last event of the batch is strict again
              /\ (("loose" \in DOMAIN e /\ e.loose) \/ slot' = Tbl(e))
TSpec == TInit /\ [][TNext]_tvars

Max2(a, b) == IF a > b THEN a ELSE b
Progress == TLCSet(tid, Max2(TLCGet(tid), l))
ASSUME \A i \in 1 .. Len(Traces) : TLCSet(i, 0)
Post == \A i \in 1 .. Len(Traces) : PrintT(<<"RESULT", i, TLCGet(i) - 1, Len(Traces[i].ev)>>)
=============================================================================
