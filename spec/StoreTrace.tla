----------------------------- MODULE StoreTrace -----------------------------
(* Trace validation for C08 / C09: a recorded history of one program instance - operations issued
   from Python through the real descriptors and runs of the real emitted program (on the kernel or
   on the eBPF machine) - must be a behaviour of Store.

   A trace is [decl |-> D, ev |-> <<event>>]; every event carries all of
     op, id, cpu, res, v, k, items
   (unused ones hold a dummy).  Each event is judged against the current abstract state; a rejected
   event is printed and the state is re-synchronised with what the implementation showed (a read
   binds the value read), so that one run reports every deviation of a history, not only the first.

   Events:  d_set_noexist / d_set_exist (Python-side update_elem with a named flag);
            pywrite_a / pyread_a (array variable id; v = elements / copies x elements)
            pywrite_h / pyread_h (hash variable id; v = word)
            run (cpu; res = "ok" or how the run failed)
            d_set d_get d_pop d_pop_default d_del d_in d_iter d_items (Dict id; k, v tuples of member
            words; items = <<[k, v]>>), structs (items = observed Structure layouts)             *)
EXTENDS Store, Json, IOUtils, TLCExt
Traces == JsonDeserialize(IOEnv.TRACE_FILE)
VARIABLES tid, l, aval, hval, dval
tvars == <<tid, l, aval, hval, dval>>
D == Traces[tid].decl
Ev == Traces[tid].ev[l]

R(ok, why, a, h, d) == [ok |-> ok, why |-> why, a |-> a, h |-> h, d |-> d]
(* what the specification expected where an observed value is rejected (for the report) *)
Expected(e) == IF e.op = "pyread_a" THEN aval[e.id]
               ELSE IF e.op = "pyread_h" THEN hval[e.id]
               ELSE IF e.op \in {"d_get", "d_pop", "d_pop_default"} /\ dval[e.id].known /\ e.k \in DOMAIN dval[e.id].m
                    THEN dval[e.id].m[e.k]
               ELSE IF e.op \in {"d_iter", "d_items"} /\ dval[e.id].known THEN <<Count(dval[e.id].m)>>
               ELSE <<>>
Same(ok, why) == R(ok, why, aval, hval, dval)
SetD(ok, why, id, dd) == R(ok, why, aval, hval, [dval EXCEPT ![id] = dd])

ShapeA(v, obs) == /\ Len(obs) = Copies(D, v)
                  /\ \A c \in DOMAIN obs : Len(obs[c]) = Len(VLetters(D.avars[v].f)) /\ \A i \in DOMAIN obs[c] : IsWord(obs[c][i])

StructOk(s) ==      \* s = [py, prog (offsets), sizes (letters), base, total, mapsize]
    LET py == [i \in DOMAIN s.py |-> [pos |-> s.py[i], size |-> ElemSize(s.letters[i])]]
        pr == [i \in DOMAIN s.prog |-> [pos |-> s.prog[i], size |-> ElemSize(s.letters[i])]] IN
    /\ Packed(py, s.total)
    /\ Shifted(py, pr, s.base)
    /\ s.total = s.mapsize
    /\ s.base + s.total <= 0 /\ s.base >= -512            \* on the program's stack

DictStep(e) ==
    LET dd == dval[e.id]  decl == D.dicts[e.id]  kt == e.k  vt == e.v
        present == Present(dd, kt) IN
    IF ~dd.known THEN Same(TRUE, "dict contents unspecified")
    ELSE IF e.op = "d_set" THEN
        IF ~KeyOk(decl, kt) \/ ~ValOk(decl, vt) THEN Same(FALSE, "driver: member value outside its format")
        ELSE IF e.res = "ok" THEN
            IF decl.lru THEN SetD(TRUE, "", e.id, HavocDict)      \* LRU: any update may evict any entry
            ELSE SetD(present \/ ~Full(dd, decl), "insert into a full Dict succeeded", e.id,
                      [dd EXCEPT !.m = With(dd.m, kt, vt)])
        ELSE IF e.res = "IndexError" THEN Same(~present /\ Full(dd, decl) /\ ~decl.lru, "IndexError but the Dict has room")
        ELSE Same(FALSE, "set raised " \o e.res)
    ELSE IF e.op \in {"d_set_noexist", "d_set_exist"} THEN
        \* update_elem with the flag NOEXIST (insert only) / EXIST (modify only), issued from Python BY NAME
        LET wanted == IF e.op = "d_set_noexist" THEN ~present ELSE present IN
        IF ~KeyOk(decl, kt) \/ ~ValOk(decl, vt) THEN Same(FALSE, "driver: member value outside its format")
        ELSE IF e.res = "ok" THEN
            IF decl.lru THEN SetD(wanted, "flagged update succeeded against its flag", e.id, HavocDict)
            ELSE SetD(wanted /\ (present \/ ~Full(dd, decl)), "flagged update succeeded against its flag or into a full Dict",
                      e.id, [dd EXCEPT !.m = With(dd.m, kt, vt)])
        ELSE IF e.res = "refused" THEN Same(~wanted, "flagged update refused although its flag allows it")
        ELSE IF e.res = "IndexError" THEN Same(wanted /\ ~present /\ Full(dd, decl) /\ ~decl.lru, "IndexError but the Dict has room")
        ELSE Same(FALSE, "flagged update raised " \o e.res)
    ELSE IF e.op \in {"d_get", "d_pop", "d_pop_default"} THEN
        IF e.res = "ok" THEN
            LET after == IF e.op = "d_get" THEN With(dd.m, kt, vt) ELSE Without(dd.m, kt) IN
            IF ~present THEN SetD(FALSE, "an absent key was found", e.id, [dd EXCEPT !.m = after])
            ELSE SetD(MatchSeq(dd.m[kt], vt) /\ ValOk(decl, vt), "entry found with other member values",
                      e.id, [dd EXCEPT !.m = after])
        ELSE IF (e.res = "KeyError" /\ e.op # "d_pop_default") \/ (e.res = "default" /\ e.op = "d_pop_default")
        THEN SetD(~present, "a present key was not found", e.id, [dd EXCEPT !.m = Without(dd.m, kt)])
        ELSE Same(FALSE, "lookup raised " \o e.res)
    ELSE IF e.op = "d_del" THEN
        IF e.res = "ok" THEN SetD(present, "delete of an absent key succeeded", e.id, [dd EXCEPT !.m = Without(dd.m, kt)])
        ELSE IF e.res = "KeyError" THEN SetD(~present, "delete of a present key raised KeyError", e.id,
                                             [dd EXCEPT !.m = Without(dd.m, kt)])
        ELSE Same(FALSE, "delete raised " \o e.res)
    ELSE IF e.op = "d_in" THEN
        IF e.res = "true" THEN SetD(present, "membership test finds an absent key", e.id,
                                    IF present THEN dd ELSE [dd EXCEPT !.m = With(dd.m, kt, UnknownTuple(Len(decl.val)))])
        ELSE IF e.res = "false" THEN SetD(~present, "membership test misses a present key", e.id,
                                          [dd EXCEPT !.m = Without(dd.m, kt)])
        ELSE Same(FALSE, "membership test raised " \o e.res)
    ELSE IF e.op \in {"d_iter", "d_items"} THEN
        IF e.res # "ok" THEN Same(FALSE, "iteration raised " \o e.res)
        ELSE LET ks == {e.items[i].k : i \in DOMAIN e.items}
                 seen == MkFun(ks, [k \in ks |-> IF e.op = "d_items"
                                                  THEN (CHOOSE i \in DOMAIN e.items : e.items[i].k = k) 
                                                  ELSE 0], <<>>)
                 \* what the implementation showed: these keys (with these values, if shown)
                 after == MkFun(ks, [k \in ks |-> IF e.op = "d_items" THEN e.items[seen[k]].v
                                                   ELSE IF k \in DOMAIN dd.m THEN dd.m[k]
                                                   ELSE UnknownTuple(Len(decl.val))], <<>>) IN
             IF Cardinality(ks) # Len(e.items) THEN Same(FALSE, "iteration yields a key twice")
             ELSE IF ks # DOMAIN dd.m
                  THEN SetD(FALSE, "iteration does not yield exactly the keys present", e.id, [dd EXCEPT !.m = after])
             ELSE IF e.op = "d_items" /\ \E i \in DOMAIN e.items : ~MatchSeq(dd.m[e.items[i].k], e.items[i].v)
                  THEN SetD(FALSE, "iteration yields other member values", e.id, [dd EXCEPT !.m = after])
             ELSE SetD(TRUE, "", e.id, [dd EXCEPT !.m = after])
    ELSE Same(FALSE, "unknown event")

Step(e) ==
    IF e.op = "pywrite_a" THEN
        IF e.res = "ok" THEN
            IF PyWriteAOk(D, e.id, e.v) THEN R(TRUE, "", [aval EXCEPT ![e.id][1] = e.v], hval, dval)
            ELSE Same(FALSE, "driver: array write outside the format or to a per-CPU variable")
        ELSE Same(~PyWriteAOk(D, e.id, e.v), "write of a representable value raised " \o e.res)
    ELSE IF e.op = "pyread_a" THEN
        IF e.res # "ok" THEN Same(FALSE, "read raised " \o e.res)
        ELSE IF ~ShapeA(e.id, e.v) THEN Same(FALSE, "read returned a value of another shape")
        ELSE R(PyReadAOk(D, aval, e.id, e.v), "read returned another value than stored", [aval EXCEPT ![e.id] = e.v], hval, dval)
    ELSE IF e.op = "pywrite_h" THEN
        IF e.res = "ok" THEN
            IF PyWriteHOk(D, e.id, e.v) THEN R(TRUE, "", aval, [hval EXCEPT ![e.id] = e.v], dval)
            ELSE Same(FALSE, "driver: hash write outside the format")
        ELSE Same(~PyWriteHOk(D, e.id, e.v), "write of a representable value raised " \o e.res)
    ELSE IF e.op = "pyread_h" THEN
        IF e.res # "ok" THEN Same(FALSE, "read raised " \o e.res)
        ELSE IF ~IsWord(e.v) THEN Same(FALSE, "read returned no number")
        \* a cell left unspecified (a program stored a number its format cannot represent: the cell is
        \* wider than the format, the two sides need not see the same part of it) stays unspecified
        ELSE R(PyReadHOk(D, hval, e.id, e.v), "read returned another value than stored", aval,
               [hval EXCEPT ![e.id] = IF @ = Unknown THEN Unknown ELSE e.v], dval)
    ELSE IF e.op = "run" THEN
        IF e.res = "ok" THEN LET S == Run(D, aval, hval, dval, e.cpu) IN R(TRUE, "", S.a, S.h, S.d)
        ELSE R(FALSE, "program run failed: " \o e.res, HavocA(D), HavocH(D), HavocD(D))
    ELSE IF e.op = "structs" THEN
        LET areas == [i \in DOMAIN e.items |-> [pos |-> e.items[i].base, size |-> e.items[i].total]] IN
        Same(e.res = "ok" /\ (\A i \in DOMAIN e.items : StructOk(e.items[i])) /\ Disjoint(areas),
             "Structure layouts of Python and program differ")
    ELSE DictStep(e)

TInit == /\ tid \in 1 .. Len(Traces) /\ l = 1
         /\ aval = AInit(Traces[tid].decl) /\ hval = HInit(Traces[tid].decl) /\ dval = DInit(Traces[tid].decl)
TNext == /\ l <= Len(Traces[tid].ev)
         /\ l' = l + 1 /\ UNCHANGED tid
         /\ LET r == Step(Ev) IN
              /\ aval' = r.a /\ hval' = r.h /\ dval' = r.d
              /\ (r.ok \/ PrintT(<<"REJECT", tid, l, r.why, Expected(Ev)>>))
TSpec == TInit /\ [][TNext]_tvars

Max2(a, b) == IF a > b THEN a ELSE b
Progress == TLCSet(tid, Max2(TLCGet(tid), l))
ASSUME \A i \in 1 .. Len(Traces) : TLCSet(i, 0)
Post == \A i \in 1 .. Len(Traces) : PrintT(<<"RESULT", i, TLCGet(i) - 1, Len(Traces[i].ev)>>)
=============================================================================
