SPECIFICATION Spec
CONSTANTS MaxTotal = 1
INVARIANT Emit
CHECK_DEADLOCK FALSE
