--------------------------- MODULE BpfCallsTrace ---------------------------
(* Trace validation for C10.  A trace is [possible |-> the possible-CPU ranges <<lo, hi>> of the (real or simulated) host,
   ev |-> the events recorded by harness/fakekernel.py at ebpfcat.bpf.bpf, in order].  The only
   state is the map registry; every map command is judged by BpfCalls!Accept against it.  A
   rejected call does not end the validation of its trace (the registry is unaffected by calls):
   each one is printed, so that one TLC run reports every overrun of every trace.               *)
EXTENDS BpfCalls, Json, IOUtils, TLCExt
Traces == JsonDeserialize(IOEnv.TRACE_FILE)
VARIABLES tid, l
tvars == <<bvars, tid, l>>
Ev == Traces[tid].ev[l]

TInit == /\ tid \in 1 .. Len(Traces) /\ l = 1 /\ BInit(CountCpus(Traces[tid].possible, 1))
Reject(e, why) == PrintT(<<"REJECT", tid, l, why>>)
TNext == /\ l <= Len(Traces[tid].ev)
         /\ l' = l + 1 /\ UNCHANGED <<tid, ncpu>>
         /\ LET e == Ev IN
            IF e.op = "create" THEN
                IF e.res # "ok" THEN UNCHANGED maps                 \* refused by the kernel: no map
                ELSE IF e.fd \in DOMAIN maps THEN Reject(e, "descriptor registered twice") /\ UNCHANGED maps
                ELSE maps' = (e.fd :> [type |-> e.type, ks |-> e.ks, vs |-> e.vs, max |-> e.max]) @@ maps
            ELSE IF e.op \in Ops THEN
                /\ UNCHANGED maps
                /\ IF Accept(e) THEN TRUE
                   ELSE Reject(e, IF e.op = "next" /\ e.nextbuf < maps[e.fd].ks THEN "next-key buffer too small"
                                  ELSE IF e.op # "delete" /\ e.op # "next" /\ ~ValOk(e) THEN "value buffer too small"
                                  ELSE "key buffer too small")
            ELSE UNCHANGED maps                                      \* mmap, prog_load: no obligation
TSpec == TInit /\ [][TNext]_tvars

Max2(a, b) == IF a > b THEN a ELSE b
Progress == TLCSet(tid, Max2(TLCGet(tid), l))
ASSUME \A i \in 1 .. Len(Traces) : TLCSet(i, 0)
Post == \A i \in 1 .. Len(Traces) : PrintT(<<"RESULT", i, TLCGet(i) - 1, Len(Traces[i].ev)>>)
=============================================================================
