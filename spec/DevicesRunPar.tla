--------------------------- MODULE DevicesRunPar ---------------------------
(* X07 - DevicesRun with the verdict computed in a step instead of on the initial state: TLC
   evaluates initial states (and invariants on them) in one thread, whereas steps are shared by
   the workers, so one TLC process judges the cases of a batch in parallel.                     *)
EXTENDS DevicesRun
VARIABLE phase
PInit == Init /\ phase = 0
PNext == phase = 0 /\ phase' = 1 /\ UNCHANGED cid /\ (Observe = TRUE)
=============================================================================
