---------------------------- MODULE ValveConfigScripts ----------------------------
(* Environment behaviours for C27 in which the valve is reconfigured during the history: as
   ValveScripts (normal form SetTarget ; Switches ; [Advance] ; Update per cycle, letters "full"
   = all 8 target/switch combinations or "three-switch" = every target with confirmed closed /
   confirmed open / no switch), and a cycle may begin with one reconfiguration step - a new moving
   time from NewMts or a new safe state from NewSafes.  (Where in the cycle it stands does not
   matter: only the update looks at the configuration.)  Every history with MinChanges ..
   MaxChanges reconfigurations is printed once.                                                 *)
EXTENDS Integers, Sequences, TLC, Json
CONSTANTS NCycles, Dts, Mode, NewMts, NewSafes, MinChanges, MaxChanges
VARIABLES hist, n, used
Letters == IF Mode = "full" THEN {<<v, o, c>> : v, o, c \in BOOLEAN}
           ELSE {<<v, s[1], s[2]>> : v \in BOOLEAN,
                                     s \in {<<FALSE, TRUE>>, <<TRUE, FALSE>>, <<FALSE, FALSE>>}}
Changes == {<<[op |-> "movingtime", mt |-> m]>> : m \in NewMts}
           \cup {<<[op |-> "safestate", s |-> b]>> : b \in NewSafes}
Cycle(l, dt) ==
    <<[op |-> "target", v |-> l[1]], [op |-> "switches", o |-> l[2], c |-> l[3]]>>
    \o (IF dt > 0 THEN <<[op |-> "advance", dt |-> dt]>> ELSE <<>>)
    \o <<[op |-> "update"]>>
SInit == hist = <<[op |-> "reset"]>> /\ n = 0 /\ used = 0
SNext == /\ n < NCycles
         /\ n' = n + 1
         /\ \E l \in Letters, dt \in Dts :
              \/ hist' = hist \o Cycle(l, dt) /\ used' = used
              \/ /\ used < MaxChanges /\ used' = used + 1
                 /\ \E ch \in Changes : hist' = hist \o ch \o Cycle(l, dt)
SSpec == SInit /\ [][SNext]_<<hist, n, used>>
Emit == (n = NCycles /\ used >= MinChanges) => PrintT(<<"SCRIPT", ToJson(hist)>>)
=============================================================================
