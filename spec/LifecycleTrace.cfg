SPECIFICATION TSpec
CONSTANTS Terms = {1, 2, 3}
          MaxCancel = 9
          Protected = TRUE
CONSTRAINT Progress
POSTCONDITION Post
CHECK_DEADLOCK FALSE
