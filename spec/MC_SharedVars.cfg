SPECIFICATION MSpec
CONSTANTS Clients = {"parent", "child"}
          ArrayLen = 4
INVARIANTS Refines
CHECK_DEADLOCK FALSE
