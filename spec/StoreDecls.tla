----------------------------- MODULE StoreDecls -----------------------------
(* Declaration sets for C08, enumerated by TLC and replayed on the real classes.

   A declaration set spreads at most MaxVars array-map variables over
     base     - a base class of the program class
     derived  - the program class itself
     redecl   - at most one variable of the program class that re-declares the NAME of a base
                class variable with a format of its own (it shadows the base declaration)
     sub      - a SubProgram class, instantiated nsub (1 or 2) times
   Within a place the formats are kept in non-decreasing index order (the places are sets of
   declarations; orderings within a class body are varied by the driver).  For every such set and
   every admissible choice of options one record is printed:
     nsub   instances of the sub-program class (0 when it declares nothing)
     mapin  the class whose body holds the map object itself: "base" or "derived"              *)
EXTENDS Integers, Sequences, TLC, Json
CONSTANT Configs       \* sequence of [fmts |-> sequence of formats [n, c], maxvars, places]: one
                       \* enumeration per entry, all in one run
VARIABLES d, cf
Fmts == Configs[cf].fmts
MaxVars == Configs[cf].maxvars
Places == Configs[cf].places
F == 1 .. Len(Fmts)
Total(x) == Len(x.base) + Len(x.derived) + Len(x.redecl) + Len(x.sub)
LastOk(s, f) == IF Len(s) = 0 THEN TRUE ELSE s[Len(s)] <= f
DInit == /\ d = [base |-> <<>>, derived |-> <<>>, redecl |-> <<>>, sub |-> <<>>]
         /\ cf \in DOMAIN Configs
DNext == /\ Total(d) < MaxVars
         /\ UNCHANGED cf
         /\ \E f \in F :
              \/ /\ "base" \in Places /\ d.derived = <<>> /\ d.redecl = <<>> /\ d.sub = <<>>
                 /\ LastOk(d.base, f)
                 /\ d' = [d EXCEPT !.base = Append(@, f)]
              \/ /\ "derived" \in Places /\ d.redecl = <<>> /\ d.sub = <<>> /\ LastOk(d.derived, f)
                 /\ d' = [d EXCEPT !.derived = Append(@, f)]
              \/ /\ "redecl" \in Places /\ d.redecl = <<>> /\ d.sub = <<>>
                 /\ \E i \in DOMAIN d.base :
                       /\ (IF i = 1 THEN TRUE ELSE d.base[i - 1] # d.base[i])   \* equal formats: the first
                       /\ d' = [d EXCEPT !.redecl = <<[of |-> i, f |-> f]>>]
              \/ /\ "sub" \in Places /\ LastOk(d.sub, f)
                 /\ d' = [d EXCEPT !.sub = Append(@, f)]
DSpec == DInit /\ [][DNext]_<<d, cf>>
Options == {[nsub |-> n, mapin |-> m] :
              n \in (IF d.sub = <<>> THEN {0} ELSE {1, 2}),
              m \in (IF d.base = <<>> THEN {"derived"} ELSE {"base", "derived"})}
Fm(f) == Fmts[f]
Decl(o) == [base |-> [i \in DOMAIN d.base |-> Fm(d.base[i])],
            derived |-> [i \in DOMAIN d.derived |-> Fm(d.derived[i])],
            redecl |-> [i \in DOMAIN d.redecl |-> [of |-> d.redecl[i].of, f |-> Fm(d.redecl[i].f)]],
            sub |-> [i \in DOMAIN d.sub |-> Fm(d.sub[i])],
            nsub |-> o.nsub, mapin |-> o.mapin]
Emit == Total(d) >= 1 => \A o \in Options : PrintT(<<"DECL", ToJson(Decl(o))>>)
=============================================================================
