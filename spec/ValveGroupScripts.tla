---------------------------- MODULE ValveGroupScripts ----------------------------
(* Environment behaviours for C27 with several Valve objects in one sync group: N valves, each
   with its own target and switches, one clock, one group update per cycle (which updates every
   valve).  The history starts with the resets: valve 1, then (after Stagger ticks, if any) the
   others.  Per cycle every valve gets a letter (target, open switch, closed switch) from
   Letters, then the clock may advance, then the group is updated.  Every combination is printed
   once, as the flat step list; `i` names the valve a step belongs to (0-based).  Each valve is
   judged on its own by an instance of Valve (the projection of the history to that valve).     *)
EXTENDS Integers, Sequences, TLC, Json
CONSTANTS N, NCycles, Dts, Mode, Staggers
VARIABLES hist, n
L(v, o, c) == [v |-> v, o |-> o, c |-> c]
Letters ==
    IF Mode = "full" THEN [v : BOOLEAN, o : BOOLEAN, c : BOOLEAN]
    ELSE IF Mode = "three-switch"        \* every target with: confirmed closed / open / no switch
    THEN {L(v, s[1], s[2]) : v \in BOOLEAN, s \in {<<FALSE, TRUE>>, <<TRUE, FALSE>>, <<FALSE, FALSE>>}}
    ELSE {L(FALSE, FALSE, TRUE),         \* "three": at rest closed and confirmed,
          L(TRUE, TRUE, FALSE),          \*          open and confirmed,
          L(TRUE, FALSE, FALSE)}         \*          asked to open and stuck between the switches
RECURSIVE Steps(_, _)
Steps(f, i) == IF i > N THEN <<>>
               ELSE <<[op |-> "target", i |-> i - 1, v |-> f[i].v],
                      [op |-> "switches", i |-> i - 1, o |-> f[i].o, c |-> f[i].c]>> \o Steps(f, i + 1)
Cycle(f, dt) == Steps(f, 1) \o (IF dt > 0 THEN <<[op |-> "advance", dt |-> dt]>> ELSE <<>>)
                \o <<[op |-> "update"]>>
Resets(st) == <<[op |-> "reset", i |-> 0]>>
              \o (IF st > 0 /\ N > 1 THEN <<[op |-> "advance", dt |-> st]>> ELSE <<>>)
              \o [k \in 1 .. (N - 1) |-> [op |-> "reset", i |-> k]]
SInit == n = 0 /\ \E st \in Staggers : hist = Resets(st)
SNext == /\ n < NCycles
         /\ n' = n + 1
         /\ \E f \in [1 .. N -> Letters], dt \in Dts : hist' = hist \o Cycle(f, dt)
SSpec == SInit /\ [][SNext]_<<hist, n>>
Emit == n = NCycles => PrintT(<<"SCRIPT", ToJson(hist)>>)
=============================================================================
