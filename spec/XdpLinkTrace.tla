---------------------------- MODULE XdpLinkTrace ----------------------------
(* Trace validation for X04.  A trace is one session of the REAL ebpfcat.xdp.XDP object (real
   XDRFD protocol, real EBPF.load / close, real prog_load when the kernel is usable) against a
   fake netlink endpoint:
     T.cfg     <<[ifx, native]>>    the interfaces of the fake kernel
     T.nmaps   number of maps whose load is observed
     T.ev      call(op, ifx, flags, how) | load(fd, img, n) | loadfail(errno, img, n, scripted) | mapload(m) | open(s)
               | openfail(errno) | send(s, b, forced, kres, kskb, kdrv) | sendfail(s, b, errno)
               | recv(s, b) | sclose(s) | close(fd) | closenone | cancel | cberr(s, exctype)
               | ret(out)
   Every event must be the XdpLink action of the same name with the observed values; the fake
   kernel is judged too (send: its verdict and interface state are KSet's; recv: what it
   delivers as acknowledgement is what it owes).

   Observations (behaviours of /repo that break a requirement; reported, not patched) are
   recognised HERE by narrow predicates and printed as <<"OBS", tid, l, class>>; the step is
   then accepted so that the rest of the session is still judged:
     errno_sign    the OSError raised for the kernel's error -e has errno = -e (negative)
     anyack        the call completed on a message that is not the acknowledgement of its
                   request (the genuine one had not arrived): outcome differs from the kernel's
     cancel_enter  entering `run` was cancelled after the request went out: the program stays
                   attached and nothing detaches it
     left_attached entering `run` raised although the kernel attached the program, or leaving
                   it returned although the kernel refused to detach (both follow from
                   anyack): the program stays attached
     reload        a load while a descriptor is open leaves that descriptor without a handle
     reassemble    a second load of the same object hands the kernel another program than the
                   first: assemble() appends the program once more to the first copy (the
                   real kernel then refuses it: unreachable instructions)
     cb_raise      an exception escapes from datagram_received into the event loop when the
                   acknowledgement arrives for a call that has just been cancelled          *)
EXTENDS XdpLink, Json, IOUtils, TLCExt

Traces == JsonDeserialize(IOEnv.TRACE_FILE)
VARIABLES tid, l
tvars == <<xvars, tid, l>>
T == Traces[tid]

TInit == /\ tid \in 1 .. Len(Traces) /\ l = 1
         /\ Init(T.cfg, T.nmaps)

Obs(class) == PrintT(<<"OBS", tid, l, class>>)

(* the call completed although the acknowledgement of its request has not been delivered,
   after a message that is not the acknowledgement *)
NoisyEnd == /\ ~cl.cancel /\ cl.fail = 0 /\ cl.op \in NetOps
            /\ cl.prim # 0 /\ socks[cl.prim].sent /\ ~socks[cl.prim].acked /\ socks[cl.prim].noise
SignOnly(out) == /\ ~cl.cancel /\ cl.fail = 0 /\ cl.op \in NetOps /\ Answered /\ Verdict < 0
                 /\ out.res = "oserror" /\ out.errno = Verdict
ReloadOnly(out) == /\ cl.nloads = 1 /\ Leaked(out) # {} /\ Leaked(out) \subseteq cl.pre

TRet(out) ==
    LET xo == IF OutOk(out) THEN "" ELSE IF SignOnly(out) THEN "errno_sign"
              ELSE IF NoisyEnd THEN "anyack" ELSE "no"
        xl == IF LeakOk(out) THEN "" ELSE IF ReloadOnly(out) THEN "reload" ELSE "no"
        xr == IF RunOk(out) THEN ""
              ELSE IF cl.op = "enter" /\ cl.cancel /\ cl.prim # 0 THEN "cancel_enter"
              ELSE IF cl.op \in {"enter", "exit"} /\ NoisyEnd THEN "left_attached" ELSE "no"
    IN /\ xo # "no" /\ xl # "no" /\ xr # "no"
       /\ xo # "" => Obs(xo)
       /\ xl # "" => Obs(xl)
       /\ xr # "" => Obs(xr)
       /\ RetWith(out, xo # "", xl # "", xr # "")

(* R: protocol callbacks do not raise into the loop.  Recognised: the acknowledgement of a
   cancelled call hits the cancelled future. *)
TCbErr(e) == /\ Running /\ cl.cancel /\ e.exctype = "InvalidStateError"
             /\ e.s \in 1 .. Len(socks) /\ socks[e.s].acked
             /\ Obs("cb_raise")
             /\ UNCHANGED xvars

(* R11.  Recognised: the program given to a later prog_load is longer than the first one
   (assemble() has generated it once more behind the first copy) *)
Grown(e) == image # 0 /\ e.img # image /\ e.n > 0
TLoad(e) == IF SameImage(e.img) THEN Load(e.fd, e.img)
            ELSE Grown(e) /\ Obs("reassemble") /\ LoadWith(e.fd, e.img, TRUE)
TLoadFail(e) == IF SameImage(e.img) THEN LoadFail(e.errno, e.img)
                ELSE Grown(e) /\ Obs("reassemble") /\ LoadFailWith(e.errno, e.img, TRUE)

TSend(e) == /\ Send(e.s, e.b, e.forced)
            /\ socks'[e.s].res = e.kres                         \* R10
            /\ ifs'[ReqIndex(e.b)] = [skb |-> e.kskb, drv |-> e.kdrv]

TNext ==
    /\ l <= Len(T.ev)
    /\ l' = l + 1 /\ UNCHANGED tid
    /\ LET e == T.ev[l] IN
         \/ e.e = "call" /\ Call(e.op, e.ifx, e.flags, e.how)
         \/ e.e = "load" /\ TLoad(e)
         \/ e.e = "loadfail" /\ TLoadFail(e)
         \/ e.e = "mapload" /\ MapLoad(e.m)
         \/ e.e = "open" /\ e.fam = 16 /\ e.proto = 0 /\ Open(e.s)     \* AF_NETLINK, NETLINK_ROUTE
         \/ e.e = "openfail" /\ OpenFail(e.errno)
         \/ e.e = "send" /\ TSend(e)
         \/ e.e = "sendfail" /\ SendFail(e.s, e.b, e.errno)
         \/ e.e = "recv" /\ Recv(e.s, e.b)
         \/ e.e = "sclose" /\ SClose(e.s)
         \/ e.e = "close" /\ Close(e.fd)
         \/ e.e = "closenone" /\ CloseNone
         \/ e.e = "cancel" /\ Cancel
         \/ e.e = "cberr" /\ TCbErr(e)
         \/ e.e = "ret" /\ TRet(e.out)

TSpec == TInit /\ [][TNext]_tvars

Max2(a, b) == IF a > b THEN a ELSE b
Progress == TLCSet(tid, Max2(TLCGet(tid), l))
ASSUME \A i \in 1 .. Len(Traces) : TLCSet(i, 0)
Post == \A i \in 1 .. Len(Traces) : PrintT(<<"RESULT", i, TLCGet(i) - 1, Len(Traces[i].ev)>>)
=============================================================================
