---------------------------- MODULE ParallelScripts ----------------------------
(* Schedules for C23: every behaviour of the protocol model Parallel with at most MaxPre
   preemptions (exhaustive search), or random behaviours (-simulate), recorded in `hist`.
   A behaviour is cut at the first state that violates the property and printed as
   <<"VIOL", names of the violated invariants, schedule>>; behaviours that run to the end
   without a violation are printed as <<"SCHEDULE", schedule>>.                               *)
EXTENDS Parallel, Json
VARIABLES hist
svars == <<pvars, hist>>
Unbounded == -1

SInit == PInit /\ hist = <<>>
SNext == /\ Violated = {}
         /\ PNext
         /\ hist' = Append(hist, last')
SSpec == SInit /\ [][SNext]_svars

Complete == \A p \in Procs : loc[p].pc \in Final
Emit == /\ Violated # {} => PrintT(<<"VIOL", Violated, ToJson(hist)>>)
        /\ (Violated = {} /\ Complete) => PrintT(<<"SCHEDULE", ToJson(hist)>>)
=============================================================================
