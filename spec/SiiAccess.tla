----------------------------- MODULE SiiAccess -----------------------------
(* X02 - the EEPROM (SII) access protocol between the master and the slave controller (ESC),
   one level below C17: every access to the SII registers 0x0500 .. 0x050F is one step.

   WHAT IS SPECIFIED
     ebpfcat/ethercat.py  EtherCat.eeprom_read, Terminal._eeprom_read_one,
     Terminal.eeprom_write_one, Terminal.read_eeprom (and its inner get_data).

   THE ESC SIDE (environment; semantics the code itself relies on: it polls bit 15, tests
   bit 6, writes 0x0100 / 0x0201 with the address (and the data word) in one datagram and
   clears the command register with a write of 0; the remaining bits are the ESC's SII
   register description those constants come from):
     0x0500  bit 0: the EEPROM is assigned to the PDI (the slave's own processor);
             bit 1: force - the master resets the PDI's access bit 0x0501.0.
     0x0501  bit 0: the PDI has taken the access (read-only for the master).
             The master has the interface iff both bits are 0; otherwise its writes to
             0x0502 .. 0x050F have no effect.
     0x0502  bit 0 write enable (valid for the command written in the same datagram, reads 0,
             or 1 while the PDI has control), bit 6: a read command loads 8 bytes (else 4);
     0x0503  bits 0-2 (8-10 of the word): command, written: 0 clear the error bits 13/14,
             1 read, 2 write (executed only with write enable, else bit 14), 4 reload,
             anything else: bit 13; read back: the command in execution, 0 when it is over.
             bit 3 (11) checksum error, bit 4 (12) device information not loaded: status of
             the ESC's own configuration area, persistent, independent of the commands (an
             EEPROM with a bad checksum is read and written like any other: that is how it
             is repaired);
             bit 5 (13) the last command failed (no acknowledge of the EEPROM / invalid
             command); bit 6 (14) write command without write enable; bit 7 (15) busy.
             While bit 13 is pending a `sticky` ESC ignores every command except 0, other
             ESCs let any valid command clear it.  (Both kinds exist; a master has to work
             with both.)
     0x0504  EEPROM word address (32 bit), 0x0508 data (8 bytes; a 4-byte interface loads
             only the first 4).  Both are write-protected while the interface is busy.
     An accepted command makes the interface busy for as many status polls as it likes
     (at most MaxBusy in the bounded model) and ends either well (read: data := EEPROM bytes
     [2a, 2a+4|8); write: EEPROM bytes [2a, 2a+2) := data[0..1]) or with bit 13 (nothing
     loaded or stored; the data register is undefined then, as it is while busy: Garbage).

   REQUIREMENTS ON THE MASTER (with their sources)
     M1  no write to 0x0502 .. 0x050F while the interface is busy (ESC: such a write is
         dropped - the master would wait for a command that was never started).   [task text:
         "the master waits while busy and never issues a command while the interface is busy"]
     M2  no write to 0x0502 .. 0x050F while the PDI has the EEPROM (ESC: dropped) - the master
         assigns the interface to itself first (0x0500).                   [consistency; O3]
     M3  frame: a SII call accesses nothing outside 0x0500 .. 0x050F.       [consistency]
     R1  EtherCat.eeprom_read(pos, a) ("read 4 bytes from the eeprom of terminal *position* at
         *start*") returns EEPROM bytes [2a, 2a+4); Terminal._eeprom_read_one(a) ("read 8
         bytes from the eeprom at `start`") returns bytes [2a, 2a+8), whatever the busy
         durations and whether the ESC loads 4 or 8 bytes per command.        [docstrings]
     R2  an error bit (13/14) shown by the ESC is not taken for data: a read returns the
         EEPROM's bytes or raises; it raises only if the ESC showed an error (or the PDI has
         the EEPROM).                                                      [consistency; O1]
     R3  Terminal.eeprom_write_one(a, w) ("write 2 bytes to the eeprom at `start`") returns
         when the EEPROM holds w (little endian) at bytes [2a, 2a+2) and nothing else has
         changed, the interface being idle again ("waits for completion"); a missing
         acknowledge is retried or raised, never dropped.                  [docstring; O2]
     R4  Terminal.read_eeprom() ("read the entire eeprom") leaves vendorId, productCode,
         revisionNo, serialNo (words 8..15) and every category up to the end marker 0xFFFF in
         the object exactly as stored (SiiImage), for images whose categories end on and off
         4/8-byte boundaries.                                              [docstring, C17]
     R5  every call returns (or raises) after finitely many accesses, for every well-formed
         image and every finite busy duration: a `stall` is never acceptable.  [no hang]
     R6  read calls leave the EEPROM as it was.                            [consistency]

   OBSERVATIONS (behaviours of /repo that break a requirement; every trace is also validated
   under the relaxations whose predicate holds for it, see SiiAccessTrace):
     O1  the read functions never look at bits 13/14: after a failed read command the
         undefined data register is returned as EEPROM contents (breaks R2).
     O2  eeprom_write_one repeats the write for ever while bit 11 or 12 is set
         (`while busy & 0xff00`, ethercat.py:795): these bits do not belong to the command; the
         word is written again and again (breaks R3/R5).
     O3  nothing in the package ever writes 0x0500: with the EEPROM assigned to the PDI every
         command is dropped, reads return the stale data register and eeprom_write_one
         returns without having written (breaks M2, R1, R3).

   The reference master that meets M1-R6 is in MC_SiiAccess (checked exhaustively against
   this ESC); traces of the real code are validated by SiiAccessTrace.                     *)
EXTENDS SiiImage, TLC

CONSTANTS MaxBusy

VARIABLES ee,       \* the EEPROM contents (bytes); changed only by a write command that ends well
          esc,      \* the ESC's SII interface
          cl        \* the master side: the call in progress and what it has been shown
avars == <<ee, esc, cl>>

Garbage == -1
G(n) == [k \in 1 .. n |-> Garbage]
RegLo == 1280       \* 0x0500
RegCtl == 1282      \* 0x0502
RegCmd == 1283      \* 0x0503
RegHi == 1296       \* 0x0510
Bit(w, b) == (w \div b) % 2 = 1
T4(f) == <<f[1], f[2], f[3], f[4]>>
T8(f) == <<f[1], f[2], f[3], f[4], f[5], f[6], f[7], f[8]>>

(* ---------------------------------------------------------------------------------------- *)
(* the ESC                                                                                   *)
EscOf(cap8, sticky, own, ck, dev, initbusy) ==
    [cap8 |-> cap8, sticky |-> sticky, ck |-> ck, dev |-> dev,
     cfg0 |-> IF own > 0 THEN 1 ELSE 0, force |-> 0, pdiacc |-> IF own = 2 THEN 1 ELSE 0,
     busy |-> initbusy, cmd |-> IF initbusy THEN 1 ELSE 0, ticks |-> 0,
     addr |-> <<0, 0, 0, 0>>, data |-> T8(G(8)), eAck |-> FALSE, eWE |-> FALSE]

EcatOwns(e) == e.cfg0 = 0 /\ e.pdiacc = 0
Width(e) == IF e.cap8 THEN 8 ELSE 4
InRange(e) == e.addr[3] = 0 /\ e.addr[4] = 0
WordAddr(e) == e.addr[1] + 256 * e.addr[2]

Status0(e) == (IF e.cfg0 = 1 THEN 1 ELSE 0) + (IF e.cap8 THEN 64 ELSE 0)
Status1(e) == e.cmd + (IF e.ck THEN 8 ELSE 0) + (IF e.dev THEN 16 ELSE 0)
              + (IF e.eAck THEN 32 ELSE 0) + (IF e.eWE THEN 64 ELSE 0)
              + (IF e.busy THEN 128 ELSE 0)
RegByte(e, x) == CASE x = 1280 -> e.cfg0 + 2 * e.force
                   [] x = 1281 -> e.pdiacc
                   [] x = 1282 -> Status0(e)
                   [] x = 1283 -> Status1(e)
                   [] x \in 1284 .. 1287 -> e.addr[x - 1283]
                   [] x \in 1288 .. 1295 -> e.data[x - 1287]
RegBytes(e, off, n) == [k \in 1 .. n |-> RegByte(e, off + k - 1)]
(* what a read of the registers off .. off+Len(d)-1 may show: d, wherever the ESC defines it *)
Shows(e, off, d) == \A k \in 1 .. Len(d) :
                       LET b == RegByte(e, off + k - 1) IN b = Garbage \/ b = d[k]

(* the end of a command: f = it failed (no acknowledge) *)
Loaded(e, img) == T8((IF InRange(e) THEN ImageBytes(img, 2 * WordAddr(e), Width(e))
                      ELSE [k \in 1 .. Width(e) |-> 255]) \o G(8 - Width(e)))
Stored(e, img) == IF InRange(e) /\ 2 * WordAddr(e) + 2 <= Len(img)
                  THEN [img EXCEPT ![2 * WordAddr(e) + 1] = e.data[1],
                                   ![2 * WordAddr(e) + 2] = e.data[2]]
                  ELSE img
Fin(e, img, f) ==
    LET base == [e EXCEPT !.busy = FALSE, !.cmd = 0, !.ticks = 0] IN
    IF f THEN [esc |-> [base EXCEPT !.eAck = TRUE, !.data = IF e.cmd = 1 THEN T8(G(8)) ELSE @],
               ee |-> img]
    ELSE IF e.cmd = 1 THEN [esc |-> [base EXCEPT !.data = Loaded(e, img)], ee |-> img]
    ELSE IF e.cmd = 2 THEN [esc |-> base, ee |-> Stored(e, img)]
    ELSE [esc |-> base, ee |-> img]
(* what the interface may have become when the master looks at it the next time *)
Outcomes(e, img) ==
    IF e.busy
    THEN (IF e.ticks < MaxBusy THEN {[esc |-> [e EXCEPT !.ticks = @ + 1], ee |-> img]} ELSE {})
         \cup {Fin(e, img, f) : f \in BOOLEAN}
    ELSE {[esc |-> e, ee |-> img]}

(* a write datagram of the bytes d to the registers off ..: configuration first, then address
   and data, then the command (the ESC executes the command at the end of the frame)        *)
Cov(off, d, x) == off <= x /\ x < off + Len(d)
At(off, d, x) == d[x - off + 1]
W1(e, off, d) ==
    IF Cov(off, d, 1280)
    THEN LET b == At(off, d, 1280) IN
         [e EXCEPT !.cfg0 = b % 2, !.force = (b \div 2) % 2,
                   !.pdiacc = IF (b \div 2) % 2 = 1 THEN 0 ELSE @]
    ELSE e
W2(e, off, d) ==
    IF EcatOwns(e) /\ ~e.busy
    THEN [e EXCEPT !.addr = T4([k \in 1 .. 4 |-> IF Cov(off, d, 1283 + k) THEN At(off, d, 1283 + k)
                                                 ELSE e.addr[k]]),
                   !.data = T8([k \in 1 .. 8 |-> IF Cov(off, d, 1287 + k) THEN At(off, d, 1287 + k)
                                                 ELSE e.data[k]])]
    ELSE e
W3(e, off, d) ==
    IF ~Cov(off, d, RegCmd) \/ ~EcatOwns(e) \/ e.busy THEN e
    ELSE LET c == At(off, d, RegCmd) % 8
             we == Cov(off, d, RegCtl) /\ At(off, d, RegCtl) % 2 = 1 IN
         IF c = 0 THEN [e EXCEPT !.eAck = FALSE, !.eWE = FALSE]
         ELSE IF e.eAck /\ e.sticky THEN e
         ELSE IF c = 1 \/ c = 4 \/ (c = 2 /\ we)
              THEN [e EXCEPT !.busy = TRUE, !.cmd = c, !.ticks = 0, !.eAck = FALSE, !.eWE = FALSE,
                             !.data = IF c = 1 THEN T8(G(8)) ELSE @]
         ELSE IF c = 2 THEN [e EXCEPT !.eWE = TRUE, !.eAck = FALSE]
         ELSE [e EXCEPT !.eAck = TRUE]
EscWrite(e, off, d) == W3(W2(W1(e, off, d), off, d), off, d)

TouchesSii(off, d) == off + Len(d) > RegCtl /\ off < RegHi
Blocked(e, off, d) == TouchesSii(off, d) /\ e.busy                          \* breaks M1
Disowned(e, off, d) == TouchesSii(off, d) /\ ~EcatOwns(W1(e, off, d))       \* breaks M2
InWindow(off, n) == RegLo <= off /\ off + n <= RegHi                        \* M3

(* ---------------------------------------------------------------------------------------- *)
(* the master side: a call, the accesses it makes, its end                                   *)
ClIdle == [pc |-> "idle", op |-> "", a |-> 0, v |-> <<>>, sawErr |-> FALSE, breach |-> "",
           disowned |-> FALSE, ee0 |-> <<>>, res |-> [ok |-> TRUE]]
Ops == {"read4", "read8", "write", "image"}

Call(op, a, v) == /\ cl.pc = "idle"
                  /\ cl' = [ClIdle EXCEPT !.pc = "run", !.op = op, !.a = a, !.v = v, !.ee0 = ee]
                  /\ UNCHANGED <<ee, esc>>
(* a read of n registers from off; r \in Outcomes(esc, ee) is what the interface became *)
DoRead(r, off, n) ==
    /\ cl.pc = "run" /\ InWindow(off, n)
    /\ esc' = r.esc /\ ee' = r.ee
    /\ cl' = [cl EXCEPT !.sawErr = @ \/ (off <= RegCmd /\ RegCmd < off + n
                                         /\ (r.esc.eAck \/ r.esc.eWE))]
DoWrite(off, d) ==
    /\ cl.pc = "run" /\ InWindow(off, Len(d))
    /\ esc' = EscWrite(esc, off, d) /\ UNCHANGED ee
    /\ cl' = [cl EXCEPT !.breach = IF @ # "" THEN @
                                   ELSE IF Blocked(esc, off, d) THEN "busy"
                                   ELSE IF Disowned(esc, off, d) THEN "owner" ELSE "",
                        !.disowned = @ \/ Disowned(esc, off, d)]
Return(res) == /\ cl.pc = "run"
               /\ cl' = [cl EXCEPT !.pc = "done", !.res = res]
               /\ UNCHANGED <<ee, esc>>
NextCall == cl.pc = "done" /\ cl' = ClIdle /\ UNCHANGED <<ee, esc>>

(* ---- what a call has to deliver (R1, R3, R4, R6) ---- *)
Patch(img, a, v) == IF 2 * a + 2 <= Len(img)
                    THEN [img EXCEPT ![2 * a + 1] = v[1], ![2 * a + 2] = v[2]] ELSE img
Delivered(c, img, e, r) ==
    CASE c.op = "read4" -> r.data = ImageBytes(img, 2 * c.a, 4) /\ img = c.ee0
      [] c.op = "read8" -> r.data = ImageBytes(img, 2 * c.a, 8) /\ img = c.ee0
      [] c.op = "write" -> img = Patch(c.ee0, c.a, c.v) /\ ~e.busy
      [] c.op = "image" -> /\ img = c.ee0
                           /\ LET w == Categories(img) IN w.ok /\ r.cats = w.cats
                           /\ r.id = Identity(img)
(* R2: raising is an answer only to an error shown by the ESC, or to an EEPROM the master
   does not have *)
MayRaise(c, e) == c.sawErr \/ c.disowned \/ ~EcatOwns(e)
EndOK(c, img, e, r) == IF r.ok THEN Delivered(c, img, e, r) ELSE MayRaise(c, e)

(* requirements as state predicates (for the exhaustive model) *)
NoBreach == cl.breach = ""
Correct == cl.pc = "done" => EndOK(cl, ee, esc, cl.res)
ATypeOK == /\ esc.busy \in BOOLEAN /\ esc.cmd \in {0, 1, 2, 4} /\ esc.ticks \in 0 .. MaxBusy
           /\ Len(esc.addr) = 4 /\ Len(esc.data) = 8
           /\ (esc.busy <=> esc.cmd # 0)
           /\ cl.pc \in {"idle", "run", "done"}
=============================================================================
