SPECIFICATION TSpec
CONSTANTS MaxN = 4
          Logicals = {1, 2, 3, 4, 5, 6}
CONSTRAINT Progress
INVARIANTS NoSharing
           RegsAgree
POSTCONDITION Post
CHECK_DEADLOCK FALSE
