------------------------------- MODULE Parallel -------------------------------
(* C23 - processes sharing an interface coordinate the dispatcher safely.

   Shared state `sh` (what the operating system holds for all participants):
     lockdir  the membership directory /run/lock/ebpf.<if>.lock: [ex, m] - exists, the set of
              ethertype files <ethertype>.lock in it
     tmp      tmp[p]: p's temporary directory (0 absent, 1 empty, 2 holds p's ethertype file)
     pin      the table the pinned file /sys/fs/bpf/<if>/programs refers to, or None
     att      the dispatcher attached to the interface: [o |-> who attached it, t |-> the program
              table it uses], NoAtt when nothing is attached
     mbx      the mailbox lock file /run/ebpf/<if> exists
     fm       the FMMU bitmap file /run/ebpf/<if>.fmmu: [ex, len, bits] (bits = set bit numbers)
     holder   who holds the lockf lock on the bitmap file, or None
     mutex    who holds the flock on /run/lock/ebpf.<if>.mutex (ParallelEtherCat.interface_lock)
   Per participant `loc[p]`:
     ph       idle / starting / running / stopping / done / failed / crashed; "running" is the
              span between the end of the start sequence of ParallelEtherCat.run (the context is
              entered) and the beginning of its stop sequence
     inst     p is installing the dispatcher (create_map done, obj_pin not yet)
     eth      the ethertype p uses (ec.ethertype); win: its FMMU window (base_addr >> 22);
     tab      the table p's handle (ec.programs) refers to
     pc, own, amap, addr   program counter and locals of the protocol below

   THE PROPERTY is the four invariants OneInstaller, DispatcherUp, EthDistinct, WindowsDistinct
   (state predicates over sh and ph/inst/eth/win).  They are evaluated
     - on the protocol model below (what ParallelEtherCat.run / FMMULock do, one step per
       system call, in the order the code performs them) - TLC explores all interleavings and
       reports the interleavings that break the property;
     - on the states observed from the real code under those interleavings (ParallelTrace).

   Protocol switches (the repaired protocol is Mutex = LockedInit = TRUE; the earlier ones stay
   available as adversaries - TLC finds in them the interleavings a regression would reopen):
     Mutex       the start block and the stop block of run() are each executed under
                 interface_lock(): open + flock before, close after (also when an exception leaves)
     LockedInit  FMMULock: the creator of the bitmap allocates under the lockf lock like everybody
                 else; FALSE: it writes b'\2' + 63 zero bytes after open(O_EXCL) without the lock
     Bare        the participants only construct FMMULock(path) and later remove() it (the class
                 used on its own); only WindowsDistinct is meaningful then

   Environment: a participant may vanish between two calls (MaxCrash): crash (kill -9), or its
   task is cancelled while it awaits connect / attach / detach (CancelledError bypasses the
   `except Exception` handlers of run()); and the calls of
   the start-up that go to the kernel - connect (the raw socket), create_map, attach, obj_pin,
   obj_get - may FAIL with an OSError (MaxFault; f = TRUE in the step): the protocol's error
   handlers then run (first participant: shutil.rmtree(lockdir); joiner: os.remove(own file)),
   the exception leaves run(), and the property must still hold for everybody else.

   Each step is one gated call of the real code; Gate(pc) is the name of the call the
   participant is parked at.  Eff(p, c, f) is the effect of letting p run to its next gate; c is
   the value random.randrange hands out in that span (a new ethertype after FileExistsError, the
   FMMU window number), 0 where none is drawn.                                              *)
EXTENDS Integers, Sequences, FiniteSets, TLC

CONSTANTS Procs,        \* participants (strings)
          REth,         \* ethertypes randrange(0x3000, 0x6000) may return
          Addrs,        \* window numbers randrange(1, 512) may return
          MaxCrash,     \* participants that may crash (kill -9) between two operations
          MaxFault,     \* failing kernel-facing calls during start-ups
          MaxPre,       \* preemption bound; -1: unbounded
          Mutex, LockedInit, Bare      \* protocol switches, see above

Eth0 == 34980           \* 0x88A4, the class default every participant tries first
None == "none"
NoAtt == [o |-> None, t |-> None]
NoDir == [ex |-> FALSE, m |-> {}]
NoFm == [ex |-> FALSE, len |-> 0, bits |-> {}]

VARIABLES sh, loc, crashes, faults, pre, last
pvars == <<sh, loc, crashes, faults, pre, last>>

GateOf == [m_open |-> "open:mutex", m_lock |-> "lock:mutex", m_close |-> "close:mutex",
           s_mlock |-> "lock:mutex", s_rmown |-> "remove:own", s_mclose |-> "close:mutex",
           mx_fail |-> "close:mutex",
           mkdtemp |-> "mkdtemp", t_xopen |-> "xopen", rename |-> "rename",
           i_connect |-> "connect", j_connect |-> "connect",
           create_map |-> "create_map", i_rmpin |-> "remove:pin", attach |-> "attach",
           pinit |-> "pin", i_rmtree |-> "rmtree_lock",
           rmtree |-> "rmtree", j_xopen |-> "xopen", obj_get1 |-> "obj_get",
           obj_get2 |-> "obj_get", j_rmown |-> "remove:own",
           mbx_openx |-> "open_x:mbx", mbx_open |-> "open:mbx",
           fm_openx |-> "open_x:fmmu", fm_init |-> "write:fmmu", fm_open |-> "open:fmmu",
           fm_lock |-> "lock:fmmu", fm_read |-> "pread:fmmu", fm_zero |-> "pwrite:fmmu",
           fm_trunc |-> "trunc:fmmu", fm_set |-> "pwrite:fmmu", fm_unlock |-> "unlock:fmmu",
           running |-> "remove:own", rmdir |-> "rmdir", detach |-> "detach",
           s_rmpin |-> "remove:pin", mbx_rm |-> "remove:mbx",
           fr_lock |-> "lock:fmmu", fr_read |-> "pread:fmmu", fr_clear |-> "pwrite:fmmu",
           fr_unlock |-> "unlock:fmmu", fr_unlockx |-> "unlock:fmmu",
           done |-> "-", failed |-> "-", crashed |-> "-"]
Final == {"done", "failed", "crashed"}
Faultable == {"i_connect", "create_map", "attach", "pinit", "j_connect", "obj_get1", "obj_get2"}
(* the first call of the stop sequence depends on the protocol *)
Gate(pcv) == IF pcv # "running" THEN GateOf[pcv]
             ELSE IF Bare THEN "lock:fmmu" ELSE IF Mutex THEN "open:mutex" ELSE "remove:own"

Loc0 == [pc |-> IF Bare THEN "fm_openx" ELSE IF Mutex THEN "m_open" ELSE "mkdtemp", ph |-> "idle", inst |-> FALSE, eth |-> Eth0, win |-> 0, tab |-> None,
         own |-> 0, amap |-> {}, addr |-> 0]
Sh0 == [lockdir |-> NoDir, tmp |-> [p \in Procs |-> 0], pin |-> None, att |-> NoAtt,
        mbx |-> FALSE, fm |-> NoFm, holder |-> None, mutex |-> None]

ByteBits(k) == {8 * k + i : i \in 0 .. 7}
Max2(a, b) == IF a > b THEN a ELSE b
Failed(L) == [L EXCEPT !.pc = "failed", !.ph = "failed", !.inst = FALSE]

(* the values randrange may hand out in the span after p's current gate *)
ChoiceSet(p) ==
    LET L == loc[p] IN
    IF L.pc = "j_xopen" /\ sh.lockdir.ex /\ L.eth \in sh.lockdir.m THEN REth
    ELSE IF L.pc = "fm_read" /\ sh.fm.len >= 64 THEN Addrs \ sh.fm.bits   \* loops until a free one
    ELSE IF L.pc = "fm_trunc" THEN Addrs
    ELSE {0}

Eff0(p, c, f) ==
    LET L == loc[p]
        S == sh
        R(s, l) == [s |-> s, l |-> l]
        Held == Mutex /\ ~Bare
        \* an exception leaves run(): inside interface_lock() the descriptor is closed first
        Fail(l) == IF Held /\ S.mutex = p THEN [l EXCEPT !.pc = "mx_fail", !.inst = FALSE] ELSE Failed(l)
        \* the start sequence is over / the stop sequence is over
        Started(l) == IF Held THEN [l EXCEPT !.pc = "m_close"] ELSE [l EXCEPT !.pc = "running", !.ph = "running"]
        Stopped(l) == IF Held THEN [l EXCEPT !.pc = "s_mclose"] ELSE [l EXCEPT !.pc = "done", !.ph = "done"]
        RmOwn == IF S.lockdir.ex /\ L.own \in S.lockdir.m     \* os.remove(own ethertype file)
                 THEN R([S EXCEPT !.lockdir.m = @ \ {L.own}], [L EXCEPT !.pc = "rmdir", !.ph = "stopping"])
                 ELSE R(S, Fail([L EXCEPT !.ph = "stopping"]))
        FrLock == R([S EXCEPT !.holder = p], [L EXCEPT !.pc = "fr_read", !.ph = "stopping"]) IN
    IF f THEN    \* a kernel-facing call of the start-up fails: the branch's error handler runs next
        IF L.pc \in {"i_connect", "create_map", "attach", "pinit"}
        THEN R(S, [L EXCEPT !.pc = "i_rmtree", !.inst = FALSE])          \* first participant
        ELSE R(S, [L EXCEPT !.pc = "j_rmown"])                          \* joiner
    ELSE
    CASE L.pc = "m_open" -> R(S, [L EXCEPT !.pc = "m_lock"])       \* os.open(<if>.mutex, O_CREAT)
      [] L.pc = "m_lock" -> R([S EXCEPT !.mutex = p], [L EXCEPT !.pc = "mkdtemp"])      \* flock(LOCK_EX)
      [] L.pc = "m_close" ->           \* the start block is left: os.close releases the mutex
           R([S EXCEPT !.mutex = None], [L EXCEPT !.pc = "running", !.ph = "running"])
      [] L.pc = "s_mlock" -> R([S EXCEPT !.mutex = p], [L EXCEPT !.pc = "s_rmown"])
      [] L.pc = "s_rmown" -> RmOwn
      [] L.pc = "s_mclose" -> R([S EXCEPT !.mutex = None], [L EXCEPT !.pc = "done", !.ph = "done"])
      [] L.pc = "mx_fail" -> R([S EXCEPT !.mutex = None], Failed(L))
      [] L.pc = "mkdtemp" ->           \* tempfile.mkdtemp(dir='/run/lock')
           R([S EXCEPT !.tmp[p] = 1], [L EXCEPT !.pc = "t_xopen"])
      [] L.pc = "t_xopen" ->           \* open(tmpdir/<eth>.lock, 'x'): the directory is private
           R([S EXCEPT !.tmp[p] = 2], [L EXCEPT !.pc = "rename", !.own = L.eth])
      [] L.pc = "rename" ->            \* os.rename(tmpdir, lockdir): target absent or empty
           IF ~S.lockdir.ex \/ S.lockdir.m = {}
           THEN R([S EXCEPT !.tmp[p] = 0, !.lockdir = [ex |-> TRUE, m |-> {L.own}]],
                  [L EXCEPT !.pc = "i_connect"])
           ELSE R(S, [L EXCEPT !.pc = "rmtree"])
      \* ---- installer
      [] L.pc = "i_connect" -> R(S, [L EXCEPT !.pc = "create_map"])     \* EtherCat.connect
      [] L.pc = "create_map" ->
           R(S, [L EXCEPT !.pc = "i_rmpin", !.tab = p, !.inst = TRUE])
      [] L.pc = "i_rmpin" ->           \* os.remove(programs) of a stale pin, ignored if absent
           R([S EXCEPT !.pin = None], [L EXCEPT !.pc = "attach"])
      [] L.pc = "attach" ->            \* replaces whatever is attached
           R([S EXCEPT !.att = [o |-> p, t |-> L.tab]], [L EXCEPT !.pc = "pinit"])
      [] L.pc = "pinit" ->             \* obj_pin: EEXIST if the path is taken
           IF S.pin = None
           THEN R([S EXCEPT !.pin = L.tab], [L EXCEPT !.pc = "mbx_openx", !.inst = FALSE])
           ELSE R(S, [L EXCEPT !.pc = "i_rmtree", !.inst = FALSE])
      [] L.pc = "i_rmtree" ->          \* except Exception: shutil.rmtree(lockdir); raise
           R([S EXCEPT !.lockdir = NoDir], Fail(L))
      \* ---- joiner
      [] L.pc = "rmtree" ->            \* shutil.rmtree(tmpdir)
           R([S EXCEPT !.tmp[p] = 0], [L EXCEPT !.pc = "j_xopen", !.own = 0])
      [] L.pc = "j_xopen" ->           \* open(lockdir/<eth>.lock, 'x')
           IF ~S.lockdir.ex THEN R(S, Fail(L))                     \* FileNotFoundError
           ELSE IF L.eth \in S.lockdir.m THEN R(S, [L EXCEPT !.eth = c])
           ELSE R([S EXCEPT !.lockdir.m = @ \cup {L.eth}], [L EXCEPT !.pc = "j_connect", !.own = L.eth])
      [] L.pc = "j_connect" -> R(S, [L EXCEPT !.pc = "obj_get1"])
      [] L.pc = "obj_get1" ->
           IF S.pin # None THEN R(S, [L EXCEPT !.pc = "mbx_openx", !.tab = S.pin])
           ELSE R(S, [L EXCEPT !.pc = "obj_get2"])                 \* sleep(0.1), second attempt
      [] L.pc = "obj_get2" ->
           IF S.pin # None THEN R(S, [L EXCEPT !.pc = "mbx_openx", !.tab = S.pin])
           ELSE R(S, [L EXCEPT !.pc = "j_rmown"])
      [] L.pc = "j_rmown" ->           \* except Exception: os.remove(own file); raise
           R([S EXCEPT !.lockdir.m = @ \ {L.own}], Fail(L))
      \* ---- LockFile(...) and FMMULock(...)
      [] L.pc = "mbx_openx" ->
           IF S.mbx THEN R(S, [L EXCEPT !.pc = "mbx_open"])
           ELSE R([S EXCEPT !.mbx = TRUE], [L EXCEPT !.pc = "fm_openx"])
      [] L.pc = "mbx_open" ->
           IF S.mbx THEN R(S, [L EXCEPT !.pc = "fm_openx"]) ELSE R(S, Fail(L))
      [] L.pc = "fm_openx" ->
           IF S.fm.ex THEN R(S, [L EXCEPT !.pc = "fm_open"])
           ELSE R([S EXCEPT !.fm = [ex |-> TRUE, len |-> 0, bits |-> {}]],
                  [L EXCEPT !.pc = IF LockedInit THEN "fm_lock" ELSE "fm_init"])
      [] L.pc = "fm_init" ->           \* creator: os.write(fd, b'\2' + 63 zero bytes), no lock
           R([S EXCEPT !.fm.len = Max2(@, 64), !.fm.bits = {1}], Started([L EXCEPT !.win = 1]))
      [] L.pc = "fm_open" -> R(S, [L EXCEPT !.pc = "fm_lock"])
      [] L.pc = "fm_lock" -> R([S EXCEPT !.holder = p], [L EXCEPT !.pc = "fm_read"])
      [] L.pc = "fm_read" ->           \* pread(fd, 64, 0); a short file is "wrong" and ignored
           IF S.fm.len >= 64 THEN R(S, [L EXCEPT !.pc = "fm_set", !.amap = S.fm.bits, !.addr = c])
           ELSE R(S, [L EXCEPT !.pc = "fm_zero", !.amap = {}])
      [] L.pc = "fm_zero" ->           \* pwrite(fd, 64 zero bytes, 0)
           R([S EXCEPT !.fm.len = Max2(@, 64), !.fm.bits = {}], [L EXCEPT !.pc = "fm_trunc"])
      [] L.pc = "fm_trunc" ->          \* ftruncate(fd, 64)
           R([S EXCEPT !.fm.len = 64], [L EXCEPT !.pc = "fm_set", !.addr = c])
      [] L.pc = "fm_set" ->            \* pwrite of the whole byte computed from the copy read
           LET k == L.addr \div 8 IN
           R([S EXCEPT !.fm.len = Max2(@, k + 1),
                       !.fm.bits = (@ \ ByteBits(k)) \cup (L.amap \cap ByteBits(k)) \cup {L.addr}],
             [L EXCEPT !.pc = "fm_unlock"])
      [] L.pc = "fm_unlock" ->
           R([S EXCEPT !.holder = None], Started([L EXCEPT !.win = L.addr]))
      \* ---- stop sequence
      [] L.pc = "running" ->           \* the first call of the stop sequence
           IF Bare THEN FrLock
           ELSE IF Mutex THEN R(S, [L EXCEPT !.pc = "s_mlock", !.ph = "stopping"])
           ELSE RmOwn
      [] L.pc = "rmdir" ->             \* os.rmdir(lockdir): OSError -> stay installed
           IF S.lockdir.ex /\ S.lockdir.m = {}
           THEN R([S EXCEPT !.lockdir = NoDir], [L EXCEPT !.pc = "detach"])
           ELSE R(S, Stopped(L))
      [] L.pc = "detach" ->            \* detaches whatever is attached
           R([S EXCEPT !.att = NoAtt], [L EXCEPT !.pc = "s_rmpin"])
      [] L.pc = "s_rmpin" ->           \* os.remove(programs)
           IF S.pin # None THEN R([S EXCEPT !.pin = None], [L EXCEPT !.pc = "mbx_rm"]) ELSE R(S, Fail(L))
      [] L.pc = "mbx_rm" ->            \* mbx_lock_file.remove()
           IF S.mbx THEN R([S EXCEPT !.mbx = FALSE], [L EXCEPT !.pc = "fr_lock"]) ELSE R(S, Fail(L))
      [] L.pc = "fr_lock" -> FrLock
      [] L.pc = "fr_read" ->           \* pread(fd, 1, addr // 8)
           LET k == L.win \div 8 IN
           IF S.fm.len > k THEN R(S, [L EXCEPT !.pc = "fr_clear", !.amap = S.fm.bits \cap ByteBits(k)])
           ELSE R(S, [L EXCEPT !.pc = "fr_unlockx"])               \* IndexError; finally: unlock
      [] L.pc = "fr_clear" ->
           LET k == L.win \div 8 IN
           R([S EXCEPT !.fm.bits = (@ \ ByteBits(k)) \cup (L.amap \ {L.win})], [L EXCEPT !.pc = "fr_unlock"])
      [] L.pc = "fr_unlock" -> R([S EXCEPT !.holder = None], Stopped(L))
      [] L.pc = "fr_unlockx" -> R([S EXCEPT !.holder = None], Fail(L))

(* a participant that has made its first call has started *)
Eff(p, c, f) == LET r == Eff0(p, c, f) IN
             [s |-> r.s, l |-> IF r.l.ph = "idle" THEN [r.l EXCEPT !.ph = "starting"] ELSE r.l]

CrashEff(p) == [s |-> [sh EXCEPT !.holder = IF @ = p THEN None ELSE @, !.mutex = IF @ = p THEN None ELSE @],
                l |-> [loc[p] EXCEPT !.pc = "crashed", !.ph = "crashed", !.inst = FALSE]]

(* p's task is cancelled while it awaits connect / attach / detach (the call has no effect yet):
   asyncio.CancelledError is not an Exception, so NO error handler of run() runs; only the `with
   interface_lock()` closes its descriptor, then the exception leaves run().  Like a crash, this
   is a participant vanishing between two operations (it shares the MaxCrash budget); unlike a
   crashed process it releases the mutex in a step of its own. *)
Awaiting == {"i_connect", "j_connect", "attach", "detach"}
CancelEff(p) == [s |-> sh,
                 l |-> IF Mutex /\ ~Bare /\ sh.mutex = p
                       THEN [loc[p] EXCEPT !.pc = "mx_fail", !.inst = FALSE]
                       ELSE Failed(loc[p])]

(* p can take a step: it is not finished and not blocked in lockf / flock *)
CanStep(p) == /\ loc[p].pc \notin Final
              /\ (Gate(loc[p].pc) = "lock:fmmu" => sh.holder = None)
              /\ (Gate(loc[p].pc) = "lock:mutex" => sh.mutex = None)
(* switching away from q costs no preemption: q is finished, blocked, or inside its context *)
Free(q) == q = None \/ ~CanStep(q) \/ loc[q].pc = "running"
Pre(p) == IF MaxPre < 0 THEN 0 ELSE IF last.p # p /\ ~Free(last.p) THEN pre + 1 ELSE pre

PInit == /\ sh = Sh0 /\ loc = [p \in Procs |-> Loc0]
         /\ crashes = 0 /\ faults = 0 /\ pre = 0 /\ last = [p |-> None, a |-> "-", c |-> 0, f |-> FALSE]

FaultSet(p) == IF faults < MaxFault /\ loc[p].pc \in Faultable THEN BOOLEAN ELSE {FALSE}

PStep(p, c, f) == /\ CanStep(p) /\ c \in ChoiceSet(p) /\ f \in FaultSet(p)
                  /\ LET r == Eff(p, c, f) IN sh' = r.s /\ loc' = [loc EXCEPT ![p] = r.l]
                  /\ last' = [p |-> p, a |-> Gate(loc[p].pc), c |-> c, f |-> f]
                  /\ pre' = Pre(p) /\ (MaxPre >= 0 => pre' <= MaxPre)
                  /\ faults' = IF f THEN faults + 1 ELSE faults
                  /\ UNCHANGED crashes
PCrash(p) == /\ crashes < MaxCrash /\ loc[p].pc \notin Final /\ loc[p].ph # "idle"
             /\ LET r == CrashEff(p) IN sh' = r.s /\ loc' = [loc EXCEPT ![p] = r.l]
             /\ last' = [p |-> p, a |-> "crash", c |-> 0, f |-> FALSE]
             /\ pre' = Pre(p) /\ (MaxPre >= 0 => pre' <= MaxPre)
             /\ crashes' = crashes + 1 /\ UNCHANGED faults
PCancel(p) == /\ crashes < MaxCrash /\ loc[p].pc \in Awaiting
              /\ LET r == CancelEff(p) IN sh' = r.s /\ loc' = [loc EXCEPT ![p] = r.l]
              /\ last' = [p |-> p, a |-> "cancel", c |-> 0, f |-> FALSE]
              /\ pre' = Pre(p) /\ (MaxPre >= 0 => pre' <= MaxPre)
              /\ crashes' = crashes + 1 /\ UNCHANGED faults
PNext == \E p \in Procs : PCrash(p) \/ PCancel(p) \/ \E c \in ChoiceSet(p) : \E f \in FaultSet(p) : PStep(p, c, f)
PSpec == PInit /\ [][PNext]_pvars

-----------------------------------------------------------------------------
(* THE PROPERTY *)
Running(p) == loc[p].ph = "running"
(* at most one participant installs the dispatcher at a time *)
OneInstaller == Cardinality({p \in Procs : loc[p].inst}) <= 1
(* the dispatcher and its program table stay installed and reachable while any participant runs *)
DispatcherUp == (\E p \in Procs : Running(p)) =>
                    /\ sh.att.t # None
                    /\ sh.pin # None /\ sh.pin = sh.att.t
(* each participant gets a distinct ethertype *)
EthDistinct == \A p, q \in Procs : (p # q /\ Running(p) /\ Running(q)) => loc[p].eth # loc[q].eth
(* the logical address windows given to different processes never overlap *)
WindowsDistinct == \A p, q \in Procs : (p # q /\ Running(p) /\ Running(q)) => loc[p].win # loc[q].win

Violated == IF Bare THEN (IF WindowsDistinct THEN {} ELSE {"WindowsDistinct"})
            ELSE (IF OneInstaller THEN {} ELSE {"OneInstaller"})
            \cup (IF DispatcherUp THEN {} ELSE {"DispatcherUp"})
            \cup (IF EthDistinct THEN {} ELSE {"EthDistinct"})
            \cup (IF WindowsDistinct THEN {} ELSE {"WindowsDistinct"})
(* the property as one invariant of the design (for Bare: only the windows) *)
Property == Violated = {}

(* not one of the four: every running participant's own handle is the attached dispatcher's
   table ("reachable" read per participant); evaluated and reported separately *)
HandleCurrent == Bare \/ \A p \in Procs : Running(p) => loc[p].tab = sh.att.t

TypeOK == /\ sh.pin \in Procs \cup {None}
          /\ sh.holder \in Procs \cup {None} /\ sh.mutex \in Procs \cup {None}
          /\ \A p \in Procs : /\ loc[p].pc \in DOMAIN GateOf
                              /\ loc[p].eth \in {Eth0} \cup REth
                              /\ loc[p].win \in {0} \cup Addrs
(* the lock on the bitmap is held exactly by the participant that is between lock and unlock *)
LockSound == \A p \in Procs : (sh.holder = p) <=>
                 loc[p].pc \in {"fm_read", "fm_zero", "fm_trunc", "fm_set", "fm_unlock",
                                "fr_read", "fr_clear", "fr_unlock", "fr_unlockx"}
(* the mutex is held exactly inside the start block and inside the stop block *)
MutexSound == \A p \in Procs : (sh.mutex = p) <=>
                 (Mutex /\ ~Bare /\ loc[p].pc \notin {"m_open", "m_lock", "running", "s_mlock"} \cup Final)
=============================================================================
