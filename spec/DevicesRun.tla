----------------------------- MODULE DevicesRun -----------------------------
(* X07 - binding of Devices.tla to the program a REAL FastSyncGroup emits for bundled devices.

   One case = one cycle: the program of a real FastSyncGroup(devices) over hand-configured
   terminals, executed by the machine of Ebpf.tla on one frame (behind a 14-byte Ethernet header)
   from arbitrary contents of the group's `properties` map.  The harness only says WHERE things live
   (positions of the process variables found by parsing the assembled frame, map offsets and
   declared formats of the DeviceVars); the VALUES are read here from the memory the run starts
   on, the expected image / variables / verdict are computed here by Devices!RunDevs, and compared
   with the final memory of the machine.  Because the program is a function of (map, frame, clock)
   only, single cycles from arbitrary memory cover every history of the fast path.

   case = EbpfRun's case record (orc = the clock readings, 8-byte words) plus
     d |-> [fd    map number of the group's `properties` array map,
            devs  <<[kind, data, fm, dv |-> <<[off, n, s], ...>>]>>   the devices in group order; dv: where
                  each device variable lives in the map (same order as Devices!DevVarNames),
            free  positions (0-based, in pkt) this module does not prescribe: command byte and
                  working counter of the write datagrams, rewritten by the activation code (C21),
            wkc   [off, n] the group's wkc_errors variable in the map (not a device variable)]       *)
EXTENDS EbpfRun, Devices

K == Cases[cid]
Eth == 14
Frame0(k) == SubSeq(k.pkt, Eth + 1, Len(k.pkt))
Props0(k) == k.arr[CHOOSE j \in 1 .. Len(k.arr) : k.arr[j].fd = k.d.fd].bytes
DvBytes(mem, dv) == SubSeq(mem, dv.off + 1, dv.off + dv.n)
DvVal(mem, dv) == FmtDecode(DvBytes(mem, dv), dv)
(* the variables of every device, as exact integers, read from map contents *)
VarsOf(devs, mem) ==
    Mat([i \in 1 .. Len(devs) |->
            Mat([j \in 1 .. Len(devs[i].dv) |-> DvVal(mem, devs[i].dv[j])], Len(devs[i].dv))], Len(devs))
Nows(k) == Mat([j \in 1 .. Len(k.orc) |-> WZext(k.orc[j], DevN)], Len(k.orc))

(* what the cycle must do: on the fast path AnalogInput's program is empty (its fast_update runs in
   user space, see DevicesTrace) *)
Want(k) == RunDevs(FastProgramDevs(k.d.devs), Frame0(k), VarsOf(k.d.devs, Props0(k)), Nows(k), "fast")

(* ---- what the machine did ------------------------------------------------------------------- *)
ActOf(f) == IF ~Exited(f.c) THEN "FAULT"
            ELSE IF f.c.reg[0].t # "s" THEN "OTHER"
            ELSE IF f.c.reg[0].v = WFromInt(3, 8) THEN "TX"
            ELSE IF f.c.reg[0].v = WFromInt(1, 8) THEN "DROP" ELSE "OTHER"
FinalProps(k, f) == f.m[Rg("arr", k.d.fd, <<>>)]
Free(k) == {k.d.free[j] : j \in 1 .. Len(k.d.free)}

(* the image: a dropped packet is never seen by anybody, its content is not prescribed *)
PktDiff(k, w, got) ==
    LET want == SubSeq(k.pkt, 1, Eth) \o w.frame IN
    IF w.act = "DROP" THEN {}
    ELSE IF Len(got) # Len(want) THEN {-1}
    ELSE {i \in 1 .. Len(want) : (i - 1) \notin Free(k) /\ got[i] # want[i]}
(* the device variables hold the law's values; every other byte of the map except wkc_errors is
   untouched (positions, 0-based, that differ) *)
VarPositions(k) == UNION {UNION {dv.off .. dv.off + dv.n - 1 : dv \in {k.d.devs[i].dv[j] : j \in 1 .. Len(k.d.devs[i].dv)}}
                          : i \in 1 .. Len(k.d.devs)}
VarDiff(k, w, props) ==
    {<<i, j>> \in UNION {{<<i, j>> : j \in 1 .. Len(k.d.devs[i].dv)} : i \in 1 .. Len(k.d.devs)} :
        DvBytes(props, k.d.devs[i].dv[j]) # WTrunc(w.vs[i][j], k.d.devs[i].dv[j].n)}
OtherDiff(k, props) ==
    LET p0 == Props0(k)
        skip == VarPositions(k) \cup (k.d.wkc.off .. k.d.wkc.off + k.d.wkc.n - 1) IN
    IF Len(props) # Len(p0) THEN {-1} ELSE {i \in 0 .. Len(p0) - 1 : i \notin skip /\ props[i + 1] # p0[i + 1]}

FastOk(k, w, f) == /\ ActOf(f) = w.act
                   /\ PktDiff(k, w, f.m[RPkt]) = {}
                   /\ VarDiff(k, w, FinalProps(k, f)) = {}
                   /\ OtherDiff(k, FinalProps(k, f)) = {}
(* the clock is read once by each device that uses it *)
ClockOk(w, f) == f.c.orc = w.used

Judged(k, w, f) == (w.pre /\ w.holds) => FastOk(k, w, f) /\ ClockOk(w, f)
InvFast == Judged(K, Want(K), Final(K))

(* verdict collection (always TRUE): one line per case *)
Verdict(k, w, f) ==
    PrintT(<<"VERDICT", cid, w.pre, w.holds, Judged(k, w, f),
             [st |-> f.c.st, act |-> ActOf(f), wantact |-> w.act, ran |-> w.ran,
              pktdiff |-> PktDiff(k, w, f.m[RPkt]), vardiff |-> VarDiff(k, w, FinalProps(k, f)),
              otherdiff |-> OtherDiff(k, FinalProps(k, f)), clock |-> <<f.c.orc, w.used>>,
              wantvs |-> w.vs, gotvs |-> VarsOf(k.d.devs, FinalProps(k, f))]>>)
Observe == Verdict(K, Want(K), Final(K))

=============================================================================
