SPECIFICATION MCSpec
CONSTANTS MinSeg = 1
          Pairs = {1616, 1718, 1916}
          MaxLen = 12
          AllowAbort = TRUE
INVARIANTS DownloadExact UploadExact ReqFits ServerAtRest TogglesAgree
