SPECIFICATION MSpec
CONSTANTS Users = {u1, u2, u3}
          None = None
          InitCounters = {0, 6}
          MaxOps = 2
          MaxWire = 6
CONSTRAINT Bound
SYMMETRY Symm
INVARIANTS IndInv FormsAgree
CHECK_DEADLOCK FALSE
