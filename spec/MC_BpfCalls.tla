---------------------------- MODULE MC_BpfCalls ----------------------------
(* The design behind C10, checked exhaustively on a small universe: in every reachable registry
   state and for EVERY call (obeying the obligation or not), a call that satisfies `Accept` makes
   the kernel model touch only bytes inside the caller's buffers (`Safe`), and the obligation is
   not stronger than needed: a call whose buffers contain every touched byte is accepted (`Tight`). *)
EXTENDS BpfCalls
CONSTANTS Fds, Sizes, Cpus, BufSizes
Types == {"hash", "array", "percpu", "lru", "percpu_hash"}
MInit == \E n \in Cpus : BInit(n)
MCreate == \E fd \in Fds, t \in Types, ks \in Sizes, vs \in Sizes : CreateMap(fd, t, ks, vs, 1)
MClose == \E fd \in Fds : CloseMap(fd)
MNext == MCreate \/ MClose
MSpec == MInit /\ [][MNext]_bvars
Calls == {[op |-> op, fd |-> fd, keybuf |-> IF kn THEN 0 ELSE kb, valbuf |-> vb, nextbuf |-> nb,
           keynull |-> kn] :
          op \in Ops, fd \in Fds \cup {99}, kb \in BufSizes, vb \in BufSizes, nb \in BufSizes,
          kn \in BOOLEAN}
Safe == \A c \in Calls : Accept(c) => Inside(c)
Tight == \A c \in Calls : Inside(c) => Accept(c)
=============================================================================
