---------------------------- MODULE AlDriverScripts ----------------------------
(* Terminal scripts for C14.  The terminal part of AlDriver is run against a master that does
   what the obligations allow and polls only when it has to wait; the terminal's choices along
   each behaviour (start state and error flag, the delay 0..K of every transition requested,
   the poll at which an error appears, if any) together with the target are one script.  Every
   behaviour is followed to its outcome, so these are all terminal behaviours within the bound
   as far as a master meeting its obligations can consume them.  The simulated terminal plays
   d[i] at the i-th write to AL control (0 beyond the script) and raises the error flag at poll
   number ep (0: never).  hi: the bits of the AL status register above the error indicator
   (bit 5 "device identification loaded", reserved bits) that the terminal shows all the
   time; they are no part of the state or of the error indication.  *)
EXTENDS AlDriver, Sequences, Json
CONSTANT HiBits      \* values of the AL status bits above bit 4 to play (multiples of 32)
VARIABLES hist, np
svars == <<vars, hist, np>>

SInit == /\ Init
         /\ \E h \in HiBits :
               hist = [start |-> tst, err |-> terr, target |-> target, d |-> <<>>, ep |-> 0, hi |-> h, am |-> 0]
         /\ np = 0

CanAct == outcome = "none" /\ started /\
          (PreAck \/ errObl # "no" \/ (req = 0 /\ errObl = "no"))

SNext == IF CanAct
         THEN /\ \/ \E d \in 0 .. K :
                       \/ /\ \E s \in States : MRequest(s, d)
                          /\ hist' = [hist EXCEPT !.d = Append(@, d)]
                       \/ \E early \in BOOLEAN :       \* am: how the terminal takes the acknowledgement
                             /\ MAck(d, early)
                             /\ hist' = [hist EXCEPT !.d = Append(@, d), !.am = IF early THEN 1 ELSE 0]
                 \/ (MReturn \/ MRaise) /\ UNCHANGED hist
              /\ UNCHANGED np
         ELSE /\ np' = np + 1
              /\ \E inject \in BOOLEAN :
                    /\ inject => hist.ep = 0
                    /\ MRead(inject)
                    /\ hist' = IF inject THEN [hist EXCEPT !.ep = np + 1] ELSE hist
SSpec == SInit /\ [][SNext]_svars

Emit == outcome # "none" => PrintT(<<"SCRIPT", ToJson(hist)>>)
=============================================================================
