------------------------------ MODULE SharedVars ------------------------------
(* C29 - the device variables of a process-based sync group: the array part of a variable store
   with two clients, the controlling process ("parent") and the sync group's process ("child").

   What the property demands:
     * every device variable is a cell of its own: a value written by either client is what
       either client reads afterwards, unchanged, until the next write to the SAME variable -
       whatever its format, and whatever is written to other variables in between;
     * variables of different devices never share storage: in the layout each client works
       with, the byte ranges [pos, pos + size(format)) of two variables of different device
       instances are disjoint.
   A variable that has not been written yet may read as anything.  Nothing is said about values
   outside a format's range, nor about the order of the variables in the array.

   Values are opaque here (the check passes the canonical text of the value written and of the
   value read; "unchanged" is equality).  The sizes of the formats are fixed below.

   The last section relates the cells to an array of bytes: with a layout that keeps ALL
   variables apart, reading the bytes back is reading the cell (MC_SharedVars checks this
   exhaustively on a small instance, and that an overlapping layout is refuted).               *)
EXTENDS Integers, Sequences, FiniteSets, TLC

CONSTANTS Clients

SizeOf(f) == CASE f \in {"B", "b", "?", "c", "<B", ">b"} -> 1
               [] f \in {"H", "h", "<H", ">H", "<h", ">h", "!H", "2B", "e"} -> 2
               [] f \in {"3B", "3s"} -> 3
               [] f \in {"I", "i", "f", "<I", ">I", "<i", ">i", "!I", "2H", "4B", "4s", "<f", ">f"} -> 4
               [] f \in {"3H", "6s"} -> 6
               [] f \in {"Q", "q", "d", "x", "<Q", ">Q", "<q", ">q", "2I", "2i", "4H", "8B", "<d", ">d", "2f"} -> 8
               [] f \in {"3I"} -> 12
               [] f \in {"2Q", "2q", "4I", "2d", "2x"} -> 16

VARIABLES layout,     \* layout[c][v] = [dev |-> device instance, fmt |-> format, pos |-> byte offset]
          written,    \* the variables written so far
          val,        \* val[v], v \in written: the value last written to variable v
          mem         \* last section only
svars == <<layout, written, val, mem>>

Vars == DOMAIN val
Span(e) == e.pos .. (e.pos + SizeOf(e.fmt) - 1)
DevicesApart(lay) == \A v, w \in DOMAIN lay :
                        lay[v].dev # lay[w].dev => Span(lay[v]) \cap Span(lay[w]) = {}
AllApart(lay) == \A v, w \in DOMAIN lay : v # w => Span(lay[v]) \cap Span(lay[w]) = {}

SInit(lay) == /\ layout = lay /\ written = {}
              /\ val = [v \in DOMAIN lay[CHOOSE c \in Clients : TRUE] |-> 0]

Write(c, v, x) == /\ c \in Clients /\ v \in Vars
                  /\ val' = [val EXCEPT ![v] = x] /\ written' = written \cup {v}
                  /\ UNCHANGED layout
Read(c, v, x) == /\ c \in Clients /\ v \in Vars
                 /\ v \in written => x = val[v]
                 /\ UNCHANGED <<layout, written, val>>

(* the storage part of the property *)
NoSharedStorage == \A c \in Clients : DevicesApart(layout[c])

-----------------------------------------------------------------------------
(* cells over an array of bytes; a value is the tuple of its bytes *)
Dec(m, e) == [k \in 1 .. SizeOf(e.fmt) |-> m[e.pos + k]]
Put(m, e, x) == [i \in DOMAIN m |-> IF (i - 1) \in Span(e) THEN x[i - e.pos] ELSE m[i]]

MWrite(c, v, x) == /\ Write(c, v, x)
                   /\ mem' = Put(mem, layout[c][v], x)
BytesAreCells == \A c \in Clients : \A v \in written : Dec(mem, layout[c][v]) = val[v]
Refines == (\A c \in Clients : AllApart(layout[c])) => BytesAreCells
=============================================================================
