SPECIFICATION TSpec
CONSTRAINT Progress
POSTCONDITION Post
CHECK_DEADLOCK FALSE
