SPECIFICATION Spec
CONSTANTS
  Dts = {1, 2, 7, 300}
  T0s = {1, 1000}
  MaxCycles = 6
INVARIANTS CountsCycles
           LastTime
           MaxTime
           Squared
CHECK_DEADLOCK FALSE
