------------------------------ MODULE Dispatcher ------------------------------
(* C22 - the dispatcher keeps fast groups running under loss and injection (and, over the same
   histories, the global requirement of C21).

   Phase 2.  The step function of this model is the REAL bytecode: every Deliver looks its effect
   up in the transition table that phase 1 (DispatcherTable.tla) computed by running the emitted
   EtherXDP program, tail-calling the emitted FastSyncGroup program, on the machine of Ebpf.tla
   (and that the harness re-executed entry by entry through the real kernel).

   State: whether the group's program is registered in the program array, the low byte of the
   group's loop counter in the dispatcher's map, whether output is enabled (wkc_errors # 0), the multiset of at most MaxFlight frames of the group in flight
   (index byte, age, write datagrams enabled, processed by the group's program in its last
   pass, number of times sent back to the bus), and `since`, the number of consecutive deliveries
   of frames of the group that did not run the group's program.

   Environment: any order of deliveries, Lose, Inject (a fresh sterile frame from user space:
   the index byte of the real SterilePacket.sterile output, write datagrams NOP), Enable (user space
   sets wkc_errors to 1 once the terminals are operational), Unregister (the group leaves the
   program array with its frames still in flight).  Foreign frames do not change the state
   (checked per frame in phase 1).

   With Fifo = TRUE frames come back in the order they were sent (the subset of histories a ring
   without reordering produces); the property quantifies over deliveries in any order (Fifo = FALSE).

   Bound: a frame is delivered or lost before the counter has advanced more than K times since it
   was sent (then its index byte is at most 2K behind the counter, the table's domain).        *)
EXTENDS Integers, Sequences, FiniteSets, Bags, TLC, Json, IOUtils

CONSTANTS StartRegistered, \* the group's program is in the program array at the start
          CanUnregister,   \* ... and may be taken out of it at any time (FastEtherCat.register_sync_group exit)
          MaxFlight,       \* at most this many frames of the group in flight (3)
          PassBound,       \* unregistered group: a frame is back in user space after at most this many passes
          CanInject,       \* user space injects fresh frames while the group is registered
          CanInjectUnreg,  \* ... and also for a group whose program is not registered
          CanLose,
          Hist,            \* TRUE: keep the last event in the state (annotated counterexamples; second pass only)
          Fifo,            \* TRUE: frames come back in the order they were sent (a ring); FALSE: any order
          TrackBus         \* TRUE: also count consecutive frames sent back to the bus without running (stx)

VARIABLES reg, cb, out, fl, since, stx, bad, ev
vars == <<reg, cb, out, fl, since, stx, bad, ev>>

Tab == JsonDeserialize(IOEnv.TABLE_FILE)
K == Tab.K
ND == 2 * K + 2
NV == Tab.nv
CbIndex(c) == ((c - Tab.cbs[1] + 256) % 256) + 1           \* Tab.cbs are consecutive modulo 256
InWindow(c) == CbIndex(c) <= Len(Tab.cbs)
DistOf(c, ix) == LET d == (c - ix + 256) % 256 IN IF d <= 2 * K THEN d ELSE IF ix = 0 THEN ND - 1 ELSE -1
(* variants: 1 unregistered / sterile, 2 unregistered / enabled, then registered:
   3 output off / sterile, 4 output on / sterile, 5 output on / enabled, 6 output off / enabled *)
VariantOf(o, en) == IF ~reg THEN (IF en THEN 2 ELSE 1)
                    ELSE IF o THEN (IF en THEN 5 ELSE 4) ELSE (IF en THEN 6 ELSE 3)
NoEntry == [act |-> "NOENTRY", cb2 |-> 0, ix2 |-> 0, ran |-> FALSE, en2 |-> FALSE, etok |-> FALSE,
            ok21 |-> FALSE, others |-> FALSE]
T(c, ix, vi) == IF DistOf(c, ix) < 0 THEN NoEntry
                ELSE Tab.rows[((CbIndex(c) - 1) * ND + DistOf(c, ix)) * NV + vi]

Min(a, b) == IF a < b THEN a ELSE b
Frames == BagToSet(fl)
Fresh == [ix |-> Tab.freshIx, age |-> 0, en |-> FALSE, ran |-> FALSE, n |-> 0,
          pos |-> IF Fifo THEN BagCardinality(fl) + 1 ELSE 0]

Init == /\ reg = StartRegistered
        /\ cb \in {Tab.starts[i] : i \in 1 .. Len(Tab.starts)}
        /\ out = FALSE
        /\ since = 0
        /\ stx = 0
        /\ ev = [k |-> "init"]
        /\ bad = {}
        /\ fl = EmptyBag

(* the frames left after taking one out: older if the counter moved; with Fifo, those behind move up *)
Rest(b, f, moved) ==
    BagOfAll(LAMBDA g : [g EXCEPT !.age = IF moved THEN g.age + 1 ELSE g.age,
                                  !.pos = IF Fifo /\ g.pos > f.pos THEN g.pos - 1 ELSE g.pos],
             b (-) SetToBag({f}))

(* what a single delivery must not do (each tag is an invariant below) *)
Tags == {"noentry", "dropped", "ethertype", "unreg-ran", "other-counter", "pass21"}
Violates(t, o) ==
    CASE t = "noentry" -> o.act = "NOENTRY"                           \* the model left the table
      [] t = "dropped" -> o.act \notin {"TX", "PASS", "NOENTRY"}
      [] t = "ethertype" -> ~reg /\ o.act = "PASS" /\ ~o.etok
      [] t = "unreg-ran" -> ~reg /\ o.ran
      [] t = "other-counter" -> o.act # "NOENTRY" /\ ~o.others
      [] t = "pass21" -> o.act # "NOENTRY" /\ ~o.ok21
DeliverTo(f, rest, o) ==
    /\ (o.cb2 # cb) => \A g \in DOMAIN rest : g.age < K          \* the age bound
    /\ cb' = o.cb2
    /\ fl' = IF o.act = "TX"
             THEN Rest(fl, f, o.cb2 # cb) (+)
                  SetToBag({[ix |-> o.ix2, age |-> 0, en |-> o.en2, ran |-> o.ran,
                             n |-> IF reg THEN 0 ELSE Min(f.n + 1, PassBound + 1),
                             pos |-> IF Fifo THEN BagCardinality(fl) ELSE 0]})
             ELSE Rest(fl, f, o.cb2 # cb)
    /\ since' = IF o.ran THEN 0 ELSE Min(since + 1, 9)
    /\ stx' = IF ~TrackBus \/ o.ran THEN 0 ELSE IF o.act = "TX" THEN Min(stx + 1, 9) ELSE stx
    /\ bad' = bad \cup {t \in Tags : Violates(t, o)}
    /\ ev' = IF ~Hist THEN ev
             ELSE [k |-> "deliver", cb |-> cb, ix |-> f.ix, en |-> f.en, act |-> o.act, ran |-> o.ran,
                   cb2 |-> o.cb2, ix2 |-> o.ix2, en2 |-> o.en2]
    /\ UNCHANGED <<out, reg>>
Deliver(f) == f \in Frames /\ (Fifo => f.pos = 1) /\ DeliverTo(f, fl (-) SetToBag({f}), T(cb, f.ix, VariantOf(out, f.en)))
Lose(f) == /\ CanLose /\ f \in Frames
           /\ fl' = Rest(fl, f, FALSE)
           /\ ev' = IF Hist THEN [k |-> "lose", ix |-> f.ix, en |-> f.en] ELSE ev
           /\ UNCHANGED <<reg, cb, out, since, stx, bad>>
Inject == /\ (IF reg THEN CanInject ELSE CanInjectUnreg) /\ BagCardinality(fl) < MaxFlight
          /\ fl' = fl (+) SetToBag({Fresh})
          /\ ev' = IF Hist THEN [k |-> "inject"] ELSE ev
          /\ UNCHANGED <<reg, cb, out, since, stx, bad>>
Enable == /\ reg /\ ~out
          /\ out' = TRUE
          /\ ev' = IF Hist THEN [k |-> "enable"] ELSE ev
          /\ UNCHANGED <<reg, cb, fl, since, stx, bad>>
Unregister == /\ CanUnregister /\ reg
              /\ reg' = FALSE
              /\ ev' = IF Hist THEN [k |-> "unregister"] ELSE ev
              /\ UNCHANGED <<cb, out, fl, since, stx, bad>>
DeliverAny == \E f \in Frames : Deliver(f)
LoseAny == \E f \in Frames : Lose(f)
Next == \/ DeliverAny
        \/ LoseAny
        \/ Inject
        \/ Enable
        \/ Unregister
Spec == Init /\ [][Next]_vars
Window == InWindow(cb)                      \* CONSTRAINT: quick tier explores a window of counter values

(* ---- C22 ------------------------------------------------------------------------------------- *)
TableCovers == "noentry" \notin bad                           \* the model never leaves the table
(* the dispatcher never drops a frame: each is returned to the bus or handed to user space *)
NeverDropped == "dropped" \notin bad
(* registered group: no more than two consecutive frames pass without running the group's program *)
KeepsRunning == reg => since <= 2
(* two consequences of KeepsRunning, checked separately so that a regression is not hidden behind a
   history that already violates KeepsRunning itself: never more than three such frames; never more
   than two that go back to the bus.  (A third consequence is KeepsRunning with Fifo = TRUE: the
   histories in which frames come back in the order they were sent are a subset of all histories.) *)
KeepsRunningWeak == reg => since <= 3
KeepsRunningBusOnly == reg => stx <= 2
(* unregistered group: every frame is back in user space after a bounded number of passes ... *)
Drains == ~reg => \A f \in Frames : f.n <= PassBound
(* ... with the ethertype taken from the identification datagram *)
UnregEthertype == "ethertype" \notin bad
UnregNeverRuns == "unreg-ran" \notin bad
(* soundness of the abstraction: a delivery touches no counter but the group's own *)
OwnCounterOnly == "other-counter" \notin bad

(* ---- C21 over the same histories -------------------------------------------------------------- *)
(* no frame goes back onto the bus with enabled write datagrams unless the group's program
   processed it in that pass *)
OutputsFresh == \A f \in Frames : f.en => f.ran
(* every pass met the per-pass requirement (FastGroupFrame!PassOK, judged in phase 1) *)
PassesOK == "pass21" \notin bad
=============================================================================
