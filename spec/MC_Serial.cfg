SPECIFICATION MCSpec
CONSTANTS MaxChunk = 2
          MaxBytes = 4
          MaxWrite = 3
          MaxAnn = 2
INVARIANTS TxExactlyOnce
           TxOneToggle
           RxExactlyOnce
           RxOneToggle
           RxStable
PROPERTY TxKept
CHECK_DEADLOCK FALSE
