--------------------------- MODULE DispatcherTable ---------------------------
(* C22 / C21, phase 1: the transition table of the dispatcher model, computed by RUNNING the real
   emitted programs (EtherXDP, tail-calling the real FastSyncGroup program) on the machine of
   Ebpf.tla.  One entry per (counter low byte cb, frame index byte ix, variant), a variant being
   [reg: the group's program is registered, out: output enabled (wkc_errors # 0), en: the frame
   arrives with its write datagrams enabled].  The effect of one delivery depends on nothing else
   (the upper counter bytes are varied in the `hi` entries to confirm exactly that).

   Each entry is printed as <<"T", cb, ix, v, hi, json>>; phase 2 (Dispatcher.tla) reads the table
   back and explores the histories.  The requirements that concern a single delivery are judged
   here, per entry (fields ok21 / why21, foreign verdicts), because they are constant-level.

   Setup (JSON, IOEnv.TRACE_FILE) =
     [programs |-> <<dispatcher, group>>, maps, progsReg, progsUnreg, g, cmap, pmap, countersOff,
      countersSize, sterile, ref, terms, props0, wkcOff, cbs, K, variants, his, foreign,
      progmap (number of the program array), groups (other slots to compare), gcbs (counter values for that)]  *)
EXTENDS Ebpf, FastGroupFrame, Json, IOUtils
R == INSTANCE EbpfRun WITH cid <- 0

Setup == JsonDeserialize(IOEnv.TRACE_FILE)
Ref == Setup.ref
Terms == Setup.terms

RECURSIVE EnableR(_, _, _)
EnableR(f, ws, i) == IF i > Len(ws) THEN f ELSE EnableR([f EXCEPT ![ws[i] + 1] = Ref[ws[i] + 1]], ws, i + 1)
EnFrame == EnableR(Setup.sterile, Writers(Ref), 1)         \* the sterile frame with every write datagram enabled
FrameFor(ix, en) == [(IF en THEN EnFrame ELSE Setup.sterile) EXCEPT ![IndexByte + 1] = ix]

GOff == Setup.countersOff + 4 * Setup.g                    \* offset of the group's counter in the map value
CountersWith(cb, hi, fill) ==
    [i \in 1 .. Setup.countersSize |->
        IF i = GOff + 1 THEN cb ELSE IF i \in GOff + 2 .. GOff + 4 THEN hi[i - GOff - 1] ELSE fill]
PropsWith(out) == [Setup.props0 EXCEPT ![Setup.wkcOff + 1] = IF out THEN 1 ELSE 0]
Word4(bytes, off) == SubSeq(bytes, off + 1, off + 4)

(* what get_prandom_u32 / ktime hand out: 0 unless the set-up names another value.  The property speaks about every
   value, so the check computes the table for 0 and, where machine and kernel differ, for all-ones too            *)
OrcOf == IF "orc" \in DOMAIN Setup THEN <<Setup.orc, Setup.orc, Setup.orc, Setup.orc>> ELSE <<W0>>
CaseOf(pkt, cb, hi, fill, reg, out) ==
    [programs |-> Setup.programs, entry |-> 1, maps |-> Setup.maps,
     progs |-> IF reg THEN Setup.progsReg ELSE Setup.progsUnreg, orc |-> OrcOf, pkt |-> pkt,
     arr |-> <<[fd |-> Setup.cmap, bytes |-> SubSeq(CountersWith(cb, hi, fill), 1, Setup.countersSize)],
               [fd |-> Setup.pmap, bytes |-> PropsWith(out)]>>,
     hash |-> <<>>, fuel |-> 2000]

Act(res) == IF res.st # <<"exit">> THEN "FAULT"
            ELSE IF res.r0 = WFromInt(3, 8) THEN "TX" ELSE IF res.r0 = WFromInt(2, 8) THEN "PASS"
            ELSE IF res.r0 = WFromInt(1, 8) THEN "DROP" ELSE IF res.r0 = WFromInt(0, 8) THEN "ABORTED"
            ELSE "OTHER"
(* every byte of the dispatcher's map except the group's own counter is as before *)
OthersSame(k, res) == \A i \in 1 .. Setup.countersSize :
                          i \in GOff + 1 .. GOff + 4 \/ res.arr[1][i] = k.arr[1].bytes[i]

OutcomeJ(k, res, v, e0, e1, ran) ==
    [act |-> Act(res), st |-> res.st, ctr2 |-> Word4(res.arr[1], GOff), cb2 |-> res.arr[1][GOff + 1],
     ix2 |-> IF Len(res.pkt) > IndexByte THEN res.pkt[IndexByte + 1] ELSE -1,
     ran |-> ran, en2 |-> AnyEnabled(res.pkt, Ref),
     etok |-> Len(res.pkt) >= 28 /\ EtherType(res.pkt) = Data0AsEtherType(k.pkt),
     ok21 |-> PassOK(k.pkt, res.pkt, Ref, Terms, ran, v.out, e0, e1),
     why21 |-> PassWhy(k.pkt, res.pkt, Ref, Terms, ran, v.out, e0, e1),
     others |-> OthersSame(k, res),
     pktin |-> k.pkt, pkt |-> res.pkt, ctrs |-> res.arr[1], props |-> res.arr[2], r0 |-> res.r0]
Outcome(k, res, v) == OutcomeJ(k, res, v, Word4(k.arr[2].bytes, Setup.wkcOff), Word4(res.arr[2], Setup.wkcOff),
                               res.tail > 0)
EntryK(k, v) == Outcome(k, R!Result(k), v)
Entry(cb, ix, vi, hi) ==
    EntryK(CaseOf(FrameFor(ix, Setup.variants[vi].en), cb, hi, 0, Setup.variants[vi].reg, Setup.variants[vi].out),
           Setup.variants[vi])

(* ---- frames that are none of the group's business ------------------------------------------ *)
IsForeign(f) == Len(f) < 30 \/ EtherType(f) # <<136, 164>> \/ Byt(f, 16) # 0
(* a frame that does start with the identification datagram names a group by the WHOLE 32-bit
   address field of that datagram.  If that is not the modelled group's number it is a frame of
   another group - one without a registered program (only the modelled group's program is ever in
   the program array; a number >= 64 cannot have one at all).  The property then demands: it is
   never dropped, it never runs a program, it does not circulate forever but reaches user space
   (here: within DrainBound deliveries, each fed with what the previous one left behind) with the
   ethertype taken from its identification datagram - and, being none of the modelled group's
   business, it leaves that group's loop counter and map alone (otherwise a later frame of the
   group would be passed or bounced without running the program, and the histories of
   Dispatcher.tla would not be the histories of the real dispatcher).                            *)
GroupNo(f) == <<f[19], f[20], f[21], f[22]>>
IsOther(f) == ~IsForeign(f) /\ GroupNo(f) # <<Setup.g, 0, 0, 0>>
DrainBound == 6
RECURSIVE Drain(_, _, _)
DrainStep(k, res, n, acc, rec) ==
    IF rec.act = "TX" /\ n > 1
    THEN Drain([k EXCEPT !.pkt = res.pkt,
                         !.arr = <<[fd |-> Setup.cmap, bytes |-> res.arr[1]], [fd |-> Setup.pmap, bytes |-> res.arr[2]]>>],
               n - 1, Append(acc, rec))
    ELSE Append(acc, rec)
DrainRes(k, res, n, acc) ==
    DrainStep(k, res, n, acc,
              [act |-> Act(res), ran |-> res.tail > 0,
               own |-> Word4(res.arr[1], GOff) = Word4(k.arr[1].bytes, GOff) /\ res.arr[2] = k.arr[2].bytes,
               etok |-> Len(res.pkt) >= 28 /\ EtherType(res.pkt) = Data0AsEtherType(k.pkt),
               named |-> Len(res.pkt) >= 22 /\ GroupNo(res.pkt) = GroupNo(k.pkt)])
Drain(k, n, acc) == DrainRes(k, R!Result(k), n, acc)
OtherOK(steps) ==
    /\ \A i \in 1 .. Len(steps) : steps[i].act \in {"TX", "PASS"} /\ ~steps[i].ran /\ steps[i].own /\ steps[i].named
    /\ steps[Len(steps)].act = "PASS" /\ steps[Len(steps)].etok
OtherWhy(steps) ==
    IF \E i \in 1 .. Len(steps) : steps[i].act \notin {"TX", "PASS"} THEN "dropped"
    ELSE IF \E i \in 1 .. Len(steps) : steps[i].ran THEN "ran-a-program"
    ELSE IF \E i \in 1 .. Len(steps) : ~steps[i].own THEN "touched-the-registered-groups-state"
    ELSE IF \E i \in 1 .. Len(steps) : ~steps[i].named THEN "group-number-rewritten"
    ELSE IF steps[Len(steps)].act # "PASS" THEN "still-circulating"
    ELSE IF ~steps[Len(steps)].etok THEN "ethertype-not-from-identification-datagram"
    ELSE "ok"
ForeignJudge(f, k, res, act, steps) ==
    [foreign |-> IsForeign(f), other |-> IsOther(f), act |-> act, st |-> res.st,
     same |-> res.pkt = f, maps |-> res.arr[1] = k.arr[1].bytes /\ res.arr[2] = k.arr[2].bytes,
     ran |-> res.tail > 0, pkt |-> res.pkt, ctrs |-> res.arr[1], props |-> res.arr[2],
     ctrs0 |-> k.arr[1].bytes, props0 |-> k.arr[2].bytes, steps |-> steps,
     why |-> IF IsForeign(f) THEN (IF act = "PASS" /\ res.pkt = f /\ res.arr[1] = k.arr[1].bytes
                                     /\ res.arr[2] = k.arr[2].bytes THEN "ok" ELSE "not-passed-unchanged")
             ELSE IF IsOther(f) THEN OtherWhy(steps)
             ELSE IF act \in {"PASS", "TX"} THEN "ok" ELSE "dropped",
     ok |-> IF IsForeign(f)
            THEN act = "PASS" /\ res.pkt = f /\ res.arr[1] = k.arr[1].bytes /\ res.arr[2] = k.arr[2].bytes
            ELSE IF IsOther(f) THEN OtherOK(steps)
            ELSE act \in {"PASS", "TX"}]
ForeignRun(f, k, res) == ForeignJudge(f, k, res, Act(res), IF IsOther(f) THEN Drain(k, DrainBound, <<>>) ELSE <<>>)
ForeignCase(f, k) == ForeignRun(f, k, R!Result(k))
ForeignVerdict(f, cb, reg) == ForeignCase(f, CaseOf(f, cb, <<7, 0, 0>>, 165, reg, TRUE))

(* ---- a group registered at another slot of the program table -------------------------------- *)
(* FastEtherCat.register_sync_group hands out any slot 0 .. 63.  The histories are explored for ONE
   group number (Setup.g); they are the histories of every group provided a delivery does for a
   group registered at slot h exactly what it does for Setup.g: same action, same step of the
   group's own counter (the word at slot h), same index byte written, the group's program run or
   not, the same verdict of the per-pass requirement.  That is judged here for the group numbers
   in Setup.groups (the edges 0, 62, 63 of the table and some in between; all 64 in the thorough
   tier), for every index distance and variant at the counter values Setup.gcbs: the frame names h
   in its identification datagram, the program array holds the group's program at slot h only, and
   every other counter of the map holds a different value (165), so that using a neighbour's slot
   shows.                                                                                          *)
GOffOf(h) == Setup.countersOff + 4 * h
FrameOfGroup(f, h) == [f EXCEPT ![19] = h, ![20] = 0, ![21] = 0, ![22] = 0]
CountersOfGroup(h, cb) ==
    SubSeq([i \in 1 .. Setup.countersSize |->
               IF i = GOffOf(h) + 1 THEN cb ELSE IF i \in GOffOf(h) + 2 .. GOffOf(h) + 4 THEN 0 ELSE 165],
           1, Setup.countersSize)
Slots(h, reg) == SubSeq([i \in 1 .. Setup.maps[Setup.progmap].max |-> IF reg /\ i = h + 1 THEN 2 ELSE 0],
                        1, Setup.maps[Setup.progmap].max)
ProgsOfGroup(h, reg) == SubSeq([m \in 1 .. Len(Setup.maps) |-> IF m = Setup.progmap THEN Slots(h, reg) ELSE <<>>],
                               1, Len(Setup.maps))
CaseOfGroup(h, pkt, cb, reg, out) ==
    [programs |-> Setup.programs, entry |-> 1, maps |-> Setup.maps, progs |-> ProgsOfGroup(h, reg),
     orc |-> OrcOf, pkt |-> FrameOfGroup(pkt, h),
     arr |-> <<[fd |-> Setup.cmap, bytes |-> CountersOfGroup(h, cb)], [fd |-> Setup.pmap, bytes |-> PropsWith(out)]>>,
     hash |-> <<>>, fuel |-> 2000]
RowOf(o) == [act |-> o.act, cb2 |-> o.cb2, ix2 |-> o.ix2, ran |-> o.ran, en2 |-> o.en2, etok |-> o.etok,
             ok21 |-> o.ok21, others |-> o.others]
GroupOutcome(h, k, res, v, e0, e1, ran) ==
    [act |-> Act(res), cb2 |-> res.arr[1][GOffOf(h) + 1],
     ix2 |-> IF Len(res.pkt) > IndexByte THEN res.pkt[IndexByte + 1] ELSE -1,
     ran |-> ran, en2 |-> AnyEnabled(res.pkt, Ref),
     etok |-> Len(res.pkt) >= 28 /\ EtherType(res.pkt) = Data0AsEtherType(k.pkt),
     ok21 |-> PassOK(k.pkt, res.pkt, Ref, Terms, ran, v.out, e0, e1),
     others |-> \A i \in 1 .. Setup.countersSize :
                    i \in GOffOf(h) + 1 .. GOffOf(h) + 4 \/ res.arr[1][i] = k.arr[1].bytes[i],
     st |-> res.st, pktin |-> k.pkt, pkt |-> res.pkt, ctrs0 |-> k.arr[1].bytes, ctrs |-> res.arr[1],
     props0 |-> k.arr[2].bytes, props |-> res.arr[2]]
GroupRes(h, k, res, v) == GroupOutcome(h, k, res, v, Word4(k.arr[2].bytes, Setup.wkcOff),
                                       Word4(res.arr[2], Setup.wkcOff), res.tail > 0)
GroupK(h, k, v) == GroupRes(h, k, R!Result(k), v)
GroupEntry(h, cb, ix, vi) ==
    GroupK(h, CaseOfGroup(h, FrameFor(ix, Setup.variants[vi].en), cb, Setup.variants[vi].reg, Setup.variants[vi].out),
           Setup.variants[vi])
GroupJudge(h, o, base) == [h |-> h, same |-> RowOf(o) = base, row |-> RowOf(o), out |-> o]
GroupCheckB(cb, ix, vi, base) ==
    [base |-> base,
     groups |-> [j \in 1 .. Len(Setup.groups) |->
                    GroupJudge(Setup.groups[j], GroupEntry(Setup.groups[j], cb, ix, vi), base)]]
GroupCheck(cb, ix, vi) == GroupCheckB(cb, ix, vi, RowOf(Entry(cb, ix, vi, <<0, 0, 0>>)))

(* ---- enumeration: two levels so that TLC's workers share the work --------------------------- *)
ND == 2 * Setup.K + 2                       \* distances 0 .. 2K behind the counter, plus the index byte 0
NV == Len(Setup.variants)
IxOf(cb, d) == IF d = ND - 1 THEN 0 ELSE (cb + 256 - d) % 256
VARIABLE job
Init == job = <<0, 0, 0>>
Next == \/ /\ job[1] = 0
           /\ \E c \in 1 .. Len(Setup.cbs) + 2 + Len(Setup.gcbs) : job' = <<1, c, 0>>
        \/ /\ job[1] = 1 /\ job[2] <= Len(Setup.cbs)
           /\ \E n \in 0 .. ND * NV - 1 : job' = <<2, job[2], n>>
        \/ /\ job[1] = 1 /\ job[2] = Len(Setup.cbs) + 1                  \* upper counter bytes do not matter
           /\ \E n \in 1 .. Len(Setup.his) : job' = <<3, n, 0>>
        \/ /\ job[1] = 1 /\ job[2] = Len(Setup.cbs) + 2
           /\ \E n \in 1 .. Len(Setup.foreign) : job' = <<4, n, 0>>
        \/ /\ job[1] = 1 /\ job[2] > Len(Setup.cbs) + 2                  \* other slots of the program table
           /\ \E n \in 0 .. ND * NV - 1 : job' = <<5, job[2] - Len(Setup.cbs) - 2, n>>
Emit ==
    CASE job[1] = 2 ->
           LET cb == Setup.cbs[job[2]]  d == job[3] \div NV  vi == (job[3] % NV) + 1 IN
           PrintT(<<"T", cb, IxOf(cb, d), vi, <<0, 0, 0>>, ToJson(Entry(cb, IxOf(cb, d), vi, <<0, 0, 0>>))>>)
      [] job[1] = 3 ->
           LET h == Setup.his[job[2]] IN
           PrintT(<<"T", h.cb, h.ix, h.v, h.hi, ToJson(Entry(h.cb, h.ix, h.v, h.hi))>>)
      [] job[1] = 4 ->
           LET f == Setup.foreign[job[2]] IN
           PrintT(<<"F", job[2], ToJson(ForeignVerdict(f.pkt, f.cb, f.reg))>>)
      [] job[1] = 5 ->
           LET cb == Setup.gcbs[job[2]]  d == job[3] \div NV  vi == (job[3] % NV) + 1 IN
           PrintT(<<"G", cb, IxOf(cb, d), vi, ToJson(GroupCheck(cb, IxOf(cb, d), vi))>>)
      [] OTHER -> TRUE
=============================================================================
