\* the configuration checks/c22.py generates for the gating run (quick tier adds CONSTRAINT Window);
\* needs TABLE_FILE = the table printed by DispatcherTable.tla (see harness/fastgroup.py)
SPECIFICATION Spec
CONSTANTS
 StartRegistered = TRUE
 CanUnregister = TRUE
 MaxFlight = 3
 PassBound = 6
 CanInject = TRUE
 CanInjectUnreg = FALSE
 CanLose = TRUE
 Hist = FALSE
 TrackBus = TRUE
 Fifo = FALSE
CONSTRAINT Window
INVARIANTS
 TableCovers
 NeverDropped
 KeepsRunning
 KeepsRunningWeak
 KeepsRunningBusOnly
 Drains
 UnregEthertype
 UnregNeverRuns
 OwnCounterOnly
 OutputsFresh
 PassesOK
CHECK_DEADLOCK FALSE
