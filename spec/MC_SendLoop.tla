---------------------------- MODULE MC_SendLoop ----------------------------
(* exhaustive model of SendLoop: all interleavings of MaxReq requests with sizes from Sizes
   (small, half a frame, frame-filling, too big), client cancellations, every batching the
   specification allows, and per frame every bus behaviour (working counters 0/1 per
   datagram; returned, delayed, duplicated, lost).  The returned bytes of the k-th datagram
   of frame f are the token 10*f + k.                                                       *)
EXTENDS SendLoop
CONSTANTS Sizes,        \* data lengths to choose from at Submit
          Faults,       \* subset of {"delay", "dup", "lose"}: what the bus may do besides returning
          Cancellable,  \* requests whose client may cancel
          MaxFrames     \* state constraint: at most this many frames are made
Toks(f) == [k \in DOMAIN frames[f].d |-> 10 * f + k]
MCNext ==
    \/ \E s \in Sizes : Submit(sub + 1, s)
    \/ \E r \in Cancellable : Cancel(r)
    \/ Internal
    \/ \E f \in DOMAIN frames :
          \/ \E w \in [DOMAIN frames[f].d -> {0, 1}] :
                \/ Bus_Return(f, w, Toks(f))
                \/ "delay" \in Faults /\ Bus_Delay(f, w, Toks(f))
                \/ "dup" \in Faults /\ Bus_Dup(f, w, Toks(f))
          \/ "lose" \in Faults /\ Bus_Lose(f)
          \/ Recv(f)
FrameBound == Len(frames) <= MaxFrames
MCSpec == Init /\ [][MCNext]_vars /\ WF_vars(Internal)
=============================================================================
