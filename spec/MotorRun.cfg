INIT Init
NEXT Next
INVARIANTS InvCommanded
           InvEnable
           InvTheorems
CHECK_DEADLOCK FALSE
