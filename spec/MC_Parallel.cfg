SPECIFICATION PSpec
CONSTANTS Procs = {"p1", "p2"}
          REth = {12289}
          Addrs = {1, 2}
          MaxCrash = 0
          MaxFault = 1
          MaxPre <- Unbounded
          Mutex = TRUE
          LockedInit = TRUE
          Bare = FALSE
INVARIANTS TypeOK LockSound MutexSound OneInstaller DispatcherUp EthDistinct WindowsDistinct
ALIAS Alias
CHECK_DEADLOCK FALSE
