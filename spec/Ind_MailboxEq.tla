---------------------------- MODULE Ind_MailboxEq ----------------------------
(* X05 - TLC, on the bounded model of MC_Mailbox: every reachable state satisfies the inductive
   invariant of Ind_MailboxProof, and the quantifier / position forms proved there agree with
   OneHolder / CounterChain as stated in Mailbox.                                              *)
EXTENDS Ind_MailboxProof
CONSTANTS MaxOps, MaxWire
Symm == Permutations(Users)
Bound == /\ \A u \in Users : opno[u] <= MaxOps
         /\ Len(wire) <= MaxWire
FormsAgree == (OneHolder <=> OneHolderQ) /\ (CounterChain <=> ChainQ)
(* the same agreement over ALL (also bad) states of a small shape: any phases / holder, and any
   wire of up to 5 messages with counters from {0, 1, 2, 7}                                   *)
U0 == CHOOSE u \in Users : TRUE
AnyHold == /\ phase \in [Users -> Phases] /\ holder \in Users \cup {None}
           /\ opno = [u \in Users |-> 0] /\ pending = FALSE /\ counter = 0 /\ wire = <<>>
AnyWire == /\ phase = [u \in Users |-> "idle"] /\ holder = None
           /\ opno = [u \in Users |-> 0] /\ pending = FALSE /\ counter = 0
           /\ wire \in UNION {[1 .. k -> [u : {U0}, op : {1}, dir : {"req", "rsp"}, cnt : {0, 1, 2, 7}]] : k \in 0 .. 5}
AnyInit == AnyHold \/ AnyWire
AnyNext == UNCHANGED mvars
(* the Apalache wrapper Ind_Mailbox restates the actions: same behaviours as the original *)
W == INSTANCE Ind_Mailbox
WSpec == W!MSpec
WIndInv == W!IndInv
=============================================================================
