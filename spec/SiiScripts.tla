---------------------------- MODULE SiiScripts ----------------------------
(* Environment behaviours for C17: what the terminal's EEPROM interface does while an image is
   read - whether it delivers 8 or 4 bytes per read command (cap8), for how many status polls
   it is still busy before the first command (init: an operation pending from before), and
   for how many polls it reports busy after each accepted read command (busy: a pattern of
   PatLen durations, repeated for as many read commands as the master issues).  Every script
   is printed once, for replay against the real code.                                        *)
EXTENDS Integers, Sequences, TLC, Json
CONSTANTS MaxBusy, PatLen, MaxInit
VARIABLES cap8, init, busy
SInit == cap8 \in BOOLEAN /\ init \in 0 .. MaxInit /\ busy = <<>>
SNext == /\ Len(busy) < PatLen
         /\ \E b \in 0 .. MaxBusy : busy' = Append(busy, b)
         /\ UNCHANGED <<cap8, init>>
SSpec == SInit /\ [][SNext]_<<cap8, init, busy>>
Emit == Len(busy) = PatLen =>
          PrintT(<<"SCRIPT", ToJson([cap8 |-> cap8, init |-> init, busy |-> busy])>>)
=============================================================================
