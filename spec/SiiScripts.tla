---------------------------- MODULE SiiScripts ----------------------------
(* Environment behaviours for C17: what the terminal's EEPROM interface does while an image is
   read - whether it delivers 8 or 4 bytes per read command (cap8), for how many status polls
   it is still busy before the first command (init: an operation pending from before), and
   for how many polls it reports busy after each accepted read command (busy: a pattern of
   PatLen durations, repeated for as many read commands as the master issues).
   The property says "however long it reports busy": durations come from two sets, Short (a
   few polls) and Long (around and far beyond any plausible poll limit of a master); a pattern
   holds between MinLongs and MaxLongs long durations, at every position, so that long waits
   hit the first as well as the second command of a 4-byte read and the runs stay affordable.
   Every script is printed once, for replay against the real code.                           *)
EXTENDS Integers, Sequences, FiniteSets, TLC, Json
CONSTANTS Short, Long, MinLongs, MaxLongs, PatLen, Inits
VARIABLES cap8, init, busy
Longs(s) == Cardinality({i \in 1 .. Len(s) : s[i] \in Long})
SInit == cap8 \in BOOLEAN /\ init \in Inits /\ busy = <<>>
SNext == /\ Len(busy) < PatLen
         /\ \E b \in Short \cup Long : /\ busy' = Append(busy, b)
                                       /\ Longs(busy') <= MaxLongs
         /\ UNCHANGED <<cap8, init>>
SSpec == SInit /\ [][SNext]_<<cap8, init, busy>>
Emit == (Len(busy) = PatLen /\ Longs(busy) >= MinLongs) =>
          PrintT(<<"SCRIPT", ToJson([cap8 |-> cap8, init |-> init, busy |-> busy])>>)
=============================================================================
