-------------------------------- MODULE Dsl --------------------------------
(* Denotation of integer expressions of the ebpfcat DSL (C01), as executable definitions.

   An expression is a tree of records:
     [k |-> "var",  fmt, fd, off]        a variable (map or local) of struct format fmt whose initial
                                         bytes are at offset off of array map fd in the case's memory
     [k |-> "reg",  kind, fd, off]       a register r / sr (64 bit unsigned / signed) or w / sw (32 bit)
                                         preloaded from the 8 bytes at (fd, off)
     [k |-> "const", v]                  a constant, v an n-byte two's-complement word
     [k |-> "bin",  op, l, r]            op in add sub mul floordiv mod and or xor lsh rsh
     [k |-> "neg", a]   [k |-> "abs", a]
   Exact values are n-byte two's-complement words (Wide.tla), n chosen by the harness so large that
   no intermediate of the tree can overflow (8 * 2^depth + 1 bytes): "the exact mathematical result".

   Val(e)      the SET of admissible exact values: signed floor division and remainder may round
               toward zero or toward minus infinity, so they contribute two values when they differ.
   W(e, dst)   the narrowest width involved: 32 if any operand or the destination is at most 4 bytes.
   Checkable   the property's precondition, read conservatively (never demanding more than stated):
               an operation is signed if the DSL types it so (either operand signed; >> by its left
               operand; & never; unary minus always; abs never), and then the values feeding a
               division, remainder, right shift or abs must lie in [-2^(W-1), 2^(W-1)), otherwise in
               [0, 2^W); shift amounts in [0, W); divisors non-zero.  Trees using only the ring
               operations (+ - * & | ^ << and negation) are checkable whenever their shifts are.    *)
EXTENDS Wide, FiniteSets

FmtSize(f) == CASE f \in {"b", "B"} -> 1 [] f \in {"h", "H"} -> 2 [] f \in {"i", "I"} -> 4 [] OTHER -> 8
FmtSigned(f) == f \in {"b", "h", "i", "q"}

(* ---- leaves: "each operand taking the value its own size and signedness define" ------------- *)
(* bytes8 = the 8 bytes at the leaf's location (a variable uses the first FmtSize bytes) *)
LeafVal(e, bytes8, n) ==
    IF e.k = "var" THEN
        (IF FmtSigned(e.fmt) THEN WSext(WTrunc(bytes8, FmtSize(e.fmt)), n)
                             ELSE WZext(WTrunc(bytes8, FmtSize(e.fmt)), n))
    ELSE CASE e.kind = "r" -> WZext(bytes8, n)
           [] e.kind = "sr" -> WSext(bytes8, n)
           [] e.kind = "w" -> WZext(WTrunc(bytes8, 4), n)
           [] e.kind = "sw" -> WSext(WTrunc(bytes8, 4), n)
LeafBytes(e) == IF e.k = "var" THEN FmtSize(e.fmt) ELSE IF e.kind \in {"w", "sw"} THEN 4 ELSE 8

(* ---- typing ------------------------------------------------------------------------------- *)
RECURSIVE Signed(_)
Signed(e) ==
    CASE e.k = "var" -> FmtSigned(e.fmt)
      [] e.k = "reg" -> e.kind \in {"sr", "sw"}
      [] e.k = "const" -> WIsNeg(e.v)
      [] e.k = "neg" -> TRUE
      [] e.k = "abs" -> FALSE
      [] e.k = "bin" -> IF e.op = "and" THEN FALSE
                        ELSE IF e.op = "rsh" THEN Signed(e.l)
                        ELSE Signed(e.l) \/ Signed(e.r)

RECURSIVE Narrow(_)
Narrow(e) ==    \* does the tree contain an operand at most 4 bytes wide?
    CASE e.k \in {"var", "reg"} -> LeafBytes(e) <= 4
      [] e.k = "const" -> FALSE
      [] e.k \in {"neg", "abs"} -> Narrow(e.a)
      [] e.k = "bin" -> Narrow(e.l) \/ Narrow(e.r)
Width(e, dstsize) == IF Narrow(e) \/ dstsize <= 4 THEN 32 ELSE 64

RECURSIVE RingOnly(_)
RingOnly(e) ==
    CASE e.k \in {"var", "reg", "const"} -> TRUE
      [] e.k = "neg" -> RingOnly(e.a)
      [] e.k = "abs" -> FALSE
      [] e.k = "bin" -> e.op \notin {"floordiv", "mod", "rsh"} /\ RingOnly(e.l) /\ RingOnly(e.r)

(* ---- arithmetic on exact values ------------------------------------------------------------ *)
One(n) == WFromInt(1, n)
(* division operands fit 64 bits under the precondition: divide on 9-byte words, extend back *)
DivVals(a, b, n) ==
    LET a9 == WTrunc(a, 9)  b9 == WTrunc(b, 9) IN
    {WSext(WSDivF(a9, b9), n), WSext(WSDivT(a9, b9), n)}
ModVals(a, b, n) ==
    LET a9 == WTrunc(a, 9)  b9 == WTrunc(b, 9) IN
    {WSext(WSModF(a9, b9), n), WSext(WSModT(a9, b9), n)}
ShAmount(b) == b[1]                       \* valid when 0 <= b < 64 (checked by ShiftsOK)
BinVals(op, a, b, n) ==
    CASE op = "add" -> {WAdd(a, b)}
      [] op = "sub" -> {WSub(a, b)}
      [] op = "mul" -> {WMul(a, b)}
      [] op = "and" -> {WAnd(a, b)}
      [] op = "or" -> {WOr(a, b)}
      [] op = "xor" -> {WXor(a, b)}
      [] op = "lsh" -> {WShl(a, ShAmount(b))}
      [] op = "rsh" -> {WSar(a, ShAmount(b))}          \* floor(a / 2^b) on the exact value
      [] op = "floordiv" -> IF WIsZero(b) THEN {} ELSE DivVals(a, b, n)
      [] op = "mod" -> IF WIsZero(b) THEN {} ELSE ModVals(a, b, n)

(* L is a function from leaf locations <<fd, off>> to their 8 initial bytes; n the word length *)
RECURSIVE Val(_, _, _)
Val(e, L, n) ==
    CASE e.k \in {"var", "reg"} -> {LeafVal(e, L[<<e.fd, e.off>>], n)}
      [] e.k = "const" -> {e.v}
      [] e.k = "neg" -> {WNeg(a) : a \in Val(e.a, L, n)}
      [] e.k = "abs" -> {WAbs(a) : a \in Val(e.a, L, n)}
      [] e.k = "bin" -> UNION {BinVals(e.op, a, b, n) : a \in Val(e.l, L, n), b \in Val(e.r, L, n)}

(* ---- the precondition ---------------------------------------------------------------------- *)
Fits(v, signed, w) == IF signed THEN WFitsS(v, w \div 8) ELSE WFitsU(v, w \div 8)
InShiftRange(v, w) == WFitsU(v, 1) /\ v[1] < w
RECURSIVE ShiftsOK(_, _, _, _)
ShiftsOK(e, L, n, w) ==
    CASE e.k \in {"var", "reg", "const"} -> TRUE
      [] e.k \in {"neg", "abs"} -> ShiftsOK(e.a, L, n, w)
      [] e.k = "bin" -> /\ ShiftsOK(e.l, L, n, w) /\ ShiftsOK(e.r, L, n, w)
                        /\ (e.op \in {"lsh", "rsh"} => \A b \in Val(e.r, L, n) : InShiftRange(b, w))
RECURSIVE FitsOK(_, _, _, _)
FitsOK(e, L, n, w) ==
    CASE e.k \in {"var", "reg", "const"} -> TRUE
      [] e.k = "neg" -> FitsOK(e.a, L, n, w)
      [] e.k = "abs" -> FitsOK(e.a, L, n, w) /\ \A a \in Val(e.a, L, n) : Fits(a, TRUE, w)
      [] e.k = "bin" ->
           /\ FitsOK(e.l, L, n, w) /\ FitsOK(e.r, L, n, w)
           /\ (e.op \in {"floordiv", "mod"} =>
                 /\ \A a \in Val(e.l, L, n) : Fits(a, Signed(e), w)
                 /\ \A b \in Val(e.r, L, n) : Fits(b, Signed(e), w) /\ ~WIsZero(b))
           /\ (e.op = "rsh" => \A a \in Val(e.l, L, n) : Fits(a, Signed(e), w))
Checkable(e, L, n, w) == ShiftsOK(e, L, n, w) /\ (RingOnly(e) \/ FitsOK(e, L, n, w))

(* the admissible destination contents: every admissible exact value reduced to the destination *)
Expected(e, L, n, dstsize) == {WTrunc(v, dstsize) : v \in Val(e, L, n)}
(* ---- classification used for known findings (evaluated here, from the case's own data) ------ *)
(* some // or % node is signed (as the DSL types it) and one of its operand values is negative *)
RECURSIVE SignedDivNeg(_, _, _)
SignedDivNeg(e, L, n) ==
    CASE e.k \in {"var", "reg", "const"} -> FALSE
      [] e.k \in {"neg", "abs"} -> SignedDivNeg(e.a, L, n)
      [] e.k = "bin" ->
           \/ SignedDivNeg(e.l, L, n) \/ SignedDivNeg(e.r, L, n)
           \/ /\ e.op \in {"floordiv", "mod"} /\ Signed(e)
              /\ \E v \in Val(e.l, L, n) \cup Val(e.r, L, n) : WIsNeg(v)
(* some unary node (minus / abs) has an operand tree that contains an operand at most 4 bytes wide *)
RECURSIVE UnaryOnNarrow(_)
UnaryOnNarrow(e) ==
    CASE e.k \in {"var", "reg", "const"} -> FALSE
      [] e.k \in {"neg", "abs"} -> Narrow(e.a) \/ UnaryOnNarrow(e.a)
      [] e.k = "bin" -> UnaryOnNarrow(e.l) \/ UnaryOnNarrow(e.r)
(* some operand is a signed 32-bit register view (sw) whose value is negative *)
RECURSIVE SwNegative(_, _, _)
SwNegative(e, L, n) ==
    CASE e.k = "reg" -> e.kind = "sw" /\ WIsNeg(LeafVal(e, L[<<e.fd, e.off>>], n))
      [] e.k \in {"var", "const"} -> FALSE
      [] e.k \in {"neg", "abs"} -> SwNegative(e.a, L, n)
      [] e.k = "bin" -> SwNegative(e.l, L, n) \/ SwNegative(e.r, L, n)
=============================================================================
