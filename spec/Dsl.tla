-------------------------------- MODULE Dsl --------------------------------
(* Denotation of integer expressions of the ebpfcat DSL (C01), as executable definitions.

   An expression is a tree of records:
     [k |-> "var",  fmt, fd, off]        a variable (map or local) of struct format fmt whose initial
                                         bytes are at offset off of array map fd in the case's memory
     [k |-> "reg",  kind, fd, off]       a register r / sr (64 bit unsigned / signed) or w / sw (32 bit)
                                         preloaded from the 8 bytes at (fd, off)
     [k |-> "const", v]                  a constant, v an n-byte two's-complement word
     [k |-> "field", pos, bits, fd, off] a bit field of `bits` bits at bit `pos` of the byte at (fd, off)
     [k |-> "bin",  op, l, r]            op in add sub mul floordiv mod and or xor lsh rsh
     [k |-> "neg", a]   [k |-> "abs", a]
   Exact values are n-byte two's-complement words (Wide.tla), n chosen by the harness so large that
   no intermediate of the tree can overflow (8 * 2^depth + 1 bytes): "the exact mathematical result".

   Val(e)      the SET of admissible exact values: signed floor division and remainder may round
               toward zero or toward minus infinity, so they contribute two values when they differ.
   W(e, dst)   the narrowest width involved: 32 if any operand or the destination is at most 4 bytes.
   Checkable   the property's precondition, read conservatively (never demanding more than stated):
               an operation is signed if the DSL types it so (either operand signed; >> by its left
               operand; & never; unary minus always; abs never), and then the values feeding a
               division, remainder, right shift or abs must lie in [-2^(W-1), 2^(W-1)), otherwise in
               [0, 2^W); shift amounts in [0, W); divisors non-zero.  Trees using only the ring
               operations (+ - * & | ^ << and negation) are checkable whenever their shifts are.    *)
EXTENDS Wide, FiniteSets

FmtSize(f) == CASE f \in {"b", "B"} -> 1 [] f \in {"h", "H"} -> 2 [] f \in {"i", "I"} -> 4 [] OTHER -> 8
FmtSigned(f) == f \in {"b", "h", "i", "q"}

(* ---- leaves: "each operand taking the value its own size and signedness define" ------------- *)
(* bytes8 = the 8 bytes at the leaf's location (a variable uses the first FmtSize bytes) *)
LeafVal(e, bytes8, n) ==
    IF e.k = "field" THEN WFromInt((bytes8[1] \div (2 ^ e.pos)) % (2 ^ e.bits), n)
    ELSE IF e.k = "var" THEN
        (IF FmtSigned(e.fmt) THEN WSext(WTrunc(bytes8, FmtSize(e.fmt)), n)
                             ELSE WZext(WTrunc(bytes8, FmtSize(e.fmt)), n))
    ELSE CASE e.kind = "r" -> WZext(bytes8, n)
           [] e.kind = "sr" -> WSext(bytes8, n)
           [] e.kind = "w" -> WZext(WTrunc(bytes8, 4), n)
           [] e.kind = "sw" -> WSext(WTrunc(bytes8, 4), n)
LeafBytes(e) == IF e.k = "field" THEN 1 ELSE IF e.k = "var" THEN FmtSize(e.fmt)
                ELSE IF e.kind \in {"w", "sw"} THEN 4 ELSE 8

(* ---- typing ------------------------------------------------------------------------------- *)
RECURSIVE Signed(_)
Signed(e) ==
    CASE e.k = "var" -> FmtSigned(e.fmt)
      [] e.k = "reg" -> e.kind \in {"sr", "sw"}
      [] e.k = "field" -> FALSE
      [] e.k = "const" -> WIsNeg(e.v)
      [] e.k = "neg" -> TRUE
      [] e.k = "abs" -> FALSE
      [] e.k = "bin" -> IF e.op = "and" THEN FALSE
                        ELSE IF e.op = "rsh" THEN Signed(e.l)
                        ELSE Signed(e.l) \/ Signed(e.r)

RECURSIVE Narrow(_)
Narrow(e) ==    \* does the tree contain an operand at most 4 bytes wide?
    CASE e.k \in {"var", "reg", "field"} -> LeafBytes(e) <= 4
      [] e.k = "const" -> FALSE
      [] e.k \in {"neg", "abs"} -> Narrow(e.a)
      [] e.k = "bin" -> Narrow(e.l) \/ Narrow(e.r)
Width(e, dstsize) == IF Narrow(e) \/ dstsize <= 4 THEN 32 ELSE 64

RECURSIVE RingOnly(_)
RingOnly(e) ==
    CASE e.k \in {"var", "reg", "const", "field"} -> TRUE
      [] e.k = "neg" -> RingOnly(e.a)
      [] e.k = "abs" -> FALSE
      [] e.k = "bin" -> e.op \notin {"floordiv", "mod", "rsh"} /\ RingOnly(e.l) /\ RingOnly(e.r)

(* ---- arithmetic on exact values ------------------------------------------------------------ *)
One(n) == WFromInt(1, n)
(* division operands fit 64 bits under the precondition: divide on 9-byte words, extend back.  Outside it (values
   are also asked for when a case is classified) the operands may be longer - `Q << 31` is 2^94 - and their low 9
   bytes may even be zero: then the division is made on the full words (a thorough-tier case stopped TLC with
   "the second argument of \div is 0" before this guard) *)
Short9(a, b) == WFitsS(a, 9) /\ WFitsS(b, 9)
DivVals(a, b, n) ==
    IF ~Short9(a, b) THEN {WSDivF(a, b), WSDivT(a, b)} ELSE
    LET a9 == WTrunc(a, 9)  b9 == WTrunc(b, 9) IN
    {WSext(WSDivF(a9, b9), n), WSext(WSDivT(a9, b9), n)}
ModVals(a, b, n) ==
    IF ~Short9(a, b) THEN {WSModF(a, b), WSModT(a, b)} ELSE
    LET a9 == WTrunc(a, 9)  b9 == WTrunc(b, 9) IN
    {WSext(WSModF(a9, b9), n), WSext(WSModT(a9, b9), n)}
ShAmount(b) == b[1]                       \* valid when 0 <= b < 64 (checked by ShiftsOK)
BinVals(op, a, b, n) ==
    CASE op = "add" -> {WAdd(a, b)}
      [] op = "sub" -> {WSub(a, b)}
      [] op = "mul" -> {WMul(a, b)}
      [] op = "and" -> {WAnd(a, b)}
      [] op = "or" -> {WOr(a, b)}
      [] op = "xor" -> {WXor(a, b)}
      [] op = "lsh" -> {WShl(a, ShAmount(b))}
      [] op = "rsh" -> {WSar(a, ShAmount(b))}          \* floor(a / 2^b) on the exact value
      [] op = "floordiv" -> IF WIsZero(b) THEN {} ELSE DivVals(a, b, n)
      [] op = "mod" -> IF WIsZero(b) THEN {} ELSE ModVals(a, b, n)

(* L is a function from leaf locations <<fd, off>> to their 8 initial bytes; n the word length *)
RECURSIVE Val(_, _, _)
Val(e, L, n) ==
    CASE e.k \in {"var", "reg", "field"} -> {LeafVal(e, L[<<e.fd, e.off>>], n)}
      [] e.k = "const" -> {e.v}
      [] e.k = "neg" -> {WNeg(a) : a \in Val(e.a, L, n)}
      [] e.k = "abs" -> {WAbs(a) : a \in Val(e.a, L, n)}
      [] e.k = "bin" -> UNION {BinVals(e.op, a, b, n) : a \in Val(e.l, L, n), b \in Val(e.r, L, n)}

(* ---- the precondition ---------------------------------------------------------------------- *)
Fits(v, signed, w) == IF signed THEN WFitsS(v, w \div 8) ELSE WFitsU(v, w \div 8)
InShiftRange(v, w) == WFitsU(v, 1) /\ v[1] < w
RECURSIVE ShiftsOK(_, _, _, _)
ShiftsOK(e, L, n, w) ==
    CASE e.k \in {"var", "reg", "const", "field"} -> TRUE
      [] e.k \in {"neg", "abs"} -> ShiftsOK(e.a, L, n, w)
      [] e.k = "bin" -> /\ ShiftsOK(e.l, L, n, w) /\ ShiftsOK(e.r, L, n, w)
                        /\ (e.op \in {"lsh", "rsh"} => \A b \in Val(e.r, L, n) : InShiftRange(b, w))
RECURSIVE FitsOK(_, _, _, _)
FitsOK(e, L, n, w) ==
    CASE e.k \in {"var", "reg", "const", "field"} -> TRUE
      [] e.k = "neg" -> FitsOK(e.a, L, n, w)
      [] e.k = "abs" -> FitsOK(e.a, L, n, w) /\ \A a \in Val(e.a, L, n) : Fits(a, TRUE, w)
      [] e.k = "bin" ->
           /\ FitsOK(e.l, L, n, w) /\ FitsOK(e.r, L, n, w)
           /\ (e.op \in {"floordiv", "mod"} =>
                 /\ \A a \in Val(e.l, L, n) : Fits(a, Signed(e), w)
                 /\ \A b \in Val(e.r, L, n) : Fits(b, Signed(e), w) /\ ~WIsZero(b))
           /\ (e.op = "rsh" => \A a \in Val(e.l, L, n) : Fits(a, Signed(e), w))
Checkable(e, L, n, w) == ShiftsOK(e, L, n, w) /\ (RingOnly(e) \/ FitsOK(e, L, n, w))

(* the admissible destination contents: every admissible exact value reduced to the destination *)
Expected(e, L, n, dstsize) == {WTrunc(v, dstsize) : v \in Val(e, L, n)}
(* ---- classification used for known findings (evaluated here, from the case's own data) ------ *)
(* some // or % node is signed (as the DSL types it) and one of its operand values is negative *)
RECURSIVE SignedDivNeg(_, _, _)
SignedDivNeg(e, L, n) ==
    CASE e.k \in {"var", "reg", "const", "field"} -> FALSE
      [] e.k \in {"neg", "abs"} -> SignedDivNeg(e.a, L, n)
      [] e.k = "bin" ->
           \/ SignedDivNeg(e.l, L, n) \/ SignedDivNeg(e.r, L, n)
           \/ /\ e.op \in {"floordiv", "mod"} /\ Signed(e)
              /\ \E v \in Val(e.l, L, n) \cup Val(e.r, L, n) : WIsNeg(v)
(* some unary node (minus / abs) has an operand tree that contains an operand at most 4 bytes wide *)
RECURSIVE UnaryOnNarrow(_)
UnaryOnNarrow(e) ==
    CASE e.k \in {"var", "reg", "const", "field"} -> FALSE
      [] e.k \in {"neg", "abs"} -> Narrow(e.a) \/ UnaryOnNarrow(e.a)
      [] e.k = "bin" -> UnaryOnNarrow(e.l) \/ UnaryOnNarrow(e.r)
(* some operand is a signed 32-bit register view (sw) whose value is negative *)
RECURSIVE SwNegative(_, _, _)
SwNegative(e, L, n) ==
    CASE e.k = "reg" -> e.kind = "sw" /\ WIsNeg(LeafVal(e, L[<<e.fd, e.off>>], n))
      [] e.k \in {"var", "const", "field"} -> FALSE
      [] e.k \in {"neg", "abs"} -> SwNegative(e.a, L, n)
      [] e.k = "bin" -> SwNegative(e.l, L, n) \/ SwNegative(e.r, L, n)
(* ======================= conditions and conditional blocks (C03) =========================== *)
(* A condition is
     [k |-> "cmp", op, l, r]     op in gt ge lt le ne eq, l and r expressions (without // and %, so
                                 that each has exactly one exact value)
     [k |-> "truth", e]          `with e:`  -  e # 0; with e = a & m this is the bit test
     [k |-> "not", a]   [k |-> "and", l, r]   [k |-> "or", l, r]
   A statement is [k |-> "mark", i] (marker i is set) or
     [k |-> "with", c, body, hasels, els]   body runs iff c, els (if present) iff not c.
   The precondition "the compared values fit the narrowest width involved": the comparison is signed
   if the DSL types either side as signed; then both values must lie in [-2^(W-1), 2^(W-1)), otherwise
   in [0, 2^W), W = 32 if either side contains an operand at most 4 bytes wide, else 64.           *)
TheVal(e, L, n) == CHOOSE v \in Val(e, L, n) : TRUE
CmpHolds(op, a, b) ==
    CASE op = "gt" -> WSLt(b, a)  [] op = "ge" -> WSLe(b, a)
      [] op = "lt" -> WSLt(a, b)  [] op = "le" -> WSLe(a, b)
      [] op = "ne" -> a # b       [] op = "eq" -> a = b
CmpWidth(l, r) == IF Narrow(l) \/ Narrow(r) THEN 32 ELSE 64
RECURSIVE CondVal(_, _, _)
CondVal(c, L, n) ==
    CASE c.k = "cmp" -> CmpHolds(c.op, TheVal(c.l, L, n), TheVal(c.r, L, n))
      [] c.k = "truth" -> ~WIsZero(TheVal(c.e, L, n))
      [] c.k = "not" -> ~CondVal(c.a, L, n)
      [] c.k = "and" -> CondVal(c.l, L, n) /\ CondVal(c.r, L, n)
      [] c.k = "or" -> CondVal(c.l, L, n) \/ CondVal(c.r, L, n)
(* is the expression itself well inside C01's precondition in the width of the comparison? *)
OperandOK(e, L, n, w) == RingOnly(e) /\ ShiftsOK(e, L, n, w)
RECURSIVE CondOK(_, _, _)
CondOK(c, L, n) ==
    CASE c.k = "cmp" ->
           LET w == CmpWidth(c.l, c.r)  sg == Signed(c.l) \/ Signed(c.r) IN
           /\ OperandOK(c.l, L, n, w) /\ OperandOK(c.r, L, n, w)
           /\ Fits(TheVal(c.l, L, n), sg, w) /\ Fits(TheVal(c.r, L, n), sg, w)
      [] c.k = "truth" ->
           LET w == IF Narrow(c.e) THEN 32 ELSE 64 IN
           OperandOK(c.e, L, n, w) /\ Fits(TheVal(c.e, L, n), Signed(c.e), w)
      [] c.k = "not" -> CondOK(c.a, L, n)
      [] c.k \in {"and", "or"} -> CondOK(c.l, L, n) /\ CondOK(c.r, L, n)

(* the markers a statement list must set: [ok |-> all conditions met on the way were inside the
   precondition, m |-> set of marker numbers] *)
RECURSIVE ExecSeq(_, _, _, _, _)
(* an "exit" statement ends the program: no statement after it runs, in whatever block it stands (done) *)
ExecStmt(s, L, n, acc) ==
    IF s.k = "mark" THEN [acc EXCEPT !.m = acc.m \cup {s.i}]
    ELSE IF s.k = "exit" THEN [acc EXCEPT !.done = TRUE]
    ELSE IF ~CondOK(s.c, L, n) THEN [acc EXCEPT !.ok = FALSE]
    ELSE IF CondVal(s.c, L, n) THEN ExecSeq(s.body, 1, L, n, acc)
    ELSE IF s.hasels THEN ExecSeq(s.els, 1, L, n, acc)
    ELSE acc
ExecSeq(stmts, i, L, n, acc) ==
    IF i > Len(stmts) \/ ~acc.ok \/ acc.done THEN acc
    ELSE ExecSeq(stmts, i + 1, L, n, ExecStmt(stmts[i], L, n, acc))
Exec(stmts, L, n) == ExecSeq(stmts, 1, L, n, [ok |-> TRUE, m |-> {}, done |-> FALSE])
(* classification for the C03 known finding: some comparison has an sw register holding a negative
   value on one side while the other side counts as 64 bits wide (an 8-byte operand or a bit field) *)
RECURSIVE HasField(_)
HasField(e) ==
    CASE e.k = "field" -> TRUE
      [] e.k \in {"var", "reg", "const"} -> FALSE
      [] e.k \in {"neg", "abs"} -> HasField(e.a)
      [] e.k = "bin" -> HasField(e.l) \/ HasField(e.r)
WideSide(e) == ~Narrow(e) \/ HasField(e)
RECURSIVE CondSwNeg(_, _, _)
CondSwNeg(c, L, n) ==
    CASE c.k = "cmp" -> \/ SwNegative(c.l, L, n) /\ WideSide(c.r)
                        \/ SwNegative(c.r, L, n) /\ WideSide(c.l)
      [] c.k = "truth" -> FALSE
      [] c.k = "not" -> CondSwNeg(c.a, L, n)
      [] c.k \in {"and", "or"} -> CondSwNeg(c.l, L, n) \/ CondSwNeg(c.r, L, n)
RECURSIVE StmtsSwNeg(_, _, _, _)
StmtsSwNeg(stmts, i, L, n) ==
    IF i > Len(stmts) THEN FALSE
    ELSE \/ StmtsSwNeg(stmts, i + 1, L, n)
         \/ /\ stmts[i].k = "with"
            /\ \/ CondSwNeg(stmts[i].c, L, n)
               \/ StmtsSwNeg(stmts[i].body, 1, L, n)
               \/ StmtsSwNeg(stmts[i].els, 1, L, n)
=============================================================================
