SPECIFICATION SSpec
CONSTANTS Part = "both"
          MaxSm = 2
          MaxOdd = 1
          Odd = {1}
          MaxCalls = 2
          NCanon = 2
          PriorSel = {"stale8"}
INVARIANT Emit
CHECK_DEADLOCK FALSE
