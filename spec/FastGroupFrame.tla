--------------------------- MODULE FastGroupFrame ---------------------------
(* The cyclic frame of a fast sync group as the properties C21 / C22 talk about it.

   A frame is a tuple of bytes (the byte at offset o is frame[o + 1]): 14 bytes of Ethernet header
   (ethertype big-endian at 12), 2 bytes of EtherCAT header, then datagrams
       cmd(1) idx(1) address(4) len/flags(2: 11 bits length, bit 15 = another datagram follows)
       irq(2) data(len) working counter(2).
   The first datagram is the identification datagram (cmd 0 = NOP): its idx byte (offset 17) is
   the dispatcher's loop counter, its address (offset 18, 4 bytes) the group number and its two
   data bytes (offset 26, little-endian) the ethertype user space wants to see.

   `ref` is the group's cyclic frame as the group assembles it with every command in place
   (SterilePacket.assemble); the WRITE datagrams of the group are the datagrams of ref whose
   command writes to terminals.  Everything below is derived from ref's bytes and from the
   configuration the harness built (terms), never from the generator's own bookkeeping.       *)
EXTENDS Integers, Sequences, FiniteSets

Byt(f, o) == f[o + 1]
U16(f, o) == f[o + 1] + 256 * f[o + 2]
EtherType(f) == <<f[13], f[14]>>                      \* as on the wire (big-endian)
Data0AsEtherType(f) == <<f[28], f[27]>>              \* the little-endian word at 26, big-endian
IndexByte == 17

DLen(f, p) == U16(f, p + 6) % 2048
DMore(f, p) == U16(f, p + 6) >= 32768
DNext(f, p) == p + 12 + DLen(f, p)
DWkc(f, p) == p + 10 + DLen(f, p)                     \* offset of the working counter
RECURSIVE DgramsR(_, _, _)
DgramsR(f, p, acc) ==
    IF p + 12 > Len(f) \/ DNext(f, p) > Len(f) THEN acc            \* truncated: stop
    ELSE IF DMore(f, p) THEN DgramsR(f, DNext(f, p), Append(acc, p))
    ELSE Append(acc, p)
Dgrams(f) == DgramsR(f, 16, <<>>)                     \* offsets of all datagrams (first = identification)

(* commands that write to terminals: xWR, xRW, xRMW *)
WriteCmds == {2, 3, 5, 6, 8, 9, 11, 12, 13, 14}
LogicalCmds == {10, 11, 12}
Writers(ref) == SelectSeq(Dgrams(ref), LAMBDA p : Byt(ref, p) \in WriteCmds)
Others(ref) == SelectSeq(Dgrams(ref), LAMBDA p : Byt(ref, p) \notin WriteCmds)
Range(s) == {s[i] : i \in 1 .. Len(s)}

(* a write datagram is enabled in frame f iff its command byte is not NOP *)
EnabledSet(f, ref) == {p \in Range(Writers(ref)) : Byt(f, p) # 0}
AnyEnabled(f, ref) == EnabledSet(f, ref) # {}

(* the working counter a write datagram returns with when every addressed terminal took it:
   one terminal for a configured-address datagram, every output-mapped FMMU terminal of the group
   for the logical datagram.  terms = <<[fmmu, insz, outsz, rw], ...>> is the configuration.     *)
ExpectedWkc(ref, p, terms) ==
    IF Byt(ref, p) \in LogicalCmds
    THEN Cardinality({i \in 1 .. Len(terms) : terms[i].fmmu /\ terms[i].rw /\ terms[i].outsz > 0})
    ELSE 1
Wrong(f, ref, terms) == {p \in Range(Writers(ref)) : U16(f, DWkc(ref, p)) # ExpectedWkc(ref, p, terms)}

(* ---- C21, first sentence: what user space emits -------------------------------------------- *)
(* the frame has the reference frame's datagrams (same length fields, same commands) except that
   every write datagram's command is NOP; index byte, addresses, data and counters are not constrained *)
Sterile(f, ref) ==
    /\ Len(f) = Len(ref)
    /\ \A p \in Range(Dgrams(ref)) :
         /\ U16(f, p + 6) = U16(ref, p + 6)
         /\ Byt(f, p) = IF p \in Range(Writers(ref)) THEN 0 ELSE Byt(ref, p)

(* ---- C21, second sentence: one pass of the kernel side -------------------------------------- *)
(* in / out: the frame before and after the pass; processed: the group's program was entered;
   outEn: wkc_errors # 0 before the pass; e0 / e1: wkc_errors before / after as 4-byte words
   (little-endian tuples); the number of errors is added modulo 2^32.                          *)
RECURSIVE AddSmall(_, _, _)
AddSmall(w, n, i) ==        \* w + n for a small n >= 0, byte-wise with carry, modulo 256^Len(w)
    IF i > Len(w) THEN w
    ELSE LET s == w[i] + n IN AddSmall([w EXCEPT ![i] = s % 256], s \div 256, i + 1)
PassOK(in, out, ref, terms, processed, outEn, e0, e1) ==
    IF processed /\ outEn THEN
        /\ Len(out) = Len(in)
        /\ \A p \in Range(Writers(ref)) : Byt(out, p) = Byt(ref, p)               \* re-enabled ...
        /\ \A p \in Range(Others(ref)) : Byt(out, p) = Byt(in, p)                 \* ... exactly those
        /\ \A p \in Range(Writers(ref)) : U16(out, DWkc(ref, p)) = 0             \* counters cleared
        /\ e1 = AddSmall(e0, Cardinality(Wrong(in, ref, terms)), 1)              \* one error each
    ELSE
        /\ Len(out) = Len(in)
        /\ \A p \in Range(Writers(ref)) : Byt(out, p) \in {0, Byt(in, p)}         \* nothing (re-)enabled
        /\ \A p \in Range(Writers(ref)) : U16(out, DWkc(ref, p)) = U16(in, DWkc(ref, p))   \* nothing cleared
        /\ e1 = e0                                                               \* nothing counted
(* which clause failed, for the report *)
PassWhy(in, out, ref, terms, processed, outEn, e0, e1) ==
    IF Len(out) # Len(in) THEN "length"
    ELSE IF processed /\ outEn THEN
        IF \E p \in Range(Writers(ref)) : Byt(out, p) # Byt(ref, p) THEN "writer-not-enabled"
        ELSE IF \E p \in Range(Others(ref)) : Byt(out, p) # Byt(in, p) THEN "other-command-changed"
        ELSE IF \E p \in Range(Writers(ref)) : U16(out, DWkc(ref, p)) # 0 THEN "counter-not-cleared"
        ELSE IF e1 # AddSmall(e0, Cardinality(Wrong(in, ref, terms)), 1) THEN "error-count"
        ELSE "ok"
    ELSE IF \E p \in Range(Writers(ref)) : Byt(out, p) \notin {0, Byt(in, p)} THEN "enabled-without-processing"
    ELSE IF \E p \in Range(Writers(ref)) : U16(out, DWkc(ref, p)) # U16(in, DWkc(ref, p)) THEN "cleared-without-processing"
    ELSE IF e1 # e0 THEN "counted-without-processing"
    ELSE "ok"
=============================================================================
