------------------------------- MODULE Wide -------------------------------
(* Fixed-width two's-complement words as little-endian tuples of bytes (0..255).

   TLC integers are 32-bit and overflow is an error, so 64-bit machine words (8 limbs) and the
   exact wide integers of the DSL denotation (17..65 limbs) are both represented this way.
   All binary operators require operands of equal length n and return length n (arithmetic
   modulo 256^n).  Recursive helpers thread intermediates through parameters (TLC re-evaluates
   LET bodies at every use but caches operator arguments).                                   *)
EXTENDS Integers, Sequences, Bitwise

(* TLC represents [i \in S |-> e] as an unevaluated function: every application re-evaluates e.
   Constructors nested through recursion that mention their argument more than once per element
   then cost exponentially in the nesting depth (measured: restoring division 1.55^depth).
   Mat forces a concrete tuple; every constructor below goes through it.                     *)
Mat(f, n) == SubSeq(f, 1, n)

Byte == 0 .. 255
Pow2(k) == 2 ^ k                       \* k <= 30

WZero(n) == Mat([i \in 1 .. n |-> 0], n)
WOnes(n) == Mat([i \in 1 .. n |-> 255], n)
(* a TLC integer (|v| < 2^31) as an n-byte word, n >= 4 *)
WFromInt(v, n) ==
    Mat([i \in 1 .. n |-> IF i <= 3 THEN (v \div (256 ^ (i - 1))) % 256
                          ELSE IF i = 4 THEN (v \div 16777216) % 256
                          ELSE IF v < 0 THEN 255 ELSE 0], n)

WIsNeg(a) == a[Len(a)] >= 128
WIsZero(a) == \A i \in 1 .. Len(a) : a[i] = 0

(* resize: truncate or extend (zero / sign) to n bytes *)
WZext(a, n) == Mat([i \in 1 .. n |-> IF i <= Len(a) THEN a[i] ELSE 0], n)
WSext(a, n) == Mat([i \in 1 .. n |-> IF i <= Len(a) THEN a[i] ELSE IF WIsNeg(a) THEN 255 ELSE 0], n)
WTrunc(a, n) == Mat([i \in 1 .. n |-> a[i]], n)
(* the low k bytes of a, sign- or zero-extended back to Len(a) *)
WSextFrom(a, k) == Mat([i \in 1 .. Len(a) |-> IF i <= k THEN a[i] ELSE IF a[k] >= 128 THEN 255 ELSE 0], Len(a))
WZextFrom(a, k) == Mat([i \in 1 .. Len(a) |-> IF i <= k THEN a[i] ELSE 0], Len(a))
WNot(a) == Mat([i \in 1 .. Len(a) |-> 255 - a[i]], Len(a))
WAnd(a, b) == Mat([i \in 1 .. Len(a) |-> a[i] & b[i]], Len(a))
WOr(a, b) == Mat([i \in 1 .. Len(a) |-> a[i] | b[i]], Len(a))
WXor(a, b) == Mat([i \in 1 .. Len(a) |-> a[i] ^^ b[i]], Len(a))
RECURSIVE WAddR(_, _, _, _, _)
WAddR(a, b, i, c, acc) ==
    IF i > Len(a) THEN acc
    ELSE WAddR(a, b, i + 1, (a[i] + b[i] + c) \div 256, Append(acc, (a[i] + b[i] + c) % 256))
WAdd(a, b) == WAddR(a, b, 1, 0, <<>>)
WSub(a, b) == WAddR(a, WNot(b), 1, 1, <<>>)
WNeg(a) == WAddR(WZero(Len(a)), WNot(a), 1, 1, <<>>)
WAbs(a) == IF WIsNeg(a) THEN WNeg(a) ELSE a

(* carry out of a + b (used for unsigned comparison): 1 iff a + b >= 256^n *)
RECURSIVE WCarryR(_, _, _, _)
WCarryR(a, b, i, c) ==
    IF i > Len(a) THEN c ELSE WCarryR(a, b, i + 1, (a[i] + b[i] + c) \div 256)
(* unsigned a < b  iff  a - b borrows  iff  a + ~b + 1 has no carry out *)
WULt(a, b) == WCarryR(a, WNot(b), 1, 1) = 0
WULe(a, b) == ~WULt(b, a)
WFlip(a) == Mat([a EXCEPT ![Len(a)] = (a[Len(a)] + 128) % 256], Len(a))
WSLt(a, b) == WULt(WFlip(a), WFlip(b))
WSLe(a, b) == ~WSLt(b, a)

(* a * k for a byte k, plus shifting left by whole bytes, truncated to Len(a) *)
RECURSIVE WMulByteR(_, _, _, _, _)
WMulByteR(a, k, i, c, acc) ==
    IF i > Len(a) THEN acc
    ELSE WMulByteR(a, k, i + 1, (a[i] * k + c) \div 256, Append(acc, (a[i] * k + c) % 256))
WShlBytes(a, q) == Mat([i \in 1 .. Len(a) |-> IF i > q THEN a[i - q] ELSE 0], Len(a))
RECURSIVE WMulR(_, _, _, _)
WMulR(a, b, i, acc) ==
    IF i > Len(a) THEN acc
    ELSE IF b[i] = 0 THEN WMulR(a, b, i + 1, acc)
    ELSE WMulR(a, b, i + 1, WAdd(acc, WShlBytes(WMulByteR(a, b[i], 1, 0, <<>>), i - 1)))
WMul(a, b) == WMulR(a, b, 1, WZero(Len(a)))

(* shifts by k bits, 0 <= k < 8 * Len(a) *)
WShl(a, k) ==
    LET q == k \div 8  r == k % 8  m == 2 ^ r IN
    Mat([i \in 1 .. Len(a) |->
        ((IF i - q >= 1 THEN (a[i - q] * m) % 256 ELSE 0)
         + (IF i - q - 1 >= 1 THEN (a[i - q - 1] * m) \div 256 ELSE 0))], Len(a))
WShrFill(a, k, fill) ==      \* fill = 0 (logical) or 255 (arithmetic, negative a)
    LET q == k \div 8  r == k % 8  m == 2 ^ r  n == Len(a)
        at(j) == IF j <= n THEN a[j] ELSE fill IN
    Mat([i \in 1 .. n |-> (at(i + q) \div m) + ((at(i + q + 1) * (2 ^ (8 - r))) % 256)], n)
WShr(a, k) == WShrFill(a, k, 0)
WSar(a, k) == WShrFill(a, k, IF WIsNeg(a) THEN 255 ELSE 0)

(* small values back to TLC integers *)
WFitsS32(a) == \/ (\A i \in 5 .. Len(a) : a[i] = 0) /\ a[4] < 128
               \/ (\A i \in 5 .. Len(a) : a[i] = 255) /\ a[4] >= 128
WToS32(a) ==   \* requires WFitsS32(a)
    a[1] + 256 * a[2] + 65536 * a[3] + 16777216 * (IF a[4] >= 128 THEN a[4] - 256 ELSE a[4])
WFitsU31(a) == (\A i \in 5 .. Len(a) : a[i] = 0) /\ a[4] < 128

(* does the exact value a fit k bytes, signed / unsigned? *)
WFitsS(a, k) == \/ (\A i \in (k + 1) .. Len(a) : a[i] = 0) /\ a[k] < 128
                \/ (\A i \in (k + 1) .. Len(a) : a[i] = 255) /\ a[k] >= 128
WFitsU(a, k) == \A i \in (k + 1) .. Len(a) : a[i] = 0

(* unsigned division, restoring, bit by bit from the top; with a fast path for small operands.
   state: remainder r (< b), quotient q; bit index j counts down from the top set bit of a to 0.
   If r has its top bit set, 2r+bit does not fit the word but is certainly >= b; since
   2r+bit-b < b the difference computed modulo 256^n is the exact new remainder.            *)
WBit(a, j) == (a[(j \div 8) + 1] \div (2 ^ (j % 8))) % 2
WShl1In(a, bit) == Mat([i \in 1 .. Len(a) |-> ((a[i] * 2) % 256) + (IF i = 1 THEN bit ELSE a[i - 1] \div 128)], Len(a))
RECURSIVE WTopBit0(_, _)
WTopBit0(a, j) == IF j < 0 THEN -1 ELSE IF a[(j \div 8) + 1] = 0 THEN WTopBit0(a, j - 8) ELSE j
RECURSIVE WDivR(_, _, _, _, _)
WDivR(a, b, j, r, q) ==
    IF j < 0 THEN <<q, r>>
    ELSE IF WIsNeg(r) \/ WULe(b, WShl1In(r, WBit(a, j)))
         THEN WDivR(a, b, j - 1, WSub(WShl1In(r, WBit(a, j)), b), WShl1In(q, 1))
         ELSE WDivR(a, b, j - 1, WShl1In(r, WBit(a, j)), WShl1In(q, 0))
(* <<quotient, remainder>>, b # 0 *)
WUDivMod(a, b) ==
    IF WFitsU31(a) /\ WFitsU31(b)
    THEN <<WFromInt(WToS32(a) \div WToS32(b), Len(a)), WFromInt(WToS32(a) % WToS32(b), Len(a))>>
    ELSE WDivR(a, b, WTopBit0(a, 8 * Len(a) - 1), WZero(Len(a)), WZero(Len(a)))
WUDiv(a, b) == WUDivMod(a, b)[1]
WUMod(a, b) == WUDivMod(a, b)[2]

(* signed division on exact values: truncating (toward zero) and flooring variants *)
WSDivT(a, b) == LET q == WUDiv(WAbs(a), WAbs(b)) IN IF WIsNeg(a) # WIsNeg(b) THEN WNeg(q) ELSE q
WSModT(a, b) == LET r == WUMod(WAbs(a), WAbs(b)) IN IF WIsNeg(a) THEN WNeg(r) ELSE r
WSDivF(a, b) == IF WIsZero(WSModT(a, b)) \/ (WIsNeg(a) = WIsNeg(b)) THEN WSDivT(a, b)
                ELSE WSub(WSDivT(a, b), WFromInt(1, Len(a)))
WSModF(a, b) == IF WIsZero(WSModT(a, b)) \/ (WIsNeg(a) = WIsNeg(b)) THEN WSModT(a, b)
                ELSE WAdd(WSModT(a, b), b)

(* byte swap of the low k bytes (k in {2,4,8}), zero-extended *)
WBswap(a, k) == Mat([i \in 1 .. Len(a) |-> IF i <= k THEN a[k + 1 - i] ELSE 0], Len(a))
=============================================================================
