---------------------------- MODULE AddressTrace ----------------------------
(* Trace validation for C25: the probes of station addresses (with the working counter that
   came back) and the writes of register 0x10 seen on the simulated segment while the real
   scan_serial_numbers / Terminal.initialize ran must be a behaviour of Address in which every
   write is a permitted assignment (WriteOK).  Probe results are checked against the model of
   the bus (as many answers as terminals hold the address).                                  *)
EXTENDS Address, Sequences, Json, IOUtils, TLCExt
Traces == JsonDeserialize(IOEnv.TRACE_FILE)
VARIABLES tid, l
tvs == <<avars, tid, l>>
Tr == Traces[tid]

TInit == /\ tid \in 1 .. Len(Traces) /\ l = 1
         /\ conf = [t \in 1 .. Tr.n |-> Tr.conf[t]]
         /\ rng = [lo |-> Tr.lo, hi |-> Tr.hi]
         /\ answered = {} /\ written = {} /\ used = {} /\ task = <<>>

TProbe(e) == e.op = "probe" /\ Probe(e.a, e.wkc)
TWrite(e) == e.op = "write" /\ WriteOK(e.t, e.a) /\ Write(e.t, e.a)

TFinal(e) == /\ e.op = "final"          \* every change of a station address was seen as a write
             /\ conf = [t \in 1 .. Tr.n |-> e.conf[t]]
             /\ UNCHANGED bvars

TNext == /\ l <= Len(Tr.ev)
         /\ l' = l + 1 /\ UNCHANGED <<tid, used, task>>
         /\ LET e == Tr.ev[l] IN TProbe(e) \/ TWrite(e) \/ TFinal(e)
TSpec == TInit /\ [][TNext]_tvs

Max2(a, b) == IF a > b THEN a ELSE b
Progress == TLCSet(tid, Max2(TLCGet(tid), l))
ASSUME \A i \in 1 .. Len(Traces) : TLCSet(i, 0)
Post == \A i \in 1 .. Len(Traces) : PrintT(<<"RESULT", i, TLCGet(i) - 1, Len(Traces[i].ev)>>)
=============================================================================
