---------------------------- MODULE MC_SiiAccess ----------------------------
(* X02 - exhaustive model: a reference master that follows the SII procedure, against the ESC of
   SiiAccess in every configuration (4/8-byte interface, sticky or not, EEPROM assigned to the
   master / offered to the PDI / taken by the PDI, checksum bit, busy at the start), every busy
   duration 0..MaxBusy at every poll, up to MaxErr failed commands anywhere, calls one after
   the other (reads of 4 and 8 bytes at every address of Addrs, writes, whole-image reads).

   The reference master, per call:  take the EEPROM (0x0500 := 2, then := 0);  per command:
   wait until not busy; clear pending error bits (command 0); write control + address
   (+ data word, with write enable) in one datagram; poll status and data in one read until not
   busy; error -> clear and retry (at most MaxTries times, then the call fails); 4-byte
   interface and 8 bytes wanted -> a second command two words on.  The image read walks the
   categories from word 0x40 on 8-byte reads, as SiiImage.CatWalk does on the stored bytes.

   Checked: NoBreach (M1, M2), InWindow by construction (M3), Correct (R1-R4, R6), Terminates (R5).
   No history variables.                                                                      *)
EXTENDS SiiAccess
CONSTANTS MaxErr, MaxTries, MaxCalls, Images, Addrs, WAddrs, WVals, ImageOps

VARIABLES m,        \* the reference master's program state
          errs      \* failed commands so far (environment budget)
mvars == <<ee, esc, cl, m, errs>>

MIdle == [pc |-> "idle", kind |-> "r", a |-> 0, n |-> 0, cur |-> 0, lo |-> <<>>, tries |-> 0,
          res |-> <<>>, phase |-> "", id1 |-> <<>>, id2 |-> <<>>, buf |-> <<>>, pos |-> 0,
          cats |-> <<>>, calls |-> 0]

AddrBytes(a) == <<a % 256, a \div 256, 0, 0>>
(* environment choices that respect the error budget *)
Choices == {r \in Outcomes(esc, ee) : r.esc.eAck /\ ~esc.eAck => errs < MaxErr}
Charge(r) == errs' = IF r.esc.eAck /\ ~esc.eAck THEN errs + 1 ELSE errs

Sub(mm, kind, a, n) == [mm EXCEPT !.pc = "wait", !.kind = kind, !.a = a, !.n = n, !.cur = a,
                                  !.lo = <<>>, !.tries = 0]

MStart == /\ m.pc = "idle" /\ m.calls < MaxCalls
          /\ \/ \E a \in Addrs, op \in {"read4", "read8"} : Call(op, a, <<>>)
             \/ \E a \in WAddrs, v \in WVals : Call("write", a, v)
             \/ ImageOps /\ Call("image", 0, <<>>)
          /\ m' = [MIdle EXCEPT !.pc = "own1", !.calls = m.calls + 1]
          /\ UNCHANGED errs
MOwn1 == m.pc = "own1" /\ DoWrite(RegLo, <<2>>) /\ m' = [m EXCEPT !.pc = "own2"] /\ UNCHANGED errs
MOwn2 == m.pc = "own2" /\ DoWrite(RegLo, <<0>>) /\ m' = [m EXCEPT !.pc = "begin"] /\ UNCHANGED errs
MBegin == /\ m.pc = "begin" /\ UNCHANGED <<ee, esc, cl, errs>>
          /\ m' = CASE cl.op = "read4" -> Sub(m, "r", cl.a, 4)
                    [] cl.op = "read8" -> Sub(m, "r", cl.a, 8)
                    [] cl.op = "write" -> Sub(m, "w", cl.a, 2)
                    [] cl.op = "image" -> [Sub(m, "r", WVendorId, 8) EXCEPT !.phase = "id1"]
MWait == /\ m.pc = "wait"
         /\ \E r \in Choices :
              /\ DoRead(r, RegCtl, 2) /\ Charge(r)
              /\ m' = IF r.esc.busy THEN m
                      ELSE IF r.esc.eAck \/ r.esc.eWE THEN [m EXCEPT !.pc = "clr"]
                      ELSE [m EXCEPT !.pc = "cmd"]
MClr == m.pc = "clr" /\ DoWrite(RegCtl, <<0, 0>>) /\ m' = [m EXCEPT !.pc = "cmd"] /\ UNCHANGED errs
MCmd == /\ m.pc = "cmd" /\ UNCHANGED errs
        /\ IF m.kind = "r" THEN DoWrite(RegCtl, <<0, 1>> \o AddrBytes(m.cur))
           ELSE DoWrite(RegCtl, <<1, 2>> \o AddrBytes(m.a) \o cl.v)
        /\ m' = [m EXCEPT !.pc = "poll"]
MPoll == /\ m.pc = "poll"
         /\ \E r \in Choices :
              /\ DoRead(r, RegCtl, 14) /\ Charge(r)
              /\ LET d == SubSeq(T8(r.esc.data), 1, 4) IN
                 m' = IF r.esc.busy THEN m
                      ELSE IF r.esc.eAck \/ r.esc.eWE
                           THEN IF m.tries < MaxTries THEN [m EXCEPT !.tries = @ + 1, !.pc = "clr"]
                                ELSE [m EXCEPT !.pc = "fail"]
                      ELSE IF m.kind = "w" THEN [m EXCEPT !.pc = "consume"]
                      ELSE IF m.n = 4 THEN [m EXCEPT !.pc = "consume", !.res = d]
                      ELSE IF r.esc.cap8 THEN [m EXCEPT !.pc = "consume", !.res = T8(r.esc.data)]
                      ELSE IF m.lo = <<>> THEN [m EXCEPT !.pc = "cmd", !.lo = d, !.cur = m.a + 2,
                                                         !.tries = 0]
                      ELSE [m EXCEPT !.pc = "consume", !.res = m.lo \o d]
MFail == /\ m.pc = "fail" /\ DoWrite(RegCtl, <<0, 0>>)
         /\ m' = [m EXCEPT !.pc = "raise"] /\ UNCHANGED errs
MRaise == m.pc = "raise" /\ Return([ok |-> FALSE]) /\ m' = [m EXCEPT !.pc = "returned"]
          /\ UNCHANGED errs
MConsume ==
    /\ m.pc = "consume" /\ UNCHANGED errs
    /\ IF cl.op \in {"read4", "read8"}
       THEN Return([ok |-> TRUE, data |-> m.res]) /\ m' = [m EXCEPT !.pc = "returned"]
       ELSE IF cl.op = "write"
       THEN Return([ok |-> TRUE]) /\ m' = [m EXCEPT !.pc = "returned"]
       ELSE /\ UNCHANGED <<ee, esc, cl>>
            /\ m' = CASE m.phase = "id1" ->
                           [Sub(m, "r", WRevisionNo, 8) EXCEPT !.phase = "id2", !.id1 = m.res]
                      [] m.phase = "id2" ->
                           [m EXCEPT !.pc = "walk", !.phase = "cat", !.id2 = m.res,
                                     !.buf = <<>>, !.pos = FirstCategoryWord, !.cats = <<>>]
                      [] m.phase = "cat" -> [m EXCEPT !.pc = "walk", !.buf = m.buf \o m.res]
More(mm) == [Sub(mm, "r", mm.pos, 8) EXCEPT !.pos = mm.pos + 4]
MWalk ==
    /\ m.pc = "walk" /\ UNCHANGED errs
    /\ IF Len(m.buf) < 4 THEN m' = More(m) /\ UNCHANGED <<ee, esc, cl>>
       ELSE IF U16(m.buf, 0) = EndMarker
       THEN /\ Return([ok |-> TRUE, cats |-> m.cats,
                       id |-> [vendorId |-> SubSeq(m.id1, 1, 4), productCode |-> SubSeq(m.id1, 5, 8),
                               revisionNo |-> SubSeq(m.id2, 1, 4), serialNo |-> SubSeq(m.id2, 5, 8)]])
            /\ m' = [m EXCEPT !.pc = "returned"]
       ELSE IF Len(m.buf) < 4 + 2 * U16(m.buf, 2) THEN m' = More(m) /\ UNCHANGED <<ee, esc, cl>>
       ELSE /\ UNCHANGED <<ee, esc, cl>>
            /\ m' = [m EXCEPT !.cats = Append(@, [type |-> U16(m.buf, 0),
                                                  data |-> SubSeq(m.buf, 5, 4 + 2 * U16(m.buf, 2))]),
                              !.buf = SubSeq(m.buf, 5 + 2 * U16(m.buf, 2), Len(m.buf))]
MAgain == m.pc = "returned" /\ NextCall /\ m' = [MIdle EXCEPT !.calls = m.calls] /\ UNCHANGED errs

(* the interface finishes on its own, whether the master looks or not *)
EnvDone == /\ esc.busy
           /\ \E f \in BOOLEAN : /\ (f => errs < MaxErr)
                                 /\ esc' = Fin(esc, ee, f).esc /\ ee' = Fin(esc, ee, f).ee
                                 /\ errs' = IF f THEN errs + 1 ELSE errs
           /\ UNCHANGED <<cl, m>>


(* small images: 128 header bytes, categories of the given word lengths (types 1, 2, ...), the
   end marker, `tail` more words *)
RECURSIVE MkCats(_, _, _)
MkCats(lens, k, acc) ==
    IF k > Len(lens) THEN acc
    ELSE MkCats(lens, k + 1, acc \o <<k, 0, lens[k], 0>> \o [j \in 1 .. 2 * lens[k] |-> 16 * k + j])
MkImage(lens, tail) == [k \in 1 .. 128 |-> 1 + ((k * 7) % 250)] \o MkCats(lens, 1, <<>>)
                       \o <<255, 255>> \o [j \in 1 .. 2 * tail |-> 200 + j]
MCImagesQuick == {MkImage(<<1>>, 0), MkImage(<<0, 2>>, 1)}
MCImages == {MkImage(<<>>, 0), MkImage(<<1>>, 0), MkImage(<<0, 2>>, 1), MkImage(<<3>>, 1)}
MCVals == {<<171, 205>>}

MCInit == /\ ee \in Images
          /\ \E cap8, sticky, ck, ib \in BOOLEAN, own \in 0 .. 2 :
                esc = EscOf(cap8, sticky, own, ck, FALSE, ib)
          /\ cl = ClIdle /\ m = MIdle /\ errs = 0
MCNext == MStart \/ MOwn1 \/ MOwn2 \/ MBegin \/ MWait \/ MClr \/ MCmd \/ MPoll \/ MFail \/ MRaise
          \/ MConsume \/ MWalk \/ MAgain \/ EnvDone
MCSpec == MCInit /\ [][MCNext]_mvars /\ WF_mvars(MCNext)

Terminates == (cl.pc = "run") ~> (cl.pc = "done")
(* with more tries than failures the reference master always delivers *)
NeverFails == MaxTries >= MaxErr => (cl.pc = "done" => cl.res.ok)
Quiet == m.pc = "idle" /\ m.calls = MaxCalls     \* the only state without a successor
=============================================================================
