------------------------------ MODULE SlowCycle ------------------------------
(* C30 - the cycle of a slow sync group.

   Cycle number k+1 (k = completed cycles) is  Send F_{k+1} ; Receive R_{k+1} ; Update.

     Update   every device's update runs once; what a device reads from an input variable is
              the value that variable has in the latest response; from the second cycle on the
              error counter grows by exactly the number of datagrams of that response whose
              returned 16-bit working counter differs from the number of terminals that the
              configuration makes process the datagram (first cycle: unconstrained);
     Send     from the second frame on, the frame carries every output the devices set during
              the preceding update, and every working counter in it is 0 (both bytes);
     Receive  the environment: same datagrams as the frame, arbitrary data and counters.
     Lose     the environment: the frame on the wire is not answered (lost, or answered too
              late for the group, which gives up waiting).  No update happens and nothing was
              returned, so from the second cycle on nothing is reported as an error; the group
              is back at Send, whose demands are unchanged: what is resent carries the outputs
              of the last update and cleared counters.  (A response that arrives after the
              group sent again counts as the response to the frame then on the wire: the
              "latest response".)
     Restart  the group's task ended (cancelled, or died) and the same group - same devices,
              same terminals - is started again.  That is a new run: cycles are counted from
              one again, so the first frame and the first error count are free once more and
              every later frame carries what the devices set in THIS run with cleared
              counters.  The configuration may differ (the group may map its FMMUs elsewhere).

   Where a variable lives in a frame is NOT taken from the code under test: it follows from
   EtherCAT addressing and the configuration of the segment - station addresses and process
   data offsets of the terminals and the FMMUs that are active in them.  The layout of the
   frame itself is free (whatever datagrams the master chose); the first (identification)
   datagram of a frame is not part of F.

   cfg  = [terms |-> << [station, fmmu_in, fmmu_out (is that direction of the terminal's process
                         data exchanged by logical addressing through an FMMU, or by its
                         station address), in_off, out_off,
                         fm |-> << [logical, length, phys, dir] >>] >>,
           vars  |-> << [term, sm ("in"/"out"), pos, n (bytes), bit (-1 = whole value)] >>,
           ndev  |-> number of devices]
   datagram = [cmd, adp, ado, laddr, len, data (sequence of bytes), wkc (0..65535)]           *)
EXTENDS Integers, Sequences, FiniteSets, TLC

FPRD == 4   FPWR == 5   LRD == 10   LWR == 11

VARIABLES cfg,        \* the configuration (fixed during a behaviour)
          phase,      \* "send" | "recv" | "update"
          k,          \* number of completed cycles
          frame,      \* the frame on the wire
          resp,       \* the latest response
          errs,       \* the group's error counter
          lastsets,   \* what the devices set during the last update: << [v, val] >> in order
          base, wrong \* ghosts: counter after the first cycle; wrong datagrams since then

svars == <<cfg, phase, k, frame, resp, errs, lastsets, base, wrong>>

RECURSIVE Pow2(_)
Pow2(n) == IF n = 0 THEN 1 ELSE 2 * Pow2(n - 1)

-----------------------------------------------------------------------------
(* the terminals that process datagram d: configured station address, or an active FMMU of
   the matching direction (1 = read, 2 = write) overlapping the datagram's logical window   *)
Processing(c, d) ==
    { t \in DOMAIN c.terms :
        \/ d.cmd \in {FPRD, FPWR} /\ c.terms[t].station = d.adp
        \/ /\ d.cmd \in {LRD, LWR}
           /\ \E j \in DOMAIN c.terms[t].fm :
                 LET f == c.terms[t].fm[j] IN
                   /\ f.dir = (IF d.cmd = LRD THEN 1 ELSE 2)
                   /\ f.logical < d.laddr + d.len /\ d.laddr < f.logical + f.length }
Expected(c, d) == Cardinality(Processing(c, d))
WrongCount(c, R) == Cardinality({i \in DOMAIN R : R[i].wkc # Expected(c, R[i])})
Cleared(F) == \A i \in DOMAIN F : F[i].wkc = 0

(* where variable v is in frame F: set of <<datagram, index into its data>>.  An input is in
   a read datagram, an output in a (live) write datagram.                                    *)
Locs(c, F, v) ==
    LET t    == c.terms[v.term]
        dir  == IF v.sm = "in" THEN 1 ELSE 2
        pa   == (IF v.sm = "in" THEN t.in_off ELSE t.out_off) + v.pos  \* physical address
    IN IF (IF v.sm = "in" THEN t.fmmu_in ELSE t.fmmu_out)
       THEN { <<p[1], (t.fm[p[2]].logical + (pa - t.fm[p[2]].phys)) - F[p[1]].laddr + 1>> :
                p \in { q \in (DOMAIN F) \X (DOMAIN t.fm) :
                          LET d == F[q[1]]
                              f == t.fm[q[2]]
                              la == f.logical + (pa - f.phys)
                          IN /\ d.cmd = (IF dir = 1 THEN LRD ELSE LWR)
                             /\ f.dir = dir
                             /\ f.phys <= pa /\ pa + v.n <= f.phys + f.length
                             /\ d.laddr <= la /\ la + v.n <= d.laddr + d.len } }
       ELSE { <<i, pa - F[i].ado + 1>> :
                i \in { j \in DOMAIN F :
                          /\ F[j].cmd = (IF dir = 1 THEN FPRD ELSE FPWR)
                          /\ F[j].adp = t.station
                          /\ F[j].ado <= pa /\ pa + v.n <= F[j].ado + F[j].len } }

ValAt(F, v, loc) ==
    LET b == F[loc[1]].data IN
    IF v.bit >= 0 THEN (b[loc[2]] \div Pow2(v.bit)) % 2
    ELSE IF v.n = 1 THEN b[loc[2]]
    ELSE b[loc[2]] + 256 * b[loc[2] + 1]

(* frame F holds value val for variable v *)
Holds(c, F, v, val) == /\ Locs(c, F, v) # {}
                       /\ \A loc \in Locs(c, F, v) : ValAt(F, v, loc) = val

(* the value a variable has after a sequence of settings: the last one *)
LastSet(S, v) == S[CHOOSE i \in DOMAIN S : S[i].v = v /\ \A j \in DOMAIN S : S[j].v = v => j <= i].val
SetVars(S) == {S[i].v : i \in DOMAIN S}

InputsSeen(c, R, reads) ==
    \A i \in DOMAIN reads : /\ c.vars[reads[i].v].sm = "in"
                            /\ Holds(c, R, c.vars[reads[i].v], reads[i].val)
OutputsSent(c, F, S) ==
    \A v \in SetVars(S) : /\ c.vars[v].sm = "out"
                          /\ Holds(c, F, c.vars[v], LastSet(S, v))
RanOnce(c, ran) == /\ Len(ran) = c.ndev
                   /\ {ran[i] : i \in DOMAIN ran} = 1 .. c.ndev
SameShape(F, R) == /\ Len(F) = Len(R)
                   /\ \A i \in DOMAIN F : /\ F[i].cmd = R[i].cmd /\ F[i].adp = R[i].adp
                                          /\ F[i].ado = R[i].ado /\ F[i].laddr = R[i].laddr
                                          /\ F[i].len = R[i].len /\ Len(R[i].data) = R[i].len
-----------------------------------------------------------------------------
Init(c) == /\ cfg = c /\ phase = "send" /\ k = 0 /\ frame = <<>> /\ resp = <<>>
           /\ errs = 0 /\ lastsets = <<>> /\ base = 0 /\ wrong = 0

Send(F) == /\ phase = "send"
           /\ k >= 1 => (Cleared(F) /\ OutputsSent(cfg, F, lastsets))
           /\ frame' = F /\ phase' = "recv"
           /\ UNCHANGED <<cfg, k, resp, errs, lastsets, base, wrong>>

Receive(R) == /\ phase = "recv"
              /\ SameShape(frame, R)
              /\ resp' = R /\ phase' = "update"
              /\ UNCHANGED <<cfg, k, frame, errs, lastsets, base, wrong>>

Restart(c) == /\ cfg' = c /\ phase' = "send" /\ k' = 0 /\ frame' = <<>> /\ resp' = <<>>
              /\ errs' = 0 /\ lastsets' = <<>> /\ base' = 0 /\ wrong' = 0

(* e = the error counter observed when the group gives up on the frame *)
Lose(e) == /\ phase = "recv"
           /\ e \in Nat
           /\ k >= 1 => e = errs
           /\ errs' = e /\ phase' = "send" /\ frame' = <<>>
           /\ UNCHANGED <<cfg, k, resp, lastsets, base, wrong>>

(* obs = [ran |-> devices in the order their update ran, reads |-> << [v, val] >>,
          sets |-> << [v, val] >>, errs |-> the error counter after the update]             *)
Update(obs) == /\ phase = "update"
               /\ RanOnce(cfg, obs.ran)
               /\ InputsSeen(cfg, resp, obs.reads)
               /\ obs.errs \in Nat
               /\ k >= 1 => obs.errs = errs + WrongCount(cfg, resp)
               /\ errs' = obs.errs /\ lastsets' = obs.sets
               /\ k' = k + 1 /\ phase' = "send" /\ resp' = <<>>
               /\ base' = (IF k = 0 THEN obs.errs ELSE base)
               /\ wrong' = (IF k = 0 THEN 0 ELSE wrong + WrongCount(cfg, resp))
               /\ frame' = <<>> /\ UNCHANGED cfg
-----------------------------------------------------------------------------
(* properties of the design, checked in MC_SlowCycle *)
ErrAccounting == k >= 1 => errs = base + wrong
ClearedOnWire == (phase # "send" /\ k >= 1) => Cleared(frame)   \* frame = <<>> while phase = "send"
OutputsOnWire == (phase # "send" /\ k >= 1) => OutputsSent(cfg, frame, lastsets)
=============================================================================
