SPECIFICATION TSpec
INVARIANT VObserve
CHECK_DEADLOCK FALSE
