------------------------------- MODULE Layout -------------------------------
(* What a layout of declared variables must satisfy (C08: variables of an array map; C09: members
   of a Structure, in Python's `data` and on the program's stack).

   A format is [n |-> element count, c |-> struct letter]; "x" is the fixed-point format, stored
   as a 64-bit integer.  A slot is [pos |-> first byte, size |-> number of bytes].             *)
EXTENDS Integers, Sequences, FiniteSets

ElemSize(c) == CASE c \in {"b", "B"} -> 1
                 [] c \in {"h", "H"} -> 2
                 [] c \in {"i", "I"} -> 4
                 [] c \in {"q", "Q", "x"} -> 8
Size(f) == f.n * ElemSize(f.c)
Signed(c) == c \in {"b", "h", "i", "q", "x"}

Slot(pos, f) == [pos |-> pos, size |-> Size(f)]
End(s) == s.pos + s.size
(* every slot lies inside the region of `total` bytes *)
Inside(slots, total) == \A i \in DOMAIN slots : slots[i].pos >= 0 /\ End(slots[i]) <= total
(* no byte belongs to two slots *)
Apart(a, b) == End(a) <= b.pos \/ End(b) <= a.pos
Disjoint(slots) == \A i, j \in DOMAIN slots : i < j => Apart(slots[i], slots[j])
Overlaps(slots) == {<<i, j>> \in (DOMAIN slots) \X (DOMAIN slots) : i < j /\ ~Apart(slots[i], slots[j])}
Outside(slots, total) == {i \in DOMAIN slots : slots[i].pos < 0 \/ End(slots[i]) > total}

RECURSIVE SumSizes(_, _)
SumSizes(slots, i) == IF i > Len(slots) THEN 0 ELSE slots[i].size + SumSizes(slots, i + 1)
(* a packed structure: the members tile the `total` bytes exactly (no overlap, no padding) *)
Packed(slots, total) == Inside(slots, total) /\ Disjoint(slots) /\ SumSizes(slots, 1) = total
(* two layouts of the same members denote the same bytes when one is the other shifted by `base` *)
Shifted(a, b, base) == /\ Len(a) = Len(b)
                       /\ \A i \in DOMAIN a : b[i].pos = a[i].pos + base /\ b[i].size = a[i].size
=============================================================================
