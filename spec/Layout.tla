------------------------------- MODULE Layout -------------------------------
(* What a layout of declared variables must satisfy (C08: variables of an array map; C09: members
   of a Structure, in Python's `data` and on the program's stack).

   A format is [n |-> element count, c |-> struct letter]; "x" is the fixed-point format, stored
   as a 64-bit integer.  A slot is [pos |-> first byte, size |-> number of bytes].             *)
EXTENDS Integers, Sequences, FiniteSets

ElemSize(c) == CASE c \in {"b", "B"} -> 1
                 [] c \in {"h", "H"} -> 2
                 [] c \in {"i", "I"} -> 4
                 [] c \in {"q", "Q", "x"} -> 8
(* A format is n elements of one letter c, or - when it has a field `els` - a sequence of element letters with
   "pad" for a pad byte; a field `o` holds its byte-order prefix ("" = native).  Sizes follow the struct module:
   with a byte order the elements are packed, natively every element is aligned to its own size (no padding at
   the end).  So a size need not be a multiple of the size of any element.                                   *)
Els(f) == IF "els" \in DOMAIN f THEN f.els ELSE [i \in 1 .. f.n |-> f.c]
IsNative(f) == IF "o" \in DOMAIN f THEN f.o = "" ELSE TRUE
ESize(c) == IF c = "pad" THEN 1 ELSE ElemSize(c)
RECURSIVE EndOf(_, _, _, _)
EndOf(e, native, i, off) ==
    IF i > Len(e) THEN off
    ELSE LET a == ESize(e[i])
             at == IF native THEN ((off + a - 1) \div a) * a ELSE off IN
         EndOf(e, native, i + 1, at + a)
Size(f) == IF "els" \in DOMAIN f THEN EndOf(f.els, IsNative(f), 1, 0) ELSE f.n * ElemSize(f.c)
(* the letters of the elements that carry a value *)
RECURSIVE NoPads(_, _, _)
NoPads(e, i, acc) == IF i > Len(e) THEN acc ELSE NoPads(e, i + 1, IF e[i] = "pad" THEN acc ELSE Append(acc, e[i]))
VLetters(f) == NoPads(Els(f), 1, <<>>)
Signed(c) == c \in {"b", "h", "i", "q", "x"}

Slot(pos, f) == [pos |-> pos, size |-> Size(f)]
End(s) == s.pos + s.size
(* every slot lies inside the region of `total` bytes *)
Inside(slots, total) == \A i \in DOMAIN slots : slots[i].pos >= 0 /\ End(slots[i]) <= total
(* no byte belongs to two slots *)
Apart(a, b) == End(a) <= b.pos \/ End(b) <= a.pos
Disjoint(slots) == \A i, j \in DOMAIN slots : i < j => Apart(slots[i], slots[j])
Overlaps(slots) == {<<i, j>> \in (DOMAIN slots) \X (DOMAIN slots) : i < j /\ ~Apart(slots[i], slots[j])}
Outside(slots, total) == {i \in DOMAIN slots : slots[i].pos < 0 \/ End(slots[i]) > total}

RECURSIVE SumSizes(_, _)
SumSizes(slots, i) == IF i > Len(slots) THEN 0 ELSE slots[i].size + SumSizes(slots, i + 1)
(* a packed structure: the members tile the `total` bytes exactly (no overlap, no padding) *)
Packed(slots, total) == Inside(slots, total) /\ Disjoint(slots) /\ SumSizes(slots, 1) = total
(* two layouts of the same members denote the same bytes when one is the other shifted by `base` *)
Shifted(a, b, base) == /\ Len(a) = Len(b)
                       /\ \A i \in DOMAIN a : b[i].pos = a[i].pos + base /\ b[i].size = a[i].size
=============================================================================
