-------------------------------- MODULE Prog --------------------------------
(* X08 (beyond the listed properties) - sequences of DSL statements over registers, temporaries and variables.

   C01 judges one statement at a time from fresh inputs, C04 judges copies.  Here a whole program is a sequence of
   assignments  dst := <expression>  whose operands are the values LEFT BY EARLIER STATEMENTS in array-map, hash-map
   and local variables, in user registers (through their r / sr / w views), in scoped temporaries (tmp / stmp / wtmp)
   and the kernel time (an oracle).  The reference is a store: one cell per variable / register / temporary; a
   statement evaluates its expression by Dsl.tla on the current store (exact value, the property's width rule and
   precondition) and changes exactly its destination.  What the requirement is taken from: the DSL documentation
   (registers and temporaries hold their value until assigned; `with self.tmp:` reserves a free register for the
   block) and C01 / C04 extended to sequences.

   case = EbpfRun's case record plus
     pvars   <<[size, kind, fd, off, key, init]>>  cells; size = bytes kept (a variable's size, 8 for registers and
             temporaries); kind / fd / off / key say where the cell can be observed after the run as in VarFrame
             ("arr", "hash"; "none" for registers, temporaries and locals, which the program copies out itself)
     pstmts  <<[dst, dsize, ast, n]>>  dst := ast;  dsize = bytes the destination defines (4 for a w view: the cell
             then keeps 4 bytes, see ReadsOK);  leaves of ast name
             cells as [fd |-> 0, off |-> cell index]; the j-th call of ktime is the leaf [k |-> "reg", kind |-> "r",
             fd |-> -1, off |-> j]                                                                               *)
EXTENDS EbpfRun, Dsl

RECURSIVE OrcFn(_, _), CellFn(_, _, _)
OrcFn(k, j) == IF j > Len(k.orc) THEN (<<0, -1>> :> W0) ELSE (<<-1, j>> :> k.orc[j]) @@ OrcFn(k, j + 1)
CellFn(k, s, j) == IF j > Len(s) THEN OrcFn(k, 1) ELSE (<<0, j>> :> WZext(s[j], 8)) @@ CellFn(k, s, j + 1)

RECURSIVE PStore0(_, _)
PStore0(k, j) == IF j > Len(k.pvars) THEN <<>> ELSE <<k.pvars[j].init>> \o PStore0(k, j + 1)

(* register operands of a tree *)
RECURSIVE RegLeaves(_)
RegLeaves(e) == CASE e.k = "reg" -> IF e.fd = 0 THEN {e} ELSE {}
                  [] e.k = "bin" -> RegLeaves(e.l) \cup RegLeaves(e.r)
                  [] e.k \in {"neg", "abs"} -> RegLeaves(e.a)
                  [] OTHER -> {}
(* A cell written through a w view keeps only its 4 low bytes: nothing says what the upper half of the register
   holds afterwards (32-bit operations clear it, a `w = 8-byte variable` loads all 64 bits), so a later read of the
   whole register is not judged.                                                                                *)
ReadsOK(e, s) == \A x \in RegLeaves(e) : x.kind \in {"r", "sr"} => Len(s[x.off]) = 8
(* observation W (same root cause as the known finding F21: Register.calculate ignores the requested width): a w
   view is read while the register holds a value with a non-zero upper half, or was last written through a w view
   (which may load all 64 bits of an 8-byte variable)                                                            *)
WStale(e, s) == \E x \in RegLeaves(e) : x.kind = "w" /\ (Len(s[x.off]) = 4 \/ SubSeq(s[x.off], 5, 8) # <<0, 0, 0, 0>>)

(* the new content of the destination cell, or <<>> when the statement is outside the precondition *)
NewCell(t, L, w) ==
    IF ~Checkable(t.ast, L, t.n, w) THEN <<>>
    ELSE WTrunc(TheVal(t.ast, L, t.n), t.dsize)
NewCellOf(k, s, t) == IF ~ReadsOK(t.ast, s) THEN <<>> ELSE NewCell(t, CellFn(k, s, 1), Width(t.ast, t.dsize))

RECURSIVE RunProg(_, _, _, _), RunProgS(_, _, _, _, _)
RunProg(k, s, j, stale) ==
    IF j > Len(k.pstmts) THEN [ok |-> TRUE, at |-> 0, s |-> s, stale |-> stale]
    ELSE RunProgS(k, s, j, NewCellOf(k, s, k.pstmts[j]), stale \/ WStale(k.pstmts[j].ast, s))
RunProgS(k, s, j, c, stale) ==
    IF c = <<>> THEN [ok |-> FALSE, at |-> j, s |-> s, stale |-> stale]
    ELSE RunProg(k, [s EXCEPT ![k.pstmts[j].dst] = c], j + 1, stale)

PObserved(k, f, v) ==
    CASE v.kind = "arr" -> LoadBytes(f.m, Rg("arr", v.fd, <<>>), v.off, v.size)
      [] v.kind = "hash" -> IF Rg("hash", v.fd, v.key) \in DOMAIN f.m
                            THEN LoadBytes(f.m, Rg("hash", v.fd, v.key), 0, v.size) ELSE <<"absent">>
      [] OTHER -> <<>>
PChanged(k, f, s) ==
    {<<i, PObserved(k, f, k.pvars[i]), s[i]>> : i \in {j \in 1 .. Len(k.pvars) :
          k.pvars[j].kind \in {"arr", "hash"} /\ PObserved(k, f, k.pvars[j]) # s[j]}}

ProgVerdictOf(k, f, r) ==
    IF ~r.ok THEN <<"skipped", <<r.at>>, {}, r.stale>>
    ELSE IF ~Exited(f.c) THEN <<"fault", f.c.st, {}, r.stale>>
    ELSE IF PChanged(k, f, r.s) = {} THEN <<"ok", <<>>, {}, r.stale>>
    ELSE <<"wrong", <<>>, PChanged(k, f, r.s), r.stale>>
ProgReport(k) == <<"VERDICT", cid>> \o ProgVerdictOf(k, Final(k), RunProg(k, PStore0(k, 1), 1, FALSE))
ObserveProg == PrintT(ProgReport(Cases[cid]))
=============================================================================
