----------------------------- MODULE MC_Motor -----------------------------
(* Exhaustive check of the consequences of Motor!Law on a small grid of exact integers
   (4-byte words; every grid value fits one byte, so nothing wraps), and of the same law
   against its direct statement on TLC integers.                                             *)
EXTENDS Motor, Integers, TLC
CONSTANTS TMax, PMax, GMax, AMax, VMax       \* the grid: every integer up to these magnitudes
VARIABLES target, pos, gain, acc, vmax, prev, low, high
vars == <<target, pos, gain, acc, vmax, prev, low, high>>

W(x) == WFromInt(x, 4)
Init == /\ target \in (0 - TMax) .. TMax /\ pos \in (0 - PMax) .. PMax
        /\ gain \in 0 .. GMax /\ acc \in 0 .. AMax
        /\ vmax \in 0 .. VMax /\ prev \in (0 - vmax) .. vmax
        /\ low \in BOOLEAN /\ high \in BOOLEAN
Next == FALSE /\ UNCHANGED vars

V == Law(W(target), W(pos), W(gain), W(acc), W(vmax), W(prev), low, high)

(* the law once more, directly on integers *)
Min(a, b) == IF a < b THEN a ELSE b
Max(a, b) == IF a > b THEN a ELSE b
IntLaw == LET d == gain * (target - pos)
              a == Max(prev - acc, Min(prev + acc, d))
              b == Max(0 - vmax, Min(vmax, a)) IN
          IF (low /\ b < 0) \/ (high /\ b > 0) THEN 0 ELSE b

PreHolds == Pre(W(acc), W(vmax), W(prev), W(32767))
LawIsIntLaw == V = W(IntLaw)
ConsequencesHold == PreHolds => Consequences(V, W(acc), W(vmax), W(prev), low, high)
(* the same consequences read off the integer value *)
IntConsequences == LET v == IntLaw IN
    /\ v <= vmax /\ v >= 0 - vmax
    /\ (low => v >= 0) /\ (high => v <= 0)
    /\ (v = 0 \/ (v - prev <= acc /\ prev - v <= acc))
=============================================================================
