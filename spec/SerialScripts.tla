---------------------------- MODULE SerialScripts ----------------------------
(* Terminal and application behaviours for C28, as timing parameters (in bus cycles):
     di  cycles the terminal lets the init request wait before it acknowledges it
     dr  cycles it lets the withdrawn request wait before it is ready
     ta, rr  state in which its toggle bits come up
     tx  application writes: gap = cycles after the previous write (the first: after cycle 0),
         d = cycles the terminal lets the resulting transmit request wait before accepting
         (the k-th accept delay applies to the k-th chunk presented)
     rx  chunks the terminal announces: gap = cycles it waits once it is free to announce
     scribble  whether it overwrites its buffer once a chunk has been acknowledged
   Every combination within the bounds is printed once.  Payloads are added by the driver.    *)
EXTENDS Integers, Sequences, TLC, Json
CONSTANTS K, Gaps, MaxTx, MaxRx, FullInit
VARIABLES s, phase
Inits == IF FullInit
         THEN [di : 0 .. K, dr : 0 .. K, ta : BOOLEAN, rr : BOOLEAN]
         ELSE {[di |-> 0, dr |-> 0, ta |-> FALSE, rr |-> FALSE],
               [di |-> K, dr |-> 1, ta |-> TRUE, rr |-> FALSE],
               [di |-> 1, dr |-> K, ta |-> FALSE, rr |-> TRUE],
               [di |-> 0, dr |-> K, ta |-> TRUE, rr |-> TRUE]}
SInit == /\ phase = "tx"
         /\ \E i \in Inits : s = [init |-> i, tx |-> <<>>, rx |-> <<>>, scribble |-> FALSE]
SNext == \/ /\ phase = "tx" /\ Len(s.tx) < MaxTx /\ UNCHANGED phase
            /\ \E g \in Gaps, d \in 0 .. K : s' = [s EXCEPT !.tx = Append(@, [gap |-> g, d |-> d])]
         \/ phase = "tx" /\ phase' = "rx" /\ UNCHANGED s
         \/ /\ phase = "rx" /\ Len(s.rx) < MaxRx /\ UNCHANGED phase
            /\ \E g \in 0 .. K : s' = [s EXCEPT !.rx = Append(@, [gap |-> g])]
         \/ /\ phase = "rx" /\ phase' = "done"
            /\ \E b \in (IF Len(s.rx) > 0 THEN BOOLEAN ELSE {FALSE}) : s' = [s EXCEPT !.scribble = b]
SSpec == SInit /\ [][SNext]_<<s, phase>>
Emit == phase = "done" => PrintT(<<"SCRIPT", ToJson(s)>>)
=============================================================================
