---------------------------- MODULE MC_XdpLink ----------------------------
(* Exhaustive model for X04: a REFERENCE CLIENT (a design that meets R1..R11) against the kernel
   model and an adversarial environment, built only from guarded XdpLink actions, so that every
   behaviour of the design is a behaviour of XdpLink.

   Environment: any call sequence of length MaxCalls over Targets (exit only for an open context),
   prog_load / socket() / sendto failures, the kernel refusing a request (Forced), at most one
   unrelated message per socket before the acknowledgement (Noise), cancellation of a call at
   any point.
   Design: load (closing a descriptor that is still open first), map loads, one socket, one
   request built with Build, wait for the acknowledgement of ITS request, close the socket,
   return what the acknowledgement says.  `exit` is carried through even when cancelled; an
   `enter` cancelled after its request went out is taken back with a second request (fd -1).
   `enter` closes the descriptor once the program is attached, `close` closes it.

   Checked: no deadlock (from every reachable state of a call the design can go on until the
   call has returned - so R1..R11 can be met together in every environment, in particular R8
   under cancellation), the invariants of XdpLink, the round trip of the reference encoders
   through the parsers (ASSUME), and DesignClean / ContextTruth below.                        *)
EXTENDS XdpLink
CONSTANTS MaxCalls, Cfg, Targets, FdPool, Forced, Noise, EnvFail, NMaps

VARIABLE ncalls
mvars == <<xvars, ncalls>>

IMG == 7
CfgD == <<[ifx |-> 2, native |-> FALSE], [ifx |-> 70000, native |-> TRUE]>>
TargetsD == {<<2, 2>>, <<70000, 4>>, <<2, 4>>}
PID == 19720

MInit == Init(Cfg, NMaps) /\ ncalls = 0

DCall == /\ ncalls < MaxCalls /\ ncalls' = ncalls + 1
         /\ \/ \E op \in {"load", "close"} : Call(op, 0, 0, "none")
            \/ \E op \in {"attach", "detach", "enter"}, t \in Targets : Call(op, t[1], t[2], "none")
            \/ \E how \in {"normal", "raise", "cancelled"} : Call("exit", ctx.ifx, ctx.flags, how)

Loading == Running /\ cl.op \in {"load"} \cup AttachOps /\ cl.nloads = 0 /\ cl.fail = 0
Stop == cl.cancel /\ cl.op # "exit"          \* the design stops starting new things when cancelled
(* before a (re)load the design closes what is still open *)
DPreClose == /\ Loading /\ ~Stop /\ fdt # {}
             /\ \E fd \in Fds(fdt) : Close(fd)
DLoad == /\ Loading /\ ~Stop /\ fdt = {}
         /\ \/ \E fd \in FdPool : Load(fd, IMG)
            \/ \E e \in EnvFail : LoadFail(e, IMG)
DMapLoad == \E m \in 1 .. nmaps : MapLoad(m)
Loaded == cl.op \in AttachOps => cl.nloads = 1 /\ cl.maps = 1 .. nmaps

DOpen == /\ MayOpen /\ Loaded /\ ~Stop /\ cl.prim = 0 /\ socks = <<>>
         /\ \/ Open(1)
            \/ \E e \in EnvFail : OpenFail(e)
Want == IF cl.op \in AttachOps THEN cl.fd ELSE -1
DSend == /\ Len(socks) = 1 /\ cl.prim = 0 /\ ~Stop
         /\ LET b == Build(cl.ifx, Want, cl.flags, 1) IN
              \/ \E f \in Forced \cup {0} : Send(1, b, f)
              \/ \E e \in EnvFail : SendFail(1, b, e)
(* taking back a cancelled entry: a second socket, a second request *)
NeedComp == /\ Running /\ cl.op = "enter" /\ cl.cancel /\ cl.prim # 0 /\ socks[cl.prim].sent
            /\ cl.fail = 0 /\ Holds(cl.ifx, cl.prog)
DCompOpen == /\ NeedComp /\ Len(socks) = 1 /\ socks[1].st = "closed"
             /\ \/ Open(2)
                \/ \E e \in EnvFail : OpenFail(e)
DCompSend == /\ NeedComp /\ Len(socks) = 2 /\ cl.comp = 0
             /\ LET b == Build(cl.ifx, -1, cl.flags, 2) IN
                  \/ \E f \in Forced \cup {0} : Send(2, b, f)
                  \/ \E e \in EnvFail : SendFail(2, b, e)

DRecv == \E s \in 1 .. Len(socks) :
            /\ socks[s].st = "open" /\ socks[s].sent /\ ~socks[s].acked
            /\ \/ Recv(s, AckBytes(socks[s].req, socks[s].res, PID))
               \/ ~socks[s].noise /\ \E k \in Noise : Recv(s, NoiseBytes(k, socks[s].req))
               \/ ~socks[s].noise /\ \E k \in Noise :
                     Recv(s, NoiseBytes(k, socks[s].req) \o AckBytes(socks[s].req, socks[s].res, PID))
(* a socket is closed when its exchange is over, or when the call is given up *)
Over(s) == socks[s].acked \/ socks[s].lost \/ cl.fail # 0 \/ (Stop /\ (s = 1 \/ ~NeedComp))
DSClose == \E s \in 1 .. Len(socks) : socks[s].st = "open" /\ Over(s) /\ SClose(s)

AllClosed == \A s \in 1 .. Len(socks) : socks[s].st = "closed"
(* enter: once the program is attached (or the entry has failed) the descriptor is not needed *)
DClose == /\ Running /\ AllClosed
          /\ \/ cl.op = "close"
             \/ cl.op = "enter" /\ cl.nloads = 1 /\ (cl.prim # 0 \/ cl.fail # 0 \/ cl.cancel)
          /\ \E fd \in Fds(fdt) : Close(fd)

Outs == [res : {"ok", "propagate", "oserror", "cancelled"},
         errno : {0, cl.fail} \cup (IF Answered THEN {-Verdict} ELSE {}),
         loaded : {ever},
         handle : {-1, -2} \cup Fds(fdt)]
Settled == /\ AllClosed
           /\ ~(NeedComp /\ cl.comp = 0)
           /\ (cl.op = "enter" /\ cl.nloads = 1) => fdt = {}
           /\ (cl.op = "close") => fdt = {}
DRet == /\ Running /\ Settled /\ \E out \in Outs : Ret(out)

DCancel == Cancel

Done == cl.pc = "idle" /\ ncalls = MaxCalls /\ UNCHANGED mvars

MNext == \/ DCall
         \/ (UNCHANGED ncalls /\ (DPreClose \/ DLoad \/ DMapLoad \/ DOpen \/ DSend \/ DCompOpen \/ DCompSend
                                  \/ DRecv \/ DSClose \/ DClose \/ DRet \/ DCancel))
         \/ Done
MCSpec == MInit /\ [][MNext]_mvars

-----------------------------------------------------------------------------
(* the reference encoders produce what the parsers accept, with the values put in *)
ASSUME \A ifx \in {1, 2, 255, 256, 70000, 2147483647}, fd \in {-1, 0, 5, 255, 256, 65536}, fl \in {2, 4},
          seq \in {1, 70000} :
          LET b == Build(ifx, fd, fl, seq) IN
            /\ SetlinkOk(b) /\ Len(b) = 52
            /\ ReqIndex(b) = ifx /\ XdpFd(b) = fd /\ XdpFlagsOf(b) = fl /\ ReqSeq(b) = seq
            /\ \A err \in {0, -16, -95} :
                 LET a == AckBytes(b, err, PID) w == MsgWalk(a, 0, <<>>) IN
                   w.ok /\ Len(w.at) = 1 /\ IsAck(a, w.at[1], b) /\ AckErr(a, w.at[1]) = err
            /\ \A k \in {"newlink", "noop", "stale_ok", "stale_err"} :
                 LET a == NoiseBytes(k, b) w == MsgWalk(a, 0, <<>>) IN
                   w.ok /\ Len(w.at) = 1 /\ ~ClaimsAck(w.at[1], b)
(* a request with a field off is not accepted *)
ASSUME LET b == Build(2, 5, 2, 1) IN
         /\ ~SetlinkOk([b EXCEPT ![1] = 48])          \* length
         /\ ~SetlinkOk([b EXCEPT ![5] = 16])          \* type
         /\ ~SetlinkOk([b EXCEPT ![7] = 1])           \* no NLM_F_ACK
         /\ ~SetlinkOk([b EXCEPT ![29] = 1])          \* ifi_change
         /\ ~SetlinkOk([b EXCEPT ![33] = 16])         \* IFLA_XDP length
         /\ ~SetlinkOk([b EXCEPT ![36] = 0])          \* not nested
         /\ ~SetlinkOk([b EXCEPT ![39] = 3])          \* two flags attributes, no fd
         /\ ~SetlinkOk(SubSeq(b, 1, 44))

-----------------------------------------------------------------------------
(* the design leaves no descriptor without a handle *)
DesignClean == orph = {}
TypeOK == /\ cl.pc \in {"idle", "run"} /\ ncalls \in 0 .. MaxCalls
          /\ Len(socks) <= 2 /\ nprog <= MaxCalls
          /\ \A e \in fdt : e[1] \in FdPool /\ e[2] \in 1 .. nprog
=============================================================================
