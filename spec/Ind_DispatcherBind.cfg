SPECIFICATION Spec
CONSTANTS
 StartRegistered = TRUE
 CanUnregister = FALSE
 MaxFlight = 3
 PassBound = 6
 CanInject = TRUE
 CanInjectUnreg = FALSE
 CanLose = TRUE
 Hist = FALSE
 TrackBus = FALSE
 Fifo = TRUE
CONSTRAINT Window
INVARIANTS
 KeepsRunning
 MapsIntoInd
CHECK_DEADLOCK FALSE
