SPECIFICATION SSpec
CONSTANTS MaxGroups = 2
          Variants = {0}
          RSeeds = {37}
          FmtNames = {"bh", "iq", "QlL", "e", "f", "Hd", "?c", "5p"}
INVARIANTS RoundTripInv
           Emit
CHECK_DEADLOCK FALSE
