SPECIFICATION SSpec
CONSTANTS MaxGroups = 2
          Variants = {0, 1}
          RSeeds = {37}
          FmtNames = {"B", "H", "I", "HI", "H2xH", "4x", "8s"}
INVARIANTS RoundTripInv
           Emit
CHECK_DEADLOCK FALSE
