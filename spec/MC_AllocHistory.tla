---- MODULE MC_AllocHistory ----
EXTENDS AllocHistory
mcMasters == {"simple", "parallel"}
mcKs == {10, 12}
mcKinds == {"tiny", "wide"}
mcCrowds == {1100}
====
