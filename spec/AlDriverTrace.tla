---------------------------- MODULE AlDriverTrace ----------------------------
(* Trace validation for C14: the AL control writes (w, value), AL status reads (r, the raw
   register value, decoded here) and the outcome (ret / raise / stall) recorded from the real
   Terminal.to_operational against the simulated terminal must be a behaviour of AlDriver.
   The terminal's choices (delays, error) are bound by the reported values; the master's
   actions must be enabled, i.e. allowed by the property.  A stall matches no action.        *)
EXTENDS AlDriver, Sequences, Json, IOUtils, TLCExt
Traces == JsonDeserialize(IOEnv.TRACE_FILE)
VARIABLES tid, l
tvs == <<vars, tid, l>>
Ev == Traces[tid].ev[l]

TInit == /\ tid \in 1 .. Len(Traces) /\ l = 1
         /\ Init /\ target = Traces[tid].target

TRead(e) == /\ e.op = "r"
            /\ \E inject \in BOOLEAN : MRead(inject)
            \* AL status register: bits 0..3 state, bit 4 error indicator, nothing else
            /\ tst' = e.raw % 16 /\ terr' = ((e.raw \div 16) % 2 = 1)
TWriteEv(e) == /\ e.op = "w"
               /\ IF e.val = AckInit THEN \E d \in 0 .. K, early \in BOOLEAN : MAck(d, early)
                  ELSE \E d \in 0 .. K : MRequest(e.val, d)
TRet(e) == e.op = "ret" /\ MReturn
TRaise(e) == e.op = "raise" /\ MRaise

TNext == /\ l <= Len(Traces[tid].ev)
         /\ l' = l + 1 /\ UNCHANGED tid
         /\ LET e == Ev IN TRead(e) \/ TWriteEv(e) \/ TRet(e) \/ TRaise(e)
TSpec == TInit /\ [][TNext]_tvs

Max2(a, b) == IF a > b THEN a ELSE b
Progress == TLCSet(tid, Max2(TLCGet(tid), l))
ASSUME \A i \in 1 .. Len(Traces) : TLCSet(i, 0)
Post == \A i \in 1 .. Len(Traces) : PrintT(<<"RESULT", i, TLCGet(i) - 1, Len(Traces[i].ev)>>)
=============================================================================
