SPECIFICATION SSpec
CONSTANTS Short = {0, 1, 2}
          Long = {}
          MinLongs = 0
          MaxLongs = 0
          PatLen = 2
          Inits = {0, 1}
INVARIANT Emit
CHECK_DEADLOCK FALSE
