SPECIFICATION SSpec
CONSTANTS MaxBusy = 2
          PatLen = 2
          MaxInit = 1
INVARIANT Emit
CHECK_DEADLOCK FALSE
