INIT Init
NEXT Next
INVARIANT Observe
CHECK_DEADLOCK FALSE
