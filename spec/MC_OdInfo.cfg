SPECIFICATION MCSpec
CONSTANTS Shapes = {"v0", "none", "rec1", "gap3"}
          MaxObjs = 2
          MbxIns = {22, 23, 25}
          AllowRefuse = TRUE
INVARIANTS ResultExact FailureKnown CountConsistent Reassembly
