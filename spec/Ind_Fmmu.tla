------------------------------ MODULE Ind_Fmmu ------------------------------
(* X05 - Fmmu.tla restated for Apalache (inductive invariant, any behaviour length).

   Why a restatement: Fmmu!Slots == 0 .. (n - 1) has a state-dependent bound, which Apalache
   rejects ("Expected a constant integer range").  Here Slots == {i \in 0 .. MaxN - 1 : i < n},
   the same set; every action below is the text of Fmmu.tla with that one change.  Ind_FmmuEq
   shows with TLC (MaxN = 3, Logicals = 1..3) that wrapper and original admit the same steps
   in every reachable state (each is checked as a property of the other).

   The proof for ANY MaxN and Logicals, over the original module, is Ind_FmmuProof.tla (TLAPS). *)
EXTENDS Integers, FiniteSets

CONSTANTS
  \* @type: Int;
  MaxN,
  \* @type: Set(Int);
  Logicals

VARIABLES
  \* @type: Int;
  n,
  \* @type: Int -> Int;
  slot,
  \* @type: Int -> { active: Bool, dir: Int, logical: Int };
  reg

fvars == <<n, slot, reg>>
Free == 0
BoundN == 8                 \* Apalache explores every MaxN \in 1 .. BoundN
BoundL == 10                \* ... and every Logicals \subseteq 1 .. BoundL
CInit == MaxN \in 1 .. BoundN /\ Logicals \in SUBSET (1 .. BoundL)
SlotsOf(k) == {i \in 0 .. (BoundN - 1) : i < k}
Slots == SlotsOf(n)
Live == {slot[i] : i \in Slots} \ {Free}
RegOff == [active |-> FALSE, dir |-> 0, logical |-> 0]

FInit(k) == /\ n = k
            /\ slot = [i \in SlotsOf(k) |-> Free]
            /\ reg = [i \in SlotsOf(k) |-> RegOff]

MapOk(m, write, s) ==
    /\ m # Free /\ m \notin Live
    /\ s \in Slots /\ slot[s] = Free
    /\ slot' = [slot EXCEPT ![s] = m]
    /\ reg' = [reg EXCEPT ![s] = [active |-> TRUE, dir |-> IF write THEN 2 ELSE 1, logical |-> m]]
    /\ UNCHANGED n

MapFail(m) == /\ m # Free /\ m \notin Live /\ UNCHANGED fvars

Unmap(m) ==
    /\ m \in Live
    /\ LET s == CHOOSE i \in Slots : slot[i] = m IN
         /\ slot' = [slot EXCEPT ![s] = Free]
         /\ reg' = [reg EXCEPT ![s].active = FALSE]
    /\ UNCHANGED n

UnmapAbort(m) ==
    /\ m \in Live
    /\ LET s == CHOOSE i \in Slots : slot[i] = m IN slot' = [slot EXCEPT ![s] = Free]
    /\ UNCHANGED <<n, reg>>

FNext == \E m \in Logicals :
            \/ \E w \in BOOLEAN, s \in Slots : MapOk(m, w, s)
            \/ MapFail(m) \/ Unmap(m) \/ UnmapAbort(m)

Init == \E k \in 1 .. MaxN : FInit(k)
Next == FNext
Spec == Init /\ [][Next]_fvars

-----------------------------------------------------------------------------
NoSharing == \A i, j \in Slots : (slot[i] # Free /\ slot[i] = slot[j]) => i = j
RegsAgree == \A i \in Slots : slot[i] # Free => (reg[i].active /\ reg[i].logical = slot[i])

(* the inductive invariant: shape of the state + the two properties (they are inductive as
   they stand once the domains are pinned)                                                   *)
IndInv == /\ n \in 1 .. MaxN
          /\ DOMAIN slot = Slots /\ DOMAIN reg = Slots
          /\ \A i \in Slots : slot[i] \in Logicals \cup {Free}
          /\ NoSharing
          /\ RegsAgree
(* an arbitrary state of the right shape that satisfies IndInv *)
IndInit == /\ n \in 1 .. MaxN
           /\ slot \in [Slots -> Logicals \cup {Free}]
           /\ reg \in [Slots -> [active : BOOLEAN, dir : 0 .. 2, logical : Logicals \cup {Free}]]
           /\ IndInv
(* expected to be VIOLATED from IndInit: the induction hypothesis is not vacuous *)
Witness == ~(n = 5 /\ Cardinality(Live) = 3)
=============================================================================
