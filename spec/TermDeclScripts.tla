-------------------------- MODULE TermDeclScripts --------------------------
(* X09 - behaviours generated for replay on the real code, from the device descriptions themselves.

   (a) PDO assignments.  A device with CoE offers mapping objects 0x1600.. (RxPDO) and 0x1A00.. (TxPDO); a
       terminal class may choose among them (`out_pdos` / `in_pdos`, written to 0x1C12 / 0x1C13).  Every
       choice of at most MaxTotal PDOs in all (each direction either left as the device has it, or a
       sequence of distinct PDOs the device offers that do not exclude each other (PDO parameter objects,
       subindex 6), no longer than the device's assignment object) is one script:  <<"ASSIGN", case, outset, out, inset, inp>>.
   (b) Probe declarations.  For every entry the device maps (default assignment) and every override of
       Overrides: ProcessDesc(index, subindex, override):  <<"PROBE", case, idx, sub, bits, override>>,
       override = [k |-> "none"] | [k |-> "bit", n] | [k |-> "fmt", c] - only overrides that are
       meaningful for the entry (a bit inside it; a format not longer than what follows it).            *)
EXTENDS TermDecl, TLC, Json, IOUtils
CONSTANTS MaxTotal
Input == JsonDeserialize(IOEnv.TRACE_FILE)
Cases == Input.cases
VARIABLES rec, outset, out, inset, inp

SeqRange(s) == {s[k] : k \in 1 .. Len(s)}
Offered(od, lo, hi) == {od[k].idx : k \in {j \in 1 .. Len(od) : od[j].idx >= lo /\ od[j].idx < hi}}
RxOffered(od) == Offered(od, 5632, 6144)        \* 0x1600 .. 0x17FF
TxOffered(od) == Offered(od, 6656, 7168)        \* 0x1A00 .. 0x1BFF
HasCoE(c) == OdKnown(c.od, Idx1C12) /\ OdKnown(c.od, Idx1C13)

Init == /\ rec \in {k \in 1 .. Len(Cases) : HasCoE(Cases[k])}
        /\ outset \in BOOLEAN /\ inset \in BOOLEAN /\ out = <<>> /\ inp = <<>>
Next == /\ Len(out) + Len(inp) < MaxTotal
        /\ \/ /\ outset /\ Len(out) < OdCount(Cases[rec].od, Idx1C12)
              /\ \E p \in RxOffered(Cases[rec].od) \ SeqRange(out) :
                    AssignmentAdmissible(Cases[rec].od, Append(out, p)) /\ out' = Append(out, p)
              /\ UNCHANGED <<rec, outset, inset, inp>>
           \/ /\ inset /\ Len(inp) < OdCount(Cases[rec].od, Idx1C13)
              /\ \E p \in TxOffered(Cases[rec].od) \ SeqRange(inp) :
                    AssignmentAdmissible(Cases[rec].od, Append(inp, p)) /\ inp' = Append(inp, p)
              /\ UNCHANGED <<rec, outset, inset, out>>
Spec == Init /\ [][Next]_<<rec, outset, out, inset, inp>>
Emit == PrintT(<<"ASSIGN", rec, outset, out, inset, inp>>)

(* ---- probes: a constant-level enumeration, printed once ---- *)
DefaultLayout(c) ==
    IF HasCoE(c) THEN Layout(CoEPdos(c.od, DeviceAssignment(c.od, Idx1C12), 2),
                             CoEPdos(c.od, DeviceAssignment(c.od, Idx1C13), 3))
    ELSE LET w == CategoriesP(c.image) IN
         Layout(Assigned(SiiPdos(CatOrEmpty(w.cats, CatRxPdo)).pdos),
                Assigned(SiiPdos(CatOrEmpty(w.cats, CatTxPdo)).pdos))
ProbeFormats == {<<66>>, <<72>>, <<104>>, <<105>>}          \* "B" "H" "h" "i"
ProbesOf(lay, e) ==
    {[k |-> "none", n |-> -1, c |-> <<>>]}
    \cup {[k |-> "bit", n |-> n, c |-> <<>>] : n \in {m \in 0 .. 7 : m < e.bits}}
    \cup {[k |-> "fmt", n |-> -1, c |-> f] : f \in {g \in ProbeFormats :
              8 * (e.pos \div 8) + 8 * FmtWidth(g) <= 8 * DirBytes(lay, e.dir)}}
EmitProbes(k, lay) == \A j \in 1 .. Len(lay.all) :
    lay.all[j].idx = 0 \/ \A ov \in ProbesOf(lay, lay.all[j]) :
        PrintT(<<"PROBE", k, lay.all[j].idx, lay.all[j].sub, lay.all[j].bits, ov>>)
ASSUME \A k \in 1 .. Len(Cases) : EmitProbes(k, DefaultLayout(Cases[k]))
=============================================================================
