SPECIFICATION SSpec
CONSTANTS Layout = "multi"
          Cycles = 1
          MaxFail = 1
          Pre = TRUE
          Modes = {"ok", "raise", "cancel"}
          MaxExc = 0
          Atomic = TRUE
INVARIANT Emit
CHECK_DEADLOCK FALSE
