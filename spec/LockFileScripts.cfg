SPECIFICATION SSpec
CONSTANTS Procs = {"p1", "p2"}
          Cycles = 1
          MaxFail = 1
          Same = TRUE
          Pre = FALSE
INVARIANT Emit
CHECK_DEADLOCK FALSE
