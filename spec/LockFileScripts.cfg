SPECIFICATION SSpec
CONSTANTS Procs = {"p1", "p2"}
          Cycles = 1
          MaxFail = 1
          Same = TRUE
          Pre = FALSE
          Modes = {"ok", "raise", "cancel"}
          MaxExc = 1
INVARIANT Emit
CHECK_DEADLOCK FALSE
