--------------------------- MODULE EscInitScripts ---------------------------
(* Scripts for X01, each printed once for replay on the real code.

   A script = an EEPROM sync-manager category, the state in which the terminal is found, and a
   sequence of calls / environment steps:
     [sms    |-> <<[type, lenz, en]>>   entries of category 41: type 0 .. 4, lenz = 1: length
                                        non-zero, en = the enable flag
      has41  |-> the category exists at all,
      nf     |-> number of FMMUs,  pos |-> position of the terminal in the segment (0 or 1),
      prior  |-> [station |-> it already has a station address, al |-> AL state,
                  junk |-> sync managers / FMMUs hold somebody's old, active configuration],
      outbits, inbits |-> size of the PDOs the terminal describes (for the EBPFTerminal chain),
      calls  |-> <<[op, rel, abs, a, b]>>]
   ops: initialize / gentle / ebpf_initialize (rel: by position, abs: an address is given),
        apply_eeprom, write_pdo_sm (a, b = sizes out, in), set_watchdog (a, b = times),
        env_al (a = state), newobj (a second user's Terminal object).  ebpf_initialize makes its own
        EBPFTerminal object, on which the plain methods initialize / gentle / apply_eeprom are not
        called afterwards (they are overridden there: st.ebpf).

   Part "eeprom": every category of up to MaxSm entries whose non-zero types are distinct, at
   most MaxOdd entries deviating from (length non-zero, enabled) by a choice in Odd (coded
   2 * lenz + en), each with
   three fixed call sequences (TemplatesA).  Part "calls": every call sequence of length
   MaxCalls that respects the methods' preconditions (tracked in st), over the first NCanon
   categories of Canon and the prior states selected by PriorSel.                                                           *)
EXTENDS Integers, Sequences, FiniteSets, TLC, Json
CONSTANTS Part, MaxSm, MaxOdd, Odd, MaxCalls, NCanon, PriorSel

VARIABLES sms, has41, stage, prior, calls, st
vars == <<sms, has41, stage, prior, calls, st>>

E(t, lz, en) == [type |-> t, lenz |-> lz, en |-> en]
Op(op, rel, abs, a, b) == [op |-> op, rel |-> rel, abs |-> abs, a |-> a, b |-> b]
IsOdd(x) == x.type # 0 /\ <<x.lenz, x.en>> # <<1, 1>>
Count(s, P(_)) == Cardinality({i \in 1 .. Len(s) : P(s[i])})
HasType(s, t) == \E i \in 1 .. Len(s) : s[i].type = t
NonZero(s, t) == \E i \in 1 .. Len(s) : s[i].type = t /\ s[i].lenz = 1

(* the sizes write_pdo_sm is given / the terminal describes: non-zero only for a declared area *)
OutSz(s) == IF HasType(s, 3) THEN 5 ELSE 0
InSz(s) == IF HasType(s, 4) THEN 3 ELSE 0
OutBits(s) == IF HasType(s, 3) THEN 12 ELSE 0
InBits(s) == IF HasType(s, 4) THEN 16 ELSE 0

(* abstract counterparts of EscInit!Applicable for O2 and O3 *)
O2able(s) == \E i \in 1 .. Len(s) : s[i].type = 0 /\ \A j \in (i + 1) .. Len(s) : s[j].type # 4
O3able(s) == (~HasType(s, 3) /\ Len(s) > 2) \/ (~HasType(s, 4) /\ ~HasType(s, 0) /\ Len(s) > 3)
(* the whole EBPFTerminal chain is run where the master can talk to the terminal: mailboxes, if
   both exist, are sync manager 0 and 1 (mbx_send / mbx_recv poll 0x805 / 0x80D) and usable  *)
Good(x) == x.lenz = 1 /\ x.en = 1
EbpfOK(s, h) == /\ h /\ ~O2able(s) /\ ~O3able(s)
                /\ (HasType(s, 1) /\ HasType(s, 2)) =>
                      (s[1].type = 1 /\ s[2].type = 2 /\ Good(s[1]) /\ Good(s[2]))

Fresh == [station |-> FALSE, al |-> 1, junk |-> FALSE]
Stale(al) == [station |-> TRUE, al |-> al, junk |-> TRUE]
Script(s, h, nf, pos, pr, cs) ==
    [sms |-> s, has41 |-> h, nf |-> nf, pos |-> pos, prior |-> pr, outbits |-> OutBits(s),
     inbits |-> InBits(s), calls |-> cs]

TemplatesA(s) ==
    {Script(s, TRUE, 2, 1, Stale(8),
            <<Op("initialize", TRUE, TRUE, 0, 0), Op("write_pdo_sm", FALSE, FALSE, OutSz(s), InSz(s)),
              Op("env_al", FALSE, FALSE, 2, 0), Op("newobj", FALSE, FALSE, 0, 0),
              Op("gentle", TRUE, FALSE, 0, 0)>>),
     Script(s, TRUE, 1, 0, Fresh,
            <<Op("gentle", TRUE, FALSE, 0, 0), Op("apply_eeprom", FALSE, FALSE, 0, 0),
              Op("set_watchdog", FALSE, FALSE, 1000, 65535)>>)}
    \cup (IF EbpfOK(s, TRUE)
          THEN {Script(s, TRUE, 3, 0, Stale(2), <<Op("ebpf_initialize", TRUE, TRUE, 0, 0)>>)}
          ELSE {})

Canon == << <<E(1, 1, 1), E(2, 1, 1), E(3, 1, 1), E(4, 1, 1)>>,      \* the EL7031 of ethercat.rst
            <<>>,                                                    \* no category 41 at all
            <<E(1, 1, 1), E(2, 1, 1), E(3, 0, 1), E(4, 0, 1)>>,      \* sizes left to the PDO assignment
            <<E(4, 1, 1)>>,                                          \* a simple input terminal
            <<E(3, 1, 1), E(4, 1, 1)>>,
            <<E(1, 1, 1), E(2, 1, 1), E(0, 0, 0), E(4, 1, 1)>> >>
CanonHas41(k) == k # 2
Priors == (IF "fresh" \in PriorSel THEN {Fresh} ELSE {})
          \cup (IF "stale1" \in PriorSel THEN {Stale(1)} ELSE {})
          \cup (IF "stale8" \in PriorSel THEN {Stale(8)} ELSE {})

(* ---- part "eeprom" ---- *)
InitA == /\ sms = <<>> /\ has41 = TRUE /\ stage = "sms" /\ prior = Fresh /\ calls = <<>>
         /\ st = [station |-> FALSE, al |-> 1, objpos |-> FALSE, objinit |-> FALSE, ebpf |-> FALSE]
AddSm == /\ stage = "sms" /\ Len(sms) < MaxSm
         /\ \E t \in 0 .. 4 :
              /\ t # 0 => ~HasType(sms, t)
              /\ \E lz \in {0, 1}, en \in {0, 1} :
                    /\ IF t = 0 THEN lz = 0 /\ en = 0
                       ELSE <<lz, en>> = <<1, 1>> \/ (2 * lz + en) \in Odd
                    /\ sms' = Append(sms, E(t, lz, en))
                    /\ Count(sms', IsOdd) <= MaxOdd
         /\ UNCHANGED <<has41, stage, prior, calls, st>>
CloseA == stage = "sms" /\ stage' = "done" /\ UNCHANGED <<sms, has41, prior, calls, st>>
NextA == AddSm \/ CloseA

(* ---- part "calls" ---- *)
InitB == /\ \E k \in 1 .. NCanon : sms = Canon[k] /\ has41 = CanonHas41(k)
         /\ prior \in Priors /\ stage = "calls" /\ calls = <<>>
         /\ st = [station |-> prior.station, al |-> prior.al, objpos |-> FALSE, objinit |-> FALSE, ebpf |-> FALSE]
AsInit(al, eb) == [station |-> TRUE, al |-> al, objpos |-> TRUE, objinit |-> TRUE, ebpf |-> eb]
Do(op, s2) == calls' = Append(calls, op) /\ st' = s2
StepB ==
    \/ \E rel, abs \in BOOLEAN :
          /\ (rel \/ abs) /\ (rel \/ st.station) /\ ~st.ebpf
          /\ Do(Op("initialize", rel, abs, 0, 0), AsInit(1, FALSE))
    \/ \E rel \in BOOLEAN :
          /\ (rel \/ st.station) /\ ~st.ebpf
          /\ Do(Op("gentle", rel, ~rel, 0, 0),
                IF st.station /\ st.al # 1
                THEN [st EXCEPT !.objpos = TRUE, !.objinit = FALSE] ELSE AsInit(1, FALSE))
    \/ /\ EbpfOK(sms, has41)
       /\ Do(Op("ebpf_initialize", TRUE, TRUE, 0, 0), AsInit(4, TRUE))
    \/ st.objpos /\ ~st.ebpf /\ Do(Op("apply_eeprom", FALSE, FALSE, 0, 0), [st EXCEPT !.objinit = TRUE])
    \/ /\ st.objinit
       /\ \E z \in BOOLEAN :
             Do(Op("write_pdo_sm", FALSE, FALSE, IF z THEN 0 ELSE OutSz(sms), IF z THEN 0 ELSE InSz(sms)), st)
    \/ st.objpos /\ Do(Op("set_watchdog", FALSE, FALSE, 1000, 65535), st)
    \/ \E s \in {1, 2, 4, 8} : s # st.al /\ Do(Op("env_al", FALSE, FALSE, s, 0), [st EXCEPT !.al = s])
    \/ st.objpos /\ Do(Op("newobj", FALSE, FALSE, 0, 0), [st EXCEPT !.objpos = FALSE, !.objinit = FALSE, !.ebpf = FALSE])
NextB == /\ stage = "calls" /\ Len(calls) < MaxCalls
         /\ StepB
         /\ UNCHANGED <<sms, has41, stage, prior>>

SInit == (Part \in {"eeprom", "both"} /\ InitA) \/ (Part \in {"calls", "both"} /\ InitB)
SNext == NextA \/ NextB          \* told apart by stage
SSpec == SInit /\ [][SNext]_vars

Emit == /\ stage = "done" => \A s \in TemplatesA(sms) : PrintT(<<"SCRIPT", "eeprom", ToJson(s)>>)
        /\ (stage = "calls" /\ Len(calls) = MaxCalls) =>
               PrintT(<<"SCRIPT", "calls", ToJson(Script(sms, has41, IF prior.junk THEN 2 ELSE 1,
                                                          IF prior.junk THEN 1 ELSE 0, prior, calls))>>)
=============================================================================
