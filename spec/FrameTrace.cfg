SPECIFICATION TSpec
CONSTANTS MaxSize = 1500
CONSTRAINT Progress
INVARIANT SizeInv
POSTCONDITION Post
CHECK_DEADLOCK FALSE
