INIT Init
NEXT Next
INVARIANT Report
CHECK_DEADLOCK FALSE
