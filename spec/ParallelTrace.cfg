SPECIFICATION VSpec
CONSTANTS Procs = {"p1", "p2", "p3"}
          REth = {12289, 12290, 12291, 12292}
          Addrs = {1, 2, 3, 4, 9}
          MaxCrash = 0
          MaxFault = 1
          MaxPre = 0
          Mutex = TRUE
          LockedInit = TRUE
          Bare = FALSE
INVARIANT Observe
CONSTRAINT Progress
POSTCONDITION Post
CHECK_DEADLOCK FALSE
