SPECIFICATION TSpec
CONSTANTS MaxBusy = 1000000
CONSTRAINT Progress
INVARIANT NeverRejected
POSTCONDITION Post
CHECK_DEADLOCK FALSE
