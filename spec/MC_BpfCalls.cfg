SPECIFICATION MSpec
CONSTANTS Fds = {1, 2}
          Sizes = {1, 5, 8}
          Cpus = {1, 3}
          BufSizes = {0, 1, 4, 5, 8, 16, 24}
INVARIANTS Safe
           Tight
CHECK_DEADLOCK FALSE
