-------------------------------- MODULE Fixed --------------------------------
(* C02 - fixed-point values behave as decimals with five fractional digits.

   An operand is   [kind |-> "int" | "fix", fd, off]      an 8-byte variable or register: a signed integer, or a
                                                         fixed-point value whose raw 64-bit content r denotes r / 100000
                   [kind |-> "iconst" | "fconst", v]      a constant: an integer, or a decimal with at most five
                                                         fractional digits given as its scaled integer (0.29 -> 29000)
   A value is an exact rational <<num, den>> of n-byte words, den > 0.
   case = EbpfRun's case record plus  op (add sub mul truediv floordiv mod, or cmp_gt .. cmp_eq), l, r (operands),
          dstfixed (is the destination fixed-point?), dst [fd, off, size, be] or [fd, off, size, key] for a hash-map variable (8 bytes unless size says otherwise;
          be: declared big-endian), n, marks (for comparisons).

   What the property demands (and nothing more):
     * arithmetic gives the exact rational result, "dropped to the destination's representation": a fixed-point
       destination holds floor or trunc of result * 100000, an integer destination floor or trunc of the result;
       true division always yields fixed point, floor division an integer, remainder follows its operands;
     * comparisons compare the exact rationals;
     * only "whenever the scaled operands and intermediate results fit the narrowest width involved" - here 64
       bits, since every operand is 8 bytes wide: each operand scaled to the finest scale the operation needs
       and the exact result scaled by 100000 must fit a signed 64-bit word, divisors non-zero.               *)
EXTENDS Codegen

FB(n) == WFromInt(100000, n)
OneW(n) == WFromInt(1, n)
IsFix(o) == o.kind \in {"fix", "fconst"}
(* the operand's raw 8 bytes / constant as an n-byte signed word *)
RawOf(k, o) == IF o.kind \in {"iconst", "fconst"} THEN o.v
               ELSE IF "key" \in DOMAIN o                      \* a hash-map variable: the entry of its key
                    THEN WSext(LoadBytes(Mem(k), Rg("hash", o.fd, o.key), 0, 8), k.n)
               ELSE WSext(LoadBytes(Mem(k), Rg("arr", o.fd, <<>>), o.off, 8), k.n)
RatOf(k, o) == IF IsFix(o) THEN <<RawOf(k, o), FB(k.n)>> ELSE <<RawOf(k, o), OneW(k.n)>>

(* rational arithmetic; denominators stay positive *)
Norm(p, q) == IF WIsNeg(q) THEN <<WNeg(p), WNeg(q)>> ELSE <<p, q>>
RAdd(a, b) == <<WAdd(WMul(a[1], b[2]), WMul(b[1], a[2])), WMul(a[2], b[2])>>
RSub(a, b) == <<WSub(WMul(a[1], b[2]), WMul(b[1], a[2])), WMul(a[2], b[2])>>
RMul(a, b) == <<WMul(a[1], b[1]), WMul(a[2], b[2])>>
RDiv(a, b) == Norm(WMul(a[1], b[2]), WMul(a[2], b[1]))          \* b # 0
RIsZero(a) == WIsZero(a[1])
(* the two admissible integers for a rational: toward minus infinity and toward zero *)
Ints(a) == {WSDivF(a[1], a[2]), WSDivT(a[1], a[2])}
RLt(a, b) == WSLt(WMul(a[1], b[2]), WMul(b[1], a[2]))
REq(a, b) == WMul(a[1], b[2]) = WMul(b[1], a[2])

(* exact results: a set of rationals (floor division and remainder admit two roundings) *)
Results(op, a, b, n) ==
    CASE op = "mov" -> {a}                         \* plain assignment: only the conversion to the destination
      [] op = "add" -> {RAdd(a, b)}
      [] op = "sub" -> {RSub(a, b)}
      [] op = "mul" -> {RMul(a, b)}
      [] op = "truediv" -> {RDiv(a, b)}
      [] op = "floordiv" -> {<<q, OneW(n)>> : q \in Ints(RDiv(a, b))}
      [] op = "mod" -> {RSub(a, RMul(b, <<q, OneW(n)>>)) : q \in Ints(RDiv(a, b))}
(* is the result of the operation fixed-point (as the DSL types it and the property describes it)? *)
ResultFixed(op, l, r) == IF op = "truediv" THEN TRUE ELSE IF op = "floordiv" THEN FALSE
                         ELSE IF op = "mov" THEN IsFix(l) ELSE IsFix(l) \/ IsFix(r)

(* what the destination may hold *)
Dropped(res, dstfixed, n) ==
    UNION {IF dstfixed THEN Ints(<<WMul(x[1], FB(n)), x[2]>>) ELSE Ints(x) : x \in res}
(* the destination is 8 bytes wide unless its record says otherwise (an integer variable of 1, 2 or 4 bytes, possibly
   declared with a byte order): the machine store keeps the low bytes *)
DstSize(k) == IF "size" \in DOMAIN k.dst THEN k.dst.size ELSE 8
ExpectedRaw(k) == {WTrunc(v, DstSize(k)) : v \in Dropped(Results(k.op, RatOf(k, k.l), RatOf(k, k.r), k.n), k.dstfixed, k.n)}

(* the precondition: operands at the finest scale the operation may need (an integer meeting fixed point is
   scaled by 100000, by 100000^2 when it is divided by a fixed-point value), the exact results scaled by 100000,
   and products of raw values all fit a signed 64-bit word; divisors non-zero *)
Fits64(v) == WFitsS(v, 8)
(* the operands, each scaled to the finest scale THIS operation needs (first version: one set for all operations,
   including raw * 100000^2, which only int / fixed needs - it skipped every comparison and sum with a raw value
   of 2^31 or more, and a seeded change in exactly that corner went unnoticed) *)
Scales(k) == LET a == RawOf(k, k.l)  b == RawOf(k, k.r)  f == FB(k.n)
                 li == ~IsFix(k.l)  ri == ~IsFix(k.r)
                 sa == IF li /\ ~ri THEN WMul(a, f) ELSE a          \* an integer meeting fixed point
                 sb == IF ri /\ ~li THEN WMul(b, f) ELSE b IN
    {a, b} \cup
    (CASE k.op = "mov" -> {IF li THEN WMul(a, f) ELSE a}
       [] k.op = "mul" -> {WMul(a, b)}
       [] k.op = "truediv" -> {IF li /\ ~ri THEN WMul(WMul(a, f), f) ELSE IF li = ri THEN WMul(a, f) ELSE a}
       [] OTHER -> {sa, sb})
(* "the narrowest width involved": the operands are 8 bytes wide, an arithmetic statement also involves its
   destination - an integer destination of 4 or 2 bytes makes the generator compute in 32 bits, and the property
   then only speaks of values that fit the destination's width *)
PreWidth(k) == IF k.op \in {"mov", "add", "sub", "mul", "truediv", "floordiv", "mod"} THEN DstSize(k) ELSE 8
FitsPre(k, v) == WFitsS(v, PreWidth(k))
PreOK(k) ==
    /\ (k.op \in {"truediv", "floordiv", "mod"} => ~RIsZero(RatOf(k, k.r)))
    /\ \A v \in Scales(k) : FitsPre(k, v)
    /\ (k.op \in {"mov", "add", "sub", "mul", "truediv", "floordiv", "mod"} =>
          \A x \in Results(k.op, RatOf(k, k.l), RatOf(k, k.r), k.n) :
              \A v \in Ints(<<WMul(x[1], FB(k.n)), x[2]>>) : FitsPre(k, v))

(* comparisons *)
CmpTrue(op, a, b) ==
    CASE op = "cmp_gt" -> RLt(b, a) [] op = "cmp_ge" -> ~RLt(a, b) [] op = "cmp_lt" -> RLt(a, b)
      [] op = "cmp_le" -> ~RLt(b, a) [] op = "cmp_ne" -> ~REq(a, b) [] op = "cmp_eq" -> REq(a, b)
IsCmp(k) == k.op \in {"cmp_gt", "cmp_ge", "cmp_lt", "cmp_le", "cmp_ne", "cmp_eq"}
(* markers: 1 = body, 2 = Else, 3 = after the construct *)
ExpectedMarks(k) == IF CmpTrue(k.op, RatOf(k, k.l), RatOf(k, k.r)) THEN {1, 3} ELSE {2, 3}
MarksOf(k, f) == {k.marks[j].i : j \in {x \in 1 .. Len(k.marks) :
                     LoadBytes(f.m, Rg("arr", k.marks[x].fd, <<>>), k.marks[x].off, 1)[1] # 0}}

(* classification for the known finding F1 (signed division emitted unsigned): some value is negative *)
AnyNegative(k) == \/ WIsNeg(RawOf(k, k.l)) \/ WIsNeg(RawOf(k, k.r))
                  \/ (~IsCmp(k) /\ PreOK(k) /\ \E v \in ExpectedRaw(k) : v[8] >= 128)

(* the exact manifestation of the known finding F1 (signed division emitted as the unsigned instruction): during
   the run some DIV or MOD instruction executes while its dividend or divisor is negative as a signed number of
   the instruction's width.  Computed from the case's own bytecode and inputs by re-running it step by step. *)
DivNegStep(E, c) ==
    /\ Running(c) /\ c.pc >= 0 /\ c.pc < Len(E.programs[c.cur])
    /\ LET i == Ins(E, c) IN
       /\ Cls(i.op) \in {4, 7} /\ AluCode(i.op) \in {3, 9} /\ i.dst <= 10 /\ i.src <= 10
       /\ LET top == IF Cls(i.op) = 7 THEN 8 ELSE 4
              d == c.reg[i.dst]
              s == IF SrcIsReg(i.op) THEN c.reg[i.src] ELSE S(Imm64(i)) IN
          \/ (d.t = "s" /\ d.v[top] >= 128)
          \/ (s.t = "s" /\ s.v[top] >= 128)
RECURSIVE DivNegRun(_, _, _, _), DivNegRunS(_, _, _)
DivNegRun(E, c, m, fuel) ==
    IF ~Running(c) \/ fuel = 0 THEN FALSE
    ELSE IF DivNegStep(E, c) THEN TRUE
    ELSE DivNegRunS(E, StepF(E, c, m), fuel - 1)
DivNegRunS(E, r, fuel) == DivNegRun(E, r.c, r.m, fuel)
DivOnNegative(k) == DivNegRun(Env(k), Cpu0(k.entry), Mem(k), k.fuel)

(* a value assigned from Python (the harness stored it through the real descriptor and tells the exact scaled
   integer it should be): the 8 bytes in the map are exactly that integer *)
Exact(k, o) == ("want" \in DOMAIN o) => RawOf(k, o) = o.want
FixedVerdictOf(k, f) ==
    IF ~Exact(k, k.l) \/ ~Exact(k, k.r) THEN
        <<"wrong", <<"python-side store not exact">>, <<WTrunc(RawOf(k, k.l), 8), WTrunc(RawOf(k, k.r), 8)>>, {}>>
    ELSE IF ~Exited(f.c) THEN <<"fault", f.c.st, <<>>, {}>>
    ELSE IF ~PreOK(k) THEN <<"skipped", <<>>, <<>>, {}>>
    ELSE IF IsCmp(k) THEN
        (IF MarksOf(k, f) = ExpectedMarks(k) THEN <<"ok", <<>>, MarksOf(k, f), ExpectedMarks(k)>>
         ELSE <<"wrong", <<>>, MarksOf(k, f), ExpectedMarks(k)>>)
    ELSE LET got == Observed(k, f) IN        \* Codegen: an array-map variable in its byte order, or a hash-map cell
         IF got \in ExpectedRaw(k) THEN <<"ok", <<>>, got, ExpectedRaw(k)>>
         ELSE <<"wrong", <<>>, got, ExpectedRaw(k)>>
FixedReport(k, v) == <<"VERDICT", cid>> \o v \o <<IF v[1] \in {"wrong", "fault"} THEN DivOnNegative(k) ELSE FALSE>>
FixedReportS(k) == FixedReport(k, FixedVerdictOf(k, Final(k)))
ObserveFixed == PrintT(FixedReportS(Cases[cid]))
=============================================================================
