---------------------------- MODULE CodecFrames ----------------------------
(* Environments for C13 beyond the single call: 1 .. MaxCalls roundtrip calls issued at the same
   moment, so that the real send loop packs them into one frame (or, when a call is "big", has
   to start a second frame).  For every call the bus decides whether its datagram is processed
   (working counter 1) or comes back untouched (0), and the environment may cancel the waiting
   task before the frame leaves or while it is on the wire.  Every combination is printed once;
   the driver attaches request shapes enumerated by CodecScripts to the slots.               *)
EXTENDS Integers, Sequences, TLC, Json
CONSTANTS MaxCalls, Cancels, Bigs
VARIABLES slots
Slot == [wkc : {0, 1}, cancel : Cancels, big : Bigs]
FInit == slots = <<>>
FNext == Len(slots) < MaxCalls /\ \E s \in Slot : slots' = Append(slots, s)
FSpec == FInit /\ [][FNext]_slots
Emit == Len(slots) >= 1 => PrintT(<<"SCENARIO", ToJson(slots)>>)
=============================================================================
