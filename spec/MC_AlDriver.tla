---------------------------- MODULE MC_AlDriver ----------------------------
(* exhaustive model of AlDriver: every terminal behaviour within the bound (any start state,
   error flag, every delay 0..K at every write, an error at any poll) against every master
   behaviour the obligations allow *)
EXTENDS AlDriver
=============================================================================
