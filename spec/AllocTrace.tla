---------------------------- MODULE AllocTrace ----------------------------
(* Trace validation for C18: every recorded run of the real allocator (one master, its sync
   groups allocated one after the other) must be a behaviour of Alloc: each group is either
   accepted with an allocation that meets the requirement and whose logical windows are apart
   from those of the groups before it, or rejected because it is too large.                   *)
EXTENDS Alloc, Json, IOUtils, TLCExt
Traces == JsonDeserialize(IOEnv.TRACE_FILE)
VARIABLES tid, l
tvars == <<wins, tid, l>>

TInit == /\ tid \in 1 .. Len(Traces) /\ l = 1 /\ AInit
TNext == /\ l <= Len(Traces[tid].groups)
         /\ l' = l + 1 /\ UNCHANGED tid
         /\ Allocate(Traces[tid].groups[l])
TSpec == TInit /\ [][TNext]_tvars

Max2(a, b) == IF a > b THEN a ELSE b
Progress == TLCSet(tid, Max2(TLCGet(tid), l))
ASSUME \A i \in 1 .. Len(Traces) : TLCSet(i, 0)
Post == \A i \in 1 .. Len(Traces) : PrintT(<<"RESULT", i, TLCGet(i) - 1, Len(Traces[i].groups)>>)
=============================================================================
