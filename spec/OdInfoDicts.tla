---------------------------- MODULE OdInfoDicts ----------------------------
(* X03 - small object dictionaries, built from object shapes (constant operators only).
   An object of the dictionary is [index, dtype, maxsub, code, name, ents] with
   ents a sequence of [sub, kind, dtype, bits, access, name] (see OdInfo).  Names are byte
   sequences of lower-case letters that differ from position to position, so that a dropped,
   doubled or misplaced byte of a reassembled response shows.                                *)
EXTENDS Integers, Sequences, TLC

Mat0(f, n) == SubSeq(f, 1, n)
NameGen(seed, n) == Mat0([i \in 1 .. n |-> 97 + ((seed + 3 * i) % 26)], n)

E(sub, dtype, bits, access, nlen) ==
    [sub |-> sub, kind |-> "val", dtype |-> dtype, bits |-> bits, access |-> access, nlen |-> nlen]
Null(sub) == [sub |-> sub, kind |-> "null", dtype |-> 0, bits |-> 0, access |-> 0, nlen |-> 0]

(* shapes: maxsub 0 / 1 / 2 / 3 / 255, entries present / described as absent / refused,
   names of 0..5 bytes, base types, an enumeration type (>= 0x800), a base type that ebpfcat's
   ECDataType does not list (0x1F WORD), values that need all 16 bits                         *)
ShapeIds == {"v0", "none", "rec1", "gap3", "arr2", "word", "str", "wide", "big", "typed",
             "n0", "n1", "n2", "n3", "n4", "n5"}
NLen(id) == CASE id = "n0" -> 0 [] id = "n1" -> 1 [] id = "n2" -> 2 [] id = "n3" -> 3
              [] id = "n4" -> 4 [] id = "n5" -> 5
ShapeOf(id) ==
    CASE id = "v0" -> [dtype |-> 6, code |-> 7, nlen |-> 2, maxsub |-> 0,
                       ents |-> <<E(0, 6, 16, 63, 3)>>]
      [] id = "none" -> [dtype |-> 5, code |-> 7, nlen |-> 0, maxsub |-> 0, ents |-> <<>>]
      [] id = "rec1" -> [dtype |-> 42, code |-> 9, nlen |-> 5, maxsub |-> 1,
                         ents |-> <<E(0, 5, 8, 7, 1), E(1, 4, 32, 63, 5)>>]
      [] id = "gap3" -> [dtype |-> 2049, code |-> 9, nlen |-> 3, maxsub |-> 3,
                         ents |-> <<E(0, 5, 8, 7, 2), E(1, 3, 16, 63, 0), Null(2)>>]
      [] id = "arr2" -> [dtype |-> 1, code |-> 8, nlen |-> 4, maxsub |-> 2,
                         ents |-> <<E(0, 5, 8, 7, 0), E(1, 1, 1, 191, 2), E(2, 2049, 8, 7, 4)>>]
      [] id = "word" -> [dtype |-> 31, code |-> 7, nlen |-> 1, maxsub |-> 0,
                         ents |-> <<E(0, 31, 16, 7, 2)>>]
      [] id = "str" -> [dtype |-> 9, code |-> 7, nlen |-> 4, maxsub |-> 0,
                        ents |-> <<E(0, 9, 40, 7, 5)>>]
      [] id = "wide" -> [dtype |-> 10, code |-> 7, nlen |-> 5, maxsub |-> 0,
                         ents |-> <<E(0, 10, 40000, 32775, 1)>>]
      [] id \in {"n0", "n1", "n2", "n3", "n4", "n5"} ->      \* names of every length 0..5
           [dtype |-> 7, code |-> 7, nlen |-> NLen(id), maxsub |-> 0,
            ents |-> <<E(0, 7, 32, 63, NLen(id))>>]
      [] id = "typed" ->                   \* one entry per base type with a stated encoding
           [dtype |-> 2051, code |-> 9, nlen |-> 5, maxsub |-> 9,
            ents |-> <<E(0, 5, 8, 7, 1), E(1, 1, 1, 63, 2), E(2, 2, 8, 63, 2), E(3, 3, 16, 63, 2),
                       E(4, 4, 32, 63, 2), E(5, 5, 8, 63, 2), E(6, 6, 16, 63, 2), E(7, 7, 32, 63, 2),
                       E(8, 9, 48, 63, 2), E(9, 10, 24, 63, 2)>>]
      [] id = "big" -> [dtype |-> 2050, code |-> 8, nlen |-> 3, maxsub |-> 255,
                        ents |-> <<E(0, 5, 8, 7, 1), E(1, 6, 16, 63, 2), E(128, 6, 16, 63, 0),
                                   E(255, 6, 16, 63, 5)>>]

(* not ascending on purpose: the order of the result is the server's order *)
IdxOf(i) == CASE i = 1 -> 24576 [] i = 2 -> 4120 [] i = 3 -> 61440 [] i = 4 -> 4096
              [] OTHER -> 8192 + 16 * i

MkEnt(e, seed) == [sub |-> e.sub, kind |-> e.kind, dtype |-> e.dtype, bits |-> e.bits,
                   access |-> e.access,
                   name |-> IF e.kind = "val" THEN NameGen(seed + 7 * e.sub, e.nlen) ELSE <<>>]
MkObj(sh, index, pos) ==
    [index |-> index, dtype |-> sh.dtype, maxsub |-> sh.maxsub, code |-> sh.code,
     name |-> NameGen(5 * pos, sh.nlen),
     ents |-> Mat0([j \in 1 .. Len(sh.ents) |-> MkEnt(sh.ents[j], 11 * pos)], Len(sh.ents))]
MkDict(ids) == Mat0([i \in 1 .. Len(ids) |-> MkObj(ShapeOf(ids[i]), IdxOf(i), i)], Len(ids))

(* n plain objects: an index list longer than a mailbox *)
BigDict(n) == Mat0([i \in 1 .. n |-> MkObj(ShapeOf(IF i % 5 = 0 THEN "none" ELSE "v0"),
                                          4096 + 257 * i, i)], n)
=============================================================================
