SPECIFICATION FSpec
CONSTANTS MaxN = 3
          Logicals = {1, 2, 3}
PROPERTY WSpec
INVARIANT WIndInv
CHECK_DEADLOCK FALSE
