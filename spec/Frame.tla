------------------------------- MODULE Frame -------------------------------
(* C11 - an EtherCAT frame as a byte sequence, and the packet it is assembled from.

   A packet is a list of datagrams plus the running size of the frame (without the Ethernet
   header).  The frame starts with the 2-byte EtherCAT header and an identification datagram
   (NOP, address = the packet index, 2 data bytes = the ethertype); then the datagrams, each a
   10-byte header, the data and a 2-byte working counter.

   What is demanded: a datagram that does not fit into MaxSize bytes is rejected and leaves the
   packet unchanged; an accepted one reports exactly where its data will sit; the assembled
   frame parses as an EtherCAT frame (WellFormed), carries the given datagrams (Carries), has
   the data and working counters at the reported positions (AtPositions) and is padded to the
   Ethernet minimum; the sterile copy equals the frame except that the command byte of every
   writer datagram is NOP.
   What is left free: how many datagrams a packet takes (a rejection of a fitting datagram is
   allowed "because of the count", with the limit bound from the first such rejection and then
   held), the IRQ field of the datagram headers and the value of the padding bytes.          *)
EXTENDS Integers, Sequences, FiniteSets, TLC

CONSTANT MaxSize      \* largest frame (without Ethernet header): 1500

MinPayload == 46      \* Ethernet minimum payload
FrameHdr == 2
DgHdr == 10
DgTail == 2
Prefix == FrameHdr + DgHdr + 2 + DgTail    \* EtherCAT header + identification datagram = 16
NOP == 0

Max(a, b) == IF a > b THEN a ELSE b
Zeros(n) == [i \in 1 .. n |-> 0]

(* ---- little-endian words (TLC integers are 32 bit: 2^31 is built from 2^31-1) ---------- *)
LE16(v) == <<v % 256, (v \div 256) % 256>>                        \* v \in 0 .. 65535
Wrap16(v) == IF v < 0 THEN v + 65536 ELSE v                       \* signed position -> word
LE32Pos(v) == <<v % 256, (v \div 256) % 256, (v \div 65536) % 256, v \div 16777216>>
SetTop(w) == <<w[1], w[2], w[3], w[4] + 128>>                     \* two's complement: bit 31 set
LE32(v) == IF v >= 0 THEN LE32Pos(v) ELSE SetTop(LE32Pos((v + 2147483647) + 1))
U16At(b, i) == b[i] + 256 * b[i + 1]                              \* i is 1-based

(* the 4 address bytes: position/node addressing gives two 16-bit words (terminal, offset),
   logical addressing one 32-bit word                                                        *)
AddrBytes(a) == IF Len(a) = 2 THEN LE16(Wrap16(a[1])) \o LE16(Wrap16(a[2]))
                              ELSE LE32(a[1])

(* a datagram as given to the packet: [cmd, idx, addr, data, wkc] *)
IsDatagram(d) == /\ d.cmd \in 0 .. 255 /\ d.idx \in 0 .. 255 /\ d.wkc \in 0 .. 65535
                 /\ Len(d.addr) \in {1, 2}
                 /\ Len(d.addr) = 2 => \A i \in 1 .. 2 : d.addr[i] \in -32768 .. 65535
                 /\ \A i \in 1 .. Len(d.data) : d.data[i] \in 0 .. 255

-----------------------------------------------------------------------------
(* ---- the packet: Append accounting ------------------------------------------------------ *)
VARIABLES pkt,      \* [dgrams: sequence of datagrams, size: frame size so far]
          rep,      \* rep[k] = <<start, stop>> reported for datagram k (0-based offsets in the frame)
          limit     \* datagram-count limit of the implementation; 0 = not yet observed
pvars == <<pkt, rep, limit>>

EmptyPacket == [dgrams |-> <<>>, size |-> Prefix]
PInit == pkt = EmptyPacket /\ rep = <<>> /\ limit = 0

DgSize(d) == DgHdr + Len(d.data) + DgTail
Fits(p, d) == p.size + DgSize(d) <= MaxSize
Start(p, d) == p.size + DgHdr
Stop(p, d) == p.size + DgHdr + Len(d.data)

AppendOk(d, start, stop) ==
    /\ IsDatagram(d)
    /\ Fits(pkt, d)
    /\ limit = 0 \/ Len(pkt.dgrams) < limit
    /\ start = Start(pkt, d) /\ stop = Stop(pkt, d)
    /\ pkt' = [dgrams |-> Append(pkt.dgrams, d), size |-> pkt.size + DgSize(d)]
    /\ rep' = Append(rep, <<start, stop>>)
    /\ UNCHANGED limit

(* a rejection never changes the packet.  It is required when the datagram does not fit; when
   it fits it can only be the count limit, which must be at least one and, once seen, fixed   *)
AppendReject(d) ==
    /\ \/ ~Fits(pkt, d) /\ UNCHANGED limit
       \/ /\ Fits(pkt, d) /\ Len(pkt.dgrams) >= 1
          /\ limit = 0 \/ Len(pkt.dgrams) >= limit
          /\ limit' = IF limit = 0 THEN Len(pkt.dgrams) ELSE limit
    /\ UNCHANGED <<pkt, rep>>

-----------------------------------------------------------------------------
(* ---- Assemble: the frame as bytes (IRQ fields and padding canonically 0) ---------------- *)
Ident(index, ethertype) ==
    [cmd |-> NOP, idx |-> 0, addr |-> <<index>>, data |-> LE16(ethertype), wkc |-> 0]

DgBytes(d, more) ==
    <<d.cmd, d.idx>> \o AddrBytes(d.addr)
    \o LE16(Len(d.data) + (IF more THEN 32768 ELSE 0)) \o <<0, 0>>
    \o d.data \o LE16(d.wkc)

RECURSIVE Cat(_, _, _)
Cat(ds, k, acc) == IF k > Len(ds) THEN acc
                   ELSE Cat(ds, k + 1, acc \o DgBytes(ds[k], k < Len(ds)))

PadTo(b, n) == IF Len(b) >= n THEN b ELSE b \o Zeros(n - Len(b))

Assemble(p, index, ethertype) ==
    PadTo(LE16((p.size - FrameHdr) + 4096)          \* length field, type nibble 1
          \o Cat(<<Ident(index, ethertype)>> \o p.dgrams, 1, <<>>), MinPayload)

(* the sterile packet: the same frame with every writer datagram's command replaced by NOP *)
Sterilised(p, writers) ==
    [p EXCEPT !.dgrams = [k \in 1 .. Len(p.dgrams) |->
                            IF k \in writers THEN [p.dgrams[k] EXCEPT !.cmd = NOP]
                                             ELSE p.dgrams[k]]]
Sterile(p, writers, index, ethertype) == Assemble(Sterilised(p, writers), index, ethertype)

-----------------------------------------------------------------------------
(* ---- WellFormed: an independent parser of a byte sequence ------------------------------- *)
(* walk the datagram area [pos, end) (0-based offsets); result <<ok, datagrams seen>>.  A
   datagram header's length word is: bits 0-10 length, 11-14 reserved/circulating, 15 more.  *)
RECURSIVE ParseDgs(_, _, _, _)
ParseDgs(b, pos, end, acc) ==
    IF pos + DgHdr + DgTail > end THEN <<FALSE, acc>>
    ELSE LET lw == U16At(b, pos + 7) IN
         LET n == lw % 2048 IN
         IF pos + DgHdr + n + DgTail > end THEN <<FALSE, acc>>
         ELSE LET q == [cmd |-> b[pos + 1], idx |-> b[pos + 2],
                        addr |-> SubSeq(b, pos + 3, pos + 6),
                        len |-> n, flags |-> (lw \div 2048) % 16, more |-> lw >= 32768,
                        start |-> pos + DgHdr,
                        wkc |-> U16At(b, pos + DgHdr + n + 1)] IN
              IF lw >= 32768 THEN ParseDgs(b, pos + DgHdr + n + DgTail, end, Append(acc, q))
              ELSE <<pos + DgHdr + n + DgTail = end, Append(acc, q)>>

LengthField(b) == U16At(b, 1) % 2048
HeaderOK(b) == /\ Len(b) >= FrameHdr
               /\ U16At(b, 1) \div 4096 = 1            \* protocol type 1: EtherCAT datagrams
               /\ (U16At(b, 1) \div 2048) % 2 = 0      \* reserved bit
Parsed(b) == ParseDgs(b, FrameHdr, FrameHdr + LengthField(b), <<>>)

SizeOK(b) == Len(b) >= MinPayload /\ Len(b) <= MaxSize
BytesOK(b) == \A i \in 1 .. Len(b) : b[i] \in 0 .. 255
(* header length = length of the datagram area; anything after it is padding, which exists
   only to reach the Ethernet minimum                                                        *)
LengthOK(b) == /\ FrameHdr + LengthField(b) <= Len(b)
               /\ Len(b) = Max(FrameHdr + LengthField(b), MinPayload)
ParseOK(b, P) == /\ P[1]
                 /\ \A k \in 1 .. Len(P[2]) : /\ P[2][k].flags = 0
                                              /\ P[2][k].more = (k < Len(P[2]))
WellFormed(b) == SizeOK(b) /\ BytesOK(b) /\ HeaderOK(b) /\ LengthOK(b) /\ ParseOK(b, Parsed(b))

-----------------------------------------------------------------------------
(* ---- the frame carries the packet ------------------------------------------------------- *)
DgCarried(b, q, d) == /\ q.cmd = d.cmd /\ q.idx = d.idx
                      /\ q.addr = AddrBytes(d.addr)
                      /\ q.len = Len(d.data)
                      /\ SubSeq(b, q.start + 1, q.start + q.len) = d.data
                      /\ q.wkc = d.wkc
IdentOK(b, P, index, ethertype) ==
    Len(P[2]) >= 1 /\ DgCarried(b, P[2][1], Ident(index, ethertype))
DgramsOK(b, P, ds) ==
    /\ Len(P[2]) = Len(ds) + 1
    /\ \A k \in 1 .. Len(ds) : DgCarried(b, P[2][k + 1], ds[k])
Carries(b, p, index, ethertype) ==
    /\ LengthField(b) = p.size - FrameHdr
    /\ IdentOK(b, Parsed(b), index, ethertype)
    /\ DgramsOK(b, Parsed(b), p.dgrams)

(* data and working counter exactly at the positions reported when the datagram was added *)
AtPositions(b, ds, r) ==
    /\ Len(r) = Len(ds)
    /\ \A k \in 1 .. Len(ds) :
          /\ r[k][1] >= 0 /\ r[k][2] - r[k][1] = Len(ds[k].data) /\ r[k][2] + DgTail <= Len(b)
          /\ SubSeq(b, r[k][1] + 1, r[k][2]) = ds[k].data
          /\ U16At(b, r[k][2] + 1) = ds[k].wkc

(* byte equality with Assemble, except for the bytes the property leaves free *)
FreePos(r) == {FrameHdr + 9, FrameHdr + 10} \cup UNION {{r[k][1] - 1, r[k][1]} : k \in 1 .. Len(r)}
Matches(b, a, size, free) == /\ Len(b) = Len(a)
                             /\ \A i \in 1 .. size : i \in free \/ b[i] = a[i]

(* the sterile copy s of frame b: only the command bytes of the writer datagrams differ *)
CmdPos(r, writers) == {(r[k][1] - DgHdr) + 1 : k \in writers}
SterileOK(s, b, cmdpos) == /\ Len(s) = Len(b)
                           /\ \A i \in 1 .. Len(b) : s[i] = IF i \in cmdpos THEN NOP ELSE b[i]

(* everything at once, for the exhaustive model of the design *)
FrameOK(b, p, r, index, ethertype) ==
    /\ WellFormed(b) /\ Carries(b, p, index, ethertype) /\ AtPositions(b, p.dgrams, r)
    /\ Len(b) = Max(p.size, MinPayload)
    /\ Matches(b, Assemble(p, index, ethertype), p.size, FreePos(r))
=============================================================================
