----------------------------- MODULE Ind_Address -----------------------------
(* X05 - Address.tla under Apalache: the actions are those of the original module (INSTANCE);
   inductive invariant for behaviours of ANY length, every N <= BoundN terminals, every range
   within 0 .. BoundA + 1, both readings of the upper end, every pool Addrs \subseteq 1 .. BoundA and
   two tasks per terminal (scan and init) in any state; pre-assigned addresses may be shared by
   several terminals (UniqueAssigned, not Unique, is the invariant).  (MC_Address: N = 3, 4 addresses, at
   most 4 tasks.)  The proof for ANY N, range and pool is Ind_AddressProof.tla (TLAPS).        *)
EXTENDS Integers, FiniteSets

CONSTANTS
  \* @type: Bool;
  HiIncl,
  \* @type: Set(Int);
  Addrs

VARIABLES
  \* @type: Int -> Int;
  conf,
  \* @type: { lo: Int, hi: Int };
  rng,
  \* @type: Set(Int);
  answered,
  \* @type: Set(Int);
  written,
  \* @type: Set(Int);
  used,
  \* @type: <<Str, Int>> -> { kind: Str, pos: Int, pc: Str, cand: Int };
  task

A == INSTANCE Address

BoundN == 4
BoundA == 6
CInit == HiIncl \in BOOLEAN /\ Addrs \in SUBSET (1 .. BoundA)

Kinds == {"scan", "init"}
TermsOf(k) == {t \in 1 .. BoundN : t <= k}
IdsOf(k) == {id \in Kinds \X (1 .. BoundN) : id[2] <= k}
PCs == {"read", "pick", "probe", "write", "done"}
Busy(k) == task[k].pc \in {"probe", "write"}

Next == A!DNext

(* the initial states of MC_Address, for every N <= BoundN and every range *)
Init == \E nn \in 1 .. BoundN :
          /\ conf \in [TermsOf(nn) -> Addrs \cup {0}]
          /\ rng \in [lo : 0 .. BoundA, hi : 0 .. (BoundA + 1)]
          /\ answered = {} /\ written = {} /\ used = {}
          /\ task \in [IdsOf(nn) -> [kind : Kinds, pos : TermsOf(nn), pc : {"read", "pick", "done"}, cand : {0}]]

Owned == \A k \in DOMAIN task : Busy(k) =>
            /\ task[k].cand \in used
            /\ A!InRange(task[k].cand)
            /\ task[k].cand \notin written
            /\ task[k].cand \notin answered
            /\ \A j \in DOMAIN task : (j # k /\ Busy(j)) => task[j].cand # task[k].cand
            /\ task[k].pc = "write" => \A u \in DOMAIN conf : conf[u] # task[k].cand

IndInv == A!UniqueAssigned /\ A!UsedCovers /\ A!WrittenInRange /\ Owned /\ A!DesignSafe

IndInit == \E nn \in 1 .. BoundN :
          /\ conf \in [TermsOf(nn) -> 0 .. BoundA]
          /\ rng \in [lo : 0 .. BoundA, hi : 0 .. (BoundA + 1)]
          /\ answered \in SUBSET (0 .. BoundA) /\ written \in SUBSET (0 .. BoundA) /\ used \in SUBSET (0 .. BoundA)
          /\ task \in [IdsOf(nn) -> [kind : Kinds, pos : TermsOf(nn), pc : PCs, cand : 0 .. BoundA]]
          /\ IndInv
(* expected to be VIOLATED from IndInit: the induction hypothesis is not vacuous *)
Witness == ~(\E k, j \in DOMAIN task : k # j /\ task[k].pc = "write" /\ task[j].pc = "probe" /\ written # {})
=============================================================================
