SPECIFICATION TSpec
CONSTANTS MaxReq = 24
          MaxFrame = 1500
          Header = 16
          Overhead = 12
CONSTRAINT Progress
INVARIANTS P1_Once
           P2_Order
           P4_Own
PROPERTIES P3_OnceDone
POSTCONDITION Post
CHECK_DEADLOCK FALSE
