---------------------------- MODULE XdpLinkScripts ----------------------------
(* Environment behaviours for X04: every sequence of at most MaxLen calls on one XDP object

       load | close | attach(t) | detach(t) | enter(t) | exit(how)       t \in Targets

   (exit only while a context entered earlier in the script has not been left; the driver skips
   an exit whose entry did not return normally), in which at most MaxOdd calls are "odd":
   the kernel / the environment answers the call's request in another way than the plain
   acknowledgement (Replies), or the call is cancelled (Cancels: after the k-th iteration of
   the event loop, or - with a delayed reply - in the same iteration as the reply arrives,
   before it "rb" / after it "ra").  Printed once each for replay on the real classes.
   (XdpLinkMsgs lists the single-call sessions that exercise the bytes of the message.)       *)
EXTENDS Integers, Sequences, FiniteSets, TLC, Json
CONSTANTS MaxLen, MaxOdd,
          Targets,       \* set of <<net, flags>>
          Replies,       \* odd reply kinds for calls that talk to the kernel
          Cancels,       \* cancellation points with the plain reply
          SlowCancels,   \* cancellation points with the delayed reply ("0" = none)
          OddOps         \* the operations whose call may be odd

VARIABLES hist, on, odd
svars == <<hist, on, odd>>

C(op, t, how, reply, cancel) == [op |-> op, net |-> t[1], flags |-> t[2], how |-> how,
                                 reply |-> reply, cancel |-> cancel]
None == <<"", 0>>

(* the ways a call that talks to the kernel can go: <<reply, cancel, is odd>> *)
Variants == {<<"ack", "0", FALSE>>}
            \cup {<<r, "0", TRUE>> : r \in Replies \ {"loadfail"}}
            \cup {<<"ack", c, TRUE>> : c \in Cancels}
            \cup {<<"slow", c, TRUE>> : c \in SlowCancels}
LoadVariants(op) == IF op \in {"attach", "enter"} /\ "loadfail" \in Replies
                    THEN {<<"loadfail", "0", TRUE>>} ELSE {}

Step(c, isodd, newon) ==
    /\ isodd => odd < MaxOdd /\ c.op \in OddOps
    /\ hist' = Append(hist, c)
    /\ odd' = IF isodd THEN odd + 1 ELSE odd
    /\ on' = newon

SInit == hist = <<>> /\ on = FALSE /\ odd = 0
SNext ==
    /\ Len(hist) < MaxLen
    /\ \/ Step(C("load", None, "none", "ack", "0"), FALSE, on)
       \/ "loadfail" \in Replies /\ Step(C("load", None, "none", "loadfail", "0"), TRUE, on)
       \/ Step(C("close", None, "none", "ack", "0"), FALSE, on)
       \/ \E t \in Targets, op \in {"attach", "detach"} :
             \E v \in Variants \cup LoadVariants(op) : Step(C(op, t, "none", v[1], v[2]), v[3], on)
       \/ /\ ~on
          /\ \E t \in Targets, v \in Variants \cup LoadVariants("enter") :
                Step(C("enter", t, "none", v[1], v[2]), v[3], TRUE)
       \/ /\ on
          /\ \E how \in {"normal", "raise", "cancelled"}, v \in Variants :
                Step(C("exit", None, how, v[1], v[2]), v[3], FALSE)
SSpec == SInit /\ [][SNext]_svars
(* every script, of every length up to MaxLen *)
Emit == Len(hist) >= 1 => PrintT(<<"SCRIPT", ToJson(hist)>>)

=============================================================================
