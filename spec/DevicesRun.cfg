INIT Init
NEXT Next
INVARIANT InvFast
CHECK_DEADLOCK FALSE
