------------------------------- MODULE Packet -------------------------------
(* C07 - packet variables access exactly their declared bytes and byte order; a body guarded by
   a minimum packet size runs on every packet longer than that size and on no packet shorter
   than its accesses need.

   One case = one run of a program the REAL generator emitted (ebpfcat.xdp: PacketVar, the
   pB/pH/pI/pQ packet arrays, the minimumPacketSize wrapper or an explicit packetSize
   comparison) on one packet, executed by the machine of Ebpf.tla.  The program has this shape
   (all variables in array map 1; `marker` is 0 before the run):

       [guarded body]   marker = 1 ; <access if abr = 1>
       [else branch]    marker = 2 ; <access if abr = 2>      (explicit comparisons only)

   case = EbpfRun's case record plus
          op     "read"   other = <packet variable>        (other: a map variable)
                 "write"  <packet variable> = other        (other: a map or another packet variable)
                 "const"  <packet variable> = k            (k: constant of the program)
                 "iadd"   <packet variable> += k           (k: constant of the program)
                 "iaddv"  <packet variable> += other
                 "reada"  other = <packet variable> + ka   (the value inside arithmetic; other: map variable)
                 "cmp"    with <packet variable> + ka <rel> <rhs>:  branch = 1   Else:  branch = 2
                          (the value used as a CONDITION: the only use that leaves the width open;
                           rhs = the constant kc (rhs = "const") or the other variable (rhs = "other");
                           ka = 0: the variable is compared directly; branch: 4 bytes at map offset br)
                 "none"   no access, only the markers
          fmt    the struct format of the packet variable, as a sequence of characters
          p      its offset in the packet
          okind, o, ofmt   the OTHER operand of the statement: a variable of struct format ofmt (any
                 of the 32 formats: it may carry a byte order of its own) at offset o of array map 1
                 (okind = "map") or of the packet (okind = "pkt", not overlapping the packet variable)
          k      8-byte word (const, iadd)
          ka, kc 16-byte two's-complement words (exact integers), rel in gt ge lt le eq ne (reada, cmp)
          guard  "min" (minimumPacketSize = n) or "gt" "ge" "lt" "le" (with packetSize <op> n)
          n      the guard's size
          abr    the marker value of the branch that contains the access (1 body, 2 else)
          need   the number of packet bytes the accesses of that branch need (0 for none)
          mark   map offset of the marker
          built  FALSE if the generator raised instead of emitting a program for this access (the
                 case then has no program; one such case per refused program)

   Everything expected is computed here from the case's inputs (packet, map contents, formats,
   offsets) with Bytes.tla; Python only records what the generator emitted.                    *)
EXTENDS EbpfRun, Bytes

VARIABLE fin                    \* <<>> before the run, then Final(case) = [c |-> cpu, m |-> memory]
pvars == <<cid, fin>>
K == Cases[cid]
ArrR == Rg("arr", 1, <<>>)

PInit == cid \in 1 .. Len(Cases) /\ fin = <<>>
PNext == /\ fin = <<>>
         /\ fin' = IF K.built THEN Final(K) ELSE [c |-> [st |-> <<"refused">>, pc |-> 0], m |-> <<>>]
         /\ UNCHANGED cid
PSpec == PInit /\ [][PNext]_pvars
Done == fin # <<>>

(* ---- inputs ---- *)
PLen == Len(K.pkt)
Arr0 == Mem(K)[ArrR]
OSize == Size(K.ofmt)
OBytes0 == IF K.okind = "map" THEN SubSeq(Arr0, K.o + 1, K.o + OSize) ELSE Slice(K.pkt, K.o, OSize)
OtherVal == Unpack(K.ofmt, OBytes0)                   \* the value the other variable holds (struct.unpack)
Old == Slice(K.pkt, K.p, Size(K.fmt))                 \* only meaningful when PLen >= K.need
PEnd == K.p + Size(K.fmt)
(* the case is inside the property's domain: formats of the list, accesses inside the packet bytes
   the guard vouches for, a written value struct.pack accepts *)
Guaranteed == CASE K.guard \in {"min", "ge"} -> K.n        \* bytes certainly present in the access branch
                [] K.guard = "gt" -> K.n + 1
                [] K.guard = "lt" -> K.n
                [] K.guard = "le" -> K.n + 1
Max(a, b) == IF a > b THEN a ELSE b
UsesOther == K.op \in {"read", "reada", "write", "iaddv"} \/ (K.op = "cmp" /\ K.rhs = "other")
(* exact integers as 16-byte words: the value struct.unpack gives, the sum, the right-hand side *)
Exact(fmt, v) == IF Signed(fmt) THEN WSext(v, 16) ELSE WZext(v, 16)
FitsFmt(fmt, x) == IF Signed(fmt) THEN WFitsS(x, Size(fmt)) ELSE WFitsU(x, Size(fmt))
Lhs16 == WAdd(Exact(K.fmt, Unpack(K.fmt, Old)), K.ka)
Rhs16 == IF K.rhs = "const" THEN K.kc ELSE Exact(K.ofmt, OtherVal)
InDomain == /\ IsFmt(K.fmt) /\ IsFmt(K.ofmt)
            /\ K.op \in {"read", "reada", "cmp", "write", "const", "iadd", "iaddv", "none"}
            /\ K.okind \in {"map", "pkt"}
            /\ K.op \in {"read", "reada", "cmp"} => K.okind = "map"
            (* arithmetic and comparisons are those of exact integers as long as nothing leaves the
               range of the variable's own format and both sides have the same signedness: a
               constant an 8-byte variable of that signedness could hold, or a variable of the same
               signedness (wider questions belong to the expression properties C01 / C03) *)
            /\ (K.op \in {"reada", "cmp"} /\ PLen >= K.need) => FitsFmt(K.fmt, Lhs16)
            /\ K.op = "cmp" =>
                  /\ K.rel \in {"gt", "ge", "lt", "le", "eq", "ne"}
                  /\ K.rhs \in {"const", "other"}
                  /\ K.rhs = "const" => (IF Signed(K.fmt) THEN WFitsS(K.kc, 8) ELSE WFitsU(K.kc, 8))
                  /\ K.rhs = "other" => Signed(K.fmt) = Signed(K.ofmt)
            /\ K.op # "none" =>
                  /\ K.p >= 0 /\ K.need <= Guaranteed
                  /\ K.need = IF UsesOther /\ K.okind = "pkt" THEN Max(PEnd, K.o + OSize) ELSE PEnd
            /\ (UsesOther /\ K.okind = "pkt") => (K.o >= 0 /\ (K.o + OSize <= K.p \/ PEnd <= K.o))
            /\ K.abr = (IF K.guard \in {"lt", "le"} THEN 2 ELSE 1)
            /\ (K.op = "write" /\ (K.okind = "map" \/ PLen >= K.need)) => InRange(K.fmt, OtherVal)
            /\ K.op = "const" => InRange(K.fmt, K.k)

(* ---- observations on the final state ---- *)
St == fin.c.st
FPkt == fin.m[RPkt]
FArr == fin.m[ArrR]
MarkW == SubSeq(FArr, K.mark + 1, K.mark + 4)
Mark == IF MarkW[2] = 0 /\ MarkW[3] = 0 /\ MarkW[4] = 0 THEN MarkW[1] ELSE -1
FDst == SubSeq(FArr, K.o + 1, K.o + OSize)               \* read: the other variable afterwards
BrW == SubSeq(FArr, K.br + 1, K.br + 4)
Branch == IF BrW[2] = 0 /\ BrW[3] = 0 /\ BrW[4] = 0 THEN BrW[1] ELSE -1
Ran == Mark = K.abr                                   \* the branch with the access was taken

(* ---- the property ---- *)
(* no run ends in a fault, whatever the packet length: a packet too short for an access takes
   the guard's other branch *)
NoFault == Done => St = <<"exit">>
(* every access of the property's domain (the listed formats, offsets inside the guarded size) can be
   written down: the generator emits a program for it *)
Generated == K.built

BodyCond == CASE K.guard = "gt" -> PLen > K.n
              [] K.guard = "ge" -> PLen >= K.n
              [] K.guard = "lt" -> PLen < K.n
              [] K.guard = "le" -> PLen <= K.n
(* minimumPacketSize = n: the body runs on every packet longer than n and on no packet shorter
   than its accesses need; for the lengths in between the property leaves the choice open.
   An explicit comparison of packetSize means what the comparison says. *)
GuardHolds ==
    (Done /\ St = <<"exit">>) =>
        IF K.guard = "min"
        THEN /\ Mark \in {0, 1}
             /\ PLen > K.n => Mark = 1
             /\ PLen < K.need => Mark = 0
        ELSE Mark = (IF BodyCond THEN 1 ELSE 2)

NewField == CASE K.op = "write" -> Pack(K.fmt, OtherVal)
              [] K.op = "const" -> Pack(K.fmt, K.k)
              [] K.op = "iadd" -> Pack(K.fmt, WAdd(Unpack(K.fmt, Old), K.k))       \* modulo 256^size
              [] K.op = "iaddv" -> Pack(K.fmt, WAdd(Unpack(K.fmt, Old), OtherVal))
ExpPkt == IF Ran /\ K.op \in {"write", "const", "iadd", "iaddv"} THEN Patch(K.pkt, K.p, NewField) ELSE K.pkt
(* the value read, stored in the other variable's own format (reduced modulo 256^size if narrower) *)
ExpDst == IF Ran /\ K.op = "read" THEN Pack(K.ofmt, Unpack(K.fmt, Old))
          ELSE IF Ran /\ K.op = "reada" THEN Pack(K.ofmt, WTrunc(Lhs16, 8))
          ELSE OBytes0
(* a write stores exactly struct.pack's bytes at p and touches no other packet byte *)
PacketExact == (Done /\ St = <<"exit">>) => FPkt = ExpPkt
(* a read yields the value struct.unpack gives for the bytes at p *)
DestExact == (Done /\ St = <<"exit">> /\ K.op \in {"read", "reada"}) => FDst = ExpDst
(* a condition on the variable takes the branch the value struct.unpack gives selects *)
CondHolds == CASE K.rel = "gt" -> WSLt(Rhs16, Lhs16)
               [] K.rel = "ge" -> WSLe(Rhs16, Lhs16)
               [] K.rel = "lt" -> WSLt(Lhs16, Rhs16)
               [] K.rel = "le" -> WSLe(Lhs16, Rhs16)
               [] K.rel = "eq" -> Lhs16 = Rhs16
               [] K.rel = "ne" -> Lhs16 # Rhs16
ExpBranch == IF ~Ran THEN 0 ELSE IF CondHolds THEN 1 ELSE 2
BranchExact == (Done /\ St = <<"exit">> /\ K.op = "cmp") => Branch = ExpBranch

(* ---- machine = kernel: where the harness could run the same program on the same packet in the
   kernel (BPF_PROG_TEST_RUN), K.kern = <<[r0, pkt, arr]>> is what the kernel left behind ---- *)
HasKern == Len(K.kern) > 0
MachineIsKernel == HasKern => /\ St = <<"exit">>
                              /\ R0Of(fin.c) = WFromInt(K.kern[1].r0, 8)
                              /\ FPkt = K.kern[1].pkt
                              /\ FArr = K.kern[1].arr
Agree == IF HasKern THEN "yes" ELSE "n/a"

(* ---- verdict collection: always TRUE; prints one line per finished run ---- *)
Why == (IF St # <<"exit">> THEN <<"fault">> ELSE <<>>)
       \o (IF St = <<"exit">> /\ ~GuardHolds THEN <<"guard">> ELSE <<>>)
       \o (IF St = <<"exit">> /\ ~PacketExact THEN <<"packet">> ELSE <<>>)
       \o (IF St = <<"exit">> /\ ~DestExact THEN <<"dest">> ELSE <<>>)
       \o (IF St = <<"exit">> /\ ~BranchExact THEN <<"branch">> ELSE <<>>)
FieldOf(pkt) == IF K.op # "none" /\ Len(pkt) >= PEnd THEN Slice(pkt, K.p, Size(K.fmt)) ELSE <<>>
(* the packet holds a negative value at p (flag for classifying failures; from the inputs only) *)
FieldNeg == K.op # "none" /\ PLen >= PEnd /\ Signed(K.fmt) /\ WIsNeg(Unpack(K.fmt, Old))
OthersTouched == \E i \in 1 .. PLen : (i <= K.p \/ i > PEnd) /\ FPkt[i] # K.pkt[i]
Observe ==
    IF ~Done THEN TRUE
    ELSE IF ~Generated THEN PrintT(<<"VERDICT", cid, FALSE, <<"refused">>, "n/a", [ran |-> FALSE]>>)
    ELSE IF ~InDomain THEN PrintT(<<"VERDICT", cid, FALSE, <<"not-in-domain">>, "n/a", [ran |-> FALSE]>>)
    ELSE IF ~MachineIsKernel
         THEN PrintT(<<"VERDICT", cid, FALSE, Why, "no",
                       [st |-> St, r0 |-> R0Of(fin.c), pkt |-> FPkt, arr |-> FArr]>>)
    ELSE IF Why = <<>> THEN PrintT(<<"VERDICT", cid, TRUE, Why, Agree, [ran |-> Ran, mark |-> Mark]>>)
    ELSE IF St # <<"exit">> THEN PrintT(<<"VERDICT", cid, FALSE, Why, Agree, [st |-> St, pc |-> fin.c.pc, neg |-> FieldNeg]>>)
    ELSE PrintT(<<"VERDICT", cid, FALSE, Why, Agree,
                  [ran |-> Ran, mark |-> Mark, len |-> PLen, neg |-> FieldNeg,
                   field |-> FieldOf(FPkt), expfield |-> FieldOf(ExpPkt), others |-> OthersTouched,
                   dst |-> IF K.op \in {"read", "reada"} THEN FDst ELSE <<>>,
                   expdst |-> IF K.op \in {"read", "reada"} THEN ExpDst ELSE <<>>,
                   branch |-> IF K.op = "cmp" THEN <<Branch, ExpBranch>> ELSE <<>>]>>)
=============================================================================
