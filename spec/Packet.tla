------------------------------- MODULE Packet -------------------------------
(* C07 - packet variables access exactly their declared bytes and byte order; a body guarded by
   a minimum packet size runs on every packet longer than that size and on no packet shorter
   than its accesses need.

   One case = one run of a program the REAL generator emitted (ebpfcat.xdp: PacketVar, the
   pB/pH/pI/pQ packet arrays, the minimumPacketSize wrapper or an explicit packetSize
   comparison) on one packet, executed by the machine of Ebpf.tla.  The program has this shape
   (all variables in array map 1; `marker` is 0 before the run):

       [guarded body]   marker = 1 ; <access if abr = 1>
       [else branch]    marker = 2 ; <access if abr = 2>      (explicit comparisons only)

   case = EbpfRun's case record plus
          op     "read"   dst = <packet variable>          (dst: dsz bytes at map offset dst)
                 "write"  <packet variable> = src          (src: 8 bytes at map offset src)
                 "const"  <packet variable> = k            (k: constant of the program)
                 "iadd"   <packet variable> += k           (k: constant of the program)
                 "iaddv"  <packet variable> += src
                 "none"   no access, only the markers
          fmt    the struct format of the packet variable, as a sequence of characters
          p      its offset in the packet
          k      8-byte word (const, iadd)
          guard  "min" (minimumPacketSize = n) or "gt" "ge" "lt" "le" (with packetSize <op> n)
          n      the guard's size
          abr    the marker value of the branch that contains the access (1 body, 2 else)
          need   the number of packet bytes the accesses of that branch need (p + size; 0 for none)
          mark, dst, dsz, src   map offsets / size as above
          built  FALSE if the generator raised instead of emitting a program for this access (the
                 case then has no program; one such case per refused program)

   Everything expected is computed here from the case's inputs (packet, map contents, format,
   offset) with Bytes.tla; Python only records what the generator emitted.                    *)
EXTENDS EbpfRun, Bytes

VARIABLE fin                    \* <<>> before the run, then Final(case) = [c |-> cpu, m |-> memory]
pvars == <<cid, fin>>
K == Cases[cid]
ArrR == Rg("arr", 1, <<>>)

PInit == cid \in 1 .. Len(Cases) /\ fin = <<>>
PNext == /\ fin = <<>>
         /\ fin' = IF K.built THEN Final(K) ELSE [c |-> [st |-> <<"refused">>, pc |-> 0], m |-> <<>>]
         /\ UNCHANGED cid
PSpec == PInit /\ [][PNext]_pvars
Done == fin # <<>>

(* ---- inputs ---- *)
PLen == Len(K.pkt)
Arr0 == Mem(K)[ArrR]
SrcVal == SubSeq(Arr0, K.src + 1, K.src + 8)
Dst0 == SubSeq(Arr0, K.dst + 1, K.dst + K.dsz)
Old == Slice(K.pkt, K.p, Size(K.fmt))                 \* only meaningful when PLen >= K.need
(* the case is inside the property's domain: a format of the list, an access inside the packet
   bytes the guard vouches for, a value struct.pack accepts *)
Guaranteed == CASE K.guard \in {"min", "ge"} -> K.n        \* bytes certainly present in the access branch
                [] K.guard = "gt" -> K.n + 1
                [] K.guard = "lt" -> K.n
                [] K.guard = "le" -> K.n + 1
InDomain == /\ IsFmt(K.fmt)
            /\ K.op \in {"read", "write", "const", "iadd", "iaddv", "none"}
            /\ K.op # "none" => (K.need = K.p + Size(K.fmt) /\ K.need <= Guaranteed /\ K.p >= 0)
            /\ K.abr = (IF K.guard \in {"lt", "le"} THEN 2 ELSE 1)
            /\ K.op = "write" => InRange(K.fmt, SrcVal)
            /\ K.op = "const" => InRange(K.fmt, K.k)
            /\ K.op = "read" => K.dsz \in {4, 8}

(* ---- observations on the final state ---- *)
St == fin.c.st
FPkt == fin.m[RPkt]
FArr == fin.m[ArrR]
MarkW == SubSeq(FArr, K.mark + 1, K.mark + 4)
Mark == IF MarkW[2] = 0 /\ MarkW[3] = 0 /\ MarkW[4] = 0 THEN MarkW[1] ELSE -1
FDst == SubSeq(FArr, K.dst + 1, K.dst + K.dsz)
Ran == Mark = K.abr                                   \* the branch with the access was taken

(* ---- the property ---- *)
(* no run ends in a fault, whatever the packet length: a packet too short for an access takes
   the guard's other branch *)
NoFault == Done => St = <<"exit">>
(* every access of the property's domain (the listed formats, offsets inside the guarded size) can be
   written down: the generator emits a program for it *)
Generated == K.built

BodyCond == CASE K.guard = "gt" -> PLen > K.n
              [] K.guard = "ge" -> PLen >= K.n
              [] K.guard = "lt" -> PLen < K.n
              [] K.guard = "le" -> PLen <= K.n
(* minimumPacketSize = n: the body runs on every packet longer than n and on no packet shorter
   than its accesses need; for the lengths in between the property leaves the choice open.
   An explicit comparison of packetSize means what the comparison says. *)
GuardHolds ==
    (Done /\ St = <<"exit">>) =>
        IF K.guard = "min"
        THEN /\ Mark \in {0, 1}
             /\ PLen > K.n => Mark = 1
             /\ PLen < K.need => Mark = 0
        ELSE Mark = (IF BodyCond THEN 1 ELSE 2)

NewField == CASE K.op = "write" -> Pack(K.fmt, SrcVal)
              [] K.op = "const" -> Pack(K.fmt, K.k)
              [] K.op = "iadd" -> Pack(K.fmt, WAdd(Unpack(K.fmt, Old), K.k))       \* modulo 256^size
              [] K.op = "iaddv" -> Pack(K.fmt, WAdd(Unpack(K.fmt, Old), SrcVal))
ExpPkt == IF Ran /\ K.op \in {"write", "const", "iadd", "iaddv"} THEN Patch(K.pkt, K.p, NewField) ELSE K.pkt
ExpDst == IF Ran /\ K.op = "read" THEN WTrunc(Unpack(K.fmt, Old), K.dsz) ELSE Dst0
(* a write stores exactly struct.pack's bytes at p and touches no other packet byte *)
PacketExact == (Done /\ St = <<"exit">>) => FPkt = ExpPkt
(* a read yields the value struct.unpack gives for the bytes at p *)
DestExact == (Done /\ St = <<"exit">> /\ K.op = "read") => FDst = ExpDst

(* ---- machine = kernel: where the harness could run the same program on the same packet in the
   kernel (BPF_PROG_TEST_RUN), K.kern = <<[r0, pkt, arr]>> is what the kernel left behind ---- *)
HasKern == Len(K.kern) > 0
MachineIsKernel == HasKern => /\ St = <<"exit">>
                              /\ R0Of(fin.c) = WFromInt(K.kern[1].r0, 8)
                              /\ FPkt = K.kern[1].pkt
                              /\ FArr = K.kern[1].arr
Agree == IF HasKern THEN "yes" ELSE "n/a"

(* ---- verdict collection: always TRUE; prints one line per finished run ---- *)
Why == (IF St # <<"exit">> THEN <<"fault">> ELSE <<>>)
       \o (IF St = <<"exit">> /\ ~GuardHolds THEN <<"guard">> ELSE <<>>)
       \o (IF St = <<"exit">> /\ ~PacketExact THEN <<"packet">> ELSE <<>>)
       \o (IF St = <<"exit">> /\ ~DestExact THEN <<"dest">> ELSE <<>>)
FieldOf(pkt) == IF K.op # "none" /\ Len(pkt) >= K.need THEN Slice(pkt, K.p, Size(K.fmt)) ELSE <<>>
(* the packet holds a negative value at p (flag for classifying failures; from the inputs only) *)
FieldNeg == K.op # "none" /\ PLen >= K.need /\ Signed(K.fmt) /\ WIsNeg(Unpack(K.fmt, Old))
OthersTouched == \E i \in 1 .. PLen : (i <= K.p \/ i > K.need) /\ FPkt[i] # K.pkt[i]
Observe ==
    IF ~Done THEN TRUE
    ELSE IF ~Generated THEN PrintT(<<"VERDICT", cid, FALSE, <<"refused">>, "n/a", [ran |-> FALSE]>>)
    ELSE IF ~InDomain THEN PrintT(<<"VERDICT", cid, FALSE, <<"not-in-domain">>, "n/a", [ran |-> FALSE]>>)
    ELSE IF ~MachineIsKernel
         THEN PrintT(<<"VERDICT", cid, FALSE, Why, "no",
                       [st |-> St, r0 |-> R0Of(fin.c), pkt |-> FPkt, arr |-> FArr]>>)
    ELSE IF Why = <<>> THEN PrintT(<<"VERDICT", cid, TRUE, Why, Agree, [ran |-> Ran, mark |-> Mark]>>)
    ELSE IF St # <<"exit">> THEN PrintT(<<"VERDICT", cid, FALSE, Why, Agree, [st |-> St, pc |-> fin.c.pc, neg |-> FieldNeg]>>)
    ELSE PrintT(<<"VERDICT", cid, FALSE, Why, Agree,
                  [ran |-> Ran, mark |-> Mark, len |-> PLen, neg |-> FieldNeg,
                   field |-> FieldOf(FPkt), expfield |-> FieldOf(ExpPkt), others |-> OthersTouched,
                   dst |-> IF K.op = "read" THEN FDst ELSE <<>>,
                   expdst |-> IF K.op = "read" THEN ExpDst ELSE <<>>]>>)
=============================================================================
