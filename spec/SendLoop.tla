------------------------------ MODULE SendLoop ------------------------------
(* C12 - every datagram request gets exactly its own response.

   The master's datagram service as the property requires it, one action per suspension /
   mutation point of ebpfcat/ethercat.py (EtherCat.roundtrip, sendloop, process_packet,
   roundtrip_packet, datagram_received):

     Submit(r,s)      roundtrip(): the request is put into send_queue
     Cancel(r)        the client gives up: a pending request becomes cancelled
     SL_Get           sendloop: take the next request from the queue (it is now "held")
     SL_Append        sendloop: packet.append succeeds
     SL_Overflow      sendloop: the packet is shipped without the held request, which is kept
     SL_Flush         sendloop: the packet becomes a frame (ensure_future(process_packet))
     SL_Drop          sendloop: a request that is already cancelled/rejected need not be sent
     Reject(r)        a request that can never fit into a frame fails (it must not stall the loop)
     PP_Send(f)       process_packet/roundtrip_packet: the frame is handed to the transport
     Bus_Return/Bus_Delay/Bus_Dup/Bus_Lose(f)   what the bus does with the frame
     Recv(f)          datagram_received: a copy of the frame arrives
     PP_Complete(f,k) process_packet: the k-th datagram of a returned frame completes its request

   Requests are numbered in the order of their submission (the harness numbers them at the
   moment of the submit), so "in submission order" is "in increasing order".

   Where the property leaves freedom the specification is nondeterministic: how requests are
   batched into frames (a packet may be shipped at any time it is non-empty, the only hard
   limit is the frame size), whether a request that was cancelled before being sent is sent
   at all, at which point an over-long request is rejected (in the queue or when held).     *)
EXTENDS Integers, Sequences, FiniteSets, TLC

CONSTANTS MaxReq,      \* requests are 1 .. MaxReq
          MaxFrame,    \* a frame is at most MaxFrame bytes ...
          Header,      \* ... of which Header bytes are fixed ...
          Overhead     \* ... and each datagram takes its data length + Overhead

Req == 1 .. MaxReq

VARIABLES sub,      \* number of requests submitted so far: requests 1 .. sub exist
          size,     \* size[r]: data length of request r
          got,      \* number of requests the send loop has taken: the queue is got+1 .. sub
          held,     \* the request taken from the queue and not yet in a packet, or 0
          pkt,      \* the packet under construction: sequence of requests
          slpc,     \* "get" | "flush" (flush: the packet must be shipped before anything else)
          frames,   \* frames in the order of their creation, see NewFrame
          fut       \* fut[r]: the client-visible completion of request r

vars == <<sub, size, got, held, pkt, slpc, frames, fut>>

Pending   == [k |-> "P", t |-> 0]
Cancelled == [k |-> "C", t |-> 0]
Result(x) == [k |-> "R", t |-> x]       \* completed with the bytes identified by token x
ErrWkc    == [k |-> "E", t |-> 0]       \* error: the bus did not process the datagram
ErrBig    == [k |-> "E", t |-> 1]       \* error: the request can never fit into a frame

RECURSIVE DBytes(_)
DBytes(p) == IF p = <<>> THEN 0 ELSE size[Head(p)] + Overhead + DBytes(Tail(p))
Fits(p, r) == Header + DBytes(p) + size[r] + Overhead <= MaxFrame
TooBig(r) == ~Fits(<<>>, r)

(* a frame: its datagrams (requests), where it is, what the bus made of it.
   st: "ready" (process_packet task created) -> "sent" (given to the transport) ->
       "fly" (fl copies on their way back) | "lost" -> "ret" (first copy arrived; nx = next
       datagram to complete).  wkc[k] / tok[k]: working counter and (a token for) the bytes
       the bus returned at the position of the k-th datagram.                               *)
NewFrame(p) == [d |-> p, st |-> "ready", wkc |-> <<>>, tok |-> <<>>, nx |-> 0, fl |-> 0]

Init == /\ sub = 0 /\ size = [r \in Req |-> 0] /\ got = 0 /\ held = 0 /\ pkt = <<>>
        /\ slpc = "get" /\ frames = <<>> /\ fut = [r \in Req |-> Pending]

-----------------------------------------------------------------------------
Submit(r, s) ==
    /\ r = sub + 1 /\ r \in Req
    /\ sub' = r /\ size' = [size EXCEPT ![r] = s]
    /\ UNCHANGED <<got, held, pkt, slpc, frames, fut>>

Cancel(r) ==
    /\ r \in 1 .. sub /\ fut[r] = Pending
    /\ fut' = [fut EXCEPT ![r] = Cancelled]
    /\ UNCHANGED <<sub, size, got, held, pkt, slpc, frames>>

SL_Get ==
    /\ slpc = "get" /\ held = 0 /\ got < sub
    /\ held' = got + 1 /\ got' = got + 1
    /\ UNCHANGED <<sub, size, pkt, slpc, frames, fut>>

SL_Append ==                                   \* packet.append(*dgram) succeeds
    /\ slpc = "get" /\ held # 0 /\ Fits(pkt, held)
    /\ pkt' = Append(pkt, held) /\ held' = 0
    /\ slpc' \in {"get", "flush"}              \* go on collecting, or ship now
    /\ UNCHANGED <<sub, size, got, frames, fut>>

SL_Overflow ==                                 \* keep the datagram, ship the packet first
    /\ slpc = "get" /\ held # 0 /\ pkt # <<>>
    /\ slpc' = "flush"
    /\ UNCHANGED <<sub, size, got, held, pkt, frames, fut>>

SL_Flush ==                                    \* the packet becomes a frame
    /\ pkt # <<>>
    /\ slpc = "flush" \/ (held = 0 /\ got = sub)     \* ... at the latest when the queue is empty
    /\ frames' = Append(frames, NewFrame(pkt))
    /\ pkt' = <<>> /\ slpc' = "get"
    /\ UNCHANGED <<sub, size, got, held, fut>>

SL_Drop ==                                     \* no need to send what is already completed
    /\ slpc = "get" /\ held # 0 /\ fut[held] # Pending
    /\ held' = 0
    /\ UNCHANGED <<sub, size, got, pkt, slpc, frames, fut>>

Reject(r) ==                                   \* can never fit -> fail, do not stall
    /\ r \in 1 .. sub /\ TooBig(r) /\ fut[r] = Pending
    /\ \/ r = held /\ slpc = "get" /\ held' = 0
       \/ r > got /\ UNCHANGED held
    /\ fut' = [fut EXCEPT ![r] = ErrBig]
    /\ UNCHANGED <<sub, size, got, pkt, slpc, frames>>

PP_Send(f) ==                                  \* frames go out in the order of their creation
    /\ f \in DOMAIN frames /\ frames[f].st = "ready"
    /\ \A g \in 1 .. (f - 1) : frames[g].st # "ready"
    /\ frames' = [frames EXCEPT ![f].st = "sent"]
    /\ UNCHANGED <<sub, size, got, held, pkt, slpc, fut>>

BusSet(f, w, t, n) ==
    /\ f \in DOMAIN frames /\ frames[f].st = "sent"
    /\ Len(w) = Len(frames[f].d) /\ Len(t) = Len(frames[f].d)
    /\ frames' = [frames EXCEPT ![f] = [d |-> frames[f].d, st |-> IF n = 0 THEN "lost" ELSE "fly",
                                        wkc |-> w, tok |-> t, nx |-> 0, fl |-> n]]
    /\ UNCHANGED <<sub, size, got, held, pkt, slpc, fut>>
Bus_Return(f, w, t) == BusSet(f, w, t, 1)      \* comes back with working counters w, bytes t
Bus_Delay(f, w, t)  == BusSet(f, w, t, 1)      \* the same, later (the model is untimed: Recv
                                               \* of any frame in flight may happen at any time)
Bus_Dup(f, w, t)    == BusSet(f, w, t, 2)      \* comes back twice
Bus_Lose(f)         == BusSet(f, [k \in DOMAIN frames[f].d |-> 0], [k \in DOMAIN frames[f].d |-> 0], 0)

Recv(f) ==                                     \* datagram_received: later copies are ignored
    /\ f \in DOMAIN frames /\ frames[f].fl > 0
    /\ frames' = [frames EXCEPT ![f] = [d |-> frames[f].d, wkc |-> frames[f].wkc, tok |-> frames[f].tok,
                                        fl |-> frames[f].fl - 1,
                                        st |-> IF frames[f].st = "fly" THEN "ret" ELSE frames[f].st,
                                        nx |-> IF frames[f].st = "fly" THEN 1 ELSE frames[f].nx]]
    /\ UNCHANGED <<sub, size, got, held, pkt, slpc, fut>>

PP_Complete(f, k) ==                           \* one datagram of a returned frame
    /\ f \in DOMAIN frames /\ frames[f].st = "ret"
    /\ k = frames[f].nx /\ k <= Len(frames[f].d)
    /\ LET r == frames[f].d[k] IN
         fut' = [fut EXCEPT ![r] = IF fut[r] # Pending THEN fut[r]          \* cancelled: untouched
                                   ELSE IF frames[f].wkc[k] = 0 THEN ErrWkc
                                   ELSE Result(frames[f].tok[k])]
    /\ frames' = [frames EXCEPT ![f].nx = k + 1]
    /\ UNCHANGED <<sub, size, got, held, pkt, slpc>>

(* the steps of the master itself (as opposed to clients and bus) *)
Internal == \/ SL_Get \/ SL_Append \/ SL_Overflow \/ SL_Flush \/ SL_Drop
            \/ \E r \in Req : Reject(r)
            \/ \E f \in DOMAIN frames : PP_Send(f)
            \/ \E f \in DOMAIN frames : \E k \in DOMAIN frames[f].d : PP_Complete(f, k)

-----------------------------------------------------------------------------
(* where a request is *)
RECURSIVE Cat(_, _)
Cat(fs, i) == IF i > Len(fs) THEN <<>> ELSE fs[i].d \o Cat(fs, i + 1)
RECURSIVE WireFrom(_, _)
WireFrom(fs, i) == IF i > Len(fs) \/ fs[i].st = "ready" THEN <<>> ELSE fs[i].d \o WireFrom(fs, i + 1)
Wire == WireFrom(frames, 1)                    \* the datagrams in the order they went out
Pipeline == Cat(frames, 1) \o pkt \o (IF held = 0 THEN <<>> ELSE <<held>>)
OnWire(r) == \E i \in DOMAIN Wire : Wire[i] = r
Range(q) == {q[i] : i \in DOMAIN q}
Place(r) == {<<f, k>> \in (DOMAIN frames) \X (1 .. MaxReq) : k <= Len(frames[f].d) /\ frames[f].d[k] = r}

TypeOK == /\ sub \in 0 .. MaxReq /\ got \in 0 .. sub /\ held \in 0 .. got
          /\ slpc \in {"get", "flush"}
          /\ \A f \in DOMAIN frames : frames[f].st \in {"ready", "sent", "fly", "lost", "ret"}

(* P1 - sent at most once: a request taken from the queue is in at most one place (one frame
   position, the packet, or held); one that is nowhere any more was cancelled or rejected   *)
P1Aux(p) == /\ Cardinality(Range(p)) = Len(p)
            /\ \A r \in (1 .. got) \ Range(p) : fut[r] # Pending
P1_Once == P1Aux(Pipeline)
(* P2 - in submission order: what is on the wire, in frames not yet out, in the packet, held
   and (by construction) queued is increasing - requests are numbered by submission; and a
   frame is never empty nor longer than the frame limit                                     *)
P2Aux(p) == /\ \A i \in 1 .. (Len(p) - 1) : p[i] < p[i + 1]
            /\ \A i \in DOMAIN p : p[i] <= got
P2_Order == /\ P2Aux(Pipeline)
            /\ \A f \in DOMAIN frames : frames[f].d # <<>> /\ Header + DBytes(frames[f].d) <= MaxFrame
(* P3 - a request completes at most once *)
P3_OnceDone == [][\A r \in Req : fut[r] # Pending => fut'[r] = fut[r]]_vars
(* P4 - own outcome.  For the datagram at position k of frame f, carrying request r: as long as
   the frame has not come back and been gone through up to k (in particular if it was lost),
   r is still pending unless its client cancelled; afterwards r is cancelled or has exactly
   the outcome of its own position: an error if its own working counter is 0, else the bytes
   returned at its own position.  A result or a not-processed error exists only for requests
   that are in a frame; the too-big error only for a request that cannot fit (and such a
   request is never in a frame).                                                            *)
P4Aux(inframes) ==
    /\ \A f \in DOMAIN frames : \A k \in DOMAIN frames[f].d :
          LET r == frames[f].d[k] IN
          IF frames[f].st = "ret" /\ k < frames[f].nx
          THEN fut[r] \in {Cancelled, IF frames[f].wkc[k] = 0 THEN ErrWkc ELSE Result(frames[f].tok[k])}
          ELSE fut[r] \in {Pending, Cancelled}
    /\ \A r \in 1 .. sub :
          /\ (fut[r].k = "R" \/ fut[r] = ErrWkc) => r \in inframes
          /\ fut[r] = ErrBig => TooBig(r) /\ r \notin inframes
P4_Own == P4Aux(Range(Cat(frames, 1)))
(* P5 - independence: the completion of r is written by no step other than r's own cancel,
   r's own rejection and the completion of r's own datagram *)
P5_Indep == [][\A r \in Req : fut'[r] # fut[r] =>
                  \/ Cancel(r) \/ Reject(r)
                  \/ \E f \in DOMAIN frames : \E k \in DOMAIN frames[f].d :
                        frames[f].d[k] = r /\ PP_Complete(f, k)]_vars
(* P6 - no stall: the master comes to rest only with nothing held, nothing packed, nothing
   queued, every frame out and every returned frame gone through *)
P6_Rest == ~ ENABLED Internal =>
              /\ held = 0 /\ pkt = <<>> /\ got = sub /\ slpc = "get"
              /\ \A f \in DOMAIN frames : /\ frames[f].st # "ready"
                                          /\ frames[f].st = "ret" => frames[f].nx = Len(frames[f].d) + 1
              /\ \A r \in 1 .. sub : OnWire(r) \/ fut[r] # Pending
(* ... and, the master's steps being fair, every request gets on the wire or fails/is cancelled *)
P6_Progress == \A r \in Req : (sub >= r) ~> (OnWire(r) \/ fut[r] # Pending)
=============================================================================
