SPECIFICATION TSpec
CONSTANTS MaxBusy = 100000
CONSTRAINT Progress
POSTCONDITION Post
CHECK_DEADLOCK FALSE
