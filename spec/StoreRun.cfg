INIT Init
NEXT Next
INVARIANT MReport
CHECK_DEADLOCK FALSE
