SPECIFICATION SSpec
CONSTANTS NCycles = 3
          Dts = {0, 1, 2}
INVARIANT Emit
CHECK_DEADLOCK FALSE
