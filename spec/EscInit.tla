------------------------------- MODULE EscInit -------------------------------
(* X01 - terminal initialisation: what Terminal.initialize, gentle_initialize, apply_eeprom,
   write_pdo_sm and set_watchdog (ebpfcat/ethercat.py) and the chain EBPFTerminal.initialize
   (ebpfcat/ebpfcat.py) must leave in the EtherCAT slave controller (ESC) and in the master's
   Terminal object.

   The ESC (environment) is a register file with the semantics the code itself relies on:
       0x0010  configured station address (16 bit)
       0x0120  AL control: a state request; the terminal follows it (every terminal can always
               be sent to INIT; the simulated terminal grants every request at once)
       0x0400  watchdog divider, 0x0410 PDI watchdog time, 0x0420 process-data watchdog time
       0x0502  .. 0x0507  SII (EEPROM) control and address: written whenever the EEPROM is read
       0x0600 + 16 n  FMMU n; byte 12 bit 0 activates it
       0x0800 + 8 n   sync manager n: start (2), length (2), control (1), status (1, read-only),
               activate (1, bit 0), PDI control (1, read-only).  Start, length and control accept
               a write only while the sync manager is deactivated - this is why write_pdo_sm
               deactivates, writes the length and activates again.
   The EEPROM category 41 ("sync manager", doc: ethercat.rst shows one of an EL7031) has 8 bytes
   per sync manager: start (2), length (2), control byte, status, enable, type; type 1 = mailbox
   out, 2 = mailbox in, 3 = process data out, 4 = process data in, 0 = unused.  Entry n
   configures the register block 0x800 + 8 n.

   Steps (one action per step the code takes): Call - a method of Terminal is entered; Write - one
   write datagram reaches the terminal (any EtherCAT command); Return - the method returns and
   its post-condition is due; EnvAl / EnvNewObj - somebody else changes the AL state, a second
   user creates his own Terminal object.

   Requirements and where they are taken from
     R1 station   initialize docstring (":param absolute: the number used to identify the terminal
                  henceforth", "If None take a free one"), ethercat.rst ("assign address 20"):
                  after initialize the station register holds exactly the given address, or a
                  non-zero one not used by another terminal; the object knows it.
     R2 init      initialize docstring: "It still leaves the terminal in the init state".
     R3 fmmu      initialize, comment "switch off all fmmus": no FMMU is active afterwards (their
                  other bytes are left alone or cleared); fmmu_used has one slot per FMMU.
     R4 syncm     initialize docstring: "reads the EEPROM and sets up the sync manager as defined
                  therein": block n gets start / length / control of entry n; it is activated iff
                  the entry is enabled and its length is non-zero (write_pdo_sm's own rule: a sync
                  manager of length 0 is not activated); blocks the EEPROM does not declare are
                  not active.  Without category 41 the blocks are left alone (or deactivated).
     R5 view      consistency with R4 and the category layout: the object's mailbox areas are the
                  entries of type 1 / 2 (absent = None, which is what has_mailbox tests), its
                  process-data areas those of type 3 / 4 with the address of their register block
                  (absent = size None or 0).
     R6 pdo       write_pdo_sm as used by EBPFTerminal.apply_eeprom ("pdo_out_sz = (outbits + 7)
                  // 8 ... write_pdo_sm"): the sizes go into the length registers of the
                  process-data sync managers, which are active iff the size is non-zero; start and
                  control stay; no other sync manager changes.
     R7 watchdog  set_watchdog docstring: "set the watchdog time for the PDI and process data
                  watchdog": 0x410 and 0x420 hold the two values, nothing else changes.
     R8 gentle    gentle_initialize docstring: "Initialize a terminal only if not already
                  initialized ... should be used in parallel with other users ... bring the
                  terminal to a state such that one can read and write SDO parameters": on a
                  terminal that has a station address and is not in INIT no tracked register
                  changes and only the SII interface is written; the object knows the station
                  address and (if the blocks are configured as the EEPROM says) the mailbox areas.
                  Otherwise it behaves like initialize.
     R9 frame     consistency: a call writes only registers of its own area (Allowed), only to
                  its own terminal, changes no other memory, and does not fail.
   Observations (behaviour of /repo that breaks a requirement; a trace is first validated with no
   relaxation, a rejected one again with the relaxations whose predicate (Applicable) holds, each
   of which replaces one requirement by exactly what the code does):
     O1  apply_eeprom copies the enable byte into the activate register: an enabled entry of
         length 0 is activated (R4).
     O2  parse_sync_managers identifies the areas by the low nibble of the control byte, the last
         entry winning: an unused (type 0, all-zero) entry after the process-data-in entry is
         taken for it (R5, R6).
     O3  write_pdo_sm falls back to block 2 (out) / block 3 (in) when it knows no process-data
         sync manager of that direction, whatever the EEPROM declares there (R6).
     O4  without category 41 apply_eeprom returns before parse_sync_managers: the object has no
         mailbox / process-data attributes at all, has_mailbox() raises AttributeError (R5).   *)
EXTENDS Integers, Sequences, FiniteSets

CONSTANTS NSm           \* number of sync-manager register blocks (16 on the real register map)

None == -1              \* Python's None
Unset == -2             \* the attribute does not exist

AStation == 16
AAlCtl == 288
AWdDiv == 1024
AWdPdi == 1040
AWdProc == 1056
ASiiLo == 1282
ASiiHi == 1287
AFmmu == 1536
ASm == 2048

StInit == 1
StPreop == 2
StSafeop == 4
StOp == 8

WdRegs == {AWdDiv, AWdDiv + 1, AWdPdi, AWdPdi + 1, AWdProc, AWdProc + 1}
StationRegs == {AStation, AStation + 1}
AlRegs == {AAlCtl, AAlCtl + 1}
SiiRegs == ASiiLo .. ASiiHi
FmmuRegs(nf) == AFmmu .. (AFmmu + 16 * nf - 1)
SmRegs == ASm .. (ASm + 8 * NSm - 1)
Tracked(nf) == StationRegs \cup WdRegs \cup FmmuRegs(nf) \cup SmRegs

Bit0(b) == b % 2 = 1
U16(s, o) == s[o + 1] + 256 * s[o + 2]              \* 0-based offset into a byte sequence
R16(reg, a) == reg[a] + 256 * reg[a + 1]
LE16(v) == <<v % 256, v \div 256>>
SetMax(S) == CHOOSE x \in S : \A y \in S : y <= x

(* ------------------------------------------------------------------------------------------ *)
(* the slave controller *)
SmBlock(reg, n) == [start |-> R16(reg, ASm + 8 * n), len |-> R16(reg, ASm + 8 * n + 2),
                    ctl |-> reg[ASm + 8 * n + 4], act |-> reg[ASm + 8 * n + 6]]
SmActive(reg, n) == Bit0(reg[ASm + 8 * n + 6])
Writable(reg, a) ==
    IF a \in SmRegs THEN
        LET o == (a - ASm) % 8
            n == (a - ASm) \div 8
        IN  IF o \in {5, 7} THEN FALSE
            ELSE IF o <= 4 THEN ~SmActive(reg, n) ELSE TRUE
    ELSE TRUE
Hits(ado, n, a) == ado <= a /\ a < ado + n
(* one write datagram: the bytes land where the register accepts them (judged on the state
   before the datagram); a state request in AL control is followed                           *)
EscWrite(e, ado, data) ==
    LET r == e.reg IN
    [e EXCEPT !.reg = [a \in DOMAIN r |-> IF Hits(ado, Len(data), a) /\ Writable(r, a)
                                          THEN data[a - ado + 1] ELSE r[a]],
              !.al = IF Hits(ado, Len(data), AAlCtl) THEN data[AAlCtl - ado + 1] % 16 ELSE @]

(* ------------------------------------------------------------------------------------------ *)
(* the EEPROM's sync-manager category: ee = [has41, d, outbits, inbits, other] *)
NEnt(d) == IF Len(d) \div 8 < NSm THEN Len(d) \div 8 ELSE NSm
Ent(d, n) == [start |-> U16(d, 8 * n), len |-> U16(d, 8 * n + 2), ctl |-> d[8 * n + 5],
              en |-> d[8 * n + 7], type |-> d[8 * n + 8]]
Kinds == {"mbx_out", "mbx_in", "pdo_out", "pdo_in"}
TypeOf(kind) == CASE kind = "mbx_out" -> 1 [] kind = "mbx_in" -> 2
                  [] kind = "pdo_out" -> 3 [] kind = "pdo_in" -> 4
ModeOf(kind) == CASE kind = "mbx_out" -> 6 [] kind = "mbx_in" -> 2
                  [] kind = "pdo_out" -> 4 [] kind = "pdo_in" -> 0
ByType(d, kind) == {n \in 0 .. (NEnt(d) - 1) : Ent(d, n).type = TypeOf(kind)}
ByMode(d, kind) == {n \in 0 .. (NEnt(d) - 1) : Ent(d, n).ctl % 16 = ModeOf(kind)}
(* the entries that may be reported / programmed for a kind *)
Cands(d, kind, rx) ==
    IF "O2" \in rx THEN (IF ByMode(d, kind) = {} THEN {} ELSE {SetMax(ByMode(d, kind))})
    ELSE ByType(d, kind)
BytesOf(bits) == (bits + 7) \div 8

(* which observations can explain a rejected trace of this EEPROM *)
Applicable(e) ==
    (IF e.has41 /\ \E n \in 0 .. (NEnt(e.d) - 1) : Bit0(Ent(e.d, n).en) /\ Ent(e.d, n).len = 0
     THEN {"O1"} ELSE {})
    \cup (IF e.has41 /\ \E k \in Kinds : Cands(e.d, k, {"O2"}) # ByType(e.d, k)
          THEN {"O2"} ELSE {})
    \cup (IF e.has41 /\ (   (Cands(e.d, "pdo_out", {"O2"}) = {} /\ NEnt(e.d) > 2)
                         \/ (Cands(e.d, "pdo_in", {"O2"}) = {} /\ NEnt(e.d) > 3))
          THEN {"O3"} ELSE {})
    \cup (IF ~e.has41 THEN {"O4"} ELSE {})

(* ------------------------------------------------------------------------------------------ *)
(* requirements on the state after a call;  c: the call with the ESC at its entry (c.pre),
   e: the ESC now, v: the Terminal object's attributes now, ee: the EEPROM, rx: relaxations   *)
SameOn(r0, r1, S) == \A a \in S : r1[a] = r0[a]
BlockRegs(n) == (ASm + 8 * n) .. (ASm + 8 * n + 7)

StationOK(c, e, v, ee) ==                                                             \* R1
    /\ R16(e.reg, AStation) = v.position
    /\ IF c.has_abs THEN v.position = c.abs
       ELSE v.position \in 1 .. 65535 /\ v.position # ee.other
    /\ ~c.has_rel => SameOn(c.pre.reg, e.reg, StationRegs)

FmmusOff(c, e, v) ==                                                                  \* R3
    /\ v.nfmmu = e.nf
    /\ \A i \in 0 .. (e.nf - 1) :
          /\ ~Bit0(e.reg[AFmmu + 16 * i + 12])
          /\ \A o \in 0 .. 15 : e.reg[AFmmu + 16 * i + o] \in {c.pre.reg[AFmmu + 16 * i + o], 0}

ActOK(act, x, rx) == IF "O1" \in rx THEN act = x.en
                     ELSE Bit0(act) = (Bit0(x.en) /\ x.len # 0)
SmAsEeprom(reg, d, n, rx) ==
    LET x == Ent(d, n)
        s == SmBlock(reg, n)
    IN  s.start = x.start /\ s.len = x.len /\ s.ctl = x.ctl /\ ActOK(s.act, x, rx)
SmsProgrammed(c, e, ee, rx) ==                                                        \* R4
    IF ee.has41 THEN
        \A n \in 0 .. (NSm - 1) : IF n < NEnt(ee.d) THEN SmAsEeprom(e.reg, ee.d, n, rx)
                                  ELSE ~SmActive(e.reg, n)
    ELSE \A n \in 0 .. (NSm - 1) : SameOn(c.pre.reg, e.reg, BlockRegs(n)) \/ ~SmActive(e.reg, n)

MbxViewOK(off, sz, d, kind, rx) ==
    IF Cands(d, kind, rx) = {} THEN off = None /\ sz = None
    ELSE \E n \in Cands(d, kind, rx) : off = Ent(d, n).start /\ sz = Ent(d, n).len
PdoViewOK(off, sz, addr, d, kind, rx) ==
    IF Cands(d, kind, rx) = {} THEN sz \in {None, 0}
    ELSE \E n \in Cands(d, kind, rx) :
            off = Ent(d, n).start /\ sz = Ent(d, n).len /\ addr = ASm + 8 * n
ViewFields(v) == <<v.mbx_out_off, v.mbx_out_sz, v.mbx_in_off, v.mbx_in_sz, v.pdo_out_off,
                   v.pdo_out_sz, v.pdo_in_off, v.pdo_in_sz>>
MbxViewsOK(v, ee, rx) ==
    /\ MbxViewOK(v.mbx_out_off, v.mbx_out_sz, ee.d, "mbx_out", rx)
    /\ MbxViewOK(v.mbx_in_off, v.mbx_in_sz, ee.d, "mbx_in", rx)
ViewOK(v, ee, rx) ==                                                                  \* R5
    IF ee.has41 THEN
        /\ MbxViewsOK(v, ee, rx)
        /\ PdoViewOK(v.pdo_out_off, v.pdo_out_sz, v.pdo_out_addr, ee.d, "pdo_out", rx)
        /\ PdoViewOK(v.pdo_in_off, v.pdo_in_sz, v.pdo_in_addr, ee.d, "pdo_in", rx)
    ELSE IF "O4" \in rx THEN \A k \in 1 .. 8 : ViewFields(v)[k] = Unset
    ELSE /\ v.mbx_out_off = None /\ v.mbx_out_sz = None
         /\ v.mbx_in_off = None /\ v.mbx_in_sz = None
         /\ v.pdo_out_sz \in {None, 0} /\ v.pdo_in_sz \in {None, 0}

PostInitialize(c, e, v, ee, rx) ==
    /\ StationOK(c, e, v, ee)
    /\ e.al = StInit                                                                  \* R2
    /\ FmmusOff(c, e, v)
    /\ SmsProgrammed(c, e, ee, rx)
    /\ ViewOK(v, ee, rx)
    /\ SameOn(c.pre.reg, e.reg, WdRegs)

PostApply(c, e, v, ee, rx) ==
    /\ SmsProgrammed(c, e, ee, rx)
    /\ ViewOK(v, ee, rx)
    /\ SameOn(c.pre.reg, e.reg, StationRegs \cup WdRegs \cup FmmuRegs(e.nf))
    /\ e.al = c.pre.al

(* R8: the terminal counts as configured exactly when the code's own test says so *)
Configured(c) == (c.has_rel => R16(c.pre.reg, AStation) # 0) /\ c.pre.al # StInit
ConfiguredAsEeprom(reg, ee) ==
    ee.has41 /\ \A n \in 0 .. (NEnt(ee.d) - 1) :
                    SmBlock(reg, n).start = Ent(ee.d, n).start /\ SmBlock(reg, n).ctl = Ent(ee.d, n).ctl
GentleMbxOK(off, sz, reg, d, kind, rx) ==
    IF Cands(d, kind, rx) = {} THEN off = None /\ sz = None
    ELSE \E n \in Cands(d, kind, rx) : off = SmBlock(reg, n).start /\ sz = SmBlock(reg, n).len
PostGentle(c, e, v, ee, rx) ==
    IF Configured(c) THEN
        /\ e.reg = c.pre.reg /\ e.al = c.pre.al
        /\ v.position = R16(e.reg, AStation)
        /\ c.has_abs => v.position = c.abs
        /\ ConfiguredAsEeprom(e.reg, ee) =>
              /\ GentleMbxOK(v.mbx_out_off, v.mbx_out_sz, e.reg, ee.d, "mbx_out", rx)
              /\ GentleMbxOK(v.mbx_in_off, v.mbx_in_sz, e.reg, ee.d, "mbx_in", rx)
    ELSE PostInitialize(c, e, v, ee, rx)

(* R6 *)
PdoProgrammed(c, e, d, kind, sz, rx) ==
    IF Cands(d, kind, rx) = {} THEN TRUE
    ELSE \E n \in Cands(d, kind, rx) :
            LET s == SmBlock(e.reg, n)
                p == SmBlock(c.pre.reg, n)
            IN  s.len = sz /\ Bit0(s.act) = (sz > 0) /\ s.start = p.start /\ s.ctl = p.ctl
ApplyPdo(reg, n, sz) == [reg EXCEPT ![ASm + 8 * n + 2] = sz % 256, ![ASm + 8 * n + 3] = sz \div 256,
                                    ![ASm + 8 * n + 6] = IF sz > 0 THEN 1 ELSE 0]
TargetO3(d, kind, rx) == IF Cands(d, kind, rx) = {} THEN (IF kind = "pdo_out" THEN 2 ELSE 3)
                         ELSE SetMax(Cands(d, kind, rx))
PostWritePdoSm(c, e, ee, rx) ==
    /\ SameOn(c.pre.reg, e.reg, StationRegs \cup WdRegs \cup FmmuRegs(e.nf))
    /\ e.al = c.pre.al
    /\ IF "O3" \in rx THEN      \* exactly what the code does: out first, then in, defaults 2 and 3
           e.reg = ApplyPdo(ApplyPdo(c.pre.reg, TargetO3(ee.d, "pdo_out", rx), c.a),
                            TargetO3(ee.d, "pdo_in", rx), c.b)
       ELSE /\ PdoProgrammed(c, e, ee.d, "pdo_out", c.a, rx)
            /\ PdoProgrammed(c, e, ee.d, "pdo_in", c.b, rx)
            /\ \A n \in 0 .. (NSm - 1) :
                  n \notin (Cands(ee.d, "pdo_out", rx) \cup Cands(ee.d, "pdo_in", rx))
                  => SameOn(c.pre.reg, e.reg, BlockRegs(n))

PostSetWatchdog(c, e) ==                                                              \* R7
    /\ R16(e.reg, AWdPdi) = c.a /\ R16(e.reg, AWdProc) = c.b
    /\ SameOn(c.pre.reg, e.reg, DOMAIN e.reg \ {AWdPdi, AWdPdi + 1, AWdProc, AWdProc + 1})
    /\ e.al = c.pre.al

(* the whole chain EBPFTerminal.initialize: as initialize, then PRE-OPERATIONAL, the PDO sizes
   the terminal describes (ee.outbits / ee.inbits) written by write_pdo_sm, SAFE-OPERATIONAL  *)
IsPd(x) == x.type \in {3, 4}
PostEbpfInitialize(c, e, v, ee, rx) ==
    /\ StationOK(c, e, v, ee)
    /\ e.al = StSafeop
    /\ FmmusOff(c, e, v)
    /\ SameOn(c.pre.reg, e.reg, WdRegs)
    /\ ee.has41
    /\ \A n \in 0 .. (NSm - 1) :
          IF n >= NEnt(ee.d) THEN ~SmActive(e.reg, n)
          ELSE IF IsPd(Ent(ee.d, n)) THEN
              LET s == SmBlock(e.reg, n)
                  sz == BytesOf(IF Ent(ee.d, n).type = 3 THEN ee.outbits ELSE ee.inbits)
              IN  s.start = Ent(ee.d, n).start /\ s.ctl = Ent(ee.d, n).ctl /\ s.len = sz
                  /\ Bit0(s.act) = (sz > 0)
          ELSE SmAsEeprom(e.reg, ee.d, n, rx)
    /\ MbxViewsOK(v, ee, rx)
    /\ \A kind \in {"pdo_out", "pdo_in"} :
          LET sz == IF kind = "pdo_out" THEN v.pdo_out_sz ELSE v.pdo_in_sz
              bits == IF kind = "pdo_out" THEN ee.outbits ELSE ee.inbits
          IN  sz = BytesOf(bits)

PostOf(c, e, v, ee, rx) ==
    CASE c.op = "initialize" -> PostInitialize(c, e, v, ee, rx)
      [] c.op = "gentle" -> PostGentle(c, e, v, ee, rx)
      [] c.op = "apply_eeprom" -> PostApply(c, e, v, ee, rx)
      [] c.op = "write_pdo_sm" -> PostWritePdoSm(c, e, ee, rx)
      [] c.op = "set_watchdog" -> PostSetWatchdog(c, e)
      [] c.op = "ebpf_initialize" -> PostEbpfInitialize(c, e, v, ee, rx)
      [] OTHER -> FALSE

(* R9: the registers a call may write at all *)
InitRegs(c) == (IF c.has_rel THEN StationRegs ELSE {}) \cup AlRegs \cup FmmuRegs(c.pre.nf)
               \cup SiiRegs \cup SmRegs
MbxOutArea(ee) == IF ~ee.has41 THEN {} ELSE
    UNION {Ent(ee.d, n).start .. (Ent(ee.d, n).start + Ent(ee.d, n).len - 1) : n \in ByType(ee.d, "mbx_out")}
Allowed(c, ee) ==
    CASE c.op = "initialize" -> InitRegs(c)
      [] c.op = "gentle" -> IF Configured(c) THEN SiiRegs ELSE InitRegs(c)
      [] c.op = "apply_eeprom" -> SiiRegs \cup SmRegs
      [] c.op = "write_pdo_sm" -> SmRegs
      [] c.op = "set_watchdog" -> WdRegs
      [] c.op = "ebpf_initialize" -> InitRegs(c) \cup MbxOutArea(ee)
      [] OTHER -> {}

(* ------------------------------------------------------------------------------------------ *)
(* the steps *)
VARIABLES ee,       \* the EEPROM (fixed during a behaviour) and the relaxations in force (ee.rx)
          esc,      \* the slave controller: [reg, al, nf]
          obj,      \* the Terminal object's attributes as last reported
          call      \* the call in progress, with the ESC at its entry, or Idle
evars == <<ee, esc, obj, call>>

Idle == [op |-> "idle"]
NoObj == [position |-> Unset]
Busy == call.op # "idle"

Call(c) == /\ ~Busy
           /\ call' = [op |-> c.op, has_rel |-> c.has_rel, has_abs |-> c.has_abs, abs |-> c.abs,
                       a |-> c.a, b |-> c.b, pre |-> esc]
           /\ UNCHANGED <<ee, esc, obj>>
(* t = 0: the terminal of the call; any other terminal must not be written at all *)
Write(t, ado, data) ==
    /\ Busy /\ t = 0
    /\ (ado .. (ado + Len(data) - 1)) \subseteq Allowed(call, ee)
    /\ esc' = EscWrite(esc, ado, data)
    /\ UNCHANGED <<ee, obj, call>>
Return(ok, v, otherchanged) ==
    /\ Busy /\ ok /\ otherchanged = <<>>
    /\ PostOf(call, esc, v, ee, ee.rx)
    /\ obj' = v /\ call' = Idle
    /\ UNCHANGED <<ee, esc>>
EnvAl(s) == ~Busy /\ esc' = [esc EXCEPT !.al = s] /\ UNCHANGED <<ee, obj, call>>
EnvNewObj == ~Busy /\ obj' = NoObj /\ UNCHANGED <<ee, esc, call>>
=============================================================================
