------------------------------- MODULE EscInit -------------------------------
(* X01 - terminal initialisation: what Terminal.initialize, gentle_initialize, apply_eeprom,
   write_pdo_sm and set_watchdog (ebpfcat/ethercat.py) and the chain EBPFTerminal.initialize
   (ebpfcat/ebpfcat.py) must leave in the EtherCAT slave controller (ESC) and in the master's
   Terminal object.

   The ESC (environment) is a register file with the semantics the code itself relies on:
       0x0010  configured station address (16 bit)
       0x0120  AL control: a state request; the terminal follows it (every terminal can always
               be sent to INIT; the simulated terminal grants every request at once)
       0x0400  watchdog divider, 0x0410 PDI watchdog time, 0x0420 process-data watchdog time
       0x0502  .. 0x0507  SII (EEPROM) control and address: written whenever the EEPROM is read
       0x0600 + 16 n  FMMU n; byte 12 bit 0 activates it
       0x0800 + 8 n   sync manager n: start (2), length (2), control (1), status (1, read-only),
               activate (1, bit 0), PDI control (1, read-only).  Start, length and control accept
               a write only while the sync manager is deactivated - this is why write_pdo_sm
               deactivates, writes the length and activates again.
   The EEPROM category 41 ("sync manager", doc: ethercat.rst shows one of an EL7031) has 8 bytes
   per sync manager: start (2), length (2), control byte, status, enable, type; type 1 = mailbox
   out, 2 = mailbox in, 3 = process data out, 4 = process data in, 0 = unused.  Entry n
   configures the register block 0x800 + 8 n.

   Steps (one action per step the code takes): Call - a method of Terminal is entered; Write - one
   write datagram reaches the terminal (any EtherCAT command); Return - the method returns and
   its post-condition is due; Fail - it raises; EnvAl / EnvNewObj - somebody else changes the AL
   state, a second user creates his own Terminal object.  Model-checked with a reference master
   in MC_EscInit, bound to the real code by EscInitScripts (scripts) and EscInitTrace (traces).

   Requirements and where they are taken from
     R1 station   initialize docstring (":param absolute: the number used to identify the terminal
                  henceforth", "If None take a free one"), ethercat.rst ("assign address 20"):
                  after initialize the station register holds exactly the given address, or a
                  non-zero one not used by another terminal; the object knows it.
     R2 init      initialize docstring: "It still leaves the terminal in the init state".
     R3 fmmu      initialize, comment "switch off all fmmus": no FMMU is active afterwards (their
                  other bytes are left alone or cleared); fmmu_used has one slot per FMMU.
     R4 syncm     initialize docstring: "reads the EEPROM and sets up the sync manager as defined
                  therein": block n gets start / length / control of entry n; it is activated iff
                  the entry is enabled and its length is non-zero (write_pdo_sm's own rule: a sync
                  manager of length 0 is not activated); blocks the EEPROM does not declare are
                  not active.  Without category 41 the blocks are left alone (or deactivated).
     R5 view      consistency with R4 and the category layout: the object's mailbox areas are the
                  entries of type 1 / 2 (absent = None, which is what has_mailbox tests), its
                  process-data areas those of type 3 / 4 with the address of their register block
                  (absent = size None or 0).
     R6 pdo       write_pdo_sm as used by EBPFTerminal.apply_eeprom ("pdo_out_sz = (outbits + 7)
                  // 8 ... write_pdo_sm"): the sizes go into the length registers of the
                  process-data sync managers, which are active iff the size is non-zero; start and
                  control stay; no other declared sync manager changes, the others are left alone
                  or at least not active.
     R7 watchdog  set_watchdog docstring: "set the watchdog time for the PDI and process data
                  watchdog": 0x410 and 0x420 hold the two values, nothing else changes.
     R8 gentle    gentle_initialize docstring: "Initialize a terminal only if not already
                  initialized ... should be used in parallel with other users ... bring the
                  terminal to a state such that one can read and write SDO parameters": on a
                  terminal that has a station address and is not in INIT no tracked register
                  changes and only the SII interface is written; the object knows the station
                  address and (if the blocks are configured as the EEPROM says, the others empty)
                  the mailbox areas.
                  Otherwise it behaves like initialize.
     R9 frame     consistency: every write datagram of a call lies inside a register area of that
                  call (Allowed), goes to its own terminal and to no other, no other memory of
                  any terminal changes, and the call does not fail.
   Observations (behaviour of /repo that breaks a requirement; a trace is first validated with no
   relaxation, a rejected one again with the relaxations whose predicate (Applicable) holds, each
   of which replaces one requirement by exactly what the code does):
     O1  apply_eeprom copies the enable byte into the activate register: an enabled entry of
         length 0 is activated (R4).
     O2  parse_sync_managers identifies the areas by the low nibble of the control byte, the last
         entry winning: an unused (type 0, all-zero) entry after the process-data-in entry is
         taken for it (R5, R6).
     O3  write_pdo_sm falls back to block 2 (out) / block 3 (in) when it knows no process-data
         sync manager of that direction, whatever the EEPROM declares there (R6).
     O4  without category 41 apply_eeprom returns before parse_sync_managers: the object has no
         mailbox / process-data attributes at all (has_mailbox() raises AttributeError), or keeps
         those of an earlier call (R5).                                                       *)
EXTENDS Integers, Sequences, FiniteSets

CONSTANTS NSm           \* number of sync-manager register blocks (16 on the real register map)

None == -1              \* Python's None
Unset == -2             \* the attribute does not exist

AStation == 16
AAlCtl == 288
AWdDiv == 1024
AWdPdi == 1040
AWdProc == 1056
ASiiLo == 1282
ASiiHi == 1287
AFmmu == 1536
ASm == 2048

StInit == 1
StPreop == 2
StSafeop == 4
StOp == 8

Bit0(b) == b % 2 = 1
U16(s, o) == s[o + 1] + 256 * s[o + 2]              \* 0-based offset into a byte sequence
LE16(v) == <<v % 256, v \div 256>>
SetMax(S) == CHOOSE x \in S : \A y \in S : y <= x

(* ------------------------------------------------------------------------------------------ *)
(* the slave controller: esc = [station, wd, fmmu, sm, al, nf]
     station  the 16-bit station address          wd   <<divider, PDI time, process-data time>>
     fmmu     nf blocks of 16 bytes               sm   NSm blocks of 8 bytes
     al       the AL state                        (blocks and bytes are numbered from 1 in TLA+) *)
Hits(ado, n, a) == ado <= a /\ a < ado + n
Overlaps(ado, n, lo, size) == ado < lo + size /\ lo < ado + n
(* a 16-bit register at address a after the write *)
Reg16(old, a, ado, data) ==
    (IF Hits(ado, Len(data), a) THEN data[a - ado + 1] ELSE old % 256)
    + 256 * (IF Hits(ado, Len(data), a + 1) THEN data[a + 1 - ado + 1] ELSE old \div 256)
(* a block of plain bytes at address lo *)
Block(old, lo, ado, data) ==
    IF ~Overlaps(ado, Len(data), lo, Len(old)) THEN old
    ELSE [o \in 1 .. Len(old) |-> IF Hits(ado, Len(data), lo + o - 1) THEN data[lo + o - 1 - ado + 1]
                                  ELSE old[o]]
(* a sync-manager block: status (offset 5) and PDI control (7) are read-only, start / length /
   control (0 .. 4) are locked while the sync manager is active - judged on the block as it is
   before the datagram                                                                        *)
SmActiveB(b) == Bit0(b[7])
SmWritable(b, off) == IF off \in {5, 7} THEN FALSE ELSE IF off <= 4 THEN ~SmActiveB(b) ELSE TRUE
SmBlockW(old, lo, ado, data) ==
    IF ~Overlaps(ado, Len(data), lo, 8) THEN old
    ELSE [o \in 1 .. 8 |-> IF Hits(ado, Len(data), lo + o - 1) /\ SmWritable(old, o - 1)
                           THEN data[lo + o - 1 - ado + 1] ELSE old[o]]
(* one write datagram: the bytes land where the register accepts them; a state request in AL
   control is followed.  The SII registers are not part of the register file.               *)
EscWrite(e, ado, data) ==
    IF ASiiLo <= ado /\ ado + Len(data) - 1 <= ASiiHi THEN e
    ELSE [e EXCEPT
            !.station = Reg16(@, AStation, ado, data),
            !.wd = <<Reg16(@[1], AWdDiv, ado, data), Reg16(@[2], AWdPdi, ado, data),
                     Reg16(@[3], AWdProc, ado, data)>>,
            !.fmmu = [i \in 1 .. e.nf |-> Block(e.fmmu[i], AFmmu + 16 * (i - 1), ado, data)],
            !.sm = [n \in 1 .. NSm |-> SmBlockW(e.sm[n], ASm + 8 * (n - 1), ado, data)],
            !.al = IF Hits(ado, Len(data), AAlCtl) THEN data[AAlCtl - ado + 1] % 16 ELSE @]

SmBlock(e, n) == LET b == e.sm[n + 1] IN            \* n counted from 0, as in 0x800 + 8 n
    [start |-> b[1] + 256 * b[2], len |-> b[3] + 256 * b[4], ctl |-> b[5], act |-> b[7]]
SmActive(e, n) == SmActiveB(e.sm[n + 1])

(* ------------------------------------------------------------------------------------------ *)
(* the EEPROM's sync-manager category: ee = [has41, d, outbits, inbits, other] *)
NEnt(d) == IF Len(d) \div 8 < NSm THEN Len(d) \div 8 ELSE NSm
Ent(d, n) == [start |-> U16(d, 8 * n), len |-> U16(d, 8 * n + 2), ctl |-> d[8 * n + 5],
              en |-> d[8 * n + 7], type |-> d[8 * n + 8]]
Kinds == {"mbx_out", "mbx_in", "pdo_out", "pdo_in"}
TypeOf(kind) == CASE kind = "mbx_out" -> 1 [] kind = "mbx_in" -> 2
                  [] kind = "pdo_out" -> 3 [] kind = "pdo_in" -> 4
ModeOf(kind) == CASE kind = "mbx_out" -> 6 [] kind = "mbx_in" -> 2
                  [] kind = "pdo_out" -> 4 [] kind = "pdo_in" -> 0
ByType(d, kind) == {n \in 0 .. (NEnt(d) - 1) : Ent(d, n).type = TypeOf(kind)}
ByMode(d, kind) == {n \in 0 .. (NEnt(d) - 1) : Ent(d, n).ctl % 16 = ModeOf(kind)}
(* the entries that may be reported / programmed for a kind *)
Cands(d, kind, rx) ==
    IF "O2" \in rx THEN (IF ByMode(d, kind) = {} THEN {} ELSE {SetMax(ByMode(d, kind))})
    ELSE ByType(d, kind)
BytesOf(bits) == (bits + 7) \div 8

(* which observations can explain a rejected trace of this EEPROM *)
Applicable(e) ==
    (IF e.has41 /\ \E n \in 0 .. (NEnt(e.d) - 1) : Bit0(Ent(e.d, n).en) /\ Ent(e.d, n).len = 0
     THEN {"O1"} ELSE {})
    \cup (IF e.has41 /\ \E k \in Kinds : Cands(e.d, k, {"O2"}) # ByType(e.d, k)
          THEN {"O2"} ELSE {})
    \cup (IF e.has41 /\ (   (Cands(e.d, "pdo_out", {"O2"}) = {} /\ NEnt(e.d) > 2)
                         \/ (Cands(e.d, "pdo_in", {"O2"}) = {} /\ NEnt(e.d) > 3))
          THEN {"O3"} ELSE {})
    \cup (IF ~e.has41 THEN {"O4"} ELSE {})

(* ------------------------------------------------------------------------------------------ *)
(* requirements on the state after a call;  c: the call with the ESC at its entry (c.pre),
   e: the ESC now, v: the Terminal object's attributes now, ee: the EEPROM, rx: relaxations   *)
StationOK(c, e, v, ee) ==                                                             \* R1
    /\ e.station = v.position
    /\ IF c.has_abs THEN v.position = c.abs
       ELSE v.position \in 1 .. 65535 /\ v.position # ee.other
    /\ ~c.has_rel => e.station = c.pre.station

FmmusOff(c, e, v) ==                                                                  \* R3
    /\ v.nfmmu = e.nf
    /\ \A i \in 1 .. e.nf :
          /\ ~Bit0(e.fmmu[i][13])
          /\ \A o \in 1 .. 16 : e.fmmu[i][o] \in {c.pre.fmmu[i][o], 0}

ActOK(act, x, rx) == IF "O1" \in rx THEN act = x.en
                     ELSE Bit0(act) = (Bit0(x.en) /\ x.len # 0)
SmAsEeprom(e, d, n, rx) ==
    LET x == Ent(d, n)
        s == SmBlock(e, n)
    IN  s.start = x.start /\ s.len = x.len /\ s.ctl = x.ctl /\ ActOK(s.act, x, rx)
SmSame(c, e, n) == e.sm[n + 1] = c.pre.sm[n + 1]
SmsProgrammed(c, e, ee, rx) ==                                                        \* R4
    IF ee.has41 THEN
        \A n \in 0 .. (NSm - 1) : IF n < NEnt(ee.d) THEN SmAsEeprom(e, ee.d, n, rx)
                                  ELSE ~SmActive(e, n)
    ELSE \A n \in 0 .. (NSm - 1) : SmSame(c, e, n) \/ ~SmActive(e, n)

MbxViewOK(off, sz, d, kind, rx) ==
    IF Cands(d, kind, rx) = {} THEN off = None /\ sz = None
    ELSE \E n \in Cands(d, kind, rx) : off = Ent(d, n).start /\ sz = Ent(d, n).len
PdoViewOK(off, sz, addr, d, kind, rx) ==
    IF Cands(d, kind, rx) = {} THEN sz \in {None, 0}
    ELSE \E n \in Cands(d, kind, rx) :
            off = Ent(d, n).start /\ sz = Ent(d, n).len /\ addr = ASm + 8 * n
ViewFields(v) == <<v.mbx_out_off, v.mbx_out_sz, v.mbx_in_off, v.mbx_in_sz, v.pdo_out_off,
                   v.pdo_out_sz, v.pdo_in_off, v.pdo_in_sz>>
MbxViewsOK(v, ee, rx) ==
    /\ MbxViewOK(v.mbx_out_off, v.mbx_out_sz, ee.d, "mbx_out", rx)
    /\ MbxViewOK(v.mbx_in_off, v.mbx_in_sz, ee.d, "mbx_in", rx)
ViewOK(v, o, ee, rx) ==                      \* o: the attributes before the call       R5
    IF ee.has41 THEN
        /\ MbxViewsOK(v, ee, rx)
        /\ PdoViewOK(v.pdo_out_off, v.pdo_out_sz, v.pdo_out_addr, ee.d, "pdo_out", rx)
        /\ PdoViewOK(v.pdo_in_off, v.pdo_in_sz, v.pdo_in_addr, ee.d, "pdo_in", rx)
    ELSE IF "O4" \in rx THEN ViewFields(v) = ViewFields(o)     \* nothing is assigned at all
    ELSE /\ v.mbx_out_off = None /\ v.mbx_out_sz = None
         /\ v.mbx_in_off = None /\ v.mbx_in_sz = None
         /\ v.pdo_out_sz \in {None, 0} /\ v.pdo_in_sz \in {None, 0}

PostInitialize(c, e, v, o, ee, rx) ==
    /\ StationOK(c, e, v, ee)
    /\ e.al = StInit                                                                  \* R2
    /\ FmmusOff(c, e, v)
    /\ SmsProgrammed(c, e, ee, rx)
    /\ ViewOK(v, o, ee, rx)
    /\ e.wd = c.pre.wd

PostApply(c, e, v, o, ee, rx) ==
    /\ SmsProgrammed(c, e, ee, rx)
    /\ ViewOK(v, o, ee, rx)
    /\ e.station = c.pre.station /\ e.wd = c.pre.wd /\ e.fmmu = c.pre.fmmu
    /\ e.al = c.pre.al

(* R8: the terminal counts as configured exactly when the code's own test says so *)
Configured(c) == (c.has_rel => c.pre.station # 0) /\ c.pre.al # StInit
ZeroBlock == <<0, 0, 0, 0, 0, 0, 0, 0>>
ConfiguredAsEeprom(e, ee) ==
    /\ ee.has41
    /\ \A n \in 0 .. (NEnt(ee.d) - 1) :
          SmBlock(e, n).start = Ent(ee.d, n).start /\ SmBlock(e, n).ctl = Ent(ee.d, n).ctl
    /\ \A n \in NEnt(ee.d) .. (NSm - 1) : e.sm[n + 1] = ZeroBlock
GentleMbxOK(off, sz, e, d, kind, rx) ==
    IF Cands(d, kind, rx) = {} THEN off = None /\ sz = None
    ELSE \E n \in Cands(d, kind, rx) : off = SmBlock(e, n).start /\ sz = SmBlock(e, n).len
PostGentle(c, e, v, o, ee, rx) ==
    IF Configured(c) THEN
        /\ e = c.pre
        /\ v.position = e.station
        /\ c.has_abs => v.position = c.abs
        /\ ConfiguredAsEeprom(e, ee) =>
              /\ GentleMbxOK(v.mbx_out_off, v.mbx_out_sz, e, ee.d, "mbx_out", rx)
              /\ GentleMbxOK(v.mbx_in_off, v.mbx_in_sz, e, ee.d, "mbx_in", rx)
    ELSE PostInitialize(c, e, v, o, ee, rx)

(* R6 *)
PdoProgrammed(c, e, d, kind, sz, rx) ==
    IF Cands(d, kind, rx) = {} THEN TRUE
    ELSE \E n \in Cands(d, kind, rx) :
            LET s == SmBlock(e, n)
                p == SmBlock(c.pre, n)
            IN  s.len = sz /\ Bit0(s.act) = (sz > 0) /\ s.start = p.start /\ s.ctl = p.ctl
ApplyPdo(sm, n, sz) == [sm EXCEPT ![n + 1] = [@ EXCEPT ![3] = sz % 256, ![4] = sz \div 256,
                                                       ![7] = IF sz > 0 THEN 1 ELSE 0]]
TargetO3(d, kind, rx) == IF Cands(d, kind, rx) = {} THEN (IF kind = "pdo_out" THEN 2 ELSE 3)
                         ELSE SetMax(Cands(d, kind, rx))
PostWritePdoSm(c, e, ee, rx) ==
    /\ e.station = c.pre.station /\ e.wd = c.pre.wd /\ e.fmmu = c.pre.fmmu
    /\ e.al = c.pre.al
    /\ IF "O3" \in rx THEN      \* exactly what the code does: out first, then in, defaults 2 and 3
           e.sm = ApplyPdo(ApplyPdo(c.pre.sm, TargetO3(ee.d, "pdo_out", rx), c.a),
                           TargetO3(ee.d, "pdo_in", rx), c.b)
       ELSE /\ PdoProgrammed(c, e, ee.d, "pdo_out", c.a, rx)
            /\ PdoProgrammed(c, e, ee.d, "pdo_in", c.b, rx)
            /\ \A n \in 0 .. (NSm - 1) :
                  n \notin (Cands(ee.d, "pdo_out", rx) \cup Cands(ee.d, "pdo_in", rx))
                  => IF n < NEnt(ee.d) THEN SmSame(c, e, n)
                     ELSE SmSame(c, e, n) \/ ~SmActive(e, n)
                                                   \* not declared: left alone, or at least off

PostSetWatchdog(c, e) ==                                                              \* R7
    /\ e.wd = <<c.pre.wd[1], c.a, c.b>>
    /\ e = [c.pre EXCEPT !.wd = e.wd]

(* the whole chain EBPFTerminal.initialize: as initialize, then PRE-OPERATIONAL, the PDO sizes
   the terminal describes (ee.outbits / ee.inbits) written by write_pdo_sm, SAFE-OPERATIONAL  *)
IsPd(x) == x.type \in {3, 4}
PostEbpfInitialize(c, e, v, ee, rx) ==
    /\ StationOK(c, e, v, ee)
    /\ e.al = StSafeop
    /\ FmmusOff(c, e, v)
    /\ e.wd = c.pre.wd
    /\ ee.has41
    /\ \A n \in 0 .. (NSm - 1) :
          IF n >= NEnt(ee.d) THEN ~SmActive(e, n)
          ELSE IF IsPd(Ent(ee.d, n)) THEN
              LET s == SmBlock(e, n)
                  sz == BytesOf(IF Ent(ee.d, n).type = 3 THEN ee.outbits ELSE ee.inbits)
              IN  s.start = Ent(ee.d, n).start /\ s.ctl = Ent(ee.d, n).ctl /\ s.len = sz
                  /\ Bit0(s.act) = (sz > 0)
          ELSE SmAsEeprom(e, ee.d, n, rx)
    /\ MbxViewsOK(v, ee, rx)
    /\ \A kind \in {"pdo_out", "pdo_in"} :
          LET sz == IF kind = "pdo_out" THEN v.pdo_out_sz ELSE v.pdo_in_sz
              bits == IF kind = "pdo_out" THEN ee.outbits ELSE ee.inbits
          IN  sz = BytesOf(bits)

PostOf(c, e, v, o, ee, rx) ==
    CASE c.op = "initialize" -> PostInitialize(c, e, v, o, ee, rx)
      [] c.op = "gentle" -> PostGentle(c, e, v, o, ee, rx)
      [] c.op = "apply_eeprom" -> PostApply(c, e, v, o, ee, rx)
      [] c.op = "write_pdo_sm" -> PostWritePdoSm(c, e, ee, rx)
      [] c.op = "set_watchdog" -> PostSetWatchdog(c, e)
      [] c.op = "ebpf_initialize" -> PostEbpfInitialize(c, e, v, ee, rx)
      [] OTHER -> FALSE

(* R9: the registers a call may write at all, as intervals <<first, last>>; a write datagram
   must lie inside one of them                                                               *)
IvStation == <<AStation, AStation + 1>>
IvAl == <<AAlCtl, AAlCtl + 1>>
IvSii == <<ASiiLo, ASiiHi>>
IvSm == <<ASm, ASm + 8 * NSm - 1>>
IvWd == {<<AWdDiv, AWdDiv + 1>>, <<AWdPdi, AWdPdi + 1>>, <<AWdProc, AWdProc + 1>>}
InitRegs(c) == (IF c.has_rel THEN {IvStation} ELSE {}) \cup {IvAl, IvSii, IvSm}
               \cup (IF c.pre.nf > 0 THEN {<<AFmmu, AFmmu + 16 * c.pre.nf - 1>>} ELSE {})
MbxOutArea(ee) == IF ~ee.has41 THEN {} ELSE
    {<<Ent(ee.d, n).start, Ent(ee.d, n).start + Ent(ee.d, n).len - 1>> : n \in ByType(ee.d, "mbx_out")}
Allowed(c, ee) ==
    CASE c.op = "initialize" -> InitRegs(c)
      [] c.op = "gentle" -> IF Configured(c) THEN {IvSii} ELSE InitRegs(c)
      [] c.op = "apply_eeprom" -> {IvSii, IvSm}
      [] c.op = "write_pdo_sm" -> {IvSm}
      [] c.op = "set_watchdog" -> IvWd
      [] c.op = "ebpf_initialize" -> InitRegs(c) \cup MbxOutArea(ee)
      [] OTHER -> {}
InFrame(c, ee, ado, n) == \E iv \in Allowed(c, ee) : iv[1] <= ado /\ ado + n - 1 <= iv[2]

(* ------------------------------------------------------------------------------------------ *)
(* the steps *)
VARIABLES ee,       \* the EEPROM (fixed during a behaviour) and the relaxations in force (ee.rx)
          esc,      \* the slave controller: [station, wd, fmmu, sm, al, nf]
          obj,      \* the Terminal object's attributes as last reported
          call      \* the call in progress, with the ESC at its entry, or Idle
evars == <<ee, esc, obj, call>>

Idle == [op |-> "idle"]
NoObj == [position |-> Unset, nfmmu |-> Unset, mbx_out_off |-> Unset, mbx_out_sz |-> Unset,
          mbx_in_off |-> Unset, mbx_in_sz |-> Unset, pdo_out_off |-> Unset, pdo_out_sz |-> Unset,
          pdo_out_addr |-> Unset, pdo_in_off |-> Unset, pdo_in_sz |-> Unset, pdo_in_addr |-> Unset]
Busy == call.op # "idle"

Call(c) == /\ ~Busy
           /\ call' = [op |-> c.op, has_rel |-> c.has_rel, has_abs |-> c.has_abs, abs |-> c.abs,
                       a |-> c.a, b |-> c.b, pre |-> esc]
           /\ UNCHANGED <<ee, esc, obj>>
(* t = 0: the terminal of the call; any other terminal must not be written at all *)
Write(t, ado, data) ==
    /\ Busy /\ t = 0
    /\ InFrame(call, ee, ado, Len(data)) = TRUE      \* (= TRUE: TLC evaluates it in one go)
    /\ esc' = EscWrite(esc, ado, data)
    /\ UNCHANGED <<ee, obj, call>>
Return(v, otherchanged) ==
    /\ Busy /\ otherchanged = <<>>
    /\ PostOf(call, esc, v, obj, ee, ee.rx) = TRUE
    /\ obj' = v /\ call' = Idle
    /\ UNCHANGED <<ee, esc>>
(* R9: no call of a script may fail.  The one failure an observation explains: without category
   41 (O4) the object has no pdo_*_addr, write_pdo_sm raises before it writes anything          *)
Fail == /\ Busy /\ "O4" \in ee.rx /\ ~ee.has41 /\ call.op = "write_pdo_sm" /\ esc = call.pre
        /\ call' = Idle /\ UNCHANGED <<ee, esc, obj>>
EnvAl(s) == ~Busy /\ esc' = [esc EXCEPT !.al = s] /\ UNCHANGED <<ee, obj, call>>
EnvNewObj == ~Busy /\ obj' = NoObj /\ UNCHANGED <<ee, esc, call>>
=============================================================================
