---------------------------- MODULE CodecTrace ----------------------------
(* Trace validation for C13.  One trace = one call of the real EtherCat.roundtrip:
     event "send"   - the payload found in the send queue          (must be Payload(req))
     event "return" - the response the bus stub gave and the value handed back to the caller
                      (must be Decoded(req, response), as a tuple)
   Anything else the call did (raising, not sending, not finishing) is recorded as an event
   that no action of the specification matches.                                              *)
EXTENDS Codec, Json, IOUtils, TLCExt
Traces == JsonDeserialize(IOEnv.TRACE_FILE)
VARIABLES tid, l, st        \* st: "idle" -> "sent" -> "done"
tvars == <<tid, l, st>>
T == Traces[tid]

TInit == tid \in 1 .. Len(Traces) /\ l = 1 /\ st = "idle"
TSend(e) == /\ st = "idle" /\ e.op = "send"
            /\ SendOK(T.req, e.out) = TRUE
            /\ st' = "sent"
TReturn(e) == /\ st = "sent" /\ e.op = "return"
              /\ ReturnOK(T.req, e.resp, e.shape, e.items) = TRUE
              /\ st' = "done"
TNext == /\ l <= Len(T.ev)
         /\ l' = l + 1 /\ UNCHANGED tid
         /\ LET e == T.ev[l] IN TSend(e) \/ TReturn(e)
TSpec == TInit /\ [][TNext]_tvars

Max2(a, b) == IF a > b THEN a ELSE b
Progress == TLCSet(tid, Max2(TLCGet(tid), l))
ASSUME \A i \in 1 .. Len(Traces) : TLCSet(i, 0)
Post == \A i \in 1 .. Len(Traces) : PrintT(<<"RESULT", i, TLCGet(i) - 1, Len(Traces[i].ev)>>)
=============================================================================
