---------------------------- MODULE CodecTrace ----------------------------
(* Trace validation for C13.  One trace = one call of the real EtherCat.roundtrip, alone or
   as one of several concurrent calls that the real send loop packs into frames:
     event "send"      - the payload found in the send queue / in the call's own datagram of
                         the frame on the wire                      (must be Payload(req))
     event "return"    - the response the bus gave to this datagram and the value handed back
                         to the caller        (must be Decoded(req, response), as a tuple)
     event "error"     - the call raised EtherCatError: only when its OWN datagram came back
                         unprocessed (T.wkc = 0)
     event "cancelled" - the call ended cancelled: only when the environment cancelled it
   What the environment did to this call is part of the trace: T.wkc (working counter its
   datagram came back with) and T.cancel ("no", "early": before the frame left, "flight":
   while it was on the wire).  Nothing about the other calls of the frame appears here: whatever
   happened to them, this call must still send its payload and get its own decoded response.
   Anything else the call did (another exception, not sending, not finishing) is recorded as
   an event that no action of the specification matches.                                     *)
EXTENDS Codec, Json, IOUtils, TLCExt
Traces == JsonDeserialize(IOEnv.TRACE_FILE)
VARIABLES tid, l, st        \* st: "idle" -> "sent" -> "done"
tvars == <<tid, l, st>>
T == Traces[tid]

TInit == tid \in 1 .. Len(Traces) /\ l = 1 /\ st = "idle"
TSend(e) == /\ st = "idle" /\ e.op = "send"
            /\ SendOK(T.req, e.out) = TRUE
            /\ st' = "sent"
TReturn(e) == /\ st = "sent" /\ e.op = "return"
              /\ T.wkc # 0 /\ T.cancel = "no"
              /\ ReturnOK(T.req, e.resp, e.shape, e.items) = TRUE
              /\ st' = "done"
TError(e) == /\ st = "sent" /\ e.op = "error"
             /\ T.wkc = 0 /\ T.cancel = "no"
             /\ st' = "done"
TCancelled(e) == /\ st \in {"idle", "sent"} /\ e.op = "cancelled"
                 /\ T.cancel # "no"
                 /\ st' = "done"
TNext == /\ l <= Len(T.ev)
         /\ l' = l + 1 /\ UNCHANGED tid
         /\ LET e == T.ev[l] IN TSend(e) \/ TReturn(e) \/ TError(e) \/ TCancelled(e)
TSpec == TInit /\ [][TNext]_tvars

Max2(a, b) == IF a > b THEN a ELSE b
Progress == TLCSet(tid, Max2(TLCGet(tid), l))
ASSUME \A i \in 1 .. Len(Traces) : TLCSet(i, 0)
Post == \A i \in 1 .. Len(Traces) : PrintT(<<"RESULT", i, TLCGet(i) - 1, Len(Traces[i].ev)>>)
=============================================================================
