---------------------------- MODULE AllocConfigs ----------------------------
(* Configurations for C18, enumerated by TLC: a master with up to MaxT terminals (listed in the
   order of their station addresses) distributed over up to MaxG sync groups.  Slot k offers the
   input sizes InSizes[k] and output sizes OutSizes[k].  Group numbers form a restricted growth
   string (group numbers are interchangeable: groups are allocated in the order 1, 2, ...).
   Every configuration is printed once, for replay on the real allocator.                      *)
EXTENDS Integers, Sequences, TLC, Json
CONSTANTS Modes,      \* subset of {"F", "D", "A"}
          InSizes,    \* sequence of sets of sizes, one per slot
          OutSizes,
          MaxT, MaxG,
          AeroPad     \* an Aerotech-style terminal's process data is this much larger than
                      \* the packet size it declares
VARIABLES ts, gs
cvars == <<ts, gs>>

Pdo(m, n) == IF m = "A" /\ n > 0 THEN n + AeroPad ELSE n
Term(m, i, o, w) == [mode |-> m, pin |-> Pdo(m, i), pout |-> Pdo(m, o), rw |-> w,
                     din |-> i, dout |-> o]
\* the read-write flag of a terminal without outputs is varied only in slot 1
Flags(k, o) == IF o = 0 /\ k > 1 THEN {FALSE} ELSE BOOLEAN
Kinds(k) == {Term(m, i, o, w) : m \in Modes, i \in InSizes[k],
                                 o \in OutSizes[k], w \in BOOLEAN}
MaxOf(s) == IF s = <<>> THEN 0 ELSE CHOOSE x \in {s[j] : j \in DOMAIN s} :
                                          \A j \in DOMAIN s : s[j] <= x
CInit == ts = <<>> /\ gs = <<>>
CNext == /\ Len(ts) < MaxT
         /\ \E t \in Kinds(Len(ts) + 1), g \in 1 .. MaxG :
              /\ t.rw \in Flags(Len(ts) + 1, t.dout)
              /\ g <= MaxOf(gs) + 1
              /\ ts' = Append(ts, t)
              /\ gs' = Append(gs, g)
CSpec == CInit /\ [][CNext]_cvars
Emit == Len(ts) >= 1 => PrintT(<<"CFG", ToJson([ts |-> ts, gs |-> gs])>>)
=============================================================================
