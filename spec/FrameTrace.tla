---------------------------- MODULE FrameTrace ----------------------------
(* Trace validation for C11.  One trace = one datagram sequence replayed on a real packet
   object: the append events (accepted with the reported positions / rejected), then the frame
   the object assembled, judged clause by clause so that the index of the first event that
   does not match names the clause.

   kind "packet":  ethercat.Packet - append results and positions, then assemble(index, ethertype)
   kind "sterile": ebpfcat.SterilePacket - append / append_writer results (no positions are
                   returned by that class), then assemble(...) and sterile(...)                *)
EXTENDS Frame, Json, IOUtils, TLCExt
Traces == JsonDeserialize(IOEnv.TRACE_FILE)
VARIABLES tid, l,
          wr          \* indices (in pkt.dgrams) of the datagrams added with append_writer
tvars == <<pvars, tid, l, wr>>
T == Traces[tid]

Dg(e) == [cmd |-> e.cmd, idx |-> e.idx, addr |-> e.addr, data |-> e.data, wkc |-> e.wkc]

TInit == tid \in 1 .. Len(Traces) /\ l = 1 /\ PInit /\ wr = {}

TAppendOk(e) ==
    /\ e.op = "append" /\ e.res = "ok"
    /\ IF T.kind = "packet" THEN AppendOk(Dg(e), e.start, e.stop)
                            ELSE AppendOk(Dg(e), Start(pkt, Dg(e)), Stop(pkt, Dg(e)))
    /\ wr' = IF e.writer THEN wr \cup {Len(pkt.dgrams) + 1} ELSE wr
TAppendReject(e) ==
    /\ e.op = "append" /\ e.res = "rejected"
    /\ AppendReject(Dg(e)) /\ UNCHANGED wr

(* the clauses about the assembled frame b; P is the parse of b *)
Clause(what, b, s, P) ==
    CASE what = "produced" -> T.has_asm
      [] what = "size" -> SizeOK(b) /\ BytesOK(b) /\ Len(b) = Max(pkt.size, MinPayload)
      [] what = "header" -> HeaderOK(b) /\ LengthOK(b) /\ LengthField(b) = pkt.size - FrameHdr
      [] what = "parse" -> ParseOK(b, P)
      [] what = "ident" -> IdentOK(b, P, T.index, T.ethertype)
      [] what = "dgrams" -> DgramsOK(b, P, pkt.dgrams)
      [] what = "positions" -> AtPositions(b, pkt.dgrams, rep)
      [] what = "equal" -> Matches(b, Assemble(pkt, T.index, T.ethertype), pkt.size, FreePos(rep))
      [] what = "sterile_produced" -> T.has_ster
      [] what = "sterile" -> SterileOK(s, b, CmdPos(rep, wr))
      [] what = "sterile_equal" -> Matches(s, Sterile(pkt, wr, T.index, T.ethertype), pkt.size,
                                           FreePos(rep))
TCheck(e) == /\ e.op = "check"
             \* "= TRUE": evaluated as a state predicate, not unfolded as an action
             /\ Clause(e.what, T.asm, T.ster, IF e.what \in {"parse", "ident", "dgrams"}
                                              THEN Parsed(T.asm) ELSE <<>>) = TRUE
             /\ UNCHANGED <<pvars, wr>>

TNext == /\ l <= Len(T.ev)
         /\ l' = l + 1 /\ UNCHANGED tid
         /\ LET e == T.ev[l] IN TAppendOk(e) \/ TAppendReject(e) \/ TCheck(e)
TSpec == TInit /\ [][TNext]_tvars

(* the specification's own packet never outgrows the frame *)
SizeInv == pkt.size <= MaxSize

Max2(a, b) == IF a > b THEN a ELSE b
Progress == TLCSet(tid, Max2(TLCGet(tid), l))
ASSUME \A i \in 1 .. Len(Traces) : TLCSet(i, 0)
Post == \A i \in 1 .. Len(Traces) : PrintT(<<"RESULT", i, TLCGet(i) - 1, Len(Traces[i].ev)>>)
=============================================================================
