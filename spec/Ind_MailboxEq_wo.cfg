SPECIFICATION WSpec
CONSTANTS Users = {"u1", "u2", "u3"}
          None = "none"
          InitCounters = {0, 6}
          MaxOps = 2
          MaxWire = 4
CONSTRAINT Bound
PROPERTY MSpec
INVARIANT WIndInv
CHECK_DEADLOCK FALSE
