SPECIFICATION TSpec
CONSTANTS MaxChunk = 22
CONSTRAINT Progress
INVARIANTS TxExactlyOnce
           TxOneToggle
           RxExactlyOnce
           RxOneToggle
POSTCONDITION Post
CHECK_DEADLOCK FALSE
