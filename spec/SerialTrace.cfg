SPECIFICATION TSpec
CONSTANTS MaxChunk = 22
CONSTRAINT Progress
POSTCONDITION Post
CHECK_DEADLOCK FALSE
