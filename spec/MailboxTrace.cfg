SPECIFICATION TSpec
CONSTANTS Users = {"t1", "t2", "t3"}
          None = None
          InitCounters = {0, 1, 2, 3, 4, 5, 6, 7}
CONSTRAINT Progress
POSTCONDITION Post
CHECK_DEADLOCK FALSE
