INIT AnyInit
NEXT AnyNext
CONSTANTS Users = {u1, u2, u3}
          None = None
          InitCounters = {0, 6}
          MaxOps = 2
          MaxWire = 6
INVARIANTS FormsAgree
CHECK_DEADLOCK FALSE
