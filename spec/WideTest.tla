---------------------------- MODULE WideTest ----------------------------
(* self-test of Wide against vectors computed with Python integers (run by setup / selftest) *)
EXTENDS Wide, TLC, Json, IOUtils
Vec == JsonDeserialize(IOEnv.TRACE_FILE)
Eval(v) ==
    CASE v.op = "add" -> WAdd(v.a, v.b)
      [] v.op = "sub" -> WSub(v.a, v.b)
      [] v.op = "mul" -> WMul(v.a, v.b)
      [] v.op = "neg" -> WNeg(v.a)
      [] v.op = "and" -> WAnd(v.a, v.b)
      [] v.op = "or" -> WOr(v.a, v.b)
      [] v.op = "xor" -> WXor(v.a, v.b)
      [] v.op = "shl" -> WShl(v.a, v.k)
      [] v.op = "shr" -> WShr(v.a, v.k)
      [] v.op = "sar" -> WSar(v.a, v.k)
      [] v.op = "udiv" -> WUDiv(v.a, v.b)
      [] v.op = "umod" -> WUMod(v.a, v.b)
      [] v.op = "sdivt" -> WSDivT(v.a, v.b)
      [] v.op = "smodt" -> WSModT(v.a, v.b)
      [] v.op = "sdivf" -> WSDivF(v.a, v.b)
      [] v.op = "smodf" -> WSModF(v.a, v.b)
      [] v.op = "ult" -> IF WULt(v.a, v.b) THEN <<1>> ELSE <<0>>
      [] v.op = "slt" -> IF WSLt(v.a, v.b) THEN <<1>> ELSE <<0>>
      [] v.op = "sext" -> WSextFrom(v.a, v.k)
      [] v.op = "bswap" -> WBswap(v.a, v.k)
      [] v.op = "fromint" -> WFromInt(v.k, Len(v.a))
      [] v.op = "fitss" -> IF WFitsS(v.a, v.k) THEN <<1>> ELSE <<0>>
      [] v.op = "fitsu" -> IF WFitsU(v.a, v.k) THEN <<1>> ELSE <<0>>
VARIABLE i
Init == i \in 1 .. Len(Vec)
Next == FALSE /\ i' = i
Good == (Eval(Vec[i]) = Vec[i].exp) \/ (PrintT(<<"MISMATCH", i, Vec[i].op, Eval(Vec[i])>>) /\ FALSE)
=============================================================================
