------------------------------- MODULE Valve -------------------------------
(* C27 - the Valve device: a coil (digital output) with two feedback switches.

   The environment sets the requested target, changes the switch readings and lets time pass;
   the device is observed at its updates.  Update says what is *required* of an update:

     - if the switches confirm the position the coil commands (the coil as it was commanded
       before this update), or the moving time has not elapsed since they last did (as seen
       by an update) or since the reset, the coil follows the requested target, the target is
       left alone and no error is raised;
     - otherwise the error flag is set and coil and target both take the configured safe
       state.

   The position check (which switch pattern confirms which coil command) is prescribed for the
   default safe state, closed (safe = FALSE): an energised coil commands "open", confirmed by
   open /\ ~closed; a released coil commands "closed", confirmed by closed /\ ~open.  For the
   other safe-state setting the property does not evaluate the position check: whether an
   update counts as confirmed is then left open (any choice consistent with the timer), and
   only the reaction is prescribed.

   What the property leaves open is left open: whether an error flagged earlier stays set
   while the valve is fine (it must not be *raised* then).  Time is counted in ticks.          *)
EXTENDS Integers, TLC

VARIABLES mt,        \* configured moving time in ticks   (the environment may reconfigure it)
          safe,      \* configured safe state             (the environment may reconfigure it)
          target,    \* requested position, TRUE = open
          coil,      \* commanded output
          error,     \* error flag
          open,      \* reading of the open switch
          closed,    \* reading of the closed switch
          clock,     \* current time
          lastGood,  \* time the switches last confirmed the commanded position (or of the reset)
          fresh      \* TRUE right after an update (nothing else has happened since)

vvars == <<mt, safe, target, coil, error, open, closed, clock, lastGood, fresh>>

(* the state right after reset: the error is cleared and the moving time starts to run *)
VInit(m, s, c0, t0, o0, c1) ==
    /\ mt = m /\ safe = s
    /\ coil = c0 /\ target = t0 /\ open = o0 /\ closed = c1
    /\ error = FALSE /\ clock = 0 /\ lastGood = 0 /\ fresh = FALSE

----------------------------------------------------------------------------
(* environment *)
SetTarget(v) == /\ target' = v /\ fresh' = FALSE
                /\ UNCHANGED <<mt, safe, coil, error, open, closed, clock, lastGood>>
Switches(o, c) == /\ open' = o /\ closed' = c /\ fresh' = FALSE
                  /\ UNCHANGED <<mt, safe, target, coil, error, clock, lastGood>>
Advance(dt) == /\ dt > 0 /\ clock' = clock + dt /\ fresh' = FALSE
               /\ UNCHANGED <<mt, safe, target, coil, error, open, closed, lastGood>>
(* the configuration is the environment's too: what an update has to honour is the moving time
   and the safe state configured when it runs, not those of some earlier moment *)
SetMovingTime(m) == /\ m >= 0 /\ mt' = m /\ fresh' = FALSE
                    /\ UNCHANGED <<safe, target, coil, error, open, closed, clock, lastGood>>
SetSafeState(s) == /\ safe' = s /\ fresh' = FALSE
                   /\ UNCHANGED <<mt, target, coil, error, open, closed, clock, lastGood>>

----------------------------------------------------------------------------
(* the position the coil commands is the one the switches show (safe state closed) *)
Confirms == IF coil THEN open /\ ~closed ELSE closed /\ ~open

(* does the position check apply?  only for the default safe state *)
Confirmations == IF safe = FALSE THEN {Confirms} ELSE BOOLEAN

InTime == clock - lastGood < mt        \* the moving time has not elapsed

(* one update; conf: the switches confirm the commanded position *)
Update(conf) ==
    /\ conf \in Confirmations
    /\ lastGood' = IF conf THEN clock ELSE lastGood
    /\ IF conf \/ InTime
       THEN /\ coil' = target /\ target' = target
            /\ error' \in BOOLEAN /\ (error' => error)          \* no error is raised
       ELSE /\ error' = TRUE /\ coil' = safe /\ target' = safe
    /\ fresh' = TRUE
    /\ UNCHANGED <<mt, safe, open, closed, clock>>

VNext(MaxDt) == \/ \E v \in BOOLEAN : SetTarget(v)
                \/ \E o, c \in BOOLEAN : Switches(o, c)
                \/ \E dt \in 1 .. MaxDt : Advance(dt)
                \/ \E conf \in BOOLEAN : Update(conf)

----------------------------------------------------------------------------
(* consequences, checked exhaustively in MC_Valve *)
TypeOK == /\ target \in BOOLEAN /\ coil \in BOOLEAN /\ error \in BOOLEAN
          /\ open \in BOOLEAN /\ closed \in BOOLEAN /\ fresh \in BOOLEAN
          /\ lastGood \in 0 .. clock
(* after every update the coil is what the (possibly corrected) target says *)
CoilFollows == fresh => coil = target
(* a command away from the safe state is never upheld once the moving time has run out without
   confirmation: such a command right after an update is confirmed now or still in time *)
NeverStuck == (fresh /\ coil # safe) => (lastGood = clock \/ InTime)
(* an error is only ever raised together with the safe state on coil and target *)
ErrorReaction == [][(error' /\ ~error) => (coil' = safe /\ target' = safe)]_vvars
=============================================================================
