SPECIFICATION Spec
CONSTANTS
  FrameLen = 2
  FrameBytes = {165}
  Vals <- GValsQuick
  SmallVals = {0, 300}
  Dts = {1, 7, 300}
  T0s = {1000}
  MaxCycles = 5
  M = 1
  Seeds = {77}
  Values = {0, 1, 128, 255, 256}
INVARIANTS GridLaws
           CounterMeaning
           GeneratorFacts
CHECK_DEADLOCK FALSE
