SPECIFICATION PSpec
INVARIANTS NoFault
           Generated
           GuardHolds
           PacketExact
           DestExact
           BranchExact
CHECK_DEADLOCK FALSE
