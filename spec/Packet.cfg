SPECIFICATION PSpec
INVARIANTS NoFault
           Generated
           GuardHolds
           PacketExact
           DestExact
CHECK_DEADLOCK FALSE
