---------------------------- MODULE MC_Mailbox ----------------------------
(* exhaustive model of Mailbox: 2-3 users, a bounded number of operations and messages *)
EXTENDS Mailbox
CONSTANTS MaxOps, MaxWire
Symm == Permutations(Users)
Bound == /\ \A u \in Users : opno[u] <= MaxOps
         /\ Len(wire) <= MaxWire
=============================================================================
