------------------------------ MODULE ProcVar ------------------------------
(* C19 - process variables of a terminal in the cyclic frame.

   A frame is a sequence of bytes (the EtherCAT frame a sync group exchanges, WITHOUT the Ethernet
   header).  A process variable is
       [start   position in the frame (0-based) of the region of its terminal and sync manager,
        off     byte offset of the variable inside that region,
        bit     -1 for a multi-byte value, else the number 0..7 of the single bit,
        n, s    for a multi-byte value: number of bytes (little endian) and 1 = signed, 0 = unsigned]
   Values are exact integers as two's-complement words of ProcVarN bytes (Wide.tla); a bit reads as
   0 or 1 and is written as "value is not zero".                                               *)
EXTENDS Wide

ProcVarN == 16
ProcVarPos(v) == v.start + v.off                      \* 0-based position of the first byte
ProcVarIsBit(v) == v.bit >= 0
ProcVarBytes(frame, v) == SubSeq(frame, ProcVarPos(v) + 1, ProcVarPos(v) + v.n)
ProcVarBitOf(byte, k) == (byte \div (2 ^ k)) % 2

(* the variable lies inside the frame *)
ProcVarInFrame(frame, v) ==
    /\ ProcVarPos(v) >= 0
    /\ ProcVarPos(v) + (IF ProcVarIsBit(v) THEN 1 ELSE v.n) <= Len(frame)

(* ---- reading -------------------------------------------------------------------------------- *)
ProcVarGet(frame, v) ==
    IF ProcVarIsBit(v) THEN WFromInt(ProcVarBitOf(frame[ProcVarPos(v) + 1], v.bit), ProcVarN)
    ELSE IF v.s = 1 THEN WSext(ProcVarBytes(frame, v), ProcVarN)
    ELSE WZext(ProcVarBytes(frame, v), ProcVarN)

(* ---- writing -------------------------------------------------------------------------------- *)
(* values the variable can hold *)
ProcVarHolds(v, val) ==
    IF ProcVarIsBit(v) THEN TRUE
    ELSE IF v.s = 1 THEN WFitsS(val, v.n)
    ELSE ~WIsNeg(val) /\ WFitsU(val, v.n)
ProcVarSetByte(byte, k, on) ==
    IF on THEN (IF ProcVarBitOf(byte, k) = 1 THEN byte ELSE byte + 2 ^ k)
    ELSE (IF ProcVarBitOf(byte, k) = 1 THEN byte - 2 ^ k ELSE byte)
ProcVarSet(frame, v, val) ==
    LET p == ProcVarPos(v) IN
    IF ProcVarIsBit(v)
    THEN [frame EXCEPT ![p + 1] = ProcVarSetByte(frame[p + 1], v.bit, ~WIsZero(val))]
    ELSE Mat([i \in 1 .. Len(frame) |-> IF i > p /\ i <= p + v.n THEN val[i - p] ELSE frame[i]],
             Len(frame))

(* ---- what the property says about Set and Get ------------------------------------------------ *)
(* writing changes only the variable's own bytes, or its own bit *)
ProcVarOwn(v, i) == i > ProcVarPos(v) /\ i <= ProcVarPos(v) + (IF ProcVarIsBit(v) THEN 1 ELSE v.n)
ProcVarSetIsLocal(frame, v, val) ==
    LET g == ProcVarSet(frame, v, val) IN
    /\ Len(g) = Len(frame)
    /\ \A i \in 1 .. Len(frame) : ~ProcVarOwn(v, i) => g[i] = frame[i]
    /\ ProcVarIsBit(v) =>
         \A k \in 0 .. 7 : k # v.bit =>
            ProcVarBitOf(g[ProcVarPos(v) + 1], k) = ProcVarBitOf(frame[ProcVarPos(v) + 1], k)
(* reading back what was written gives the value (bits: its truth) *)
ProcVarGetAfterSet(frame, v, val) ==
    ProcVarHolds(v, val) =>
        ProcVarGet(ProcVarSet(frame, v, val), v) =
            (IF ProcVarIsBit(v) THEN WFromInt(IF WIsZero(val) THEN 0 ELSE 1, ProcVarN) ELSE val)
(* reading depends only on the variable's own bytes / bit: inverting everything else in the frame
   does not change the value *)
ProcVarScramble(frame, v) ==
    Mat([i \in 1 .. Len(frame) |->
           IF ~ProcVarOwn(v, i) THEN 255 - frame[i]
           ELSE IF ProcVarIsBit(v)
                THEN ProcVarSetByte(255 - frame[i], v.bit, ProcVarBitOf(frame[i], v.bit) = 1)
                ELSE frame[i]], Len(frame))
ProcVarGetIsLocal(frame, v) == ProcVarGet(ProcVarScramble(frame, v), v) = ProcVarGet(frame, v)

THEOREM ProcVarLaws ==
    \A frame \in Seq(Byte), v \in [start : Nat, off : Nat, bit : -1 .. 7, n : {1, 2, 4, 8}, s : {0, 1}],
       val \in [1 .. ProcVarN -> Byte] :
        ProcVarInFrame(frame, v) =>
            /\ ProcVarSetIsLocal(frame, v, val)
            /\ ProcVarGetAfterSet(frame, v, val)
            /\ ProcVarGetIsLocal(frame, v)

(* ---- a device's accesses, in order ----------------------------------------------------------- *)
(* ops: sequence of [kind |-> "read", var] / [kind |-> "write", var, val]; the result is the final
   frame and the values read, in order *)
RECURSIVE ProcVarRunOps(_, _, _, _)
ProcVarRunOps(ops, i, frame, reads) ==
    IF i > Len(ops) THEN [frame |-> frame, reads |-> reads]
    ELSE IF ops[i].kind = "read"
         THEN ProcVarRunOps(ops, i + 1, frame, Append(reads, ProcVarGet(frame, ops[i].var)))
         ELSE ProcVarRunOps(ops, i + 1, ProcVarSet(frame, ops[i].var, ops[i].val), reads)
=============================================================================
