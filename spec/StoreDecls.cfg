SPECIFICATION DSpec
CONSTANT Configs <- ConfigsV
INVARIANT Emit
CHECK_DEADLOCK FALSE
