------------------------------- MODULE CoE -------------------------------
(* C16 - a protocol-conformant CoE SDO server (ETG.1000.6 5.6.2) for one object.

   A mailbox message is a record
     [mt   mailbox type (3 = CoE),  cnt  mailbox counter,
      wlen bytes occupied in the mailbox (6-byte mailbox header + payload as written),
      len  length declared in the mailbox header,
      svc  CoE service (2 = SDO request, 3 = SDO response, 1 = emergency),
      cmd  SDO command byte,  body  the payload bytes after the command byte]
   so a CoE payload is 2 (CoE header) + 1 (cmd) + Len(body) bytes.

   The server is a relation  SrvReply(req, rsp): in state (val, srv) the request req may be
   answered by rsp, leading to (val', srv').  Which fragment sizes the server uses for uploads
   is not prescribed (bound from the trace); everything else is.                              *)
EXTENDS Integers, Sequences, TLC

VARIABLES obj,         \* [index, ca, sub, mbxout, mbxin]: the object this server holds and the
                       \* terminal's mailbox sizes (fixed in a behaviour)
          val,         \* its value: a sequence of bytes
          srv          \* transfer state [st, buf, total, tog]

svars == <<obj, val, srv>>

MbxOut == obj.mbxout   \* size of the master -> terminal mailbox (SM0), bytes
MbxIn == obj.mbxin     \* size of the terminal -> master mailbox (SM1), bytes

Idle == [st |-> "idle", buf |-> <<>>, total |-> 0, tog |-> 0]

---------------------------------------------------------------------------
(* bit fields of the SDO command byte *)
Ccs(c) == c \div 32                 \* command specifier, bits 7..5
Bit(c, i) == (c \div (2 ^ i)) % 2
N2(c) == (c \div 4) % 4             \* expedited: number of the 4 data bytes that are unused
N3(c) == (c \div 2) % 8             \* segment: number of the 7 data bytes that are unused
CaBit == IF obj.ca THEN 1 ELSE 0

LE4(s) == IF s[4] >= 128 THEN -1    \* does not fit a TLC integer: no object is that large
          ELSE s[1] + 256 * s[2] + 65536 * s[3] + 16777216 * s[4]
ToLE4(n) == <<n % 256, (n \div 256) % 256, (n \div 65536) % 256, n \div 16777216>>

Min2(a, b) == IF a < b THEN a ELSE b
Max2(a, b) == IF a > b THEN a ELSE b
Zeros(n) == [i \in 1 .. n |-> 0]
Take(s, n) == SubSeq(s, 1, n)
Drop(s, n) == SubSeq(s, n + 1, Len(s))

(* fields of an initiate message (needs Len(body) >= 7) *)
MIndex(m) == m.body[1] + 256 * m.body[2]
MSub(m) == m.body[3]
F4(m) == SubSeq(m.body, 4, 7)
Rest(m) == SubSeq(m.body, 8, Len(m.body))
AddrBytes == <<obj.index % 256, obj.index \div 256, obj.sub>>
Addresses(m) == /\ Len(m.body) >= 7
                /\ MIndex(m) = obj.index /\ MSub(m) = obj.sub /\ Bit(m.cmd, 4) = CaBit

(* the data carried by a segment: at least 7 bytes are always present; when exactly 7 are,
   the "unused" field says how many of them are padding                                      *)
SegLen(m) == IF Len(m.body) = 7 THEN 7 - N3(m.cmd) ELSE Len(m.body)
SegData(m) == Take(m.body, SegLen(m))

(* a well-formed CoE mail of the given direction: header length consistent, fits the mailbox *)
Framed(m, size) == /\ m.mt = 3
                   /\ m.len = 3 + Len(m.body)
                   /\ m.wlen = 6 + m.len
                   /\ m.wlen <= size

---------------------------------------------------------------------------
(* message constructors (used by the exhaustive model and by the server's reply relation) *)
Msg(svc, cmd, body) == [mt |-> 3, cnt |-> 0, wlen |-> 9 + Len(body), len |-> 3 + Len(body),
                        svc |-> svc, cmd |-> cmd, body |-> body]
Pad7(s) == IF Len(s) >= 7 THEN s ELSE s \o Zeros(7 - Len(s))
Pad4(s) == s \o Zeros(4 - Len(s))

RDownInit == Msg(3, 96 + 16 * CaBit, AddrBytes \o Zeros(4))
RDownSeg(tog) == Msg(3, 32 + 16 * tog, Zeros(7))
RUpExp(v) == Msg(3, 64 + 16 * CaBit + 4 * (4 - Len(v)) + 3, AddrBytes \o Pad4(v))
RUpNorm(v, k) == Msg(3, 64 + 16 * CaBit + 1, AddrBytes \o ToLE4(Len(v)) \o Take(v, k))
RUpSeg(buf, k, tog) ==
    Msg(3, 16 * tog + (IF k < 7 THEN 2 * (7 - k) ELSE 0) + (IF k = Len(buf) THEN 1 ELSE 0),
        Pad7(Take(buf, k)))
RAbort(code) == Msg(2, 128, AddrBytes \o code)

(* same message up to the fields a receiver must not depend on: the mailbox counter, padding
   bytes of short segments, the reserved bytes and the complete-access echo of a download
   response                                                                                  *)
SameSeg(a, b) == /\ a.svc = b.svc /\ a.cmd = b.cmd /\ SegLen(a) = SegLen(b)
                 /\ SegData(a) = SegData(b) /\ Len(a.body) = Len(b.body)

---------------------------------------------------------------------------
(* Replies.  Every reply is a framed CoE mail that fits the terminal -> master mailbox.     *)

(* the server may refuse any request (object missing, access, toggle error, malformed or
   unexpected request ...): the transfer is over and the value unchanged                   *)
SrvAbort(req, rsp) ==
    /\ Framed(rsp, MbxIn) /\ rsp.svc = 2 /\ rsp.cmd = 128 /\ Len(rsp.body) = 7
    /\ val' = val /\ srv' = Idle /\ UNCHANGED obj

IsDownInitRes(rsp) == /\ Framed(rsp, MbxIn) /\ rsp.svc = 3 /\ Len(rsp.body) = 7
                      /\ rsp.cmd \in {96, 96 + 16 * CaBit}
                      /\ Take(rsp.body, 3) = AddrBytes

SrvDownInit(req, rsp) ==
    /\ req.svc = 2 /\ Ccs(req.cmd) = 1 /\ Addresses(req)
    /\ IsDownInitRes(rsp)
    /\ \/ /\ Bit(req.cmd, 1) = 1 /\ Bit(req.cmd, 0) = 1          \* expedited, size indicated
          /\ val' = Take(F4(req), 4 - N2(req.cmd)) /\ srv' = Idle
       \/ /\ Bit(req.cmd, 1) = 0 /\ Bit(req.cmd, 0) = 1          \* normal: complete size first
          /\ LET size == LE4(F4(req))
                 d == Rest(req) IN
               /\ size >= 0 /\ Len(d) <= size
               /\ IF Len(d) = size
                  THEN val' = d /\ srv' = Idle
                  ELSE val' = val /\ srv' = [st |-> "down", buf |-> d, total |-> size, tog |-> 0]
    /\ UNCHANGED obj

SrvDownSeg(req, rsp) ==
    /\ srv.st = "down"
    /\ req.svc = 2 /\ Ccs(req.cmd) = 0 /\ Len(req.body) >= 7
    /\ Bit(req.cmd, 4) = srv.tog                                  \* toggle starts at 0, alternates
    /\ Framed(rsp, MbxIn) /\ rsp.svc = 3 /\ rsp.cmd = 32 + 16 * srv.tog /\ Len(rsp.body) = 7
    /\ LET nb == srv.buf \o SegData(req) IN
         IF Bit(req.cmd, 0) = 1                                   \* last segment
         THEN /\ Len(nb) = srv.total
              /\ val' = nb /\ srv' = Idle
         ELSE /\ Len(nb) <= srv.total
              /\ val' = val /\ srv' = [srv EXCEPT !.buf = nb, !.tog = 1 - srv.tog]
    /\ UNCHANGED obj

(* upload: 1..4 bytes may go expedited; otherwise the complete size and a first fragment of
   any size that fits; the remainder in segments of any size that fits                      *)
SrvUpInit(req, rsp) ==
    /\ req.svc = 2 /\ Ccs(req.cmd) = 2 /\ Addresses(req)
    /\ Framed(rsp, MbxIn) /\ rsp.svc = 3 /\ Len(rsp.body) >= 7
    /\ Ccs(rsp.cmd) = 2 /\ Bit(rsp.cmd, 4) = CaBit /\ Bit(rsp.cmd, 0) = 1
    /\ Take(rsp.body, 3) = AddrBytes
    /\ \/ /\ Bit(rsp.cmd, 1) = 1                                  \* expedited
          /\ Len(val) \in 1 .. 4 /\ Len(rsp.body) = 7
          /\ N2(rsp.cmd) = 4 - Len(val)
          /\ Take(F4(rsp), Len(val)) = val
          /\ srv' = Idle
       \/ /\ Bit(rsp.cmd, 1) = 0 /\ N2(rsp.cmd) = 0               \* normal
          /\ LE4(F4(rsp)) = Len(val)
          /\ LET k == Len(Rest(rsp)) IN
               /\ k <= Len(val) /\ Rest(rsp) = Take(val, k)
               /\ srv' = IF k = Len(val) THEN Idle
                         ELSE [st |-> "up", buf |-> Drop(val, k), total |-> Len(val), tog |-> 0]
    /\ UNCHANGED <<obj, val>>

SrvUpSeg(req, rsp) ==
    /\ srv.st = "up"
    /\ req.svc = 2 /\ Ccs(req.cmd) = 3
    /\ Bit(req.cmd, 4) = srv.tog
    /\ Framed(rsp, MbxIn) /\ rsp.svc = 3 /\ Len(rsp.body) >= 7
    /\ Ccs(rsp.cmd) = 0 /\ Bit(rsp.cmd, 4) = srv.tog
    /\ (Len(rsp.body) > 7 => N3(rsp.cmd) = 0)
    /\ LET k == SegLen(rsp) IN
         /\ k >= 1 /\ k <= Len(srv.buf) /\ SegData(rsp) = Take(srv.buf, k)
         /\ Bit(rsp.cmd, 0) = (IF k = Len(srv.buf) THEN 1 ELSE 0)
         /\ srv' = IF k = Len(srv.buf) THEN Idle
                   ELSE [srv EXCEPT !.buf = Drop(srv.buf, k), !.tog = 1 - srv.tog]
    /\ UNCHANGED <<obj, val>>

Accepts(req, rsp) == \/ SrvDownInit(req, rsp) \/ SrvDownSeg(req, rsp)
                     \/ SrvUpInit(req, rsp) \/ SrvUpSeg(req, rsp)
SrvReply(req, rsp) == Accepts(req, rsp) \/ SrvAbort(req, rsp)

(* mail that has nothing to do with the transfer: any other mailbox protocol (EoE, FoE ...)
   or a CoE emergency.  It only has to fit the mailbox.                                     *)
Unrelated(u) == /\ u.wlen = 6 + u.len /\ u.wlen <= MbxIn
                /\ (u.mt # 3 \/ u.svc = 1)

SInit(o, v) == obj = o /\ val = v /\ srv = Idle
=============================================================================
