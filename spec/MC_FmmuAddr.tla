---------------------------- MODULE MC_FmmuAddr ----------------------------
(* exhaustive model of FmmuAddr: all map / unmap histories on 1..MaxN FMMUs for every assignment of
   addresses to mappings, shared addresses included; with distinct addresses the behaviours are those
   of Fmmu.tla (the mapping of slot contents to addresses is the refinement mapping)                  *)
EXTENDS FmmuAddr
F == INSTANCE Fmmu WITH Logicals <- Addrs, n <- n, slot <- Table,
                        reg <- reg
Injective == \A a, b \in Ids : addr[a] = addr[b] => a = b
(* with an injective addr every step is a step of Fmmu (or leaves its variables alone) *)
RefinesFmmu == [][Injective => (F!FNext \/ UNCHANGED F!fvars)]_avars
=============================================================================
