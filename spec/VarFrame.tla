-------------------------------- MODULE VarFrame ------------------------------
(* C04 - writing one variable never changes another.

   The reference is a store: one cell per declared variable, holding the bytes of its value.  A statement changes
   exactly one cell (the frame condition); everything else a generator does - stack temporaries for hash-map keys,
   saved registers around helper calls, spilled addresses - is invisible in the store.

   case = EbpfRun's case record plus
     vars   <<[size, kind, fd, off, key, init]>>   the declared variables.  kind says where the value can be OBSERVED
            after the run: "arr" (array map fd, offset off), "pkt" (packet offset off), "hash" (hash map fd, entry
            key, first `size` bytes of the 8-byte value) or "stack" (locals of the main program and of sub-programs,
            members of a Dict's key and value: not observed directly - a temporary may legitimately reuse the slot of
            a variable nobody reads any more - but through the copies the program itself makes into array
            variables).  init = the bytes the variable holds before the run (<<>>: nothing yet, a stack variable)
     stmts  <<[op, dst, src, v]>>  the program, in order: "const" dst := v;  "copy" dst := src (same format);
            "addc" dst := src + v (same format, modulo its width);  "none": a statement that writes no declared
            variable (Dict.update(): reads the key and value members, changes the map only)

   The verdict: after the run every observable variable holds what the store says.                              *)
EXTENDS EbpfRun

RECURSIVE Store0(_, _)
Store0(k, j) == IF j > Len(k.vars) THEN <<>> ELSE <<k.vars[j].init>> \o Store0(k, j + 1)

RECURSIVE RunStore(_, _, _)
RunStore(k, s, j) ==
    IF j > Len(k.stmts) THEN s
    ELSE LET t == k.stmts[j] IN
         RunStore(k, CASE t.op = "const" -> [s EXCEPT ![t.dst] = t.v]
                        [] t.op = "copy" -> [s EXCEPT ![t.dst] = s[t.src]]
                        [] t.op = "addc" -> [s EXCEPT ![t.dst] = WAdd(s[t.src], t.v)]
                        [] OTHER -> s, j + 1)
ExpectedStore(k) == RunStore(k, Store0(k, 1), 1)

ObservedVar(k, f, v) ==
    CASE v.kind = "arr" -> LoadBytes(f.m, Rg("arr", v.fd, <<>>), v.off, v.size)
      [] v.kind = "pkt" -> LoadBytes(f.m, RPkt, v.off, v.size)
      [] v.kind = "hash" -> IF Rg("hash", v.fd, v.key) \in DOMAIN f.m
                            THEN LoadBytes(f.m, Rg("hash", v.fd, v.key), 0, v.size) ELSE <<"absent">>
      [] OTHER -> <<>>
Observable(v) == v.kind \in {"arr", "pkt", "hash"}

(* the variables whose final value is not the store's: <<index, observed, expected>> *)
Changed(k, f) == LET e == ExpectedStore(k) IN
    {<<i, ObservedVar(k, f, k.vars[i]), e[i]>> : i \in {j \in 1 .. Len(k.vars) :
          Observable(k.vars[j]) /\ ObservedVar(k, f, k.vars[j]) # e[j]}}

(* ---- the recorded finding F34, as a second reference --------------------------------------------------------
   The locals of all sub-program instances are laid over ONE stack frame (each instance's locals start right below
   the main program's).  The variables the case marks `alias` (sub-program locals, with their real stack address
   `addr`) share a byte memory here; everything else keeps its private cell.  A run whose final values are exactly
   those of THIS store is explained by that sharing alone.                                                    *)
AliasIdx(k) == {i \in 1 .. Len(k.vars) : k.vars[i].alias}
AliasDom(k) == UNION {k.vars[i].addr .. (k.vars[i].addr + k.vars[i].size - 1) : i \in AliasIdx(k)}
ReadA(k, s, i) == IF k.vars[i].alias
                  THEN Mat([j \in 1 .. k.vars[i].size |-> s.mem[k.vars[i].addr + j - 1]], k.vars[i].size)
                  ELSE s.cells[i]
RECURSIVE PutMem(_, _, _, _)
PutMem(m, a, b, j) == IF j > Len(b) THEN m ELSE PutMem([m EXCEPT ![a + j - 1] = b[j]], a, b, j + 1)
WriteA(k, s, i, b) == IF k.vars[i].alias THEN [s EXCEPT !.mem = PutMem(s.mem, k.vars[i].addr, b, 1)]
                      ELSE [s EXCEPT !.cells[i] = b]
RECURSIVE RunAliased(_, _, _)
RunAliased(k, s, j) ==
    IF j > Len(k.stmts) THEN s
    ELSE LET t == k.stmts[j] IN
         RunAliased(k, CASE t.op = "const" -> WriteA(k, s, t.dst, t.v)
                         [] t.op = "copy" -> WriteA(k, s, t.dst, ReadA(k, s, t.src))
                         [] t.op = "addc" -> WriteA(k, s, t.dst, WAdd(ReadA(k, s, t.src), t.v))
                         [] OTHER -> s, j + 1)
AliasedStore(k) == RunAliased(k, [cells |-> Store0(k, 1), mem |-> [a \in AliasDom(k) |-> 0]], 1)
AliasExplains(k, f) == LET s == AliasedStore(k) IN
    \A i \in 1 .. Len(k.vars) : Observable(k.vars[i]) => ObservedVar(k, f, k.vars[i]) = ReadA(k, s, i)

FrameVerdictOf(k, f) ==
    IF ~Exited(f.c) THEN <<"fault", f.c.st, {}, FALSE>>
    ELSE IF Changed(k, f) = {} THEN <<"ok", <<>>, {}, FALSE>>
    ELSE <<"wrong", <<>>, Changed(k, f), AliasExplains(k, f)>>
FrameReport(k) == <<"VERDICT", cid>> \o FrameVerdictOf(k, Final(k))
ObserveFrame == PrintT(FrameReport(Cases[cid]))
=============================================================================
