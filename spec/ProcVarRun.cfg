INIT Init
NEXT Next
INVARIANTS InvBuilt
           InvSlow
           InvFast
           InvLaws
CHECK_DEADLOCK FALSE
