----------------------------- MODULE Ind_FmmuEq -----------------------------
(* X05 - TLC: Fmmu (original) and Ind_Fmmu (restated for Apalache) have the same behaviours for
   small constants: each specification is checked as a property of the other.                 *)
EXTENDS Fmmu
W == INSTANCE Ind_Fmmu
WSpec == W!Spec
WIndInv == W!IndInv
=============================================================================
