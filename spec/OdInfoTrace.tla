---------------------------- MODULE OdInfoTrace ----------------------------
(* Trace validation for X03.  A trace is one session on one simulated terminal:
     T.od, T.mbx     the dictionary and the mailbox sizes
     T.ev            call(fn, a) | req(m) | rsp(m) | sdo(...) | ret(out) | emptyread
   req = a mail arrived in the master -> terminal mailbox, rsp = the master took a mail out of
   the terminal -> master mailbox (both logged by the simulated terminal), sdo = the real
   Terminal.sdo_read / sdo_write was called by the layer above (logged by a wrapper), call / ret
   = the harness called the real API and it returned / raised / did not come to rest.
   Requests are judged by the client obligations of OdInfo, answers by its server relation (a
   simulator that strays is rejected too), results by RetOk.  The mailbox counter chain and the
   request/answer alternation are those of Mailbox.tla (C15), instantiated here for the one
   user "c" of the session, who holds the mailbox throughout.

   Observations (behaviours of /repo that break a requirement, reported, not patched) are
   recognised HERE, by the specification, and printed as <<"OBS", tid, l, class>>; the step is
   then accepted so that the rest of the session is still judged:
     sub0     read_ODlist leaves out subindex 0 of every object with max subindex > 0
     dtype    an entry whose data type is a base type unknown to ECDataType makes the call
              raise ValueError
     emcy     a CoE emergency taken out of the mailbox while a response is awaited is taken
              for the response (the response is left behind: the session is void then)
     mbxerr   the mailbox error service as answer: the call never returns                    *)
EXTENDS OdInfo, Json, IOUtils, TLCExt

Traces == JsonDeserialize(IOEnv.TRACE_FILE)
VARIABLES tid, l, phase, opno, holder, pending, counter, wire
mbv == <<phase, opno, holder, pending, counter, wire>>
tvars == <<core, mbv, tid, l>>

MB == INSTANCE Mailbox WITH Users <- {"c"}, None <- "none", InitCounters <- {0}

T == Traces[tid]

TInit == /\ tid \in 1 .. Len(Traces) /\ l = 1
         /\ Init(T.od, T.mbx)
         /\ phase = [u \in {"c"} |-> "holding"] /\ opno = [u \in {"c"} |-> 1]
         /\ holder = "c" /\ pending = FALSE /\ counter = 0 /\ wire = <<>>

(* base data types of ETG.1020 that ECDataType knows (for the class "dtype" only) *)
KnownBase == {0, 1, 2, 3, 4, 5, 6, 7, 8, 9, 10, 11, 12, 13, 15, 16, 17, 21, 22, 27} \cup (48 .. 55)

Obs(class) == PrintT(<<"OBS", tid, l, class>>)
Void == cl' = [cl EXCEPT !.phase = "void"] /\ ex' = Idle /\ UNCHANGED <<od, mbx>>

IsEmcy(m) == m.mt = 3 /\ m.svc = 1

TRet(out) ==
    \/ /\ ~pending /\ Ret(out)
    \/ /\ ~pending /\ cl.phase = "run" /\ ex.st = "idle" /\ cl.fn = "odlist"     \* sub0
       /\ ~RetOk(out, FALSE) /\ RetOk(out, TRUE)
       /\ Obs("sub0")
       /\ cl' = [cl EXCEPT !.phase = "done"] /\ UNCHANGED <<od, mbx, ex>>
    \/ /\ ~pending /\ cl.phase = "run" /\ ex.st = "idle" /\ cl.fn \in InfoFns    \* dtype
       /\ out.res = "raise" /\ out.exctype = "ValueError"
       /\ cl.last.op = 5 /\ cl.last.res = "data"
       /\ LET e == TheEnt(TheObj(cl.last.index), cl.last.sub) IN
            e.kind = "val" /\ e.dtype < 2048 /\ e.dtype \notin KnownBase
       /\ Obs("dtype")
       /\ cl' = [cl EXCEPT !.phase = "done"] /\ UNCHANGED <<od, mbx, ex>>
    \/ /\ cl.phase = "run" /\ ex.st = "idle" /\ cl.fn \in InfoFns                \* mbxerr
       /\ out.res = "stall" /\ cl.last.how = "mbxerr"
       /\ Obs("mbxerr")
       /\ Void

(* emcy: right after taking a CoE emergency out of the mailbox the client stops waiting for
   the response (the call ends, or - read_ODlist swallows the error of an entry - goes on with
   its next request)                                                                        *)
GaveUpOnEmcy(e) ==
    /\ e.ev \in {"req", "ret"} /\ cl.phase = "run" /\ ex.st = "await" /\ l > 1
    /\ T.ev[l - 1].ev = "rsp" /\ IsEmcy(T.ev[l - 1].m)
    /\ Obs("emcy")
    /\ Void

SdoTraffic == cl.phase = "run" /\ cl.fn \in SdoFns /\ ex.st = "idle" /\ cl.sdo.op = "none"

TNext ==
    /\ l <= Len(T.ev)
    /\ l' = l + 1 /\ UNCHANGED tid
    /\ LET e == T.ev[l] IN
         IF cl.phase = "void" THEN UNCHANGED <<core, mbv>>
         ELSE
         \/ e.ev = "call" /\ ~pending /\ Call(e.fn, e.a) /\ UNCHANGED mbv
         \/ e.ev = "req" /\ e.m.mt = 3 /\ e.m.svc = 8 /\ CReq(e.m) /\ MB!Send("c", e.m.cnt)
         \/ e.ev = "rsp" /\ SFrag(e.m) /\ MB!Recv("c", FragsLeft(e.m) = 0)
         \/ e.ev = "rsp" /\ SRefuse(e.m) /\ MB!Recv("c", TRUE)
         \/ e.ev = "rsp" /\ SMail(e.m) /\ MB!Recv("c", FALSE)
         \* SDO traffic of ObjectEntry.read / write / sdo_read_format: content is C16's
         \/ /\ e.ev = "req" /\ e.m.mt = 3 /\ e.m.svc = 2 /\ SdoTraffic
            /\ e.m.wlen = 6 + e.m.len /\ e.m.wlen <= mbx.out
            /\ MB!Send("c", e.m.cnt) /\ UNCHANGED core
         \/ /\ e.ev = "rsp" /\ SdoTraffic /\ pending
            /\ MB!Recv("c", ~Unrelated(e.m)) /\ UNCHANGED core
         \/ e.ev = "sdo" /\ ~pending /\ SdoCall(e) /\ UNCHANGED mbv
         \/ e.ev = "ret" /\ TRet(e.out) /\ UNCHANGED mbv
         \/ GaveUpOnEmcy(e) /\ UNCHANGED mbv

TSpec == TInit /\ [][TNext]_tvars

Progress == TLCSet(tid, Max2(TLCGet(tid), l))
ASSUME \A i \in 1 .. Len(Traces) : TLCSet(i, 0)
Post == \A i \in 1 .. Len(Traces) : PrintT(<<"RESULT", i, TLCGet(i) - 1, Len(Traces[i].ev)>>)
=============================================================================
