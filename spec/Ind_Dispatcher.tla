---------------------------- MODULE Ind_Dispatcher ----------------------------
(* X05 - C22 under FIFO delivery, abstractly: "a registered group is never passed by more than
   two consecutive deliveries" as an inductive invariant.

   The model is the dispatcher program AS READ (ebpfcat.py, EtherXDP.program), not the table of
   the real bytecode that Dispatcher.tla steps through:
       index = counter byte              counter += 1 + (counter & 1), group program runs
       index + 1 = counter byte, or 0    counter += 1; counter was odd: back to the bus without
                                         running, else the group program runs
       otherwise                         handed to user space
   and the frame goes back to the bus stamped with the new counter byte.  Ind_DispatcherBind.tla
   closes the gap with TLC: AStep equals EVERY row of a table computed from the real bytecode, and
   every state Dispatcher.tla reaches with Fifo = TRUE maps into IndInv.

   What is gained over the TLC run of C22: no age bound K, no window of counter values; the frames
   come back in the order sent (a ring), at most MaxFlight = 3 are in flight, any may be lost at any
   time and user space may inject whenever there is room.  (With 4 frames in flight, or out of
   order - known finding F27 - three consecutive deliveries can pass the group by.)            *)
EXTENDS Integers, Sequences

VARIABLES
  \* @type: Int;
  cb,        \* low byte of the group's loop counter
  \* @type: Seq(Int);
  q,         \* index bytes of the frames in flight, the next to arrive first
  \* @type: Int;
  since      \* consecutive deliveries that did not run the group's program

vars == <<cb, q, since>>
MaxFlight == 3
FreshIx == 0
Min(a, b) == IF a < b THEN a ELSE b

(* one delivery *)
AStep(c, ix, reg) ==
    IF ix = c
    THEN LET c2 == (c + 1 + (c % 2)) % 256 IN
         [cb2 |-> c2, ix2 |-> c2, ran |-> reg, act |-> IF reg THEN "TX" ELSE "PASS"]
    ELSE IF (ix + 1) % 256 = c \/ ix = 0
    THEN LET c2 == (c + 1) % 256 IN
         IF c % 2 = 1 THEN [cb2 |-> c2, ix2 |-> c2, ran |-> FALSE, act |-> "TX"]
         ELSE [cb2 |-> c2, ix2 |-> c2, ran |-> reg, act |-> IF reg THEN "TX" ELSE "PASS"]
    ELSE [cb2 |-> c, ix2 |-> ix, ran |-> FALSE, act |-> "PASS"]

Init == cb \in 0 .. 255 /\ q = <<>> /\ since = 0

Deliver == /\ Len(q) > 0
           /\ LET o == AStep(cb, Head(q), TRUE) IN
                /\ cb' = o.cb2
                /\ q' = IF o.act = "TX" THEN Append(Tail(q), o.ix2) ELSE Tail(q)
                /\ since' = IF o.ran THEN 0 ELSE Min(since + 1, 9)
Lose(i) == /\ i \in 1 .. Len(q)
           /\ q' = SubSeq(q, 1, i - 1) \o SubSeq(q, i + 1, Len(q))
           /\ UNCHANGED <<cb, since>>
Inject == /\ Len(q) < MaxFlight
          /\ q' = Append(q, FreshIx)
          /\ UNCHANGED <<cb, since>>
Next == Deliver \/ Inject \/ \E i \in 1 .. MaxFlight : Lose(i)
Spec == Init /\ [][Next]_vars

KeepsRunning == since <= 2

-----------------------------------------------------------------------------
(* a frame is "stamped" if its index byte is not 0; D = how far the counter has moved on since *)
Stamped(i) == q[i] # 0
D(i) == (cb - q[i] + 256) % 256
Even == cb % 2 = 0

IndInv ==
    /\ cb \in 0 .. 255 /\ since \in 0 .. 2 /\ Len(q) <= MaxFlight
    /\ \A i \in 1 .. MaxFlight : i <= Len(q) => q[i] \in 0 .. 255
    \* a stamped frame is at most two counts old, and the older the nearer to the head
    /\ \A i \in 1 .. MaxFlight : (i <= Len(q) /\ Stamped(i)) => D(i) + i <= 3
    /\ \A i, j \in 1 .. MaxFlight : (i < j /\ j <= Len(q) /\ Stamped(i) /\ Stamped(j)) => D(i) > D(j)
    \* the counter is odd after every pass that ran the group's program
    /\ (Even /\ since = 0) => \A i \in 1 .. MaxFlight : i <= Len(q) => ~Stamped(i)
    /\ ~Even => since <= 1
    \* what may still pass the group by is bounded by what already has
    /\ (Even /\ since = 2) => \A i \in 1 .. MaxFlight : (i <= Len(q) /\ Stamped(i)) => (D(i) = 0 \/ D(i) + i <= 2)
    /\ (~Even /\ since = 1) => \A i \in 1 .. MaxFlight : (i <= Len(q) /\ Stamped(i)) => D(i) + i <= 2

IndInit == /\ cb \in 0 .. 255 /\ since \in 0 .. 2
           /\ \E n \in 0 .. MaxFlight : \E a, b, c \in 0 .. 255 : q = SubSeq(<<a, b, c>>, 1, n)
           /\ IndInv
(* expected to be VIOLATED from IndInit: the induction hypothesis is not vacuous *)
Witness == ~(Len(q) = 3 /\ since = 1 /\ Stamped(1) /\ Stamped(2) /\ Stamped(3))
=============================================================================
