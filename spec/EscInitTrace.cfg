SPECIFICATION TSpec
CONSTANTS NSm = 16
CONSTRAINT Progress
POSTCONDITION Post
CHECK_DEADLOCK FALSE
