---------------------------- MODULE ParallelTrace ----------------------------
(* Trace validation for C23.  A trace is what the real ParallelEtherCat.run / FMMULock did in
   real OS processes under one schedule: per gated call an event
     [p, a, c, f,                   who passed which gate; the value randrange handed out; whether
                                    the environment made the call fail
      obs |-> the shared state found afterwards (directory listings, pin target, attachment,
              mailbox lock file, bitmap length and bits, holders of the lockf lock and the mutex),
      st  |-> per participant: ph, inst, eth, win, tab as the process reports them]

   VSpec - THE VERDICT.  The state is bound to the observation after every event and the four
           property invariants of Parallel are evaluated on it; Observe prints
           <<"VERDICT", trace, event, violated invariants>> for every observed state that
           breaks the property and <<"HANDLE", trace, event>> where a running participant's own
           table handle is not the attached dispatcher's table (reported separately).
   CSpec - conformance of the protocol model (with the switches of the cfg: the repaired protocol
           Mutex = LockedInit = TRUE): every event must be the step the model predicts
           for that participant (same gate, the observed random value a possible one), and the
           model's successor state must equal the observation.  Shows that the schedules TLC
           explores are schedules of the real code; not a verdict.                           *)
EXTENDS Parallel, Json, IOUtils, TLCExt
Traces == JsonDeserialize(IOEnv.TRACE_FILE)
VARIABLES tid, l
tvars == <<pvars, tid, l>>
T == Traces[tid]

Range(f) == {f[i] : i \in DOMAIN f}
ShOf(ob) == [lockdir |-> [ex |-> ob.lockdir.ex, m |-> Range(ob.lockdir.m)],
             tmp |-> [p \in Procs |-> ob.tmp[p]],
             pin |-> ob.pin, att |-> [o |-> ob.att.o, t |-> ob.att.t],
             mbx |-> ob.mbx,
             fm |-> [ex |-> ob.fm.ex, len |-> ob.fm.len, bits |-> Range(ob.fm.bits)],
             holder |-> ob.holder, mutex |-> ob.mutex]
Seen(L, s) == [L EXCEPT !.ph = s.ph, !.inst = s.inst, !.eth = s.eth, !.win = s.win, !.tab = s.tab]
SameSeen(L, s) == /\ L.ph = s.ph /\ L.inst = s.inst /\ L.eth = s.eth /\ L.win = s.win /\ L.tab = s.tab

TInit == /\ tid \in 1 .. Len(Traces) /\ l = 1 /\ PInit

VNext == /\ l <= Len(T.ev) /\ l' = l + 1 /\ UNCHANGED <<tid, crashes, faults, pre, last>>
         /\ LET e == T.ev[l] IN
              /\ sh' = ShOf(e.obs)
              /\ loc' = [p \in Procs |-> Seen(loc[p], e.st[p])]
VSpec == TInit /\ [][VNext]_tvars

CNext == /\ l <= Len(T.ev) /\ l' = l + 1 /\ UNCHANGED <<tid, crashes, faults, pre, last>>
         /\ LET e == T.ev[l] IN
              /\ loc[e.p].pc \notin Final
              /\ \/ /\ e.a = "crash"
                    /\ LET r == CrashEff(e.p) IN sh' = r.s /\ loc' = [loc EXCEPT ![e.p] = r.l]
                 \/ /\ e.a = "cancel" /\ loc[e.p].pc \in Awaiting
                    /\ LET r == CancelEff(e.p) IN sh' = r.s /\ loc' = [loc EXCEPT ![e.p] = r.l]
                 \/ /\ e.a \notin {"crash", "cancel"} /\ Gate(loc[e.p].pc) = e.a
                    /\ CanStep(e.p) /\ e.c \in ChoiceSet(e.p)
                    /\ (e.f => loc[e.p].pc \in Faultable)
                    /\ LET r == Eff(e.p, e.c, e.f) IN sh' = r.s /\ loc' = [loc EXCEPT ![e.p] = r.l]
              /\ sh' = ShOf(e.obs)
              /\ \A p \in Procs : SameSeen(loc'[p], e.st[p])
CSpec == TInit /\ [][CNext]_tvars

Observe == /\ Violated # {} => PrintT(<<"VERDICT", tid, l - 1, Violated>>)
           /\ ~HandleCurrent => PrintT(<<"HANDLE", tid, l - 1>>)

Progress == TLCSet(tid, Max2(TLCGet(tid), l))
ASSUME \A i \in 1 .. Len(Traces) : TLCSet(i, 0)
Post == \A i \in 1 .. Len(Traces) : PrintT(<<"RESULT", i, TLCGet(i) - 1, Len(Traces[i].ev)>>)
=============================================================================
