SPECIFICATION CSpec
CONSTANTS Modes <- mcModes
          InSizes <- mcIn
          OutSizes <- mcOut
          MaxT = 3
          MaxG = 1
          AeroPad = 36
INVARIANT Emit
CHECK_DEADLOCK FALSE
