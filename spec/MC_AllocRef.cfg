SPECIFICATION CSpec
CONSTANTS Modes <- mcModes
          InSizes <- mcIn
          OutSizes <- mcOut
          MaxT = 2
          MaxG = 2
          AeroPad = 36
          MaxFrame = 1500
          MaxDgrams = 15
          Stride = 4096
          Half = 2048
INVARIANT RefOK
CHECK_DEADLOCK FALSE
