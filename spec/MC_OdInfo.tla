---------------------------- MODULE MC_OdInfo ----------------------------
(* X03 - the design: a client that reads the whole dictionary (list, every description, every
   subindex 0..max) by concatenating the service data of the fragments, against the conformant
   server using EVERY legal fragmentation for the mailbox size (any data sizes that fit, any
   consistent "fragments left" count) and refusing requests at will.  Shows: whatever the
   split, the reassembled responses parse to the dictionary (ResultExact), a refused list or
   description ends the call with an error (FailureKnown), the counter of fragments is
   consistent with what is still to come (CountConsistent), and no deadlock: every request
   has an answer, every answer is absorbed, every call comes to its end.
   Constants: Shapes / MaxObjs (dictionaries = all sequences of 0..MaxObjs shapes),
   MbxIns (terminal -> master mailbox sizes), AllowRefuse.                                   *)
EXTENDS OdInfo, OdInfoDicts

CONSTANTS Shapes, MaxObjs, MbxIns, AllowRefuse

VARIABLE ac      \* the abstract client: [pc, idxs, descs, k, s, buf, ents, res]
vars == <<core, ac>>

RECURSIVE SeqsUpTo(_)
SeqsUpTo(n) == IF n = 0 THEN {<<>>}
               ELSE SeqsUpTo(n - 1) \cup {Append(s, x) : s \in {t \in SeqsUpTo(n - 1) : Len(t) = n - 1},
                                                        x \in Shapes}
Dicts == {MkDict(s) : s \in SeqsUpTo(MaxObjs)}

Msg(svc, cmd, body) == [mt |-> 3, cnt |-> 0, wlen |-> 9 + Len(body), len |-> 3 + Len(body),
                        svc |-> svc, number |-> 0, res |-> 0, cmd |-> cmd, body |-> body]
Req(op, sd) == Msg(8, op, <<0, 0, 0>> \o sd)
RFrag(n, fl) == Msg(8, ex.op + 1 + (IF fl > 0 THEN 128 ELSE 0),
                    <<0, fl % 256, fl \div 256>> \o SubSeq(AnswerData, ex.sent + 1, ex.sent + n))
RErr == Msg(8, 7, <<0, 0, 0, 0, 0, 2, 6>>)

AcInit == [pc |-> "start", idxs |-> <<>>, descs |-> <<>>, k |-> 1, s |-> 0, buf |-> <<>>,
           ents |-> <<>>, res |-> <<>>]
MCInit == /\ \E d \in Dicts, mi \in MbxIns : Init(d, [out |-> 16, in |-> mi])
          /\ ac = AcInit

RECURSIVE Pairs(_)
Pairs(b) == IF Len(b) < 2 THEN <<>> ELSE <<U16(b, 1)>> \o Pairs(SubSeq(b, 3, Len(b)))
Drop(s, n) == SubSeq(s, n + 1, Len(s))

(* parsing the reassembled service data *)
PDesc(b) == [dtype |-> U16(b, 3), maxsub |-> b[5], name |-> Drop(b, 6)]
PEnt(b) == [key |-> b[3], sub |-> b[3], dtype |-> U16(b, 5), bits |-> U16(b, 7),
            access |-> U16(b, 9), name |-> Drop(b, 10)]
ObjRes(i, ents) == [key |-> ac.idxs[i], index |-> ac.idxs[i], dtype |-> ac.descs[i].dtype,
                    maxsub |-> ac.descs[i].maxsub, name |-> ac.descs[i].name, ents |-> ents]

(* where the client goes after object k's entry s (or after the descriptions) *)
AfterEntry(a, ents) ==
    IF a.s < a.descs[a.k].maxsub THEN [a EXCEPT !.pc = "ents", !.s = a.s + 1, !.ents = ents]
    ELSE LET res == Append(a.res, [key |-> a.idxs[a.k], index |-> a.idxs[a.k],
                                   dtype |-> a.descs[a.k].dtype, maxsub |-> a.descs[a.k].maxsub,
                                   name |-> a.descs[a.k].name, ents |-> ents]) IN
         IF a.k < Len(a.idxs) THEN [a EXCEPT !.pc = "ents", !.k = a.k + 1, !.s = 0,
                                             !.ents = <<>>, !.res = res]
         ELSE [a EXCEPT !.pc = "ret", !.res = res, !.ents = <<>>]

Complete(a, b) ==         \* the response b of the request just made is complete
    CASE a.pc = "wlist" ->
           LET ix == Pairs(Drop(b, 2)) IN
             IF ix = <<>> THEN [a EXCEPT !.pc = "ret", !.idxs = ix]
             ELSE [a EXCEPT !.pc = "desc", !.idxs = ix, !.k = 1]
      [] a.pc = "wdesc" ->
           LET ds == Append(a.descs, PDesc(b)) IN
             IF a.k < Len(a.idxs) THEN [a EXCEPT !.pc = "desc", !.descs = ds, !.k = a.k + 1]
             ELSE [a EXCEPT !.pc = "ents", !.descs = ds, !.k = 1, !.s = 0, !.ents = <<>>]
      [] a.pc = "went" ->
           AfterEntry(a, IF PEnt(b).dtype = 0 THEN a.ents ELSE Append(a.ents, PEnt(b)))

Refused(a) == IF a.pc = "went" THEN AfterEntry(a, a.ents) ELSE [a EXCEPT !.pc = "fail"]

ClientStep ==
    \/ /\ ac.pc = "start" /\ Call("odlist", [index |-> 0, sub |-> 0])
       /\ ac' = [ac EXCEPT !.pc = "list"]
    \/ /\ ac.pc = "list" /\ CReq(Req(1, <<1, 0>>))
       /\ ac' = [ac EXCEPT !.pc = "wlist", !.buf = <<>>]
    \/ /\ ac.pc = "desc" /\ CReq(Req(3, LE2(ac.idxs[ac.k])))
       /\ ac' = [ac EXCEPT !.pc = "wdesc", !.buf = <<>>]
    \/ /\ ac.pc = "ents" /\ CReq(Req(5, LE2(ac.idxs[ac.k]) \o <<ac.s, 7>>))
       /\ ac' = [ac EXCEPT !.pc = "went", !.buf = <<>>]
    \/ /\ ac.pc = "ret" /\ Ret([res |-> "ok", value |-> ac.res])
       /\ ac' = [ac EXCEPT !.pc = "done"]
    \/ /\ ac.pc = "fail" /\ Ret([res |-> "raise", value |-> <<>>])
       /\ ac' = [ac EXCEPT !.pc = "done"]

ServerStep ==
    /\ ex.st = "await"
    /\ \/ /\ HasAnswer
          /\ \E n \in 1 .. Cap, fl \in 0 .. Len(AnswerData) :
            /\ ex.sent + n <= Len(AnswerData)
            /\ SFrag(RFrag(n, fl))
            /\ LET b == ac.buf \o SData(RFrag(n, fl)) IN
                 ac' = IF ex'.st = "idle" THEN Complete([ac EXCEPT !.buf = b], b)
                       ELSE [ac EXCEPT !.buf = b]
       \/ /\ (AllowRefuse \/ ~HasAnswer) /\ SRefuse(RErr)
          /\ ac' = Refused(ac)

MCNext == ClientStep \/ ServerStep \/ (ac.pc = "done" /\ UNCHANGED vars)
MCSpec == MCInit /\ [][MCNext]_vars

ResultExact == ac.pc = "ret" => (~cl.failed /\ cl.gotlist /\ ListResultIs(ac.res, cl.refused, FALSE))
FailureKnown == (ac.pc = "fail") <=> (cl.failed /\ cl.phase = "run")
CountConsistent ==
    (ex.st = "await" /\ ~ex.first) =>
        LET rest == Len(AnswerData) - ex.sent IN
          ex.left >= 1 /\ rest >= ex.left /\ rest <= ex.left * Cap
Reassembly == (ex.st = "await" /\ HasAnswer) => ac.buf = SubSeq(AnswerData, 1, ex.sent)
=============================================================================
