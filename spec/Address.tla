------------------------------- MODULE Address -------------------------------
(* C25 - terminal addresses assigned by the master are unique.

   The bus: terminals 1..n with a configured station address each (0: none).  What can be
   observed of the master on the wire: probes (a read addressed to station address a, answered
   by as many terminals as hold a) and writes of a station address into a terminal.

   The property, as a condition on every write of an address a into terminal t (WriteOK):
     - a lies within the configured range;
     - a was never written into a terminal before (never handed out twice);
     - no terminal answered at a at any earlier probe, and no other terminal holds a now
       (never an address at which a terminal already answers).
   The upper end of the range: the master's configuration is a pair (lo, hi); the users of
   assigned addresses (LockFile / ParallelMailboxLock: minimum <= no < maximum) treat hi as
   excluded.  HiIncl = FALSE states that reading; HiIncl = TRUE admits hi itself.

   The design (find_free_address / assigned_address / Terminal.initialize as tasks): read the
   terminal's address and keep a non-zero one; else pick an address of the range not yet
   used, mark it used, probe it, pick again if somebody answered, else write it.  Tasks
   interleave at every bus access.  The model check shows that every write the design can get
   to satisfies WriteOK and that configured addresses stay pairwise distinct.                 *)
EXTENDS Integers, FiniteSets, TLC

CONSTANTS HiIncl,     \* whether rng.hi itself counts as inside the configured range
          Addrs       \* addresses the design may pick from (model checking only)

VARIABLES conf,       \* conf[t]: station address configured in terminal t (0: none)
          rng,        \* [lo, hi]: the master's configured range
          answered,   \* addresses at which a terminal answered a probe so far
          written,    \* addresses the master wrote into some terminal so far
          used,       \* design: the master's set of used addresses
          task        \* design: task[k] = [kind, pos, pc, cand]

bvars == <<conf, rng, answered, written>>
avars == <<bvars, used, task>>

Terms == DOMAIN conf
InRange(a) == rng.lo <= a /\ (a < rng.hi \/ (HiIncl /\ a = rng.hi))
Holders(a) == {t \in Terms : conf[t] = a}

-----------------------------------------------------------------------------
(* the wire *)
Probe(a, w) == /\ a # 0
               /\ w = Cardinality(Holders(a))
               /\ answered' = IF w > 0 THEN answered \cup {a} ELSE answered
               /\ UNCHANGED <<conf, rng, written>>

WriteOK(t, a) == /\ InRange(a)
                 /\ a \notin written
                 /\ a \notin answered
                 /\ \A u \in Terms \ {t} : conf[u] # a

Write(t, a) == /\ t \in Terms
               /\ conf' = [conf EXCEPT ![t] = a]
               /\ written' = written \cup {a}
               /\ UNCHANGED <<rng, answered>>

-----------------------------------------------------------------------------
(* the design *)
Go(k, pc) == task' = [task EXCEPT ![k].pc = pc]

DRead(k) == /\ task[k].pc = "read"
            /\ Go(k, IF conf[task[k].pos] # 0 THEN "done" ELSE "pick")
            /\ UNCHANGED <<bvars, used>>

DPick(k) == /\ task[k].pc = "pick"
            /\ \E a \in Addrs : /\ InRange(a) /\ a \notin used
                                /\ used' = used \cup {a}
                                /\ task' = [task EXCEPT ![k].pc = "probe", ![k].cand = a]
            /\ UNCHANGED bvars

DProbe(k) == /\ task[k].pc = "probe"
             /\ Probe(task[k].cand, Cardinality(Holders(task[k].cand)))
             /\ Go(k, IF Holders(task[k].cand) # {} THEN "pick" ELSE "write")
             /\ UNCHANGED used

DWrite(k) == /\ task[k].pc = "write"
             /\ Write(task[k].pos, task[k].cand)
             /\ Go(k, "done")
             /\ UNCHANGED used

DNext == \E k \in DOMAIN task : DRead(k) \/ DPick(k) \/ DProbe(k) \/ DWrite(k)

-----------------------------------------------------------------------------
(* the property on the design: whatever a task is about to write is a permitted assignment *)
DesignSafe == \A k \in DOMAIN task : task[k].pc = "write" => WriteOK(task[k].pos, task[k].cand)
(* an address the master wrote is held by one terminal only; several terminals may carry the
   same address from before (terminals taken over from elsewhere): that is not the master's doing,
   but such an address answers a probe (working counter 2, 3, ..) like any other *)
UniqueAssigned == \A t, u \in Terms : (t # u /\ conf[t] \in written) => conf[t] # conf[u]
(* if the pre-assigned addresses were pairwise distinct, all configured addresses stay so *)
Unique == \A t, u \in Terms : (t # u /\ conf[t] # 0) => conf[t] # conf[u]
WrittenInRange == \A a \in written : InRange(a)
UsedCovers == (written \cup answered) \subseteq used
=============================================================================
