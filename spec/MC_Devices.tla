----------------------------- MODULE MC_Devices -----------------------------
(* X07 - the laws of Devices.tla on a small exhaustive grid: every kind of device, linked to every
   placement of a bit / a one- or two-byte value in a FrameLen-byte image, every image over the
   byte values FrameBytes, device variables and clock readings over Vals.  Checked: the frame
   condition (theorem DevFrame), and each law against its direct statement on TLC integers.    *)
EXTENDS Devices, TLC
CONSTANTS FrameLen, FrameBytes, Vals, SmallVals
VARIABLES dev, frame, v, now, path
vars == <<dev, frame, v, now, path>>

Placements == [start : {0}, off : 0 .. FrameLen - 1, bit : 0 .. 7, n : {1}, s : {0}]
              \cup {p \in [start : {0}, off : 0 .. FrameLen - 1, bit : {-1}, n : {1, 2}, s : {0, 1}] :
                      p.off + p.n <= FrameLen}
Fm(kind, p) == Mat([j \in 1 .. Len(DevVarNames(kind)) |-> IF p = "fast" THEN (IF kind = "ctr" /\ j > 1 THEN U64 ELSE U32)
                                                           ELSE [n |-> 0, s |-> 0]], Len(DevVarNames(kind)))
PlainPlace == [start |-> 0, off |-> 0, bit |-> 0, n |-> 1, s |-> 0]
PlainFrame == [i \in 1 .. FrameLen |-> 0]
W(S) == {DW(x) : x \in S}
(* the grid: image-linked kinds over every placement and image; Counter / RandomDropper over their
   variables and clock readings on a fixed image *)
Init == /\ path \in {"fast", "slow"}
        /\ \E kind \in DevKinds :
              \/ /\ kind \in {"ai", "ao", "di", "do"}
                 /\ \E pl \in Placements : dev = [kind |-> kind, data |-> pl, fm |-> Fm(kind, path)]
                 /\ frame \in [1 .. FrameLen -> FrameBytes]
                 /\ v \in [1 .. 1 -> W(Vals)] /\ now = DZero
              \/ /\ kind = "ro"
                 /\ \E pl \in {p \in Placements : p.bit >= 0} : dev = [kind |-> kind, data |-> pl, fm |-> Fm(kind, path)]
                 /\ frame \in [1 .. FrameLen -> FrameBytes]
                 /\ v \in [1 .. 2 -> W(SmallVals)] /\ now = DZero
              \/ /\ kind = "ctr"
                 /\ dev = [kind |-> kind, data |-> PlainPlace, fm |-> Fm(kind, path)]
                 /\ frame = PlainFrame
                 /\ v \in [1 .. 4 -> W(SmallVals)] /\ now \in W(SmallVals \cup {40000})
              \/ /\ kind \in {"drop", "dummy"}
                 /\ dev = [kind |-> kind, data |-> PlainPlace, fm |-> Fm(kind, path)]
                 /\ frame = PlainFrame
                 /\ v \in [1 .. Len(DevVarNames(kind)) -> W(Vals)] /\ now \in W(Vals)
Next == FALSE /\ UNCHANGED vars
ValsDef == {-129, -1, 0, 1, 127, 128, 255, 256, 40000}
ValsQuick == {-129, 0, 255, 40000}

R == DevLaw(dev, frame, v, now, path)
InFrame == ProcVarInFrame(frame, dev.data)
FrameCondition == DevFrameCondition(dev, frame, v, now, path)

(* ---- the laws once more, on integers ---------------------------------------------------------- *)
IntOf(w) == WToS32(w)                                  \* the grid values are small
Bit(byte, k) == (byte \div (2 ^ k)) % 2
Raw(p) == IF p.n = 1 THEN frame[p.off + 1] ELSE frame[p.off + 1] + 256 * frame[p.off + 2]
Signed(x, n) == IF x >= 2 ^ (8 * n - 1) THEN x - 2 ^ (8 * n) ELSE x
IntGet(p) == IF p.bit >= 0 THEN Bit(frame[p.off + 1], p.bit) ELSE IF p.s = 1 THEN Signed(Raw(p), p.n) ELSE Raw(p)
IntHolds(p, x) == p.bit >= 0 \/ (IF p.s = 1 THEN x >= 0 - 2 ^ (8 * p.n - 1) /\ x < 2 ^ (8 * p.n - 1)
                                 ELSE x >= 0 /\ x < 2 ^ (8 * p.n))
IntDraw(t) == ((t % 65536) * 40325 + 1) % 65536          \* low 16 bits of t * 0xcf019d85 + 1
Max(a, b) == IF a > b THEN a ELSE b

InputIsGet == dev.kind \in {"ai", "di"} => R.v = <<DW(IntGet(dev.data))>> /\ R.frame = frame /\ R.pre
OutputIsSet == dev.kind \in {"ao", "do"} =>
    /\ R.pre <=> IntHolds(dev.data, IntOf(v[1]))
    /\ R.pre => LET g == R.frame  p == dev.data IN
                IF p.bit >= 0 THEN Bit(g[p.off + 1], p.bit) = (IF IntOf(v[1]) # 0 THEN 1 ELSE 0)
                ELSE ProcVarGet(g, p) = v[1]
CounterIsInt == dev.kind = "ctr" /\ path = "fast" /\ R.pre =>
    LET c == IntOf(v[1])  l == IntOf(v[2])  m == IntOf(v[3])  q == IntOf(v[4])  t == IntOf(now) IN
    R.v = <<DW(c + 1), DW(t), DW(IF l = 0 THEN m ELSE Max(m, t - l)), DW(IF l = 0 THEN q ELSE q + (t - l) * (t - l))>>
CounterSlowIsInt == dev.kind = "ctr" /\ path = "slow" => R.v = <<DW(IntOf(v[1]) + 1), v[2], v[3], v[4]>>
DropperIsInt == dev.kind = "drop" /\ path = "fast" /\ R.pre =>
    (R.act = "DROP" <=> IntDraw(IntOf(now)) < IntOf(v[1])) /\ R.v = v /\ R.frame = frame
RandomOutputIsInt == dev.kind = "ro" /\ path = "fast" /\ R.pre =>
    LET s2 == R.v[1] IN
    /\ WFitsU(s2, 4) /\ WTrunc(s2, 2) = WTrunc(DW(IntDraw(IntOf(v[1]))), 2)      \* low 16 bits of the next seed
    /\ Bit(R.frame[dev.data.off + 1], dev.data.bit) = (IF DGt(v[2], s2) THEN 1 ELSE 0)
SlowInert == path = "slow" /\ dev.kind \in {"ro", "drop", "dummy"} => R.v = v /\ R.frame = frame /\ R.act = "TX"
OnlyDropperDrops == R.act = "DROP" => dev.kind = "drop" /\ path = "fast"
=============================================================================
