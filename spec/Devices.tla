------------------------------ MODULE Devices ------------------------------
(* X07 - the bundled devices of ebpfcat/devices.py other than Motor (C26) and Valve (C27):
   AnalogInput, AnalogOutput, DigitalInput, DigitalOutput, RandomOutput, Counter, RandomDropper,
   Dummy.  For each device its LAW: what one cycle of the control loop does to the process image
   (the EtherCAT frame the sync group exchanges, WITHOUT Ethernet header, as in ProcVar.tla) and to
   the device variables (the DeviceVars the user sees).  The same law is demanded of both
   execution paths: Device.update() called by SyncGroup.update_devices in Python, and the eBPF
   that Device.program() emits into the program of a FastSyncGroup (+ Device.fast_update()).

   Where the requirements are taken from
     R1  class docstrings of devices.py: AnalogInput / DigitalInput "will read from there and return
         the result in its parameter `value`"; AnalogOutput / DigitalOutput "will write the `value`
         to that terminal"; RandomOutput "randomly switches its linked digital output on or off,
         with a probability given by `probability`" (probability = value / 0xffffffff, from the
         property of that name); Counter "a fake device counting the loops" with the variables
         count, lasttime, maxtime, squared (the names are the documentation: time of the last
         loop, largest and summed squared difference between consecutive loops); RandomDropper
         "randomly drops EtherCat packets"; Dummy "a placeholder device assuring a terminal is
         initialized".
     R2  doc (ethercat.rst, "Writing a device" / "Four methods of control"): the same device may be
         run by a slow SyncGroup or a FastSyncGroup; DeviceVar docstring: "for non-fast devices
         this acts like normal Python variables", for fast ones it is "the way data is communicated
         to and from the EBPF program".  Hence: same image + same device variables => same outputs
         and same user-visible values on both paths.  Where the paths differ and R1 is silent the
         slow path is the reference and the difference is an OBSERVATION (DevSlowOnly below).
     R3  frame condition (TerminalVar / PacketDesc docstrings: a variable is one value or one bit
         of the process data): a device changes nothing in the image but the bytes / the bit of
         the process variables it was linked to, and no device variable but its own.
     R4  the random source is an oracle: RandomDropper draws r = low 16 bits of
         (ktime * 0xcf019d85 + 1) and drops iff r < rate; RandomOutput draws its next seed
         seed' = (seed * 0xcf019d85 + 1) mod 2^32 and switches on iff value > seed'.  The generator
         constants are the code's (the docstrings name none); what the docstrings promise follows
         from them: seed -> seed' has full period 2^32 (Hull-Dobell: multiplier = 1 mod 4,
         increment odd), so over a period the output is on in exactly `value` cycles
         (frequency value / 2^32, within 2^-32 of `probability`); ktime -> r is a bijection on the
         low 16 bits (odd multiplier), so a uniform clock phase drops min(rate, 65536) / 65536 of
         the packets.  MC_Devices checks both statements on one-byte / two-byte generators.

   Values are exact integers: two's-complement words of DevN = 16 bytes (Wide.tla).  A device
   variable has a format [n, s] (n bytes, s = 1 signed) on the fast path - the DeviceVar
   declaration - and [n |-> 0] on the slow path (a Python attribute holds any integer).  A law is
   only demanded when its exact results are representable (`holds`), and its inputs are legal
   (`pre`).

   device  = [kind |-> "ai" | "ao" | "di" | "do" | "ro" | "ctr" | "drop" | "dummy",
              data |-> the linked process variable (ProcVar.tla; unused for ctr / drop / dummy),
              fm   |-> formats of its device variables, in the order of DevVarNames(kind)]
   A device's variables are a sequence of words in that order.                                   *)
EXTENDS ProcVar

DevN == ProcVarN
DW(v) == WFromInt(v, DevN)
DZero == WZero(DevN)
DOne == DW(1)

DevVarNames(kind) ==
    CASE kind \in {"ai", "ao", "di", "do"} -> <<"value">>
      [] kind = "ro" -> <<"seed", "value">>
      [] kind = "ctr" -> <<"count", "lasttime", "maxtime", "squared">>
      [] kind = "drop" -> <<"rate">>
      [] OTHER -> <<>>
DevKinds == {"ai", "ao", "di", "do", "ro", "ctr", "drop", "dummy"}
(* kinds that read the clock once per cycle (fast path) *)
DevUsesClock(kind) == kind \in {"ctr", "drop"}

(* ---- formats of device variables ------------------------------------------------------------ *)
FmtHolds(f, x) == IF f.n = 0 THEN TRUE
                  ELSE IF f.s = 1 THEN WFitsS(x, f.n) ELSE ~WIsNeg(x) /\ WFitsU(x, f.n)
FmtDecode(bytes, f) == IF f.s = 1 THEN WSext(bytes, DevN) ELSE WZext(bytes, DevN)
FmtAllHold(fm, v) == \A j \in 1 .. Len(v) : FmtHolds(fm[j], v[j])
U32 == [n |-> 4, s |-> 0]
U64 == [n |-> 8, s |-> 0]

(* ---- the generator shared by RandomOutput and RandomDropper (R4) --------------------------- *)
LcgA == <<133, 157, 1, 207, 0, 0, 0, 0, 0, 0, 0, 0, 0, 0, 0, 0>>          \* 0xcf019d85
(* x * 0xcf019d85 + 1, reduced to m bytes; x any non-negative integer below 2^64 *)
Lcg(x, m) == WZextFrom(WAdd(WMul(x, LcgA), DOne), m)
NextSeed(seed) == Lcg(seed, 4)
DropDraw(now) == Lcg(now, 2)
(* a > b on exact integers *)
DGt(a, b) == WSLt(b, a)

(* ---- the laws ------------------------------------------------------------------------------- *)
(* result of one device's cycle: the image and its variables afterwards, the verdict on the packet
   (fast path: XDP action of the group's program so far; "TX" = goes on), `pre` / `holds` as above *)
DevRes(frame, v, act, pre, holds) == [frame |-> frame, v |-> v, act |-> act, pre |-> pre, holds |-> holds]
DevNonNeg(v) == \A j \in 1 .. Len(v) : ~WIsNeg(v[j])

(* AnalogInput, DigitalInput: value := the linked input (a bit reads as 0 / 1) *)
InputLaw(dev, frame, v) ==
    LET x == ProcVarGet(frame, dev.data) IN
    DevRes(frame, <<x>>, "TX", TRUE, FmtHolds(dev.fm[1], x))
(* AnalogOutput, DigitalOutput: the linked output := value (a bit: value is not zero) *)
OutputLaw(dev, frame, v) ==
    DevRes(ProcVarSet(frame, dev.data, v[1]), v, "TX", ProcVarHolds(dev.data, v[1]), TRUE)
(* RandomOutput: draw the next seed; on iff value > seed' *)
RandomOutputLaw(dev, frame, v) ==
    LET s2 == NextSeed(v[1]) IN
    DevRes(ProcVarSet(frame, dev.data, IF DGt(v[2], s2) THEN DOne ELSE DZero), <<s2, v[2]>>, "TX",
           FmtHolds(U32, v[1]) /\ FmtHolds(U32, v[2]) /\ ProcVarIsBit(dev.data), TRUE)
(* Counter: count every cycle once; from the second cycle on (lasttime = 0 means: none before)
   record the largest and the summed squared time difference to the previous cycle *)
CounterLaw(dev, frame, v, now) ==
    LET first == WIsZero(v[2])
        dt == WSub(now, v[2])
        v2 == <<WAdd(v[1], DOne), now,
                IF first THEN v[3] ELSE IF DGt(dt, v[3]) THEN dt ELSE v[3],
                IF first THEN v[4] ELSE WAdd(v[4], WMul(dt, dt))>> IN
    DevRes(frame, v2, "TX",
           DevNonNeg(v) /\ FmtHolds(U64, now) /\ FmtHolds(U64, v[2]) /\ FmtHolds(U64, v[3])
           /\ FmtHolds(U64, v[4]) /\ ~WSLt(now, v[2]),
           FmtAllHold(dev.fm, v2))
(* Counter on the slow path (DevSlowOnly): only the count *)
CounterCountLaw(dev, frame, v) ==
    LET v2 == <<WAdd(v[1], DOne), v[2], v[3], v[4]>> IN
    DevRes(frame, v2, "TX", ~WIsNeg(v[1]), FmtAllHold(dev.fm, v2))
(* RandomDropper: drop iff the draw is below the rate; nothing else changes *)
DropperLaw(dev, frame, v, now) ==
    DevRes(frame, v, IF DGt(v[1], DropDraw(now)) THEN "DROP" ELSE "TX",
           ~WIsNeg(v[1]) /\ FmtHolds(U64, now), TRUE)
Identity(frame, v) == DevRes(frame, v, "TX", TRUE, TRUE)

(* what the slow path does where it differs from the law above: RandomOutput, RandomDropper have no
   update() at all, Counter.update() only counts.  R1 does not restrict these devices to fast
   groups, so every slow cycle of such a device is reported as an observation. *)
DevSlowOnly(kind) == kind \in {"ro", "ctr", "drop"}

(* path = "fast" | "slow" *)
DevLaw(dev, frame, v, now, path) ==
    CASE dev.kind \in {"ai", "di"} -> InputLaw(dev, frame, v)
      [] dev.kind \in {"ao", "do"} -> OutputLaw(dev, frame, v)
      [] dev.kind = "ro" -> IF path = "fast" THEN RandomOutputLaw(dev, frame, v) ELSE Identity(frame, v)
      [] dev.kind = "ctr" -> IF path = "fast" THEN CounterLaw(dev, frame, v, now)
                             ELSE CounterCountLaw(dev, frame, v)
      [] dev.kind = "drop" -> IF path = "fast" THEN DropperLaw(dev, frame, v, now) ELSE Identity(frame, v)
      [] OTHER -> Identity(frame, v)

(* ---- a group: the devices of a sync group run in order on one image ------------------------- *)
(* vs: the variables of every device; nows: the clock readings, consumed in order by the devices
   that read the clock (fast path).  A dropped packet ends the cycle: the later devices do not run.
   Result: image, variables, verdict, pre / holds of everything that ran, clock readings used.   *)
RECURSIVE RunDevsR(_, _, _, _, _, _, _, _, _)
RunDevsR(devs, i, frame, vs, nows, j, pre, holds, path) ==
    IF i > Len(devs)
    THEN [frame |-> frame, vs |-> vs, act |-> "TX", pre |-> pre, holds |-> holds, used |-> j - 1, ran |-> i - 1]
    ELSE LET clock == path = "fast" /\ DevUsesClock(devs[i].kind)
             now == IF clock /\ j <= Len(nows) THEN nows[j] ELSE DZero
             r == DevLaw(devs[i], frame, vs[i], now, path)
             vs2 == [vs EXCEPT ![i] = r.v]
             j2 == IF clock THEN j + 1 ELSE j
             pre2 == pre /\ r.pre /\ (clock => j <= Len(nows)) IN
         IF r.act = "DROP"
         THEN [frame |-> r.frame, vs |-> vs2, act |-> "DROP", pre |-> pre2, holds |-> holds /\ r.holds,
               used |-> j2 - 1, ran |-> i]
         ELSE RunDevsR(devs, i + 1, r.frame, vs2, nows, j2, pre2, holds /\ r.holds, path)
RunDevs(devs, frame, vs, nows, path) == RunDevsR(devs, 1, frame, vs, nows, 1, TRUE, TRUE, path)

(* AnalogInput on the fast path: program() is empty, Device.fast_update() copies the input from the
   frame that reached user space; no other device has a fast_update *)
RECURSIVE FastUpdateR(_, _, _, _, _)
FastUpdateR(devs, i, frame, vs, holds) ==
    IF i > Len(devs) THEN [vs |-> vs, holds |-> holds, ran |-> i - 1]
    ELSE IF devs[i].kind # "ai" THEN FastUpdateR(devs, i + 1, frame, vs, holds)
    ELSE LET r == InputLaw(devs[i], frame, vs[i]) IN
         IF ~r.holds THEN [vs |-> vs, holds |-> FALSE, ran |-> i]          \* first value that cannot be stored
         ELSE FastUpdateR(devs, i + 1, frame, [vs EXCEPT ![i] = r.v], holds)
FastUpdate(devs, frame, vs) == FastUpdateR(devs, 1, frame, vs, TRUE)
(* which devices' program() leave the device alone on the fast path *)
DevProgramIdle(kind) == kind \in {"ai", "dummy"}
FastProgramDev(dev) == IF DevProgramIdle(dev.kind) THEN [dev EXCEPT !.kind = "dummy"] ELSE dev
FastProgramDevs(devs) == Mat([i \in 1 .. Len(devs) |-> FastProgramDev(devs[i])], Len(devs))

(* RandomOutput.probability = p (a setter in user space): value := floor(p * 0xffffffff), p = num / den *)
ProbabilityValue(num, den) ==
    WUDiv(WMul(DW(num), <<255, 255, 255, 255, 0, 0, 0, 0, 0, 0, 0, 0, 0, 0, 0, 0>>), DW(den))

(* ---- frame condition (R3), as statements about the laws ------------------------------------- *)
(* g differs from frame only in the own bytes / the own bit of var *)
FrameOnlyOwn(frame, g, var) ==
    /\ Len(g) = Len(frame)
    /\ \A i \in 1 .. Len(frame) : ~ProcVarOwn(var, i) => g[i] = frame[i]
    /\ ProcVarIsBit(var) =>
         \A k \in 0 .. 7 : k # var.bit =>
            ProcVarBitOf(g[ProcVarPos(var) + 1], k) = ProcVarBitOf(frame[ProcVarPos(var) + 1], k)
DevWritesImage(kind) == kind \in {"ao", "do", "ro"}
DevFrameCondition(dev, frame, v, now, path) ==
    LET r == DevLaw(dev, frame, v, now, path) IN
    /\ Len(r.v) = Len(v)
    /\ IF DevWritesImage(dev.kind) THEN FrameOnlyOwn(frame, r.frame, dev.data) ELSE r.frame = frame
    /\ dev.kind \in {"ao", "do", "drop", "dummy"} => r.v = v          \* user-written variables are only read
    /\ dev.kind = "ro" => r.v[2] = v[2]

THEOREM DevFrame ==
    \A dev \in [kind : DevKinds, data : [start : Nat, off : Nat, bit : -1 .. 7, n : {1, 2, 4, 8}, s : {0, 1}],
                fm : Seq([n : {0, 1, 2, 4, 8}, s : {0, 1}])], frame \in Seq(Byte), now \in [1 .. DevN -> Byte],
       path \in {"fast", "slow"} :
        \A v \in [1 .. Len(DevVarNames(dev.kind)) -> [1 .. DevN -> Byte]] :
            ProcVarInFrame(frame, dev.data) /\ Len(dev.fm) = Len(v) => DevFrameCondition(dev, frame, v, now, path)

(* ---- what the generator constants give (R4), for an m-byte generator ------------------------ *)
(* the seeds of `steps` consecutive cycles starting after seed s *)
RECURSIVE LcgOrbitR(_, _, _, _)
LcgOrbitR(s, m, steps, acc) == IF steps = 0 THEN acc ELSE LcgOrbitR(Lcg(s, m), m, steps - 1, acc \cup {Lcg(s, m)})
LcgOrbit(s, m, steps) == LcgOrbitR(s, m, steps, {})
=============================================================================
