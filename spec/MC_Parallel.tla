---------------------------- MODULE MC_Parallel ----------------------------
(* Model-checking instances of Parallel (C23).
   PSpec    all interleavings of the protocol steps (MaxPre <- Unbounded) or those with at most
            MaxPre preemptions; with the structural invariants TypeOK, LockSound, MutexSound and -
            for the repaired protocol (Mutex = LockedInit = TRUE): the design verification - the
            four property invariants.
   CutSpec  the same, not continued beyond a state that violates the property.  Run with
            `-continue -workers 1` and INVARIANT NewClass, TLC reports, breadth first, the
            shortest interleaving for every class <<violated invariants, last step, phase of
            the participant that took it>> exactly once (the classes seen so far are kept in TLC register 1).  Error traces are
            printed through Alias (only the step taken), so each reads as a schedule.        *)
EXTENDS Parallel
Unbounded == -1
CutNext == Violated = {} /\ PNext
CutSpec == PInit /\ [][CutNext]_pvars
ASSUME TLCSet(1, {})
NewClass == LET c == <<Violated, last.a, IF last.p = None THEN "-" ELSE loc[last.p].ph>> IN
            IF Violated = {} \/ c \in TLCGet(1) THEN TRUE
            ELSE TLCSet(1, TLCGet(1) \cup {c}) /\ FALSE
(* participants are interchangeable: as a CONSTRAINT, lets them take their first step in the order
   p1, p2, p3 only (a symmetry reduction that loses no class) *)
Idx(p) == CHOOSE i \in 1 .. 3 : <<"p1", "p2", "p3">>[i] = p
StartOrder == \A p, q \in Procs : (Idx(p) < Idx(q) /\ loc[p].ph = "idle") => loc[q].ph = "idle"
(* Coverage of the failing start-up calls: with INVARIANT NewFault (and -continue) TLC reports the
   shortest behaviour that ends with a failing call for every class <<the call, what the other
   participants are doing at that moment>> (classes seen so far in register 2).  The replay then
   lets the error handler run and everybody else carry on. *)
ASSUME TLCSet(2, {})
NewFault == LET c == <<last.a, IF last.p = None THEN <<>> ELSE [q \in Procs \ {last.p} |-> loc[q].ph]>> IN
            IF ~last.f \/ c \in TLCGet(2) THEN TRUE
            ELSE TLCSet(2, TLCGet(2) \cup {c}) /\ FALSE
Alias == [last |-> last, viol |-> Violated, ph |-> IF last.p = None THEN "-" ELSE loc[last.p].ph]
=============================================================================
