SPECIFICATION HSpec
CONSTANTS Masters <- mcMasters
          Ks <- mcKs
          Kinds <- mcKinds
          Crowds <- mcCrowds
INVARIANT Emit
CHECK_DEADLOCK FALSE
