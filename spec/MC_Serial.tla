---------------------------- MODULE MC_Serial ----------------------------
(* exhaustive model of Serial: free interleaving of application writes, terminal actions (any
   delays) and device updates (any of the permitted choices), small payloads made of numbered
   bytes so that loss, duplication and reordering all show *)
EXTENDS Serial
CONSTANTS MaxBytes,     \* bytes the application writes in total
          MaxWrite,     \* largest single write
          MaxAnn        \* chunks the terminal announces

Run(from, k) == [i \in 1 .. k |-> from + i]

MCNext ==
    \/ \E k \in 1 .. MaxWrite : Len(written) + k <= MaxBytes /\ AppWrite(Run(Len(written), k))
    \/ \E ta, rr \in BOOLEAN : TInitAck(ta, rr)
    \/ TReady
    \/ TAccept
    \/ \E k \in 0 .. MaxChunk : nAnn < MaxAnn /\ TAnnounce(Run(100 + Len(announced), k))
    \/ inStr # <<99>> /\ TScribble(<<99>>)
    \/ UpdateIdle(TRUE, outStr)
    \/ \E os \in {outStr, <<>>} :
         \/ UpdateConnect(os)
         \/ \E ack \in BOOLEAN, n \in 0 .. MaxChunk : UpdateData(ack, n, os)
MCSpec == SInit /\ [][MCNext]_svars
(* vacuity guard: expected to be violated, i.e. the full transfer is reachable *)
NotAllDone == ~(Quiescent /\ Len(written) = MaxBytes /\ nAnn = MaxAnn /\ nPres >= 2)
=============================================================================
