-------------------------- MODULE MC_DevicesCounter --------------------------
(* X07 - what Counter's variables mean over a history (R1): after any number of cycles at the
   clock readings t1 < t2 < ... (differences from Dts), starting from the all-zero variables of a
   fresh group,  count = number of cycles,  lasttime = the last reading,  maxtime = the largest
   difference between consecutive readings,  squared = the sum of their squares.  The ghost
   variables n, big, sum accumulate exactly those quantities; the device variables evolve by
   Devices!CounterLaw only.                                                                     *)
EXTENDS Devices, TLC
CONSTANTS Dts, T0s, MaxCycles
VARIABLES v, t, n, big, sum
vars == <<v, t, n, big, sum>>
Ctr == [kind |-> "ctr", data |-> [start |-> 0, off |-> 0, bit |-> -1, n |-> 1, s |-> 0], fm |-> <<U32, U64, U64, U64>>]

Init == v = <<DZero, DZero, DZero, DZero>> /\ t \in T0s /\ n = 0 /\ big = 0 /\ sum = 0
CycleR(dt, t2, r) ==                                  \* r passed as an argument: evaluated once
             /\ r.pre /\ r.holds
             /\ v' = r.v /\ t' = t2 /\ n' = n + 1
             /\ big' = IF n = 0 THEN 0 ELSE IF dt > big THEN dt ELSE big
             /\ sum' = IF n = 0 THEN 0 ELSE sum + dt * dt
Cycle(dt, t2) == n < MaxCycles /\ CycleR(dt, t2, CounterLaw(Ctr, <<0>>, v, DW(t2)))
Next == \E dt \in Dts : Cycle(dt, IF n = 0 THEN t ELSE t + dt)
Spec == Init /\ [][Next]_vars

CountsCycles == v[1] = DW(n)
LastTime == n > 0 => v[2] = DW(t)
MaxTime == v[3] = DW(big)
Squared == v[4] = DW(sum)
=============================================================================
