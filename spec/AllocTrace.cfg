SPECIFICATION TSpec
CONSTANTS MaxFrame = 1500
          MaxDgrams = 15
CONSTRAINT Progress
POSTCONDITION Post
CHECK_DEADLOCK FALSE
