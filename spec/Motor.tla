------------------------------- MODULE Motor -------------------------------
(* C26 - the control law of the fast Motor device, as the property states it.

   All quantities are exact integers, represented as two's-complement words of one common
   length n (Wide.tla; n = 16 bytes for the machine runs, so that neither the difference
   target - position nor the product with the gain can wrap; n = 4 for the small exhaustive
   grid of MC_Motor).  low / high are the states of the limit switches.

       desired  = gain * (target - position)
       limited  = desired, limited to [prev - acc, prev + acc]      (acceleration limit)
       clamped  = limited, limited to [-vmax, vmax]                 (velocity limit)
       Law      = 0 if an active switch blocks the direction of clamped
                  (low switch: negative, high switch: positive), else clamped              *)
EXTENDS Wide

WSGt(a, b) == WSLt(b, a)
(* x limited to [lo, hi]; for lo <= hi *)
Clamp(x, lo, hi) == IF WSLt(x, lo) THEN lo ELSE IF WSLt(hi, x) THEN hi ELSE x

Desired(target, pos, gain) == WMul(gain, WSub(target, pos))
AccLimited(d, acc, prev) == Clamp(d, WSub(prev, acc), WAdd(prev, acc))
VelLimited(a, vmax) == Clamp(a, WNeg(vmax), vmax)
Blocked(b, low, high) ==
    IF (low /\ WIsNeg(b)) \/ (high /\ ~WIsNeg(b) /\ ~WIsZero(b)) THEN WZero(Len(b)) ELSE b

Law(target, pos, gain, acc, vmax, prev, low, high) ==
    Blocked(VelLimited(AccLimited(Desired(target, pos, gain), acc, prev), vmax), low, high)

(* the preconditions of the property that can be stated on exact values: a velocity limit within
   the range of the 16-bit output (both +vmax and -vmax representable), an acceleration limit
   that is a magnitude, a previous velocity within the velocity limit.  ("the desired velocity
   fits in 64 bits" is a statement about the 16-byte representation: see MotorRun.)            *)
InRange(x, lo, hi) == WSLe(lo, x) /\ WSLe(x, hi)
Pre(acc, vmax, prev, outmax) ==
    /\ InRange(vmax, WZero(Len(vmax)), outmax)
    /\ ~WIsNeg(acc)
    /\ InRange(prev, WNeg(vmax), vmax)

(* ---- consequences of the law (the second sentence of the property) ------------------------ *)
(* never exceeds the velocity limit *)
ThmBound(v, vmax) == InRange(v, WNeg(vmax), vmax)
(* never drives into an active limit switch *)
ThmSwitch(v, low, high) == (low => ~WIsNeg(v)) /\ (high => (WIsNeg(v) \/ WIsZero(v)))
(* never changes by more than the acceleration limit except to stop *)
ThmAcc(v, acc, prev) == WIsZero(v) \/ InRange(WSub(v, prev), WNeg(acc), acc)

Consequences(v, acc, vmax, prev, low, high) ==
    ThmBound(v, vmax) /\ ThmSwitch(v, low, high) /\ ThmAcc(v, acc, prev)

(* The theorem, for word lengths in which nothing wraps: every input fits k bytes with
   2k + 1 <= n (so the difference fits k + 1 bytes, the product 2k + 1).  TLC checks it on the
   exhaustive small grid of MC_Motor (n = 4) and, in MotorRun, on the inputs of every machine run
   (n = 16, inputs of at most 33 bits).                                                        *)
NoWrap(n, xs) == \A x \in xs : WFitsS(x, (n - 1) \div 2)
THEOREM LawConsequences ==
    \A n \in Nat \ {0, 1, 2} : \A target, pos, gain, acc, vmax, prev, outmax \in [1 .. n -> Byte] :
      \A low, high \in BOOLEAN :
        NoWrap(n, {target, pos, gain, acc, vmax, prev}) /\ Pre(acc, vmax, prev, outmax) =>
            Consequences(Law(target, pos, gain, acc, vmax, prev, low, high),
                         acc, vmax, prev, low, high)
=============================================================================
