---------------------------- MODULE SerialTrace ----------------------------
(* Trace validation for C28: a recorded run - application writes, the steps of the scripted
   terminal, and for every Serial.update() the output half of the real process image afterwards
   and the bytes that arrived in the application's pipe - must be a behaviour of Serial, and must
   end with everything transferred.  (The invariants of Serial are established for all behaviours
   in MC_Serial; they are not listed in SerialTrace.cfg because TLC stops a whole batch at the
   first violated invariant - a run that leaves the specification is rejected at the step where
   it does so, or at its end by Quiescent.)                                                     *)
EXTENDS Serial, Json, IOUtils, TLCExt
Traces == JsonDeserialize(IOEnv.TRACE_FILE)
VARIABLES tid, l
tvars == <<svars, tid, l>>

TInit == tid \in 1 .. Len(Traces) /\ l = 1 /\ SInit

Marker == <<65>>   \* b"A": what Serial.connect() takes from the pipe as "the channel is up"

(* an update, with ack / n / outStr read off the observed image *)
TUpdate(e) ==
    /\ e.res = "ok"
    /\ TR' = e.TR /\ RA' = e.RA /\ IR' = e.IR /\ outStr' = e.outStr
    /\ IF connected
       THEN /\ UpdateData(e.RA # RA, IF e.TR # TR THEN Len(e.outStr) ELSE 0, e.outStr)
            /\ delivered' = delivered \o e.got
       ELSE \/ UpdateIdle(e.IR, e.outStr) /\ e.got = <<>>
            \/ UpdateConnect(e.outStr) /\ e.got = Marker

TStep(e) ==
    \/ e.op = "write" /\ AppWrite(e.data)
    \/ e.op = "t_initack" /\ TInitAck(e.TA, e.RR)
    \/ e.op = "t_ready" /\ TReady
    \/ e.op = "t_accept" /\ TAccept /\ e.took = outStr
    \/ e.op = "t_announce" /\ TAnnounce(e.data)
    \/ e.op = "t_scribble" /\ TScribble(e.data)
    \/ e.op = "update" /\ TUpdate(e)
    \/ e.op = "end" /\ e.left = 0 /\ Quiescent /\ UNCHANGED svars

TNext == /\ l <= Len(Traces[tid].ev)
         /\ l' = l + 1 /\ UNCHANGED tid
         /\ TStep(Traces[tid].ev[l])
TSpec == TInit /\ [][TNext]_tvars

Max2(a, b) == IF a > b THEN a ELSE b
Progress == TLCSet(tid, Max2(TLCGet(tid), l))
ASSUME \A i \in 1 .. Len(Traces) : TLCSet(i, 0)
Post == \A i \in 1 .. Len(Traces) : PrintT(<<"RESULT", i, TLCGet(i) - 1, Len(Traces[i].ev)>>)
=============================================================================
