-------------------------- MODULE SiiAccessScripts --------------------------
(* Environment behaviours for X02, printed once each for replay on the real code.

   A script = an EEPROM image structure + the ESC it sits behind + the calls the driver makes:
     lens   word lengths of the categories (types are given by the driver: distinct, none
            reserved), tail = words stored after the end marker, fill = "count" (all bytes
            different from 0xFF and from the simulator's junk byte) or "ff" (category data all
            0xFF: looks like end markers)
     cfg    cap8 (8 bytes per read command), sticky (bit 13 blocks commands until cleared),
            own (0 master has the EEPROM, 1 assigned to the PDI, 2 taken by the PDI),
            ck / dev (status bits 11 / 12), init (status polls the interface is still busy
            with an earlier command when the first call starts)
     busy   busy durations (in polls) of the accepted commands, repeated cyclically
     errs   errs[k]: the k-th accepted command ends with bit 13 (no acknowledge); commands
            beyond Len(errs) end well - only finitely many failures, so that retrying ends
     calls  [op, a, v]: read4 = EtherCat.eeprom_read, read8 = Terminal._eeprom_read_one,
            write = Terminal.eeprom_write_one (v = the word, low byte first),
            image = Terminal.read_eeprom

   Families (a full product would be large and mostly redundant - what interacts is crossed):
     "image"  every category structure x tail x fill x cap8 x initial busy x busy patterns,
              one read_eeprom on a well-behaved ESC      (R4, R5: ends on/off 4/8-byte bounds)
     "clean"  one or two calls x cap8 x initial busy x every busy pattern         (M1, R1, R3, R6)
     "err"    one or two calls x cap8 x sticky x every non-empty failure pattern  (R2, R3; O1)
     "own"    one call x cap8 x EEPROM assigned to / taken by the PDI             (M2; O3)
     "ck"     one call x cap8 x checksum / device-information bit                 (R3, R5; O2)
   Deep = FALSE (quick tier): the image family without initial busy and with one busy pattern,
   pairs of calls only after the write into a category.                                         *)
EXTENDS Integers, Sequences, TLC, Json
CONSTANTS MaxCats, MaxCatLen, MaxTail, MaxBusy, PatLen, MaxInit, Deep
VARIABLES s

Seqs(S, n) == UNION {[1 .. k -> S] : k \in 0 .. n}
RECURSIVE Sum(_, _)
Sum(f, k) == IF k = 0 THEN 0 ELSE f[k] + Sum(f, k - 1)
FirstWord == 64
EndWord(lens) == FirstWord + 2 * Len(lens) + Sum(lens, Len(lens))

Cfg(cap8, sticky, own, ck, dev, init) ==
    [cap8 |-> cap8, sticky |-> sticky, own |-> own, ck |-> ck, dev |-> dev, init |-> init]
C(op, a, v) == [op |-> op, a |-> a, v |-> v]
BusyPats == [1 .. PatLen -> 0 .. MaxBusy]
ErrPats == [1 .. PatLen -> BOOLEAN] \ {[k \in 1 .. PatLen |-> FALSE]}
SomeBusy == [k \in 1 .. PatLen |-> IF k = 1 THEN 1 ELSE 0]
NoBusy == [k \in 1 .. PatLen |-> 0]

ImageScripts ==
    {[part |-> "image", lens |-> ls, tail |-> t, fill |-> f,
      cfg |-> Cfg(c, FALSE, 0, FALSE, FALSE, i), busy |-> b, errs |-> <<>>,
      calls |-> <<C("image", 0, <<>>)>>] :
        ls \in Seqs(0 .. MaxCatLen, MaxCats), t \in 0 .. MaxTail, f \in {"count", "ff"},
        c \in BOOLEAN, i \in (IF Deep THEN {0, MaxInit} ELSE {0}),
        b \in (IF Deep THEN {NoBusy, SomeBusy} ELSE {SomeBusy})}

(* the image of the protocol families: two categories of 1 and 2 words, one word of tail *)
PLens == <<1, 2>>
PTail == 1
PEnd == EndWord(PLens)
Reads == {C("read4", 8, <<>>), C("read4", FirstWord + 1, <<>>), C("read4", PEnd, <<>>),
          C("read4", PEnd + PTail + 1, <<>>), C("read8", 12, <<>>), C("read8", PEnd - 1, <<>>)}
Writes == {C("write", 14, <<52, 18>>), C("write", FirstWord + 2, <<205, 171>>)}
Singles == Reads \cup Writes \cup {C("image", 0, <<>>)}
Firsts == IF Deep THEN Singles ELSE {C("write", FirstWord + 2, <<205, 171>>)}
CallSeqs == {<<x>> : x \in Singles} \cup {<<x, y>> : x \in Firsts, y \in Singles}
Proto(part, cfg, b, e, calls) ==
    [part |-> part, lens |-> PLens, tail |-> PTail, fill |-> "count", cfg |-> cfg, busy |-> b,
     errs |-> e, calls |-> calls]

CleanScripts == {Proto("clean", Cfg(c, FALSE, 0, FALSE, FALSE, i), b, <<>>, cs) :
                    c \in BOOLEAN, i \in 0 .. MaxInit, b \in BusyPats, cs \in CallSeqs}
ErrScripts == {Proto("err", Cfg(c, st, 0, FALSE, FALSE, 0), SomeBusy, e, cs) :
                    c \in BOOLEAN, st \in BOOLEAN, e \in ErrPats, cs \in CallSeqs}
OwnScripts == {Proto("own", Cfg(c, FALSE, o, FALSE, FALSE, 0), SomeBusy, <<>>, <<x>>) :
                    c \in BOOLEAN, o \in {1, 2}, x \in Singles}
CkScripts == {Proto("ck", Cfg(c, FALSE, 0, k, ~k, 0), SomeBusy, <<>>, <<x>>) :
                    c \in BOOLEAN, k \in BOOLEAN, x \in Singles}

All == ImageScripts \cup CleanScripts \cup ErrScripts \cup OwnScripts \cup CkScripts
SInit == s \in All
SSpec == SInit /\ [][UNCHANGED s]_s
Emit == PrintT(<<"SCRIPT", ToJson(s)>>)
=============================================================================
