SPECIFICATION CSpec
CONSTANTS Modes <- mcModes
          InSizes <- mcIn
          OutSizes <- mcOut
          MaxT = 2
          MaxG = 1
          AeroPad = 36
          MaxFrame = 1500
          MaxDgrams = 15
          Deltas <- mcDeltas
INVARIANT EmitB
CHECK_DEADLOCK FALSE
