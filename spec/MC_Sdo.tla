---------------------------- MODULE MC_Sdo ----------------------------
(* The design: a client that uses every freedom the protocol gives (expedited or normal,
   any fragment sizes that fit) against the conformant server, for all value lengths
   0..MaxLen, with and without complete access.  Shows that Sdo || CoE has the property:
   DownloadExact, UploadExact, ReqFits, ServerAtRest, and no deadlock (every legal request
   has a reply the server accepts, every transfer comes to its end).                        *)
EXTENDS Sdo

CONSTANTS MaxLen,      \* value lengths 0..MaxLen
          Pairs,       \* mailbox size pairs, written MbxOut * 100 + MbxIn
          AllowAbort   \* whether the server may abort of its own accord

Val(n) == [i \in 1 .. n |-> i]                    \* byte i identifies position i
Objs == {[index |-> 8193, ca |-> FALSE, sub |-> 3, mbxout |-> p \div 100, mbxin |-> p % 100] : p \in Pairs}
        \cup {[index |-> 515, ca |-> TRUE, sub |-> 1, mbxout |-> p \div 100, mbxin |-> p % 100] : p \in Pairs}

d == cl.data
CDownExp == Msg(2, 32 + 16 * CaBit + 4 * (4 - Len(d)) + 3, AddrBytes \o Pad4(d))
CDownNorm(k) == Msg(2, 32 + 16 * CaBit + 1, AddrBytes \o ToLE4(Len(d)) \o Take(d, k))
CDownSeg(k) == Msg(2, 16 * cl.tog + (IF k < 7 THEN 2 * (7 - k) ELSE 0)
                      + (IF cl.off + k = Len(d) THEN 1 ELSE 0),
                   Pad7(SubSeq(d, cl.off + 1, cl.off + k)))
CUpInit == Msg(2, 64 + 16 * CaBit, AddrBytes \o Zeros(4))
CUpSeg == Msg(2, 96 + 16 * cl.tog, Zeros(7))

MCInit == \E o \in Objs, n \in 0 .. MaxLen : Init(o, Val(n))

ClientStep ==
    \/ /\ cl.op = "down" /\ cl.phase = "init"
       /\ \/ Len(d) \in 1 .. 4 /\ CSend(CDownExp)
          \/ \E k \in 0 .. Min2(Len(d), MbxOut - 16) : CSend(CDownNorm(k))
    \/ /\ cl.op = "down" /\ cl.phase = "seg"
       /\ \E k \in 1 .. Min2(Len(d) - cl.off, MbxOut - 9) : CSend(CDownSeg(k))
    \/ cl.op = "up" /\ cl.phase = "init" /\ CSend(CUpInit)
    \/ cl.op = "up" /\ cl.phase = "seg" /\ CSend(CUpSeg)

ServerStep ==
    /\ req # <<>>
    /\ LET c == Ccs(req[1].cmd) IN
         \/ c = 1 /\ SReply(RDownInit)
         \/ c = 0 /\ SReply(RDownSeg(srv.tog))
         \/ c = 2 /\ Len(val) \in 1 .. 4 /\ SReply(RUpExp(val))
         \/ c = 2 /\ \E k \in 0 .. Min2(Len(val), MbxIn - 16) : SReply(RUpNorm(val, k))
         \/ c = 3 /\ \E k \in 1 .. Min2(Len(srv.buf), MbxIn - 9) : SReply(RUpSeg(srv.buf, k, srv.tog))
         \/ AllowAbort /\ SReply(RAbort(<<0, 0, 0, 8>>))

MCNext ==
    \/ \E n \in 0 .. MaxLen : Start("down", Val(n))
    \/ Start("up", <<>>)
    \/ ClientStep
    \/ ServerStep
    \/ Finish([res |-> "ok", value |-> cl.got])
    \/ cl.phase = "done" /\ UNCHANGED vars

MCSpec == MCInit /\ [][MCNext]_vars

(* between exchanges client and server agree on the next toggle (0 for the first segment) *)
TogglesAgree == (req = <<>> /\ cl.phase = "seg") => (cl.tog = srv.tog /\ srv.st # "idle")
=============================================================================
