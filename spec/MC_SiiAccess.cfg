SPECIFICATION MCSpec
CONSTANTS MaxBusy = 1
          MaxErr = 2
          MaxTries = 1
          MaxCalls = 1
          Images <- MCImagesQuick
          Addrs = {8, 66, 69, 80}
          WAddrs = {14, 66}
          WVals <- MCVals
          ImageOps = TRUE
INVARIANTS NoBreach
           Correct
           NeverFails
           ATypeOK
PROPERTY Terminates
CHECK_DEADLOCK FALSE
