SPECIFICATION TSpec
CONSTANTS Clients = {"parent", "child"}
CONSTRAINT Progress
POSTCONDITION Post
CHECK_DEADLOCK FALSE
