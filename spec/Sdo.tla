------------------------------- MODULE Sdo -------------------------------
(* C16 - obligations of an SDO client, composed with the conformant server of CoE.

   A transfer:  Start, then alternately  CSend(m)  (the client puts one request into the
   master -> terminal mailbox) and  SReply(r)  (the server answers it), possibly with
   SMail(u)  (unrelated mail) in between, then  Finish(out)  (the client call returns or
   raises).  What a client may send is stated as predicates over the message and the client's
   own abstract state; wherever the protocol leaves freedom (expedited or normal for 1..4
   bytes, fragment sizes, reserved bytes, padding) any choice is accepted.

   Required (the property):  every message fits its mailbox (in CSend / SReply / SMail),
   after a download that was not aborted the server's value is the client's bytes, the result
   of an upload that was not aborted is the server's bytes; toggles start at 0 and alternate
   (client side here, server side in CoE).                                                   *)
EXTENDS CoE

CONSTANT MinSeg        \* least number of data bytes in a non-final download segment (0 or 1)

VARIABLES cl,          \* the client's transfer state
          req,         \* the request waiting for its reply: <<m>> or <<>>
          aborted      \* the server has aborted this transfer

vars == <<svars, cl, req, aborted>>

ClIdle == [op |-> "none", phase |-> "idle", data |-> <<>>, off |-> 0, tog |-> 0,
           got |-> <<>>, total |-> 0]

Init(o, v) == SInit(o, v) /\ cl = ClIdle /\ req = <<>> /\ aborted = FALSE

Start(op, data) ==
    /\ cl.phase = "idle" /\ op \in {"down", "up"}
    /\ cl' = [ClIdle EXCEPT !.op = op, !.phase = "init", !.data = data]
    /\ UNCHANGED <<svars, req, aborted>>

---------------------------------------------------------------------------
(* what the client may send *)
IsDownExp(m) ==
    /\ Ccs(m.cmd) = 1 /\ Addresses(m) /\ Bit(m.cmd, 1) = 1 /\ Bit(m.cmd, 0) = 1
    /\ Len(cl.data) \in 1 .. 4 /\ N2(m.cmd) = 4 - Len(cl.data)
    /\ Take(F4(m), Len(cl.data)) = cl.data
IsDownNorm(m) ==
    /\ Ccs(m.cmd) = 1 /\ Addresses(m) /\ Bit(m.cmd, 1) = 0 /\ Bit(m.cmd, 0) = 1
    /\ LE4(F4(m)) = Len(cl.data)                        \* the complete size
    /\ Len(Rest(m)) <= Len(cl.data)
    /\ Rest(m) = Take(cl.data, Len(Rest(m)))
IsDownSeg(m) ==
    /\ Ccs(m.cmd) = 0 /\ Len(m.body) >= 7
    /\ Bit(m.cmd, 4) = cl.tog
    /\ LET k == SegLen(m) IN
         /\ k >= 0 /\ cl.off + k <= Len(cl.data)
         /\ SegData(m) = SubSeq(cl.data, cl.off + 1, cl.off + k)
         /\ Bit(m.cmd, 0) = (IF cl.off + k = Len(cl.data) THEN 1 ELSE 0)
         /\ (Bit(m.cmd, 0) = 0 => k >= MinSeg)
IsUpInit(m) == Ccs(m.cmd) = 2 /\ Addresses(m)
IsUpSeg(m) == Ccs(m.cmd) = 3 /\ Bit(m.cmd, 4) = cl.tog

CSend(m) ==
    /\ req = <<>>
    /\ Framed(m, MbxOut) /\ m.svc = 2                   \* fits the mailbox
    /\ \/ /\ cl.op = "down" /\ cl.phase = "init" /\ IsDownExp(m)
          /\ cl' = [cl EXCEPT !.phase = "wait", !.off = Len(cl.data)]
       \/ /\ cl.op = "down" /\ cl.phase = "init" /\ IsDownNorm(m)
          /\ cl' = [cl EXCEPT !.phase = "wait", !.off = Len(Rest(m))]
       \/ /\ cl.op = "down" /\ cl.phase = "seg" /\ IsDownSeg(m)
          /\ cl' = [cl EXCEPT !.phase = "wait", !.off = cl.off + SegLen(m), !.tog = 1 - cl.tog]
       \/ /\ cl.op = "up" /\ cl.phase = "init" /\ IsUpInit(m)
          /\ cl' = [cl EXCEPT !.phase = "wait"]
       \/ /\ cl.op = "up" /\ cl.phase = "seg" /\ IsUpSeg(m)
          /\ cl' = [cl EXCEPT !.phase = "wait", !.tog = 1 - cl.tog]
    /\ req' = <<m>>
    /\ UNCHANGED <<svars, aborted>>

---------------------------------------------------------------------------
(* the server answers the pending request; the client takes the answer in *)
CAbsorb(r) ==
    IF r.cmd = 128 /\ r.svc = 2
    THEN cl' = [cl EXCEPT !.phase = "fin"]
    ELSE IF cl.op = "down"
    THEN cl' = [cl EXCEPT !.phase = IF cl.off = Len(cl.data) THEN "fin" ELSE "seg"]
    ELSE IF Ccs(r.cmd) = 2                                   \* upload initiate response
    THEN IF Bit(r.cmd, 1) = 1
         THEN cl' = [cl EXCEPT !.phase = "fin", !.got = Take(F4(r), 4 - N2(r.cmd))]
         ELSE cl' = [cl EXCEPT !.got = Rest(r), !.total = LE4(F4(r)),
                               !.phase = IF Len(Rest(r)) = LE4(F4(r)) THEN "fin" ELSE "seg"]
    ELSE cl' = [cl EXCEPT !.got = cl.got \o SegData(r),      \* upload segment response
                          !.phase = IF Bit(r.cmd, 0) = 1 THEN "fin" ELSE "seg"]

SReply(r) ==
    /\ req # <<>> /\ cl.phase = "wait"
    /\ SrvReply(req[1], r)
    /\ CAbsorb(r)
    /\ aborted' = (aborted \/ (r.cmd = 128 /\ r.svc = 2))
    /\ req' = <<>>

SMail(u) ==
    /\ req # <<>> /\ Unrelated(u)
    /\ UNCHANGED vars

(* the client call ends.  out = [res |-> "ok" | "raise", value |-> bytes returned by an upload].
   After an abort by the server the property requires nothing of the outcome.               *)
Finish(out) ==
    /\ cl.phase = "fin" /\ req = <<>>
    /\ \/ aborted
       \/ /\ out.res = "ok"
          /\ (cl.op = "up" => out.value = cl.got)
    /\ cl' = [cl EXCEPT !.phase = "done"]
    /\ UNCHANGED <<svars, req, aborted>>

---------------------------------------------------------------------------
(* the property, as invariants of the composition *)
DownloadExact == (cl.phase \in {"fin", "done"} /\ cl.op = "down" /\ ~aborted) => val = cl.data
UploadExact == (cl.phase \in {"fin", "done"} /\ cl.op = "up" /\ ~aborted) => cl.got = val
ReqFits == req # <<>> => req[1].wlen <= MbxOut
ServerAtRest == cl.phase \in {"fin", "done"} => srv = Idle
=============================================================================
