--------------------------- MODULE SiiAccessTrace ---------------------------
(* Trace validation for X02: the accesses the real EtherCat.eeprom_read, Terminal._eeprom_read_one,
   Terminal.eeprom_write_one and Terminal.read_eeprom made to the simulated ESC
   (harness/siiesc.py; every datagram that reached the terminal, in bus order) and what the calls
   returned must be a behaviour of SiiAccess in which the master keeps M1-M3 and every call ends
   as R1-R6 demand.  The register values the simulator showed are checked against the ESC of the
   specification at every read (simulator == specification, wherever the ESC defines the value).

   A trace: [image |-> bytes,
             cfg   |-> [cap8, sticky, own, ck, dev, init],     the ESC at the start (init: busy)
             ev    |-> << [k |-> "call", op, a, v],            v: the two bytes to write, or <<>>
                          [k |-> "rd", off, data], [k |-> "wr", off, data],   clipped to 0x500..0x50F
                          [k |-> "other", ...],                access outside the SII registers
                          [k |-> "ret", ok |-> TRUE, data | id, cats],
                          [k |-> "exc", ok |-> FALSE], [k |-> "stall"],
                          [k |-> "end", ee] >>]                the simulator's EEPROM at the end

   Every trace is validated without relaxation (variant 0) and, in the same run, under each single
   relaxation that is applicable to it (variants 1, 2, 3 = O1, O2, O3) and under all applicable
   ones together (variant 7); one RESULT line per trace and variant.  A trace that only a relaxed
   variant accepts is an OBSERVATION, one that none accepts a violation.

   Relaxations (SiiAccess, OBSERVATIONS), each applicable only where its predicate holds:
     O1  a read / image call during which the ESC showed bit 13 or 14 may end in any way;
     O2  an eeprom_write_one that has written its word may stall while bit 11 or 12 is set;
     O3  with the EEPROM assigned to the PDI at the start, M2 is waived and a call that wrote
         to the disowned interface may return anything (a read may also run away on the
         junk it takes for category headers: stall).                                        *)
EXTENDS SiiAccess, Json, IOUtils
Traces == JsonDeserialize(IOEnv.TRACE_FILE)
VARIABLES tid, l, rx        \* rx: the relaxations in force (a sequence of names)
tvars == <<avars, tid, l, rx>>

Relaxed(o) == \E i \in 1 .. Len(rx) : rx[i] = o

(* which observations can apply to a trace at all (computed here, from the recorded ESC) *)
ErrShown(e) == e.k = "rd" /\ Cov(e.off, e.data, RegCmd)
               /\ (Bit(At(e.off, e.data, RegCmd), 32) \/ Bit(At(e.off, e.data, RegCmd), 64))
Applicable(t) ==
    (IF \E i \in 1 .. Len(t.ev) : ErrShown(t.ev[i]) THEN <<"O1">> ELSE <<>>)
    \o (IF t.cfg.ck \/ t.cfg.dev THEN <<"O2">> ELSE <<>>)
    \o (IF t.cfg.own # 0 THEN <<"O3">> ELSE <<>>)
Variants(t) == LET a == Applicable(t) IN {<<>>, a} \cup {<<a[i]>> : i \in 1 .. Len(a)}
Code(r) == IF r = <<>> THEN 0 ELSE IF Len(r) > 1 THEN 7
           ELSE CASE r[1] = "O1" -> 1 [] r[1] = "O2" -> 2 [] r[1] = "O3" -> 3
Reg(i, r) == 8 * i + Code(r)

TInit == /\ tid \in 1 .. Len(Traces) /\ l = 1 /\ rx \in Variants(Traces[tid])
         /\ ee = Traces[tid].image
         /\ LET c == Traces[tid].cfg IN esc = EscOf(c.cap8, c.sticky, c.own, c.ck, c.dev, c.init)
         /\ cl = ClIdle

TCall(e) == e.k = "call" /\ e.op \in Ops /\ Call(e.op, e.a, e.v)
TRead(e) == /\ e.k = "rd"
            /\ \E r \in Outcomes(esc, ee) : Shows(r.esc, e.off, e.data) /\ DoRead(r, e.off, Len(e.data))
TWrite(e) == /\ e.k = "wr" /\ DoWrite(e.off, e.data)
             /\ cl'.breach = "" \/ (cl'.breach = "owner" /\ Relaxed("O3"))
TRet(e) == /\ e.k \in {"ret", "exc"} /\ cl.pc = "run"
           /\ \/ EndOK(cl, ee, esc, e)
              \/ Relaxed("O1") /\ cl.sawErr /\ cl.op # "write"
              \/ Relaxed("O3") /\ cl.disowned
           /\ cl' = ClIdle /\ UNCHANGED <<ee, esc>>
TStall(e) == /\ e.k = "stall" /\ cl.pc = "run"
             /\ \/ Relaxed("O1") /\ cl.sawErr /\ cl.op # "write"
                \/ Relaxed("O3") /\ cl.disowned /\ cl.op # "write"
                \/ /\ Relaxed("O2") /\ cl.op = "write" /\ (esc.ck \/ esc.dev)
                   /\ ee = Patch(cl.ee0, cl.a, cl.v)
             /\ cl' = ClIdle /\ UNCHANGED <<ee, esc>>

(* simulator == specification also for what the write commands stored *)
TEnd(e) == e.k = "end" /\ cl.pc = "idle" /\ e.ee = ee /\ UNCHANGED avars

TNext == /\ l <= Len(Traces[tid].ev)
         /\ l' = l + 1 /\ UNCHANGED <<tid, rx>>
         /\ LET e == Traces[tid].ev[l] IN TCall(e) \/ TRead(e) \/ TWrite(e) \/ TRet(e) \/ TStall(e)
                                         \/ TEnd(e)
TSpec == TInit /\ [][TNext]_tvars

Max2(a, b) == IF a > b THEN a ELSE b
Progress == TLCSet(Reg(tid, rx), Max2(TLCGet(Reg(tid, rx)), l))
ASSUME \A i \in 1 .. Len(Traces) : \A c \in 0 .. 7 : TLCSet(8 * i + c, 0)
Post == \A i \in 1 .. Len(Traces) : \A r \in Variants(Traces[i]) :
           PrintT(<<"RESULT", i, Code(r), TLCGet(Reg(i, r)) - 1, Len(Traces[i].ev), Applicable(Traces[i])>>)
=============================================================================
