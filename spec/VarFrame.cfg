INIT Init
NEXT Next
INVARIANT ObserveFrame
CHECK_DEADLOCK FALSE
