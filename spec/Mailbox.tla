------------------------------- MODULE Mailbox -------------------------------
(* C15 - mailbox exchanges with one terminal are serialised and counted.

   Users (asyncio tasks of one process, or processes sharing the lock file) perform
   operations.  An operation is one hold of the terminal's mailbox lock: Acquire, then one or
   more exchanges (Send a request that takes the next counter, Recv its response - possibly
   after unrelated mail, which is Recv'd as well), then Release.

   wire  is the history of mailbox messages as the terminal sees them:
         [u |-> user, op |-> number of the user's operation, dir |-> "req"|"rsp", cnt |-> counter]

   Required:  at most one holder;  the wire is a concatenation of whole operations, never
   interleaved, and within an operation every request is answered before the next is sent;
   request counters form the chain  c0, c0%7+1, ...  (0 can only be the very first).          *)
EXTENDS Integers, Sequences, FiniteSets, TLC

CONSTANTS Users,        \* the mailbox users
          None,
          InitCounters  \* counters the first request may carry (0 fresh; 0..7 if persisted)

VARIABLES phase,       \* phase[u]: "idle" -> Begin -> "waiting" -> Acquire -> "holding"
                       \*           -> Release -> "released" -> End -> "idle"
          opno,        \* opno[u]: number of operations u has begun
          holder,      \* the user holding the lock, or None
          pending,     \* the holder has sent a request that is not yet answered
          counter,     \* the counter the next request will carry
          wire

mvars == <<phase, opno, holder, pending, counter, wire>>

Succ(c) == (c % 7) + 1

MInit == /\ phase = [u \in Users |-> "idle"]
         /\ opno = [u \in Users |-> 0]
         /\ holder = None /\ pending = FALSE
         /\ counter \in InitCounters
         /\ wire = <<>>

Begin(u) == /\ phase[u] = "idle"
            /\ phase' = [phase EXCEPT ![u] = "waiting"]
            /\ opno' = [opno EXCEPT ![u] = @ + 1]
            /\ UNCHANGED <<holder, pending, counter, wire>>

Acquire(u) == /\ phase[u] = "waiting" /\ holder = None
              /\ holder' = u /\ phase' = [phase EXCEPT ![u] = "holding"]
              /\ UNCHANGED <<opno, pending, counter, wire>>

Send(u, c) == /\ holder = u /\ phase[u] = "holding" /\ ~pending
              /\ c = counter
              /\ counter' = Succ(counter)
              /\ pending' = TRUE
              /\ wire' = Append(wire, [u |-> u, op |-> opno[u], dir |-> "req", cnt |-> c])
              /\ UNCHANGED <<phase, opno, holder>>

(* the holder reads a mail from the terminal; final = it is the response to its request *)
Recv(u, final) == /\ holder = u /\ phase[u] = "holding" /\ pending
                  /\ pending' = ~final
                  /\ wire' = Append(wire, [u |-> u, op |-> opno[u], dir |-> "rsp", cnt |-> 0])
                  /\ UNCHANGED <<phase, opno, holder, counter>>

Release(u) == /\ holder = u /\ phase[u] = "holding" /\ ~pending
              /\ holder' = None
              /\ phase' = [phase EXCEPT ![u] = "released"]
              /\ UNCHANGED <<opno, pending, counter, wire>>

End(u) == /\ phase[u] = "released"
          /\ phase' = [phase EXCEPT ![u] = "idle"]
          /\ UNCHANGED <<opno, holder, pending, counter, wire>>

MNext == \E u \in Users : \/ Begin(u) \/ Acquire(u) \/ Send(u, counter)
                          \/ \E f \in BOOLEAN : Recv(u, f)
                          \/ Release(u) \/ End(u)
MSpec == MInit /\ [][MNext]_mvars

-----------------------------------------------------------------------------
OneHolder == Cardinality({u \in Users : phase[u] = "holding"}) <= 1
             /\ (holder # None => phase[holder] = "holding")

(* whole operations: between two messages of one operation there is no message of anyone else *)
NotInterleaved ==
    \A i, k \in 1 .. Len(wire) :
        (i < k /\ wire[i].u = wire[k].u /\ wire[i].op = wire[k].op)
            => \A j \in i .. k : wire[j].u = wire[i].u /\ wire[j].op = wire[i].op

(* every request is answered before the next request goes out *)
Answered ==
    \A i \in 1 .. Len(wire) - 1 :
        wire[i].dir = "req" => (wire[i + 1].dir = "rsp" /\ wire[i + 1].u = wire[i].u)

Reqs == SelectSeq(wire, LAMBDA m : m.dir = "req")
CounterChain ==
    \A i \in 2 .. Len(Reqs) : Reqs[i].cnt = Succ(Reqs[i - 1].cnt)     \* hence never 0 again
=============================================================================
