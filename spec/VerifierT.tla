------------------------------ MODULE VerifierT ------------------------------
(* X10 - spec/Verifier.tla made TOTAL for tabulation only (it is never a judge): on a few well-formed programs the
   original model cannot be evaluated at all (TLC error), which would abort a whole batch:
     - a map handle whose number names no map of the program (VMaps[fd] outside its domain) reaching a helper call,
     - pointer + constant with a constant near 2^31 (TLC integers are 32 bit),
     - a backward jump: the original is written for forward jumps only ("finitely many paths"); around a loop the
       next lookup id, pointer offsets and the proven packet range grow without bound and the exploration never
       ends.  Reaching a jump instruction with a negative offset ends the path with "MODEL-LOOP".
   Such a step ends the path with the pseudo-rule "MODEL-ERROR" (checks/x10.py counts both as `model_error`, i.e. the
   original model gives no verdict); everything else is the original VNext, unchanged.                          *)
EXTENDS Verifier

Hazard ==
    LET i == VIns IN
    \/ /\ i.op = 133 /\ ImmInt(i) \in {1, 2, 3}
       /\ vreg[1].t = "map" /\ vreg[1].fd \notin 1 .. Len(VMaps)
    \/ /\ i.op = 133 /\ ImmInt(i) = 12 /\ vreg[1].t = "ctx"
       /\ vreg[2].t = "map" /\ vreg[2].fd \notin 1 .. Len(VMaps)
    \/ /\ Cls(i.op) = 7 /\ AluCode(i.op) \in {0, 1} /\ ~SrcIsReg(i.op) /\ i.dst \in 0 .. 9
       /\ (ImmInt(i) > 1000000000 \/ ImmInt(i) < -1000000000)
       /\ vreg[i.dst].t \in {"stk", "pkt", "mv"}
BackJump == LET i == VIns IN Cls(i.op) \in {5, 6} /\ AluCode(i.op) \notin {8, 9} /\ i.off < 0
TNext == IF vverdict = <<"run">> /\ BackJump THEN Reject("MODEL-LOOP")
         ELSE IF vverdict = <<"run">> /\ VIns.dst <= 10 /\ VIns.src <= 10 /\ Hazard THEN Reject("MODEL-ERROR")
         ELSE VNext
TSpec == VInit /\ [][TNext]_vvars
=============================================================================
