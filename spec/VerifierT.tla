------------------------------ MODULE VerifierT ------------------------------
(* X10 - spec/Verifier.tla made TOTAL for tabulation only (it is never a judge): on a few well-formed programs the
   original model cannot be evaluated at all (TLC error), which would abort a whole batch:
     - a map handle whose number names no map of the program (VMaps[fd] outside its domain) reaching a helper call,
     - pointer + constant with a constant near 2^31 (TLC integers are 32 bit),
     - a backward jump around a map lookup: `vnext` (the next lookup id) grows without bound and the exploration
       never ends (no program of at most 150 instructions performs 60 lookups without a loop).
   Such a step ends the path with the pseudo-rule "MODEL-ERROR" (checks/x10.py counts it as `model_error`, i.e. the
   original model gives no verdict); everything else is the original VNext, unchanged.                          *)
EXTENDS Verifier

Hazard ==
    LET i == VIns IN
    \/ /\ i.op = 133 /\ ImmInt(i) \in {1, 2, 3}
       /\ vreg[1].t = "map" /\ vreg[1].fd \notin 1 .. Len(VMaps)
    \/ /\ i.op = 133 /\ ImmInt(i) = 12 /\ vreg[1].t = "ctx"
       /\ vreg[2].t = "map" /\ vreg[2].fd \notin 1 .. Len(VMaps)
    \/ /\ Cls(i.op) = 7 /\ AluCode(i.op) \in {0, 1} /\ ~SrcIsReg(i.op) /\ i.dst \in 0 .. 9
       /\ (ImmInt(i) > 1000000000 \/ ImmInt(i) < -1000000000)
       /\ vreg[i.dst].t \in {"stk", "pkt", "mv"}
TNext == IF vverdict = <<"run">> /\ (vnext > 60 \/ (VIns.dst <= 10 /\ VIns.src <= 10 /\ Hazard)) THEN Reject("MODEL-ERROR") ELSE VNext
TSpec == VInit /\ [][TNext]_vvars
=============================================================================
