------------------------------ MODULE MotorRun ------------------------------
(* C26 - binding of Motor!Law to the program the REAL generator emits.

   A case is one run of the program of a real FastSyncGroup([Motor]) linked to a bundled motor
   terminal (EL7041, a channel of the EL7332 or of the EL7062; the encoder may sit on another
   terminal) on one frame, executed by the machine of Ebpf.tla.  The harness only says WHERE the
   quantities live and WHAT they are: for the device variables the format the Motor class declares,
   for the frame the device's own object dictionary (frame offsets found by parsing the assembled
   frame; the velocity output and the position are signed two's-complement numbers of the mapped
   width - the law speaks of +/- the velocity limit - whatever format the terminal class under
   test gives them).  Their VALUES are read here from the memory the program starts on, and the
   expected command is computed here.

   case = EbpfRun's case record plus
     mot |-> [fd      map number of the group's `properties` array map,
              target, gain, acc, vmax, sen   [off, n, s]  variables in that map (s = 1: signed),
              pos, vel                       [off, n, s]  variables in the frame (offsets include
                                                          the 14-byte Ethernet header),
              low, high, en                  [off, bit]   single bits in the frame]               *)
EXTENDS EbpfRun, Motor

N == 16                                         \* bytes of the exact integers
K == Cases[cid]
Bytes(mem, v) == SubSeq(mem, v.off + 1, v.off + v.n)
Val(mem, v) == IF v.s = 1 THEN WSext(Bytes(mem, v), N) ELSE WZext(Bytes(mem, v), N)
Bit(mem, b) == (mem[b.off + 1] \div (2 ^ b.bit)) % 2 = 1
Props(k) == k.arr[CHOOSE j \in 1 .. Len(k.arr) : k.arr[j].fd = k.mot.fd].bytes

(* the inputs of the run, as exact integers *)
In(k) == [target |-> Val(Props(k), k.mot.target), gain |-> Val(Props(k), k.mot.gain),
          acc |-> Val(Props(k), k.mot.acc), vmax |-> Val(Props(k), k.mot.vmax),
          sen |-> Val(Props(k), k.mot.sen),
          pos |-> Val(k.pkt, k.mot.pos), prev |-> Val(k.pkt, k.mot.vel),
          low |-> Bit(k.pkt, k.mot.low), high |-> Bit(k.pkt, k.mot.high)]

(* largest value of the velocity output: it is signed, n bytes *)
OutMax(k) == Mat([i \in 1 .. N |-> IF i < k.mot.vel.n THEN 255 ELSE IF i = k.mot.vel.n THEN 127 ELSE 0], N)
DesiredOf(in) == Desired(in.target, in.pos, in.gain)
(* the preconditions the property states *)
PreOf(k, in) == /\ Pre(in.acc, in.vmax, in.prev, OutMax(k))
                /\ WFitsS(DesiredOf(in), 8)              \* the desired velocity fits 64 bits
LawOf(in) == Law(in.target, in.pos, in.gain, in.acc, in.vmax, in.prev, in.low, in.high)

(* what the run left in the frame *)
VelOut(k, f) == Bytes(f.m[RPkt], k.mot.vel)
EnableOut(k, f) == Bit(f.m[RPkt], k.mot.en)

(* ---- the requirement ------------------------------------------------------------------- *)
(* the program runs to its exit and the velocity output holds exactly Law(inputs);
   pre = PreOf(k, in) and law = LawOf(in) are passed in so that TLC evaluates them once *)
CommandedL(k, f, pre, law) ==
    pre => /\ Exited(f.c)
           /\ WFitsS(law, k.mot.vel.n)
           /\ VelOut(k, f) = WTrunc(law, k.mot.vel.n)
Commanded(k, in, f) == CommandedL(k, f, PreOf(k, in), LawOf(in))
(* the enable bit of the terminal follows set_enable *)
EnableFollows(k, in, f) == Exited(f.c) /\ (EnableOut(k, f) <=> ~WIsZero(in.sen))
(* the consequences the property draws, on these inputs (theorem of Motor, no run involved) *)
LawTheoremsL(in, pre, law) ==
    pre => Consequences(law, in.acc, in.vmax, in.prev, in.low, in.high)
LawTheorems(k, in) == LawTheoremsL(in, PreOf(k, in), LawOf(in))

InvCommanded == Commanded(K, In(K), Final(K))
InvEnable == EnableFollows(K, In(K), Final(K))
InvTheorems == LawTheorems(K, In(K))

(* verdict collection (always TRUE): one line per case, so one TLC run reports every failing case.
   accfits: does the acceleration-limited intermediate value fit the output (diagnosis only)   *)
Verdict(k, in, f, pre, law) ==
    PrintT(<<"VERDICT", cid, pre, CommandedL(k, f, pre, law), EnableFollows(k, in, f),
             LawTheoremsL(in, pre, law), f.c.st, VelOut(k, f), WTrunc(law, k.mot.vel.n),
             WFitsS(AccLimited(DesiredOf(in), in.acc, in.prev), k.mot.vel.n)>>)
Observe == Verdict(K, In(K), Final(K), PreOf(K, In(K)), LawOf(In(K)))
=============================================================================
