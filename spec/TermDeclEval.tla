--------------------------- MODULE TermDeclEval ---------------------------
(* X09 - TLC judges what the real terminal classes did on a device description.

   Input (JSON, from checks/x09.py):
     cases  : one per device description
         image  : the bytes of the EEPROM (SII) image, as in ebpfcat/testdata.py (or derived from it)
         od     : <<[idx, sub, data]>> the record's PDO assignment and mapping objects, as recorded
         odkeys : <<<<idx, sub>>>> every entry of the record's dictionary
         runs   : one per (class, assignment) run of the real initialize on the simulated segment
             cls      [name, hascompat, compat, named, generic]
             outp/inp [set, pdos]     the class's out_pdos / in_pdos
             decls    the class's ProcessDesc / PacketDesc declarations, each with res = what it resolved to
             svcs     the class's ServiceDesc declarations
             init     [status] "ok" | "incompatible" | "exception" | "stall"
             probe    the class is a probe class made of TLC-generated declarations (TermDeclScripts): only
                      R1 / R2 are judged on its declarations
             cycle    what a real SyncGroup cycle read and wrote through the declared variables (R10, below)
             table    Terminal.pdos after parse_pdos; bits = what parse_pdos returned; sizes = pdo_out_sz /
                      pdo_in_sz; smregs = the simulated terminal's sync-manager registers afterwards;
                      assigned = 0x1C12 / 0x1C13 in the simulated terminal's dictionary afterwards
     classes: every bundled class with its declarations (static rules)
   The image is decoded here (SiiImage + TermDecl), once per case, into exp; each step judges one run and
   prints  <<"RUN", case, run, verdict record>>.                                                          *)
EXTENDS TermDecl, TLC, Json, IOUtils
Input == JsonDeserialize(IOEnv.TRACE_FILE)
Cases == Input.cases
VARIABLES tid, l, exp

DecodeS(c, w, smd, sms, rx, tx) ==
    [id |-> Identity(c.image), sms |-> sms, mbx |-> HasMailbox(smd),
     rx |-> rx.pdos, tx |-> tx.pdos,
     hasPdoCats |-> HasCat(w.cats, CatRxPdo) \/ HasCat(w.cats, CatTxPdo),
     wf |-> /\ Len(c.image) >= 2 * FirstCategoryWord /\ w.ok /\ DistinctTypes(w.cats)
            /\ HasCat(w.cats, CatSyncM) /\ SmWellFormed(smd) /\ rx.ok /\ tx.ok
            /\ SiiDirWF(rx.pdos, sms, ModePdoOut) /\ SiiDirWF(tx.pdos, sms, ModePdoIn),
     siiLay |-> Layout(Assigned(rx.pdos), Assigned(tx.pdos)),
     (* what a reader that ignores the PDOs' sync-manager field sees (observation sm255) *)
     siiAll |-> Layout(rx.pdos, tx.pdos)]
DecodeW(c, w, smd) == DecodeS(c, w, smd, Force(SmEntries(smd), Len(smd) \div 8),
                              SiiPdos(CatOrEmpty(w.cats, CatRxPdo)), SiiPdos(CatOrEmpty(w.cats, CatTxPdo)))
DecodeC(c, w) == DecodeW(c, w, CatOrEmpty(w.cats, CatSyncM))
Decode(c) == DecodeC(c, CategoriesP(c.image))

(* ---- the description in force for a run ---- *)
OutAsg(c, r) == IF r.outp.set THEN r.outp.pdos ELSE DeviceAssignment(c.od, Idx1C12)
InAsg(c, r) == IF r.inp.set THEN r.inp.pdos ELSE DeviceAssignment(c.od, Idx1C13)
RunWF(c, r, e) ==
    /\ e.wf
    /\ IF e.mbx
       THEN /\ OdKnown(c.od, Idx1C12) /\ OdKnown(c.od, Idx1C13)
            /\ OdListWF(c.od, Idx1C12, 2) /\ OdListWF(c.od, Idx1C13, 2)
            /\ AssignmentWF(c.od, OutAsg(c, r)) /\ AssignmentWF(c.od, InAsg(c, r))
       ELSE ~r.outp.set /\ ~r.inp.set
RunLayout(c, r, e) == IF e.mbx THEN Layout(CoEPdos(c.od, OutAsg(c, r), 2), CoEPdos(c.od, InAsg(c, r), 3))
                      ELSE e.siiLay
(* the one alternative reading that is recognised as an observation *)
AltLayout(c, r, e) == IF e.mbx THEN RunLayout(c, r, e) ELSE e.siiAll

(* ---- verdicts ---- *)
Three(ok, alt) == IF ok THEN "ok" ELSE IF alt THEN "sm255" ELSE "bad"
KeySet(c) == {c.odkeys[k] : k \in 1 .. Len(c.odkeys)}
AsgOK(d, a) == d.set => (a.n = Len(d.pdos) /\ Len(a.pdos) >= a.n /\ SubSeq(a.pdos, 1, a.n) = d.pdos)

InitCode(r, e, lay) ==
    IF Refuses(r.cls, e.id) THEN (IF r.init.status = "incompatible" THEN "refused" ELSE "notrefused")
    ELSE IF r.init.status = "ok" THEN "ok"
    ELSE IF ~Representable(lay) THEN "unrepresentable" ELSE "failed"

(* remark (not judged): the SII description types the entry as a signed integer (CoE basic data types 2, 3, 4,
   0x15), the variable takes its format from the mapping alone and reads it unsigned                     *)
SiiTypes(e, idx, sub) == LET es == EntsOf(e.rx, 1, <<>>) \o EntsOf(e.tx, 1, <<>>) IN
    {es[k].dtype : k \in {j \in 1 .. Len(es) : es[j].idx = idx /\ es[j].sub = sub}}
SignedAsUnsigned(e, d, o) ==
    /\ d.kind = "process" /\ d.ov.k = "none" /\ o.status = "ok"
    /\ Len(o.fmtc) = 1 /\ o.fmtc[1] \in {66, 72, 73, 81}
    /\ SiiTypes(e, EffIdx(d), d.sub) \cap {2, 3, 4, 21} # {}

(* ---- R10 transport (plain consistency: values transported unchanged): with every declared variable linked
   to a device of a real slow SyncGroup on the segment, an input variable reads the bits of its entry in the
   device's input area, and writing an output variable changes exactly its own bits of the device's output
   area to the value.  What "reads" and "writes" mean is ProcVar.tla (C19), applied to the area of the sync
   manager instead of the frame.  Judged for bits and integer formats; strings and floats are not judged.
       cycle = [done, inimg, reads = <<[k, val]>>, writes = <<[k, val, before, after, status]>>]
       val   = [kind "bit" | "int" | "other", b, w = 16-byte two's complement]                          *)
PV == INSTANCE ProcVar
SignedLetters == {98, 104, 105, 108, 113}                   \* b h i l q
IntLetters == SignedLetters \cup {66, 72, 73, 76, 81}        \* B H I L Q
Judgeable(r) == r.bit # NoBit \/ (Len(r.fmtc) = 1 /\ r.fmtc[1] \in IntLetters)
AsProcVar(r) == [start |-> 0, off |-> r.byte, bit |-> r.bit,
                 n |-> IF r.bit # NoBit THEN 1 ELSE FmtWidth(r.fmtc),
                 s |-> IF r.bit = NoBit /\ r.fmtc[1] \in SignedLetters THEN 1 ELSE 0]
ValWord(v) == IF v.kind = "bit" THEN PV!WFromInt(IF v.b THEN 1 ELSE 0, PV!ProcVarN) ELSE v.w
ValKindOK(r, v) == (r.bit # NoBit) <=> (v.kind = "bit")
ReadCode(lay, d, rd, inimg) ==
    IF DeclVerdict(lay, d, d.res)[1] # "ok" THEN "n/a"
    ELSE IF d.res.sm # SmIn THEN "out"
    ELSE IF ~Judgeable(d.res) \/ rd.val.kind = "other" THEN "unjudged"
    ELSE IF Len(inimg) # DirBytes(lay, SmIn) \/ ~PV!ProcVarInFrame(inimg, AsProcVar(d.res)) THEN "outside"
    ELSE IF ValKindOK(d.res, rd.val) /\ PV!ProcVarGet(inimg, AsProcVar(d.res)) = ValWord(rd.val) THEN "ok"
    ELSE "bad"
WriteCode(lay, d, wr) ==
    IF DeclVerdict(lay, d, d.res)[1] # "ok" \/ d.res.sm # SmOut THEN "n/a"
    ELSE IF ~Judgeable(d.res) \/ wr.val.kind = "other" THEN "unjudged"
    ELSE IF wr.status # "ok" THEN "raised"
    ELSE IF Len(wr.before) # DirBytes(lay, SmOut) \/ Len(wr.after) # Len(wr.before)
            \/ ~PV!ProcVarInFrame(wr.before, AsProcVar(d.res)) THEN "outside"
    ELSE IF ValKindOK(d.res, wr.val) /\ wr.after = PV!ProcVarSet(wr.before, AsProcVar(d.res), ValWord(wr.val)) THEN "ok"
    ELSE "bad"
CycleVerdict(lay, r) ==
    [done |-> r.cycle.done,
     reads |-> [i \in 1 .. Len(r.cycle.reads) |->
                  ReadCode(lay, r.decls[r.cycle.reads[i].k], r.cycle.reads[i], r.cycle.inimg)],
     writes |-> [i \in 1 .. Len(r.cycle.writes) |-> WriteCode(lay, r.decls[r.cycle.writes[i].k], r.cycle.writes[i])]]

(* a declaration that is not where the description puts it, but where the recognised alternative reading of
   the description (sm255) puts it *)
DeclOrAlt(v, alt, d) == IF v[1] = "ok" THEN v
                        ELSE IF DeclVerdict(alt, d, d.res)[1] = "ok" THEN <<"sm255", "n/a">> ELSE v
Judged(c, r, e, lay, alt, m, ran) ==
    [wf |-> TRUE, matching |-> m, source |-> IF e.mbx THEN "coe" ELSE "sii",
     outbits |-> lay.out.bits, inbits |-> lay.inp.bits,
     init |-> InitCode(r, e, lay),
     table |-> IF ~ran THEN "n/a"
               ELSE Three(TableOK(lay, r.table, r.bits.out, r.bits.inp),
                          TableOK(alt, r.table, r.bits.out, r.bits.inp)),
     sizes |-> IF ~ran THEN "n/a"
               ELSE Three(SizesOK(lay, r.sizes.out, r.sizes.inp), SizesOK(alt, r.sizes.out, r.sizes.inp)),
     regs |-> IF ~ran THEN "n/a"
              ELSE Three(/\ RegsOK(e.sms, r.smregs, ModePdoOut, DirBytes(lay, SmOut))
                         /\ RegsOK(e.sms, r.smregs, ModePdoIn, DirBytes(lay, SmIn)),
                         /\ RegsOK(e.sms, r.smregs, ModePdoOut, DirBytes(alt, SmOut))
                         /\ RegsOK(e.sms, r.smregs, ModePdoIn, DirBytes(alt, SmIn))),
     assign |-> IF ~ran THEN "n/a"
                ELSE IF ~(AsgOK(r.outp, r.assigned.out) /\ AsgOK(r.inp, r.assigned.inp)) THEN "bad"
                ELSE IF m /\ ~r.cls.generic /\ ~(/\ (r.outp.set => AssignmentAdmissible(c.od, r.outp.pdos))
                                                  /\ (r.inp.set => AssignmentAdmissible(c.od, r.inp.pdos)))
                     THEN "excluded"
                ELSE "ok",
     decls |-> [k \in 1 .. Len(r.decls) |->
                  IF ran /\ m THEN DeclOrAlt(DeclVerdict(lay, r.decls[k], r.decls[k].res), alt, r.decls[k])
                  ELSE <<"free", "n/a">>],
     overlaps |-> IF ran /\ m /\ ~r.probe THEN Overlaps(r.decls) ELSE {},
     signs |-> [k \in 1 .. Len(r.decls) |-> ran /\ m /\ SignedAsUnsigned(e, r.decls[k], r.decls[k].res)],
     cycle |-> IF ran /\ m THEN CycleVerdict(lay, r) ELSE [done |-> FALSE, reads |-> <<>>, writes |-> <<>>],
     svcs |-> [k \in 1 .. Len(r.svcs) |->
                  IF m THEN <<r.svcs[k].idx + r.svcs[k].off, r.svcs[k].sub>> \in KeySet(c) ELSE TRUE]]

JudgeL(c, r, e, lay, alt) == Judged(c, r, e, lay, alt, Matching(r.cls, e.id),
                                    r.init.status = "ok" /\ ~Refuses(r.cls, e.id))
(* a class that has to refuse the device: nothing but the refusal is demanded *)
Refusal(r) ==
    [wf |-> TRUE, matching |-> FALSE, source |-> "n/a", outbits |-> -1, inbits |-> -1,
     init |-> IF r.init.status = "incompatible" THEN "refused" ELSE "notrefused",
     table |-> "n/a", sizes |-> "n/a", regs |-> "n/a", assign |-> "n/a",
     decls |-> [k \in 1 .. Len(r.decls) |-> <<"free", "n/a">>], overlaps |-> {},
     signs |-> [k \in 1 .. Len(r.decls) |-> FALSE], cycle |-> [done |-> FALSE, reads |-> <<>>, writes |-> <<>>], svcs |-> [k \in 1 .. Len(r.svcs) |-> TRUE]]
Verdict(c, r, e) ==
    IF Refuses(r.cls, e.id) THEN Refusal(r)
    ELSE IF ~RunWF(c, r, e) THEN [wf |-> FALSE, matching |-> Matching(r.cls, e.id)]
    ELSE JudgeL(c, r, e, RunLayout(c, r, e), AltLayout(c, r, e))

(* ---- remarks on the device's two descriptions of itself (not a judgement of the code) ---- *)
EntrySet(lay) == LET all == AllPlaced(lay) IN
    {<<all[k].idx, all[k].sub, all[k].dir, all[k].pos, all[k].bits>> : k \in {j \in 1 .. Len(all) : all[j].idx # 0}}
DeviceRemark(c, e) ==
    IF ~e.wf THEN [wf |-> FALSE]
    ELSE IF ~(e.mbx /\ e.hasPdoCats /\ OdKnown(c.od, Idx1C12) /\ OdKnown(c.od, Idx1C13)) THEN [wf |-> TRUE, both |-> FALSE]
    ELSE LET coe == EntrySet(Layout(CoEPdos(c.od, DeviceAssignment(c.od, Idx1C12), 2),
                                    CoEPdos(c.od, DeviceAssignment(c.od, Idx1C13), 3)))
             sii == EntrySet(e.siiLay) IN
         [wf |-> TRUE, both |-> TRUE, onlySii |-> sii \ coe, onlyCoE |-> coe \ sii]

Init == /\ tid \in 1 .. Len(Cases) /\ l = 1 /\ exp = Decode(Cases[tid])
Next == /\ l <= Len(Cases[tid].runs)
        /\ l' = l + 1 /\ UNCHANGED <<tid, exp>>
        /\ IF l = 1 THEN PrintT(<<"DEVICE", tid, DeviceRemark(Cases[tid], exp)>>) ELSE TRUE
        /\ PrintT(<<"RUN", tid, l, Verdict(Cases[tid], Cases[tid].runs[l], exp)>>)
Spec == Init /\ [][Next]_<<tid, l, exp>>

(* ---- static rules over all bundled classes ---- *)
Classes == Input.classes
StaticVerdict(cl) == [k \in 1 .. Len(cl.decls) |-> DeclStaticOK(cl.decls[k])]
SharedIdentity == {p \in (1 .. Len(Classes)) \X (1 .. Len(Classes)) :
                     /\ p[1] < p[2]
                     /\ \E a \in 1 .. Len(Classes[p[1]].compat), b \in 1 .. Len(Classes[p[2]].compat) :
                           Classes[p[1]].compat[a] = Classes[p[2]].compat[b]}
ASSUME \A k \in 1 .. Len(Classes) : PrintT(<<"STATIC", k, Classes[k].name, StaticVerdict(Classes[k])>>)
ASSUME PrintT(<<"SHARED", SharedIdentity>>)
=============================================================================
