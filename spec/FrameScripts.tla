---------------------------- MODULE FrameScripts ----------------------------
(* Datagram sequences for C11, enumerated by TLC from the Frame specification itself: a script
   is a run of the specification's packet (no count limit assumed) consisting of

     fill   0 .. MaxFill datagrams whose length follows one of the Families (a constant length,
            or a cycle through the small lengths),
     probe  one datagram whose length is chosen relative to the room left in the frame
            (room-1, room, room+1, room+40: just fits / just does not), or a small one,
     tail   up to TailDepth further datagrams (0, room, room+1) - after a rejection these show
            that the packet was left unchanged.

   Command, addressing form (position / node: two 16-bit words; logical: one 32-bit word),
   index, addresses, working-counter preset and writer flag of the k-th datagram come from the
   tables below, rotated by the script's variant.  Every reachable state is printed once; the
   driver replays it on real Packet / SterilePacket objects.  With MaxFill = 15 the scripts have
   up to 16 + TailDepth datagrams, so the size limit and the implementation's count limit are
   both crossed.                                                                              *)
EXTENDS Frame, Json
CONSTANTS Families,     \* subset of DOMAIN FamLen
          MaxFill, TailDepth, Variants,
          ProbeAt       \* numbers of fill datagrams after which the probe may follow

VARIABLES hist, phase, fam, var, ntail
svars == <<pvars, hist, phase, fam, var, ntail>>

SmallLens == <<0, 1, 2, 31, 32, 100>>
FamLen(f, k) ==            \* length of the k-th fill datagram (k = 1, 2, ...)
    CASE f = "l0" -> 0  [] f = "l1" -> 1  [] f = "l2" -> 2  [] f = "l31" -> 31  [] f = "l32" -> 32
      [] f = "mix" -> SmallLens[(k % 6) + 1]
      [] f = "l86" -> 86       \* 15 of them leave room for 2 bytes: count and size limit meet
      [] f = "l87" -> 87       \* the 15th does not fit
      [] f = "l730" -> 730     \* two of them fill the frame exactly
      [] f = "l1400" -> 1400
      [] f = "l1471" -> 1471   \* one byte less than a frame-filling datagram

Kinds == << [cmd |-> 1,  form |-> "pos",  writer |-> FALSE],    \* APRD
            [cmd |-> 2,  form |-> "pos",  writer |-> TRUE],     \* APWR
            [cmd |-> 4,  form |-> "node", writer |-> FALSE],    \* FPRD
            [cmd |-> 5,  form |-> "node", writer |-> TRUE],     \* FPWR
            [cmd |-> 10, form |-> "log",  writer |-> FALSE],    \* LRD
            [cmd |-> 11, form |-> "log",  writer |-> TRUE],     \* LWR
            [cmd |-> 12, form |-> "log",  writer |-> TRUE],     \* LRW
            [cmd |-> 7,  form |-> "pos",  writer |-> FALSE],    \* BRD
            [cmd |-> 8,  form |-> "pos",  writer |-> TRUE],     \* BWR
            [cmd |-> 0,  form |-> "pos",  writer |-> FALSE],    \* NOP
            [cmd |-> 14, form |-> "node", writer |-> TRUE] >>   \* FRMW
PosTab == <<0, -1, -7, -32768, 32767>>
NodeTab == <<1000, 30000, 1, 32767>>
OffTab == <<0, 16, 304, 4096, 65535, 2048>>
LogTab == <<0, 2048, 65536, 2147483647, 305419896>>
WkcTab == <<0, 1, 2, 3, 255, 256, 65535>>
IndexTab == <<119, 2000, 1000000000, 2147483647, 0, -1>>
EtherTab == <<34980, 0, 65535, 4660>>
Pick(tab, i) == tab[(i % Len(tab)) + 1]

Addr(form, k, v) == CASE form = "pos" -> <<Pick(PosTab, k + v), Pick(OffTab, k + 2 * v)>>
                      [] form = "node" -> <<Pick(NodeTab, k + v), Pick(OffTab, k + 2 * v)>>
                      [] form = "log" -> <<Pick(LogTab, k + v)>>
(* the k-th datagram of a script with variant v and data length n; data byte j is
   (seed + 7 j) mod 256, so that misplaced data cannot go unnoticed                          *)
Seed(k, v) == (29 * k + 13 * v + 1) % 256
Dgram(k, v, n) == LET kd == Pick(Kinds, k + 3 * v) IN
    [cmd |-> kd.cmd, idx |-> (37 * k + 101 * v) % 256, addr |-> Addr(kd.form, k, v),
     data |-> [j \in 1 .. n |-> (Seed(k, v) + 7 * (j - 1)) % 256], wkc |-> Pick(WkcTab, k + v)]
Op(k, v, n) == LET kd == Pick(Kinds, k + 3 * v) IN
    [cmd |-> kd.cmd, form |-> kd.form, writer |-> kd.writer, idx |-> (37 * k + 101 * v) % 256,
     addr |-> Addr(kd.form, k, v), len |-> n, seed |-> Seed(k, v), wkc |-> Pick(WkcTab, k + v)]

Room == MaxSize - pkt.size - DgHdr - DgTail       \* longest data that still fits
Nat0(S) == {x \in S : x >= 0}

(* one step of the Frame specification with the k-th datagram of length n *)
Step(n) == LET k == Len(hist) + 1 IN
           LET d == Dgram(k, var, n) IN
             /\ IF Fits(pkt, d) THEN AppendOk(d, Start(pkt, d), Stop(pkt, d)) ELSE AppendReject(d)
             /\ hist' = Append(hist, Op(k, var, n))

SInit == /\ PInit /\ hist = <<>> /\ phase = "fill" /\ ntail = 0
         /\ fam \in Families /\ var \in Variants
Fill == /\ phase = "fill" /\ Len(hist) < MaxFill
        /\ Step(FamLen(fam, Len(hist) + 1))
        /\ UNCHANGED <<phase, fam, var, ntail>>
Probe == /\ phase = "fill" /\ Len(hist) \in ProbeAt
         /\ \E n \in {0, 31} \cup Nat0({Room - 1, Room, Room + 1, Room + 40}) : Step(n)
         /\ phase' = "tail" /\ UNCHANGED <<fam, var, ntail>>
TailStep == /\ phase = "tail" /\ ntail < TailDepth
        /\ \E n \in {0} \cup Nat0({Room, Room + 1}) : Step(n)
        /\ ntail' = ntail + 1 /\ UNCHANGED <<phase, fam, var>>
SNext == Fill \/ Probe \/ TailStep
SSpec == SInit /\ [][SNext]_svars

Emit == PrintT(<<"SCRIPT", ToJson([ops |-> hist,
                                   index |-> Pick(IndexTab, Len(hist) + var),
                                   ethertype |-> Pick(EtherTab, Len(hist) + 2 * var),
                                   accepted |-> Len(pkt.dgrams), size |-> pkt.size])>>)
=============================================================================
