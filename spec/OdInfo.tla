------------------------------- MODULE OdInfo -------------------------------
(* X03 - the CoE SDO-information service (object-dictionary self description) and what the
   master must make of it: Terminal.coe_request / read_ODlist / read_object_entry,
   ObjectEntry.read / write, Terminal.sdo_read_format  (ebpfcat/ethercat.py).

   Where the requirements are taken from
     [wire]   ETG.1000.6 5.6.3 as ebpfcat/ethercat.py itself lays the mails out: mailbox header
              (length u16, address u16, channel/priority u8, type 4 bits + counter 3 bits),
              CoE header u16 (number 9 bits, 3 reserved bits, service in bits 12..15; 8 = SDO
              information), SDO-information header (opcode 7 bits + "incomplete" flag, one
              reserved byte, "fragments left" u16), then the service data:
                1 Get OD List request       list type u16 (1 = all objects)
                2 Get OD List response      list type u16, index u16 ...
                3 Get Object Description rq index u16
                4 Get Object Description rs index u16, data type u16, max subindex u8,
                                            object code u8, name
                5 Get Entry Description rq  index u16, subindex u8, value info u8
                6 Get Entry Description rs  index u16, subindex u8, value info u8, data type u16,
                                            bit length u16, object access u16, name
                7 SDO Info Error            abort code u32
              A response that does not fit the terminal -> master mailbox comes in fragments:
              every fragment repeats the CoE and SDO-information headers and continues the
              service data where the previous one stopped; "fragments left" counts down to 0
              and the incomplete flag is set exactly while it is not 0.
     [doc]    docstrings: "read a object entry from the CoE self description"
              (read_object_entry), "read with sdo_read, and parse with struct.unpack"
              (sdo_read_format), "This represents an error on the EtherCat bus" (EtherCatError),
              the MBXType / CoECmd / ODCmd enumerations, ObjectEntry.__repr__ (name, data type,
              bit length, access flags are what an entry is).
     [cons]   consistency: every index the server lists appears exactly once in the result of
              read_ODlist, in the server's order; each object's entries are exactly those the
              server describes, with the server's data type / bit length / access bits / name;
              a fragmented response is reassembled byte for byte whatever split the server
              chose; a refused request raises and the next request works; no call hangs on a
              server that answers.
   The mailbox counter and the one-request-one-answer discipline are C15's (Mailbox.tla); the
   trace module instantiates that module instead of restating it.

   A mail is the record produced by harness/odserver.parse_mail:
     [mt, cnt, wlen, len, svc, number, res, cmd, body]: mailbox type, counter, bytes written
     (6-byte header + payload), declared length, CoE service / number / reserved bits, then
     cmd = the opcode byte and body = the payload after it (reserved byte, fragments left,
     service data).

   The dictionary  od  is a sequence of objects in the order the server lists them:
     [index, dtype, maxsub, code, name, ents]  with  ents  a sequence of
     [sub, kind, dtype, bits, access, name];  kind "val" = the server describes the entry,
     "null" = the server describes it as not present (data type 0, bit length 0, ETG.1000.6:
     "if the entry does not exist ... data type 0"); a subindex without element in ents is
     answered with an SDO Info Error.  Names are byte sequences.                              *)
EXTENDS Integers, Sequences, FiniteSets, TLC

VARIABLES od,      \* the object dictionary of the terminal (fixed in a behaviour)
          mbx,     \* [out, in]: sizes of the master -> terminal and terminal -> master mailbox
          ex,      \* the SDO-information exchange in progress
          cl       \* the call of the master's API in progress

core == <<od, mbx, ex, cl>>

---------------------------------------------------------------------------
LE2(n) == <<n % 256, n \div 256>>
U16(s, i) == s[i] + 256 * s[i + 1]
Min2(a, b) == IF a < b THEN a ELSE b
Max2(a, b) == IF a > b THEN a ELSE b
Mat(f, n) == SubSeq(f, 1, n)               \* force a function constructor into a tuple

(* fields of an SDO-information mail *)
Opcode(m) == m.cmd % 128
Incomplete(m) == m.cmd \div 128
Reserved(m) == m.body[1]
FragsLeft(m) == m.body[2] + 256 * m.body[3]
SData(m) == SubSeq(m.body, 4, Len(m.body))

Framed(m, size) == /\ m.mt = 3
                   /\ m.len = 3 + Len(m.body)
                   /\ m.wlen = 6 + m.len
                   /\ m.wlen <= size
InfoMail(m, size) == /\ Framed(m, size) /\ m.svc = 8 /\ m.number = 0 /\ m.res = 0
                     /\ Len(m.body) >= 3 /\ Reserved(m) = 0

(* the part of the service data that must travel in the first fragment *)
Fixed(op) == CASE op = 1 -> 2 [] op = 3 -> 6 [] op = 5 -> 10
Cap == mbx.in - 12                          \* most service data one fragment can carry

---------------------------------------------------------------------------
(* the dictionary and the service data that describe it *)
ObjAt(index) == {i \in 1 .. Len(od) : od[i].index = index}
TheObj(index) == od[CHOOSE i \in ObjAt(index) : TRUE]
EntAt(o, sub) == {j \in 1 .. Len(o.ents) : o.ents[j].sub = sub}
TheEnt(o, sub) == o.ents[CHOOSE j \in EntAt(o, sub) : TRUE]

RECURSIVE IndexBytes(_, _)
IndexBytes(k, acc) == IF k > Len(od) THEN acc ELSE IndexBytes(k + 1, acc \o LE2(od[k].index))
ListData == IndexBytes(1, <<1, 0>>)
ODData(o) == LE2(o.index) \o LE2(o.dtype) \o <<o.maxsub, o.code>> \o o.name
OEData(o, e, vi) ==
    IF e.kind = "null" THEN LE2(o.index) \o <<e.sub, vi, 0, 0, 0, 0, 0, 0>>
    ELSE LE2(o.index) \o <<e.sub, vi>> \o LE2(e.dtype) \o LE2(e.bits) \o LE2(e.access) \o e.name

HasAnswer == CASE ex.op = 1 -> TRUE
               [] ex.op = 3 -> ObjAt(ex.index) # {}
               [] ex.op = 5 -> ObjAt(ex.index) # {} /\ EntAt(TheObj(ex.index), ex.sub) # {}
AnswerData == CASE ex.op = 1 -> ListData
                [] ex.op = 3 -> ODData(TheObj(ex.index))
                [] ex.op = 5 -> OEData(TheObj(ex.index), TheEnt(TheObj(ex.index), ex.sub), ex.vi)

---------------------------------------------------------------------------
Idle == [st |-> "idle", op |-> 0, index |-> 0, sub |-> 0, vi |-> 0, sent |-> 0, left |-> 0,
         first |-> TRUE]
NoLast == [op |-> 0, index |-> 0, sub |-> 0, res |-> "none", how |-> "none"]
NoSdo == [op |-> "none", index |-> 0, sub |-> 0, data |-> <<>>, res |-> "none"]
ClIdle == [fn |-> "none", a |-> [index |-> 0, sub |-> 0], phase |-> "idle", failed |-> FALSE,
           gotlist |-> FALSE, refused |-> {}, nreq |-> 0, last |-> NoLast, sdo |-> NoSdo]

InfoFns == {"odlist", "entry"}
SdoFns == {"read", "write", "fmt"}

Init(d, m) == od = d /\ mbx = m /\ ex = Idle /\ cl = ClIdle

(* the master's API is called: fn = "odlist" (read_ODlist), "entry" (read_object_entry(a.index,
   a.sub)), "read" / "write" (ObjectEntry.read / write of the entry a.index:a.sub),
   "fmt" (sdo_read_format)                                                                  *)
Call(fn, a) ==
    /\ cl.phase # "run" /\ ex.st = "idle"
    /\ fn \in InfoFns \cup SdoFns
    /\ cl' = [ClIdle EXCEPT !.fn = fn, !.a = a, !.phase = "run"]
    /\ UNCHANGED <<od, mbx, ex>>

---------------------------------------------------------------------------
(* what the master may put into the mailbox: one well-formed SDO-information request that
   fits, while no exchange is in progress                                      [wire]       *)
CReq(m) ==
    /\ cl.phase = "run" /\ ex.st = "idle"
    /\ InfoMail(m, mbx.out) /\ Incomplete(m) = 0 /\ FragsLeft(m) = 0
    /\ LET op == Opcode(m)
           sd == SData(m) IN
         /\ \/ /\ op = 1 /\ Len(sd) = 2 /\ U16(sd, 1) = 1      \* the complete dictionary
               /\ cl.fn = "odlist"
            \/ /\ op = 3 /\ Len(sd) = 2
               /\ cl.fn = "odlist"
            \/ /\ op = 5 /\ Len(sd) = 4
               /\ sd[4] < 8      \* value info: no unit / default / minimum / maximum asked
                                 \* for, so the name is all that follows (bound of this model)
               /\ \/ cl.fn = "odlist"
                  \/ cl.fn = "entry" /\ U16(sd, 1) = cl.a.index /\ sd[3] = cl.a.sub
         /\ ex' = [Idle EXCEPT !.st = "await", !.op = op,
                               !.index = IF op = 1 THEN 0 ELSE U16(sd, 1),
                               !.sub = IF op = 5 THEN sd[3] ELSE 0,
                               !.vi = IF op = 5 THEN sd[4] ELSE 0]
    /\ cl' = [cl EXCEPT !.nreq = @ + 1]
    /\ UNCHANGED <<od, mbx>>

---------------------------------------------------------------------------
(* the server answers with the next fragment: any split is legal as long as every fragment
   fits the mailbox, the fixed part is in the first one, no later fragment is empty and the
   "fragments left" counter says how many follow                               [wire]       *)
Absorb(how) ==
    cl' = [cl EXCEPT !.last = [op |-> ex.op, index |-> ex.index, sub |-> ex.sub,
                               res |-> IF how = "data" THEN "data" ELSE "err", how |-> how],
                     !.gotlist = @ \/ (how = "data" /\ ex.op = 1),
                     !.failed = @ \/ (how # "data" /\ ex.op \in {1, 3}),
                     !.refused = IF how # "data" /\ ex.op = 5
                                 THEN @ \cup {<<ex.index, ex.sub>>} ELSE @]

SFrag(r) ==
    /\ ex.st = "await" /\ HasAnswer
    /\ InfoMail(r, mbx.in) /\ Opcode(r) = ex.op + 1
    /\ LET d == SData(r)
           n == Len(SData(r))
           full == AnswerData
           fl == FragsLeft(r)
           rest == Len(AnswerData) - ex.sent - Len(SData(r)) IN
         /\ rest >= 0
         /\ d = SubSeq(full, ex.sent + 1, ex.sent + n)       \* byte for byte, in order
         /\ IF ex.first THEN n >= Fixed(ex.op) ELSE n >= 1 /\ fl = ex.left - 1
         /\ (fl = 0) <=> (rest = 0)
         /\ rest >= fl /\ rest <= fl * Cap                   \* fl more fragments can carry it
         /\ Incomplete(r) = (IF fl > 0 THEN 1 ELSE 0)
         /\ IF rest = 0
            THEN ex' = Idle /\ Absorb("data")
            ELSE /\ ex' = [ex EXCEPT !.sent = ex.sent + n, !.left = fl, !.first = FALSE]
                 /\ cl' = cl
    /\ UNCHANGED <<od, mbx>>

(* the server refuses the request (object or entry missing, service not supported, ...):
   an SDO Info Error, an SDO abort, or the mailbox error service (type 0, ETG.1000.4);
   always possible instead of the first fragment, and the only answer when there is nothing
   to describe                                                                              *)
IsInfoError(r) == /\ InfoMail(r, mbx.in) /\ Opcode(r) = 7 /\ Incomplete(r) = 0
                  /\ FragsLeft(r) = 0 /\ Len(SData(r)) = 4
IsSdoAbort(r) == Framed(r, mbx.in) /\ r.svc = 2 /\ r.cmd = 128 /\ Len(r.body) = 7
IsMbxError(r) == r.mt = 0 /\ r.len = 4 /\ r.wlen = 6 + r.len /\ r.wlen <= mbx.in
SRefuse(r) ==
    /\ ex.st = "await" /\ ex.first
    /\ \/ IsInfoError(r) /\ Absorb("info_err")
       \/ IsSdoAbort(r) /\ Absorb("abort")
       \/ IsMbxError(r) /\ Absorb("mbxerr")
    /\ ex' = Idle
    /\ UNCHANGED <<od, mbx>>

(* mail that has nothing to do with the exchange: another mailbox protocol or a CoE emergency *)
Unrelated(u) == /\ u.wlen = 6 + u.len /\ u.wlen <= mbx.in
                /\ (u.mt \notin {0, 3} \/ (u.mt = 3 /\ u.svc = 1))
SMail(u) == ex.st = "await" /\ Unrelated(u) /\ UNCHANGED core

---------------------------------------------------------------------------
(* what the calls have to deliver                                              [cons]       *)
EntryRec(e) == [key |-> e.sub, sub |-> e.sub, dtype |-> e.dtype, bits |-> e.bits,
                access |-> e.access, name |-> e.name]
Kept(o, refused, skip0) ==
    {EntryRec(o.ents[j]) : j \in {k \in 1 .. Len(o.ents) :
          /\ o.ents[k].kind = "val"
          /\ <<o.index, o.ents[k].sub>> \notin refused
          /\ o.ents[k].sub <= o.maxsub
          /\ ~(skip0 /\ o.maxsub > 0 /\ o.ents[k].sub = 0)}}
SeqSet(s) == {s[i] : i \in 1 .. Len(s)}

(* value = the result of read_ODlist as recorded: a sequence (iteration order of the dict) of
   [key, index, dtype, maxsub, name, ents]                                                  *)
ListResultIs(value, refused, skip0) ==
    /\ Len(value) = Len(od)
    /\ \A i \in 1 .. Len(od) :
         LET o == od[i]
             v == value[i] IN
           /\ v.key = o.index /\ v.index = o.index            \* every index once, in order
           /\ v.dtype = o.dtype /\ v.maxsub = o.maxsub /\ v.name = o.name
           /\ SeqSet(v.ents) = Kept(o, refused, skip0)
           /\ Len(v.ents) = Cardinality(Kept(o, refused, skip0))

EntryResultIs(value) ==
    LET o == TheObj(cl.last.index)
        e == TheEnt(o, cl.last.sub) IN
      /\ value.index = o.index /\ value.sub = e.sub
      /\ IF e.kind = "null"
         THEN value.dtype = 0 /\ value.bits = 0 /\ value.access = 0 /\ value.name = <<>>
         ELSE value.dtype = e.dtype /\ value.bits = e.bits /\ value.access = e.access
              /\ value.name = e.name

---------------------------------------------------------------------------
(* ObjectEntry.read / write and sdo_read_format: the layer above Terminal.sdo_read / sdo_write
   (those are C16's).  An "sdo" step records one call of the real sdo_read / sdo_write made by
   the layer: [op "up"|"down", index, sub (-1 = complete access), data, res]      [doc]      *)
RECURSIVE ULE(_, _)
ULE(b, k) == IF k > Len(b) THEN 0 ELSE b[k] + 256 * ULE(b, k + 1)      \* needs b[4] < 128
Pow256(k) == CASE k = 0 -> 1 [] k = 1 -> 256 [] k = 2 -> 65536 [] k = 3 -> 16777216
SLE(b) == IF b[Len(b)] < 128 THEN ULE(b, 1)
          ELSE ULE(SubSeq(b, 1, Len(b) - 1), 1) + Pow256(Len(b) - 1) * (b[Len(b)] - 256)
IntBytes(v, w) == Mat([i \in 1 .. w |-> (v \div Pow256(i - 1)) % 256], w)   \* two's complement

Unsigned == {5, 6, 7}
Signed == {2, 3, 4}
Width(dt) == CASE dt \in {1, 2, 5} -> 1 [] dt \in {3, 6} -> 2 [] dt \in {4, 7} -> 4
Overflows(b) == Len(b) = 4 /\ b[4] >= 128

(* val = [k "int" | "str" | "bytes", v integer, b bytes] *)
Decodes(dt, b, val) ==
    CASE dt \in Unsigned -> /\ Len(b) = Width(dt) /\ ~Overflows(b)
                            /\ val.k = "int" /\ val.v = ULE(b, 1)
      [] dt \in Signed -> Len(b) = Width(dt) /\ val.k = "int" /\ val.v = SLE(b)
      [] dt = 1 -> Len(b) = 1 /\ val.k = "int" /\ val.v = (IF b[1] = 0 THEN 0 ELSE 1)
      [] dt = 9 -> val.k = "str" /\ val.b = b                 \* VISIBLE_STRING (ASCII here)
      [] dt = 10 -> val.k = "bytes" /\ val.b = b              \* OCTET_STRING
      [] OTHER -> TRUE                                        \* no requirement stated
Encodes(dt, val, b) ==
    CASE dt \in Unsigned \cup Signed -> val.k = "int" /\ b = IntBytes(val.v, Width(dt))
      [] dt = 1 -> val.k = "int" /\ Len(b) = 1 /\ (b[1] = 0) = (val.v = 0)
      [] dt = 9 -> val.k = "str" /\ b = val.b
      [] dt = 10 -> val.k = "bytes" /\ b = val.b
      [] OTHER -> TRUE

RECURSIVE Unpack(_, _, _)
Unpack(widths, b, pos) ==          \* struct.unpack of little-endian unsigned fields
    IF widths = <<>> THEN <<>>
    ELSE <<ULE(SubSeq(b, pos, pos + Head(widths) - 1), 1)>>
         \o Unpack(Tail(widths), b, pos + Head(widths))
RECURSIVE Sum(_)
Sum(s) == IF s = <<>> THEN 0 ELSE Head(s) + Sum(Tail(s))

EntryDtype == TheEnt(TheObj(cl.a.index), cl.a.sub).dtype

SdoCall(e) ==
    /\ cl.phase = "run" /\ cl.fn \in SdoFns /\ cl.sdo.op = "none" /\ ex.st = "idle"
    /\ e.index = cl.a.index /\ e.sub = cl.a.sub             \* the entry's own address
    /\ e.op = (IF cl.fn = "write" THEN "down" ELSE "up")
    /\ (cl.fn = "write" => Encodes(EntryDtype, cl.a.val, e.data))
    /\ cl' = [cl EXCEPT !.sdo = [op |-> e.op, index |-> e.index, sub |-> e.sub,
                                 data |-> e.data, res |-> e.res]]
    /\ UNCHANGED <<od, mbx, ex>>

---------------------------------------------------------------------------
(* the call ends: out = [res "ok" | "raise" | "stall", value, ...]             [cons]       *)
RetOk(out, skip0) ==
    CASE cl.fn = "odlist" ->
           IF cl.failed THEN out.res = "raise"
           ELSE out.res = "ok" /\ cl.gotlist /\ ListResultIs(out.value, cl.refused, skip0)
      [] cl.fn = "entry" ->
           /\ cl.nreq >= 1
           /\ IF cl.last.res = "err" THEN out.res = "raise"
              ELSE out.res = "ok" /\ EntryResultIs(out.value)
      [] cl.fn = "read" ->
           /\ cl.sdo.op = "up"
           /\ cl.sdo.res = "ok" => (out.res = "ok" /\ Decodes(EntryDtype, cl.sdo.data, out.value))
      [] cl.fn = "write" ->
           /\ cl.sdo.op = "down"
           /\ cl.sdo.res = "ok" => (out.res = "ok" /\ out.srvval = cl.sdo.data)
      [] cl.fn = "fmt" ->
           /\ cl.sdo.op = "up"
           /\ (cl.sdo.res = "ok" /\ Sum(cl.a.widths) = Len(cl.sdo.data)) =>
                (out.res = "ok" /\ out.value = Unpack(cl.a.widths, cl.sdo.data, 1))

Ret(out) ==
    /\ cl.phase = "run" /\ ex.st = "idle"
    /\ RetOk(out, FALSE)
    /\ cl' = [cl EXCEPT !.phase = "done"]
    /\ UNCHANGED <<od, mbx, ex>>
=============================================================================
