SPECIFICATION TSpec
CONSTRAINT Progress
INVARIANTS OneMode AttachedKnown FdtOk QuietSockets
POSTCONDITION Post
CHECK_DEADLOCK FALSE
