SPECIFICATION WSpec
CONSTANTS MaxN = 3
          Logicals = {1, 2, 3}
PROPERTY FSpec
INVARIANT WIndInv
CHECK_DEADLOCK FALSE
