---------------------------- MODULE MC_TermDecl ----------------------------
(* X09 - consequences of the definitions of TermDecl on ALL small PDO descriptions (exhaustive).

   A state is one PDO list of a direction: at most MaxPdos PDOs, each assigned to sync manager 3 or not
   assigned (0xFF), each with at most MaxEnts entries whose object is one of Objs or padding (index 0),
   subindex in Subs, bit length in Widths.  A step only extends the list (so that TLC reaches every list
   within the bounds); every invariant is a statement about the description in the state.

   T1 Contiguous   the placed entries of the assigned PDOs tile [0, bits) in order, nothing overlaps
   T2 Inside       every placed entry lies inside the DirBytes bytes of the area
   T3 SiiRoundTrip encoding the list as an SII category and decoding it (SiiPdos) gives the list back
   T4 CoERoundTrip encoding the assigned PDOs as 0x1C13 + mapping objects and decoding them (CoEPdos) gives
                   the same layout as the SII description (both descriptions of one device agree)
   T5 AgreesC17    where every PDO is assigned, SiiImage.Pdos (the decoder of C17) locates every entry where
                   ProcLocOK (no override) admits it
   T6 Defaults     if the layout is representable, the table made of the default location of every key
                   satisfies TableOK, and default locations of different entries never overlap (R4 cannot
                   fire between two plain declarations of different entries)
   T7 BitInside    a bit override inside the entry (n < bits) resolves inside the entry's own bits
   T8 Unassigned   not-assigned PDOs change nothing: the layout is that of the list without them          *)
EXTENDS TermDecl, TLC
CONSTANTS MaxPdos, MaxEnts, Objs, Subs, Widths
VARIABLES desc,     \* the PDO list
          lay       \* its layout (a function of desc, kept in the state so that it is computed once)

EntSpace == [idx : Objs \cup {0}, sub : Subs, dtype : {1}, bits : Widths]
LayOf(d) == DirLayout(Assigned(d), SmIn)
Init == desc = <<>> /\ lay = LayOf(<<>>)
(* the list grows by an empty PDO or by an entry of its last PDO: every list within the bounds is reached *)
AddPdo == /\ Len(desc) < MaxPdos
          /\ \E sm \in {3, NotAssigned} : desc' = Append(desc, [index |-> 6656, sm |-> sm, ents |-> <<>>])
AddEnt == /\ Len(desc) > 0 /\ Len(desc[Len(desc)].ents) < MaxEnts
          /\ \E e \in EntSpace : desc' = [desc EXCEPT ![Len(desc)].ents = Append(@, e)]
Next == (AddPdo \/ AddEnt) /\ lay' = LayOf(desc')
Spec == Init /\ [][Next]_<<desc, lay>>

(* ---- encoders (only here: the devices encode, the specification decodes) ---- *)
Lo8(x) == x % 256
Hi8(x) == x \div 256
EncEnt(e) == <<Lo8(e.idx), Hi8(e.idx), e.sub, 0, e.dtype, e.bits, 0, 0>>
RECURSIVE EncEnts(_, _, _)
EncEnts(es, k, acc) == IF k > Len(es) THEN acc ELSE EncEnts(es, k + 1, acc \o EncEnt(es[k]))
EncPdo(p) == <<Lo8(p.index), Hi8(p.index), Len(p.ents), p.sm, 0, 0, 0, 0>> \o EncEnts(p.ents, 1, <<>>)
RECURSIVE EncSii(_, _, _)
EncSii(ps, k, acc) == IF k > Len(ps) THEN acc ELSE EncSii(ps, k + 1, acc \o EncPdo(ps[k]))
(* a dictionary: PDO number k of the list is object 0x1A00 + k *)
OdOfPdo(p, obj) == [j \in 1 .. Len(p.ents) |->
                      [idx |-> obj, sub |-> j,
                       data |-> <<p.ents[j].bits, p.ents[j].sub, Lo8(p.ents[j].idx), Hi8(p.ents[j].idx)>>]]
                   \o <<[idx |-> obj, sub |-> 0, data |-> <<Len(p.ents)>>]>>
RECURSIVE OdOfList(_, _, _)
OdOfList(ps, k, acc) == IF k > Len(ps) THEN acc ELSE OdOfList(ps, k + 1, acc \o OdOfPdo(ps[k], 6656 + k))
AssignedNos(ps) == SelectSeq([k \in 1 .. Len(ps) |-> IF ps[k].sm = NotAssigned THEN 0 ELSE 6656 + k],
                             LAMBDA x : x # 0)
OdOf(ps) == LET a == AssignedNos(ps) IN
            OdOfList(ps, 1, <<>>) \o [k \in 1 .. Len(a) |-> [idx |-> Idx1C13, sub |-> k, data |-> <<Lo8(a[k]), Hi8(a[k])>>]]
            \o <<[idx |-> Idx1C13, sub |-> 0, data |-> <<Len(a)>>]>>

Lay == lay
Full == MkLayout([bits |-> 0, placed |-> <<>>], lay)
LayIsLayout == lay = LayOf(desc)
Untyped(pl) == [k \in 1 .. Len(pl) |-> [pl[k] EXCEPT !.dtype = -1]]

T1_Contiguous == /\ \A k \in 1 .. Len(Lay.placed) :
                       Lay.placed[k].pos = (IF k = 1 THEN 0 ELSE Lay.placed[k - 1].pos + Lay.placed[k - 1].bits)
                 /\ Lay.bits = (IF Len(Lay.placed) = 0 THEN 0
                                ELSE Lay.placed[Len(Lay.placed)].pos + Lay.placed[Len(Lay.placed)].bits)
T2_Inside == \A k \in 1 .. Len(Lay.placed) :
                Lay.placed[k].pos + Lay.placed[k].bits <= 8 * DirBytes(Full, SmIn)
T3_SiiRoundTrip == SiiPdos(EncSii(desc, 1, <<>>)) = [ok |-> TRUE, pdos |-> desc]
T4Body(od, asg) ==
    /\ OdListWF(od, Idx1C13, 2) /\ AssignmentWF(od, asg)
    /\ DirLayout(CoEPdos(od, asg, 3), SmIn) = [bits |-> Lay.bits, placed |-> Untyped(Lay.placed)]
T4Od(od) == T4Body(od, DeviceAssignment(od, Idx1C13))
T4_CoERoundTrip == T4Od(OdOf(desc))
FmtCodes(f) == CASE f = "B" -> <<66>> [] f = "H" -> <<72>> [] f = "I" -> <<73>> [] f = "Q" -> <<81>> [] OTHER -> <<>>
T5_AgreesC17 ==
    (\A k \in 1 .. Len(desc) : desc[k].sm # NotAssigned) /\ Representable(Full) =>
        LET old == Pdos(EncSii(desc, 1, <<>>), SmIn) IN
        /\ old.ok /\ old.bits = Lay.bits
        /\ \A i \in 1 .. Len(old.entries) : \E k \in 1 .. Len(Lay.placed) :
              /\ Lay.placed[k].idx = old.entries[i].idx /\ Lay.placed[k].sub = old.entries[i].sub
              /\ ProcLocOK(Lay.placed[k], NoOv,
                           [sm |-> old.entries[i].sm, byte |-> old.entries[i].byte, bit |-> old.entries[i].bit,
                            fmtc |-> FmtCodes(old.entries[i].fmt)])
DefaultRes(e) == [status |-> "ok", sm |-> e.dir, byte |-> e.pos \div 8,
                  bit |-> IF e.bits < 8 THEN e.pos % 8 ELSE NoBit,
                  fmtc |-> IF e.bits < 8 THEN <<>> ELSE FmtCodes(Format(e.bits))]
FirstOfKey(k) == \A j \in 1 .. k - 1 : ~(Lay.placed[j].idx = Lay.placed[k].idx /\ Lay.placed[j].sub = Lay.placed[k].sub)
DefaultTable == LET S == SelectSeq([k \in 1 .. Len(Lay.placed) |-> k],
                                   LAMBDA k : Lay.placed[k].idx # 0 /\ FirstOfKey(k)) IN
                [i \in 1 .. Len(S) |-> DefaultRes(Lay.placed[S[i]])
                                       @@ [idx |-> Lay.placed[S[i]].idx, sub |-> Lay.placed[S[i]].sub]]
PlainDecl(e) == [kind |-> "process", idx |-> e.idx, off |-> 0, sub |-> e.sub, dsm |-> "", pos |-> 0, poff |-> 0, ov |-> NoOv]
T6_Defaults == Representable(Full) =>
    /\ TableOK(Full, DefaultTable, 0, Lay.bits)
    /\ \A i, j \in 1 .. Len(Lay.placed) :
          (i # j /\ Lay.placed[i].idx # 0 /\ Lay.placed[j].idx # 0) =>
              ~BadOverlap(PlainDecl(Lay.placed[i]), DefaultRes(Lay.placed[i]),
                          PlainDecl(Lay.placed[j]), DefaultRes(Lay.placed[j]))
BitRes(e, n) == [sm |-> e.dir, byte |-> (e.pos + n) \div 8, bit |-> (e.pos + n) % 8, fmtc |-> <<>>]
T7_BitInside == \A k \in 1 .. Len(Lay.placed) : \A n \in 0 .. 7 :
    n < Lay.placed[k].bits =>
        /\ ProcLocOK(Lay.placed[k], [k |-> "bit", n |-> n], BitRes(Lay.placed[k], n))
        /\ Lo(BitRes(Lay.placed[k], n)) >= Lay.placed[k].pos
        /\ Hi(BitRes(Lay.placed[k], n)) <= Lay.placed[k].pos + Lay.placed[k].bits
T8_Unassigned == Lay = DirLayout(SelectSeq(desc, LAMBDA p : p.sm = 3), SmIn)
=============================================================================
