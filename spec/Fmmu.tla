------------------------------- MODULE Fmmu -------------------------------
(* C20 - the FMMUs of one terminal as a slot table.

   A mapping is identified by its logical address.  Which free slot a mapping takes is not
   prescribed; that a live slot is never taken again, that a failing map leaves the table
   untouched and that ending a mapping frees exactly its own slot is.  The terminal's FMMU
   registers (type/activate bytes written by the master) are part of the state so that the
   master's view (the table) and the terminal's view (the registers) can be compared.       *)
EXTENDS Integers, Sequences, FiniteSets, TLC

CONSTANTS MaxN,        \* largest number of FMMUs considered
          Logicals     \* logical addresses that identify mappings

Free == 0              \* logical address 0 is never used for a mapping

VARIABLES n,           \* number of FMMUs of this terminal (fixed during a behaviour)
          slot,        \* slot[i], i \in 0..n-1: logical address of the live mapping, or Free
          reg          \* reg[i]: [active, dir, logical] as last written to the terminal

fvars == <<n, slot, reg>>

Slots == 0 .. (n - 1)
Live == {slot[i] : i \in Slots} \ {Free}
RegOff == [active |-> FALSE, dir |-> 0, logical |-> 0]

FInit(k) == /\ n = k
            /\ slot = [i \in 0 .. (k - 1) |-> Free]
            /\ reg = [i \in 0 .. (k - 1) |-> RegOff]

(* a mapping m gets slot s: only a free slot may be taken, and the registers of exactly that
   slot are programmed with the mapping (dir: 1 = read, 2 = write)                          *)
MapOk(m, write, s) ==
    /\ m # Free /\ m \notin Live
    /\ s \in Slots /\ slot[s] = Free
    /\ slot' = [slot EXCEPT ![s] = m]
    /\ reg' = [reg EXCEPT ![s] = [active |-> TRUE, dir |-> IF write THEN 2 ELSE 1, logical |-> m]]
    /\ UNCHANGED n

(* a mapping may fail; then nothing changes.  (The property does not say when a map must
   succeed, only that it must not succeed by sharing.)                                      *)
MapFail(m) == /\ m # Free /\ m \notin Live /\ UNCHANGED fvars

(* ending mapping m normally: exactly its slot is freed and deactivated                     *)
Unmap(m) ==
    /\ m \in Live
    /\ LET s == CHOOSE i \in Slots : slot[i] = m IN
         /\ slot' = [slot EXCEPT ![s] = Free]
         /\ reg' = [reg EXCEPT ![s].active = FALSE]
    /\ UNCHANGED n

(* ending mapping m by an exception thrown into its body: the table entry is freed; the
   property says nothing about the register write in this case                              *)
UnmapAbort(m) ==
    /\ m \in Live
    /\ LET s == CHOOSE i \in Slots : slot[i] = m IN slot' = [slot EXCEPT ![s] = Free]
    /\ UNCHANGED <<n, reg>>

FNext == \E m \in Logicals :
            \/ \E w \in BOOLEAN, s \in Slots : MapOk(m, w, s)
            \/ MapFail(m) \/ Unmap(m) \/ UnmapAbort(m)

FSpec == (\E k \in 1 .. MaxN : FInit(k)) /\ [][FNext]_fvars

-----------------------------------------------------------------------------
NoSharing == \A i, j \in Slots : (slot[i] # Free /\ slot[i] = slot[j]) => i = j
(* every live mapping is what the terminal has activated in that slot *)
RegsAgree == \A i \in Slots : slot[i] # Free => (reg[i].active /\ reg[i].logical = slot[i])
TypeOK == /\ n \in 1 .. MaxN
          /\ slot \in [Slots -> Logicals \cup {Free}]
=============================================================================
