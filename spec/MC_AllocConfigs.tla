---- MODULE MC_AllocConfigs ----
EXTENDS AllocConfigs
mcModes == {"F", "D", "A"}
mcIn == <<{0, 1}, {0, 2}, {0, 7}>>
mcOut == <<{0, 8}, {0, 7}, {0, 2}>>
====
