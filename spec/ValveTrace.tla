---------------------------- MODULE ValveTrace ----------------------------
(* Trace validation for C27: every recorded run of the real Valve device (configuration, the
   frame and device state right after reset, then the environment steps and, for each update,
   the coil, target and error observed after it) must be a behaviour of Valve.                 *)
EXTENDS Valve, Sequences, Json, IOUtils, TLCExt
Traces == JsonDeserialize(IOEnv.TRACE_FILE)
VARIABLES tid, l
tvars == <<vvars, tid, l>>

TInit == /\ tid \in 1 .. Len(Traces) /\ l = 1
         /\ LET t == Traces[tid] IN VInit(t.mt, t.safe, t.coil0, t.target0, t.open0, t.closed0)

TStep(e) == \/ e.op = "target" /\ SetTarget(e.v)
            \/ e.op = "switches" /\ Switches(e.o, e.c)
            \/ e.op = "advance" /\ Advance(e.dt)
            \/ e.op = "movingtime" /\ SetMovingTime(e.mt)
            \/ e.op = "safestate" /\ SetSafeState(e.s)
            \/ /\ e.op = "update" /\ e.res = "ok"
               /\ \E conf \in BOOLEAN : Update(conf)
               /\ coil' = e.coil /\ target' = e.target /\ error' = e.error
            \* an update that raises or hangs is recorded with res # "ok": no step of Valve

TNext == /\ l <= Len(Traces[tid].ev)
         /\ l' = l + 1 /\ UNCHANGED tid
         /\ TStep(Traces[tid].ev[l])
TSpec == TInit /\ [][TNext]_tvars

Max2(a, b) == IF a > b THEN a ELSE b
Progress == TLCSet(tid, Max2(TLCGet(tid), l))
ASSUME \A i \in 1 .. Len(Traces) : TLCSet(i, 0)
Post == \A i \in 1 .. Len(Traces) : PrintT(<<"RESULT", i, TLCGet(i) - 1, Len(Traces[i].ev)>>)
=============================================================================
