SPECIFICATION TSpec
CONSTANTS HiIncl = FALSE
          Addrs = {}
CONSTRAINT Progress
INVARIANTS UniqueAssigned
           WrittenInRange
POSTCONDITION Post
CHECK_DEADLOCK FALSE
