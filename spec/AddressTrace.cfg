SPECIFICATION TSpec
CONSTANTS HiIncl = FALSE
          Addrs = {}
CONSTRAINT Progress
INVARIANTS Unique
           WrittenInRange
POSTCONDITION Post
CHECK_DEADLOCK FALSE
