---------------------------- MODULE AllocHistory ----------------------------
(* Histories of one bus for C18: the windows of ALL groups a bus has handed out and that are
   still in use must be apart, however many allocations lie between them and whichever
   process of the bus made them.  A script is a sequence of operations
     group(p, ts)  process p allocates a sync group of the terminals ts (observed, stays live)
     churn(p, n)   process p makes n further allocations whose groups are gone again
     crowd(p, n)   process p allocates n small groups that all stay live (observed)
   on a bus driven by one plain master ("simple": one process, p = 1) or by cooperating
   processes ("parallel": p = 1 and p = 2 are two processes with neighbouring process numbers,
   2 above 1).  Gaps sit around the powers of two 2^k, k in Ks: counters that wrap or run into
   a neighbour's share do so there; crowds catch every other period up to their size.        *)
EXTENDS Integers, Sequences, TLC, Json
CONSTANTS Masters,     \* subset of {"simple", "parallel"}
          Ks,          \* exponents for the gaps
          Kinds,       \* subset of {"tiny", "wide", "aero"}
          Crowds       \* sizes of crowds
VARIABLE s

Term(m, i, o, w, pad) == [mode |-> m, pin |-> IF i > 0 THEN i + pad ELSE 0,
                          pout |-> IF o > 0 THEN o + pad ELSE 0, rw |-> w, din |-> i, dout |-> o]
Terms(kind) == CASE kind = "tiny" -> <<Term("F", 1, 1, TRUE, 0)>>
                 [] kind = "wide" -> <<Term("F", 700, 700, TRUE, 0)>>
                 [] kind = "aero" -> <<Term("A", 64, 8, TRUE, 36), Term("F", 0, 700, TRUE, 0)>>
Group(p, kind) == [op |-> "group", proc |-> p, n |-> 0, ts |-> Terms(kind)]
Churn(p, n) == [op |-> "churn", proc |-> p, n |-> n, ts |-> <<>>]
Crowd(p, n) == [op |-> "crowd", proc |-> p, n |-> n, ts |-> Terms("tiny")]

Gaps == {0, 1} \cup UNION {{2 ^ k - 2, 2 ^ k - 1, 2 ^ k, 2 ^ k + 1} : k \in Ks}
\* who allocates the first group, and who churns and allocates the second
Whos(m) == IF m = "simple" THEN {<<1, 1>>} ELSE {<<1, 1>>, <<2, 1>>, <<1, 2>>}
GapScriptsOf(m) == {[master |-> m, ops |-> <<Group(w[1], a), Churn(w[2], g), Group(w[2], b)>>] :
                      w \in Whos(m), a \in Kinds, b \in Kinds, g \in Gaps}
CrowdScriptsOf(m) == {[master |-> m,
                       ops |-> IF m = "simple" THEN <<Crowd(1, n)>>
                               ELSE <<Group(2, "tiny"), Crowd(1, n)>>] : n \in Crowds}
Scripts == UNION {GapScriptsOf(m) \cup CrowdScriptsOf(m) : m \in Masters}

HInit == s \in Scripts
HNext == UNCHANGED s
HSpec == HInit /\ [][HNext]_s
Emit == PrintT(<<"SCRIPT", ToJson(s)>>)
=============================================================================
