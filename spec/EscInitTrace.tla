---------------------------- MODULE EscInitTrace ----------------------------
(* Trace validation for X01: what the real Terminal methods did to the simulated segment
   (harness/escsim.py: every write access that reached a terminal, in bus order; the register
   file and the object's attributes at the end of each call) must be a behaviour of EscInit.

   A trace:  [ee    |-> [has41, d, outbits, inbits, other],   d = bytes of category 41
              relax |-> <<"O1", ...>>,                         relaxations in force (see EscInit)
              nf    |-> number of FMMUs,
              init  |-> [regs, al],                              the ESC before the first call
              ev    |-> << [k |-> "call", op, has_rel, has_abs, abs, a, b],
                           [k |-> "w", t, ado, data],          t = 0: the terminal called
                           [k |-> "ret", ok, view, regs, al, other],
                           [k |-> "env", what |-> "al" / "newobj", al] >>]
   regs = register dump (see EscOf).  The dump at
   a return must equal the specification's own register file: the simulator and EscWrite agree. *)
EXTENDS EscInit, TLC, Json, IOUtils
Traces == JsonDeserialize(IOEnv.TRACE_FILE)
VARIABLES tid, l
tvars == <<evars, tid, l>>

(* a register dump: [station, wd |-> <<divider, PDI, process>>, fmmu |-> <<16 bytes>> per FMMU,
   sm |-> <<8 bytes>> per sync manager]                                                       *)
EscOf(regs, al, nf) == [station |-> regs.station, wd |-> regs.wd, fmmu |-> regs.fmmu, sm |-> regs.sm,
                        al |-> al, nf |-> nf]
SeqSet(s) == {s[i] : i \in 1 .. Len(s)}

TInit == /\ tid \in 1 .. Len(Traces) /\ l = 1
         /\ ee = [has41 |-> Traces[tid].ee.has41, d |-> Traces[tid].ee.d,
                  outbits |-> Traces[tid].ee.outbits, inbits |-> Traces[tid].ee.inbits,
                  other |-> Traces[tid].ee.other, rx |-> SeqSet(Traces[tid].relax)]
         /\ esc = EscOf(Traces[tid].init.regs, Traces[tid].init.al, Traces[tid].nf)
         /\ obj = NoObj /\ call = Idle

TCall(e) == e.k = "call" /\ Call(e)
TWrite(e) == e.k = "w" /\ Write(e.t, e.ado, e.data)
TRet(e) == /\ e.k = "ret"
           /\ EscOf(e.regs, e.al, esc.nf) = esc
           /\ IF e.ok THEN Return(e.view, e.other) ELSE Fail
TEnv(e) == /\ e.k = "env"
           /\ IF e.what = "al" THEN EnvAl(e.al) ELSE EnvNewObj

TNext == /\ l <= Len(Traces[tid].ev)
         /\ l' = l + 1 /\ UNCHANGED tid
         /\ LET e == Traces[tid].ev[l] IN TCall(e) \/ TWrite(e) \/ TRet(e) \/ TEnv(e)
TSpec == TInit /\ [][TNext]_tvars

Max2(a, b) == IF a > b THEN a ELSE b
Progress == TLCSet(tid, Max2(TLCGet(tid), l))
ASSUME \A i \in 1 .. Len(Traces) : TLCSet(i, 0)
Appl(i) == LET x == Traces[i].ee IN
    Applicable([has41 |-> x.has41, d |-> x.d])
RECURSIVE SetToSeq(_)
SetToSeq(S) == IF S = {} THEN <<>> ELSE LET x == CHOOSE y \in S : TRUE
                                        IN <<x>> \o SetToSeq(S \ {x})
Post == \A i \in 1 .. Len(Traces) :
           PrintT(<<"RESULT", i, TLCGet(i) - 1, Len(Traces[i].ev), SetToSeq(Appl(i))>>)
=============================================================================
