----------------------------- MODULE SiiTrace -----------------------------
(* Trace validation for C17: the register accesses the real Terminal._eeprom_read_one and
   EtherCat.eeprom_read made (recorded by the simulated terminal), and the value they returned,
   must be a behaviour of the terminal actions of Sii with a client that obeys the protocol:
   every read command is accepted (never written to a busy interface), every register read
   shows what the terminal of the specification shows (status bits; the data where it is
   defined), and the value returned for a read of n bytes at word a is image bytes [2a, 2a+n).

   Events:  [k |-> "call", a, n]   [k |-> "rd", status, len, data]  (data = bytes from 0x508)
            [k |-> "wr", ctl, addr]   [k |-> "ret", data]                                    *)
EXTENDS Sii, Json, IOUtils
Traces == JsonDeserialize(IOEnv.TRACE_FILE)
VARIABLES tid, l
tvars == <<svars, tid, l>>

TInit == /\ tid \in 1 .. Len(Traces) /\ l = 1 /\ SInit(Traces[tid].image)

Bit(w, b) == (w \div b) % 2 = 1
DataAgrees(spec, obs) == \A k \in 1 .. Len(obs) : spec[k] = Garbage \/ spec[k] = obs[k]

TCall(e) == /\ e.k = "call" /\ cl.pc \in {"idle", "done"}
            /\ cl' = [Idle EXCEPT !.pc = "run", !.a = e.a, !.n = e.n]
            /\ UNCHANGED <<image, esc>>
(* a read of the register block: either the terminal is still busy and says so, or it is (or
   just became) ready and shows its capability bit and the loaded data                       *)
TReadBusy(e) == /\ e.k = "rd" /\ Bit(e.status, BitBusy)
                /\ BusyTick
                /\ UNCHANGED <<image, cl>>
TReadReady(e) == /\ e.k = "rd" /\ ~Bit(e.status, BitBusy)
                 /\ esc' = IF esc.busy THEN Loaded(esc) ELSE esc
                 /\ Bit(e.status, BitCap8) = esc.cap8
                 /\ DataAgrees(esc'.data, e.data)
                 /\ UNCHANGED <<image, cl>>
TWrite(e) == /\ e.k = "wr" /\ e.ctl = CmdRead
             /\ AcceptRead(e.addr)
             /\ UNCHANGED <<image, cl>>
TRet(e) == /\ e.k = "ret" /\ cl.pc = "run"
           /\ e.data = ImageBytes(image, 2 * cl.a, cl.n)
           /\ cl' = [cl EXCEPT !.pc = "done"]
           /\ UNCHANGED <<image, esc>>

TNext == /\ l <= Len(Traces[tid].ev)
         /\ l' = l + 1 /\ UNCHANGED tid
         /\ LET e == Traces[tid].ev[l] IN
              TCall(e) \/ TReadBusy(e) \/ TReadReady(e) \/ TWrite(e) \/ TRet(e)
TSpec == TInit /\ [][TNext]_tvars

Max2(a, b) == IF a > b THEN a ELSE b
Progress == TLCSet(tid, Max2(TLCGet(tid), l))
ASSUME \A i \in 1 .. Len(Traces) : TLCSet(i, 0)
Post == \A i \in 1 .. Len(Traces) : PrintT(<<"RESULT", i, TLCGet(i) - 1, Len(Traces[i].ev)>>)
=============================================================================
