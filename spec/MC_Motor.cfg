INIT Init
NEXT Next
CONSTANTS
  TMax = 3
  PMax = 2
  GMax = 3
  AMax = 5
  VMax = 4
INVARIANTS PreHolds
           LawIsIntLaw
           ConsequencesHold
           IntConsequences
CHECK_DEADLOCK FALSE
