---------------------------- MODULE MC_DevicesLcg ----------------------------
(* X07 - what the generator constants give (R4), on an M-byte generator (the real one has 4 bytes
   for RandomOutput's seed and uses 2 bytes of it in RandomDropper): starting anywhere, the seed
   returns to its start after exactly 256^M cycles and not before (full period), and during that
   period the output was switched on in exactly `value` cycles; the draw of RandomDropper is a
   bijection of the clock's low M bytes, and depends on nothing else of the clock.             *)
EXTENDS Devices, FiniteSets, TLC
CONSTANTS M, Seeds, Values
VARIABLES seed0, value, seed, steps, on
vars == <<seed0, value, seed, steps, on>>
Period == 256 ^ M

Init == seed0 \in Seeds /\ value \in Values /\ seed = DW(seed0) /\ steps = 0 /\ on = 0
Next == /\ steps < Period
        /\ seed' = Lcg(seed, M)
        /\ on' = on + (IF DGt(DW(value), seed') THEN 1 ELSE 0)
        /\ steps' = steps + 1
        /\ UNCHANGED <<seed0, value>>
Spec == Init /\ [][Next]_vars

FullPeriod == /\ (steps > 0 /\ steps < Period) => seed # DW(seed0)
              /\ steps = Period => seed = DW(seed0)
Frequency == steps = Period => on = (IF value < Period THEN value ELSE Period)
(* the multiplier is 1 mod 4 and the increment odd: the Hull-Dobell conditions for modulus 2^k *)
ASSUME HullDobell == LcgA[1] % 4 = 1
ASSUME DrawBijective == Cardinality({Lcg(DW(x), M) : x \in 0 .. Period - 1}) = Period
ASSUME DrawLowBytesOnly == \A x \in {0, 1, Period - 1} : \A hi \in {1, 77, 255} :
                              Lcg(WAdd(DW(x), WShlBytes(DW(hi), M)), M) = Lcg(DW(x), M)
=============================================================================
