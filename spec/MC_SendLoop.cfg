SPECIFICATION MCSpec
CONSTANTS MaxReq = 3
          Sizes = {1, 2, 4, 5}
          Faults = {"delay", "lose", "dup"}
          Cancellable = {1, 2, 3}
          MaxFrames = 4
          MaxFrame = 4
          Header = 0
          Overhead = 0
INVARIANTS TypeOK
           P1_Once
           P2_Order
           P4_Own
           P6_Rest
PROPERTIES P3_OnceDone
           P5_Indep
CHECK_DEADLOCK FALSE
