INIT PInit
NEXT PNext
CHECK_DEADLOCK FALSE
