SPECIFICATION XSpec
INVARIANTS NoFault
           NoLostUpdate
           AllExit
CHECK_DEADLOCK FALSE
