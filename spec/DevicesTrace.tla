---------------------------- MODULE DevicesTrace ----------------------------
(* X07 - trace validation: recorded runs of the REAL bundled devices must be behaviours of the
   device group below, whose steps are exactly the steps the code takes:

     Build    the devices are put into a sync group (SyncGroup / FastSyncGroup constructor, allocate,
              assemble): this must succeed, and the group must contain every terminal a device
              was given (R1, Dummy: "assuring a terminal is initialized");
     Set      the user assigns a device variable (DeviceVar.__set__: a Python attribute on the slow
              path, struct.pack into the mmap'ed `properties` map on the fast path);
     Prob     the user assigns RandomOutput.probability;
     Get      the user reads a device variable (DeviceVar.__get__);
     Cycle    slow path: SyncGroup.update_devices(data) - every device's update() in group order;
     Run      fast path: the group's loaded program runs in the KERNEL on a frame
              (BPF_PROG_TEST_RUN; the map is the real map the user-space side has mmap'ed);
     Update   fast path: FastSyncGroup.update_devices(data) in user space - fast_update().

   State: vs, the device variables as exact integers, and (fast path) pb, the bytes of the
   `properties` map; vs is always what pb decodes to.  Each step computes its successor with the
   laws of Devices.tla and compares it with what was recorded.  The kernel's clock is not
   controllable: a Counter's reading is bound from the trace (its lasttime afterwards); a
   RandomDropper's verdict may be either one unless its rate makes the draw irrelevant (the two
   extreme draws are tried).

   Differences between the paths are recognised HERE and printed as <<"OBS", tid, l, class>>; the
   step is then taken the way the code took it, so that the rest of the trace is still checked:
     slow-<kind>-inert              a slow cycle ran RandomOutput / Counter / RandomDropper, whose
                                    update() does nothing (Counter: only counts) - DevSlowOnly;
     fast-<kind>-value-not-storable a value the slow path handles (legal for the linked process
                                    variable) cannot be stored in the DeviceVar's declared format
                                    on the fast path: the assignment / fast_update raises.

   trace = [path |-> "slow" | "fast", devs (as in DevicesRun; dv = <<>> on the slow path),
            free |-> positions (0-based, in the frame without Ethernet header) not prescribed:
                     command byte / working counter of the datagrams,
            wkc |-> [off, n] of wkc_errors in the map (fast), vs0 / pb0 the initial state,
            ev |-> <<event, ...>>]                                                             *)
EXTENDS Devices, TLC, Json, IOUtils, TLCExt
Traces == JsonDeserialize(IOEnv.TRACE_FILE)
VARIABLES tid, l, vs, pb
tvars == <<tid, l, vs, pb>>
T == Traces[tid]
Fast == T.path = "fast"
Eth == 14
Obs(class) == PrintT(<<"OBS", tid, l, class>>)
(* for the evidence: was the law demanded of this step (preconditions true, results representable)? *)
Note(applied) == PrintT(<<"NOTE", tid, l, applied>>)
(* TLC splits an action at every disjunction / implication / quantifier it meets, also where no
   primed variable is involved (2^k evaluations for k positions of a \A ... \/ ...): state-level
   conditions are therefore handed over as one boolean value; and a value used several times is
   bound by \E w \in {value} (a LET would be re-evaluated at every use)                         *)
B(p) == p = TRUE

DvBytes(mem, dv) == SubSeq(mem, dv.off + 1, dv.off + dv.n)
DvVal(mem, dv) == FmtDecode(DvBytes(mem, dv), dv)
VarsOf(devs, mem) ==
    Mat([i \in 1 .. Len(devs) |->
            Mat([j \in 1 .. Len(devs[i].dv) |-> DvVal(mem, devs[i].dv[j])], Len(devs[i].dv))], Len(devs))
Store(mem, dv, val) == Mat([i \in 1 .. Len(mem) |-> IF i > dv.off /\ i <= dv.off + dv.n THEN val[i - dv.off] ELSE mem[i]],
                           Len(mem))
VarPositions(devs) == UNION {UNION {dv.off .. dv.off + dv.n - 1 : dv \in {devs[i].dv[j] : j \in 1 .. Len(devs[i].dv)}}
                             : i \in 1 .. Len(devs)}
(* map bytes outside the device variables and wkc_errors *)
OtherSame(p0, p1) ==
    LET skip == VarPositions(T.devs) \cup (T.wkc.off .. T.wkc.off + T.wkc.n - 1) IN
    Len(p1) = Len(p0) /\ \A i \in 0 .. Len(p0) - 1 : i \in skip \/ p1[i + 1] = p0[i + 1]
VarsStored(p1, want) ==
    \A i \in 1 .. Len(T.devs) : \A j \in 1 .. Len(T.devs[i].dv) :
        DvBytes(p1, T.devs[i].dv[j]) = WTrunc(want[i][j], T.devs[i].dv[j].n)
Free == {T.free[j] : j \in 1 .. Len(T.free)}
FrameSame(want, got) == Len(got) = Len(want) /\ \A i \in 1 .. Len(want) : (i - 1) \in Free \/ got[i] = want[i]

TInit == /\ tid \in 1 .. Len(Traces) /\ l = 1
         /\ pb = Traces[tid].pb0
         /\ vs = IF Traces[tid].path = "fast" THEN VarsOf(Traces[tid].devs, Traces[tid].pb0) ELSE Traces[tid].vs0

(* ---- the user's side ------------------------------------------------------------------------ *)
Assign(e, d, j, val) ==
    LET dev == T.devs[d] IN
    IF FmtHolds(dev.fm[j], val)
    THEN /\ ~e.raised
         /\ vs' = [vs EXCEPT ![d][j] = val]
         /\ IF Fast THEN e.pb = Store(pb, dev.dv[j], val) /\ pb' = e.pb ELSE pb' = pb
    ELSE /\ e.raised /\ B(Fast => e.pb = pb)
         /\ UNCHANGED <<vs, pb>>
         /\ B((dev.kind \in {"ao", "do"} /\ ProcVarHolds(dev.data, val)) => Obs("fast-" \o dev.kind \o "-value-not-storable"))
Build(e) == B(e.raised = "" /\ \A i \in 1 .. Len(e.ingroup) : e.ingroup[i]) /\ UNCHANGED <<vs, pb>>
Set(e) == Assign(e, e.d, e.j, e.val)
Prob(e) == T.devs[e.d].kind = "ro" /\ Assign(e, e.d, 2, ProbabilityValue(e.num, e.den))
Get(e) == B(~e.raised /\ e.val = vs[e.d][e.j]) /\ UNCHANGED <<vs, pb>>

(* ---- slow path: SyncGroup.update_devices --------------------------------------------------- *)
SlowKinds == {T.devs[i].kind : i \in 1 .. Len(T.devs)} \cap {"ro", "ctr", "drop"}
CycleW(e, w) ==
    /\ B((w.pre /\ w.holds) => (e.raised = "" /\ FrameSame(w.frame, e.out) /\ e.vs = w.vs))
    /\ B(Note(w.pre /\ w.holds))
    /\ vs' = e.vs /\ pb' = pb
    /\ B(\A k \in SlowKinds : Obs("slow-" \o k \o "-inert"))
Cycle(e) == ~Fast /\ \E w \in {RunDevs(T.devs, e.inp, vs, <<>>, "slow")} : CycleW(e, w)

(* ---- fast path: the program in the kernel -------------------------------------------------- *)
NowMin == DW(11443)         \* a clock reading whose draw is 0: dropped whenever rate > 0
NowMax == DW(22886)        \* a clock reading whose draw is 65535: dropped only if rate > 65535
ASSUME DropDraw(NowMin) = DZero /\ DropDraw(NowMax) = DW(65535)
ClockDevs == SelectSeq(T.devs, LAMBDA d : DevUsesClock(d.kind))
(* the candidate clock readings of one run: Counter's is its lasttime afterwards *)
RECURSIVE NowCands(_, _, _)
NowCands(cd, i, p1) ==
    IF i > Len(cd) THEN {<<>>}
    ELSE LET rest == NowCands(cd, i + 1, p1)
             mine == IF cd[i].kind = "ctr" THEN {DvVal(p1, cd[i].dv[2])} ELSE {NowMin, NowMax} IN
         {<<n>> \o r : n \in mine, r \in rest}
ActOfRv(rv) == IF rv = 3 THEN "TX" ELSE IF rv = 1 THEN "DROP" ELSE "OTHER"
RunMatches(e, w) ==
    Note(w.pre /\ w.holds) /\ (w.pre /\ w.holds) =>
        /\ ActOfRv(e.rv) = w.act
        /\ w.act = "DROP" \/ FrameSame(w.frame, SubSeq(e.out, Eth + 1, Len(e.out)))
        /\ w.act = "DROP" \/ SubSeq(e.out, 1, Eth) = SubSeq(e.pkt, 1, Eth)
        /\ VarsStored(e.pb, w.vs) /\ OtherSame(pb, e.pb)
Run(e) == /\ Fast
          /\ B(\E nows \in NowCands(ClockDevs, 1, e.pb) :
                  \E w \in {RunDevs(FastProgramDevs(T.devs), SubSeq(e.pkt, Eth + 1, Len(e.pkt)), vs, nows, "fast")} :
                     RunMatches(e, w))
          /\ pb' = e.pb /\ vs' = VarsOf(T.devs, e.pb)

(* ---- fast path: fast_update in user space -------------------------------------------------- *)
UpdateU(e, u) ==
    /\ B(Note(u.holds))
    /\ B(IF u.holds THEN e.raised = ""
         ELSE e.raised # "" /\ Obs("fast-" \o T.devs[u.ran].kind \o "-value-not-storable"))
    /\ B(VarsStored(e.pb, u.vs) /\ OtherSame(pb, e.pb))
    /\ pb' = e.pb /\ vs' = VarsOf(T.devs, e.pb)
Update(e) == Fast /\ \E u \in {FastUpdate(T.devs, e.data, vs)} : UpdateU(e, u)

TStep(e) == \/ e.op = "build" /\ Build(e)
            \/ e.op = "set" /\ Set(e)
            \/ e.op = "prob" /\ Prob(e)
            \/ e.op = "get" /\ Get(e)
            \/ e.op = "cycle" /\ Cycle(e)
            \/ e.op = "run" /\ Run(e)
            \/ e.op = "update" /\ Update(e)
TNext == /\ l <= Len(T.ev)
         /\ l' = l + 1 /\ UNCHANGED tid
         /\ TStep(T.ev[l])
TSpec == TInit /\ [][TNext]_tvars

Max2(a, b) == IF a > b THEN a ELSE b
Progress == TLCSet(tid, Max2(TLCGet(tid), l))
ASSUME \A i \in 1 .. Len(Traces) : TLCSet(i, 0)
Post == \A i \in 1 .. Len(Traces) : PrintT(<<"RESULT", i, TLCGet(i) - 1, Len(Traces[i].ev)>>)
=============================================================================
