SPECIFICATION TSpec
CONSTANTS K = 3
CONSTRAINT Progress
INVARIANTS TypeOK
           NeverAboveTarget
           ReturnedMeansThere
POSTCONDITION Post
CHECK_DEADLOCK FALSE
