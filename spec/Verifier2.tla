------------------------------ MODULE Verifier2 -----------------------------
(* X10 - spec/Verifier.tla (the model C05 uses; its text follows unchanged) PLUS the corrections found by differential
   testing against the kernel's verifier on single-edit mutants of generator output (checks/x10.py,
   harness/vmutate.py).  Requirement: the model accepts  =>  the kernel (6.18, root) accepts.  Every correction is
   marked `\* X10:` and names the kernel rule it is taken from (kernel/bpf/verifier.c); none of them rejects a
   program of the unmutated corpus.  Summary of the corrections:
     X10-a  static control flow (check_cfg, check_subprogs): every instruction reachable, the last instruction an
            exit or a ja, no backward jump
     X10-b  the proven packet range belongs to the packet pointers that existed when the comparison was made
            (find_good_pkt_pointers), not to the path; a comparison of pkt + o with o < 0, o > 65535, or o = 0 in the
            open form proves nothing
     X10-c  pointer +- REGISTER needs a BOUNDED register in the kernel; the original accepted any register and then any
            access through a map value pointer with an "unknown" offset.  Scalars now carry an unsigned range where
            one is known (constants, AND / ADD / MUL by a constant, unsigned comparison with a constant - what the
            EtherCAT dispatcher uses to index its table), map value pointers a fixed offset plus a bounded variable
            part with its alignment; everything else about a scalar stays unknown, and a register that is not
            known to be bounded is refused as an offset.  The ranges kept here are never tighter than the kernel's.
            Pointer +- constant with |constant| or |result| >= 2^29 rejected (check_reg_sane_offset); subtraction
            from the frame pointer rejected
     X10-d  LD_IMM64: pseudo sources other than 0 / 1 not modelled; source 1 needs an existing map and a zero
            upper half
     X10-e  context: field 20 (egress_ifindex) is not readable by an XDP program attached to a device; field 8
            (data_meta) is a pointer, not a scalar
     X10-f  byte swap: the 64-bit class has only the unconditional form (source bit clear); NEG has no register form
     X10-h  (precision) map_update_elem accepts a value in packet memory inside the proven range: the original rejected
            four programs of the thorough C05 corpus for it
     X10-g  atomic operations: only STX | ATOMIC with operation field 0 (add) is modelled; ST has only mode MEM;
            LDX only mode MEM; an atomic operation needs a naturally aligned address on every kind of memory
   The variable vrange and the "unknown offset" UNK of the original are kept but no longer used (the range lives in
   the packet pointers, offsets are always known).  The original header follows.                                  *)
(* C05 - the acceptance rules of the Linux eBPF verifier that the generator relies on, as a
   type-state machine explored by TLC over ALL paths of a program (ebpfcat emits forward jumps only,
   so every program has finitely many paths).

   Abstract register values
     [t |-> "u"]                                  never written / scrubbed by a call
     [t |-> "s"]                                  a scalar
     [t |-> "ctx"]                                the program's context (only at offset 0)
     [t |-> "stk", o |-> n | "?"]                 frame pointer + n
     [t |-> "pkt", o |-> n | "?"]                 packet data + n         [t |-> "end"]  packet end
     [t |-> "mv", fd, o |-> n | "?", nul, id]     map value (+n); nul = may still be NULL; id = lookup
     [t |-> "map", fd]                            map handle
   Path state: pc, registers, set of initialised stack bytes, the packet length proven on this path
   (data + range <= data_end), the next lookup id, and a verdict.

   The rules (each rejection names its rule):
     read of a register holding nothing, r0 not a scalar at exit, write to r10, jump outside the program
     or into the second half of LD_IMM64, falling off the end, dereference of a non-pointer or of a map
     value that may be NULL, stack access outside [-512, 0) or misaligned, read of uninitialised stack,
     packet access outside the proven range, context access other than the known 4-byte fields, store
     to the context, map value access beyond the value size (constant offsets), helper argument types
     (map handle, pointer to initialised stack key / value bytes), byte swap width not 16/32/64,
     constant shift >= width, constant division by zero, atomic add on packet or context memory,
     arithmetic that the kernel forbids on pointers.
   Rules the kernel has but this model does not (so the model may accept what the kernel rejects):
   value-range tracking of scalars (variable offsets are accepted), precision of 32-bit sub-register
   bounds, program size and complexity limits.  The kernel therefore remains the judge of C05 whenever
   it is available; this model decides alone only when it is not.                                    *)
EXTENDS Ebpf, Json, IOUtils

Cases == JsonDeserialize(IOEnv.TRACE_FILE)

UNK == -2000000000        \* an offset not known statically (TLC cannot compare an integer with a string)
VU == [t |-> "u"]
VS == [t |-> "s"]
IsPtr(v) == v.t \in {"ctx", "stk", "pkt", "end", "mv", "meta"}      \* X10-e: "meta" = xdp_md.data_meta
MAXVAR == 536870912                                                  \* X10-c: BPF_MAX_VAR_OFF = 1 << 29
(* X10-c: a scalar is [t |-> "s"] (nothing known) or carries lo <= value <= hi (unsigned, 0 <= lo <= hi < 2^29) and
   `al`, a power of two (at most 8) known to divide it.  Knowing LESS than the kernel is always safe here.          *)
SR(lo, hi, al) == [t |-> "s", lo |-> lo, hi |-> hi, al |-> al]
Ranged(v) == v.t = "s" /\ "lo" \in DOMAIN v
MkS(lo, hi, al) == IF lo >= 0 /\ lo <= hi /\ hi < MAXVAR THEN SR(lo, hi, al) ELSE [t |-> "s"]
MinN(a, b) == IF a < b THEN a ELSE b
MaxOf2(a, b) == IF a > b THEN a ELSE b
(* the result of a 64-bit ALU operation with an immediate on the scalar d (scalar_min_max_add / _mul / _and) *)
ScalarAlu(op, k, d) ==
    LET code == op \div 16 IN
    IF op % 8 # 7 \/ (op \div 8) % 2 = 1 THEN [t |-> "s"]
    ELSE IF code = 11 THEN MkS(k, k, 1)
    ELSE IF code = 5 /\ k >= 0 THEN MkS(0, IF Ranged(d) THEN MinN(d.hi, k) ELSE k, 1)
    ELSE IF ~Ranged(d) THEN [t |-> "s"]
    ELSE IF code = 0 /\ k >= 0 /\ k < MAXVAR THEN MkS(d.lo + k, d.hi + k, 1)
    ELSE IF code = 2 /\ k > 0 /\ k <= 4096 /\ d.hi <= 65535
         THEN MkS(d.lo * k, d.hi * k, IF k \in {2, 4, 8, 16, 32, 64, 128, 256, 512, 1024, 2048, 4096}
                                      THEN MinN(8, d.al * k) ELSE 1)
    ELSE [t |-> "s"]
(* what `v code k` being `truth` tells about the scalar v: 64-bit unsigned comparison with a constant 0 <= k < 2^29
   (regs_refine_cond_op); an impossible outcome keeps v as it is *)
Refined(code, v, k, truth) ==
    LET c == IF truth THEN code
             ELSE CASE code = 1 -> 5 [] code = 5 -> 1 [] code = 2 -> 11 [] code = 11 -> 2
                    [] code = 3 -> 10 [] code = 10 -> 3 [] OTHER -> 0
        lo == IF Ranged(v) THEN v.lo ELSE 0
        al == IF Ranged(v) THEN v.al ELSE 1
        r == CASE c = 1 -> <<k, k>>                                        \* v = k
               [] c = 10 -> <<lo, IF Ranged(v) THEN MinN(v.hi, k - 1) ELSE k - 1>>      \* v < k
               [] c = 11 -> <<lo, IF Ranged(v) THEN MinN(v.hi, k) ELSE k>>              \* v <= k
               [] c = 2 -> IF Ranged(v) THEN <<MaxOf2(lo, k + 1), v.hi>> ELSE <<1, 0>>    \* v > k
               [] c = 3 -> IF Ranged(v) THEN <<MaxOf2(lo, k), v.hi>> ELSE <<1, 0>>        \* v >= k
               [] OTHER -> <<1, 0>> IN
    IF v.t # "s" \/ k < 0 \/ k >= MAXVAR \/ r[1] > r[2] \/ (Ranged(v) /\ (r[1] < v.lo \/ r[2] > v.hi)) THEN v
    ELSE MkS(r[1], r[2], al)
Known(o) == o # UNK
AddOff(o, d) == IF Known(o) /\ Known(d) THEN o + d ELSE UNK
ImmInt(i) == WToS32(WSext(i.imm, 8))

VARIABLES cid, vpc, vreg, vinit, vrange, vnext, vverdict
vvars == <<cid, vpc, vreg, vinit, vrange, vnext, vverdict>>

VProg == Cases[cid].programs[Cases[cid].entry]
VMaps == Cases[cid].maps
VIns == VProg[vpc + 1]

(* X10-a: the control-flow rules the kernel checks before it walks the paths (check_cfg: "unreachable insn",
   check_subprogs: "last insn is not an exit or jmp").  The walk below visits every instruction the control-flow
   graph reaches - both outcomes of every conditional jump - exactly as check_cfg does.                           *)
Succs(prog, pc) ==
    LET i == prog[pc + 1] IN
    IF i.op = 24 THEN {pc + 2}
    ELSE IF i.op = 149 THEN {}
    ELSE IF Cls(i.op) \in {5, 6} /\ AluCode(i.op) \notin {8, 9}
         THEN (IF AluCode(i.op) = 0 THEN {pc + 1 + i.off} ELSE {pc + 1, pc + 1 + i.off})
    ELSE {pc + 1}
RECURSIVE Reach(_, _, _)
Reach(prog, seen, frontier) ==
    IF frontier = {} THEN seen
    ELSE Reach(prog, seen \cup frontier,
               {q \in UNION {Succs(prog, pc) : pc \in frontier} : q >= 0 /\ q < Len(prog)} \ (seen \cup frontier))
Covered(prog, reach) == reach \cup {pc + 1 : pc \in {q \in reach : prog[q + 1].op = 24}}
MinOf(set) == CHOOSE x \in set : \A y \in set : x <= y
StaticVerdictOf(prog, reach) ==
    IF prog[Len(prog)].op \notin {149, 5} THEN <<"reject", "last-instruction-not-exit-or-jump", Len(prog) - 1>>
    ELSE IF (0 .. (Len(prog) - 1)) \ reach # {}
         THEN <<"reject", "unreachable-instruction", MinOf((0 .. (Len(prog) - 1)) \ reach)>>
    ELSE <<"run">>
StaticVerdict(prog) == StaticVerdictOf(prog, Covered(prog, Reach(prog, {}, {0})))

VInit == /\ cid \in 1 .. Len(Cases)
         /\ vpc = 0
         /\ vreg = [r \in 0 .. 10 |-> IF r = 1 THEN [t |-> "ctx"]
                                     ELSE IF r = 10 THEN [t |-> "stk", o |-> 0] ELSE VU]
         /\ vinit = {} /\ vrange = 0 /\ vnext = 1
         /\ vverdict = StaticVerdict(Cases[cid].programs[Cases[cid].entry])          \* X10-a

Reject(why) == /\ vverdict' = <<"reject", why, vpc>>
               /\ UNCHANGED <<cid, vpc, vreg, vinit, vrange, vnext>>
PcGood(pc) == pc >= 0 /\ pc < Len(VProg) /\ VProg[pc + 1].op # 0
Goto(pc, regs, init, range, nxt) ==
    IF ~PcGood(pc) THEN Reject("jump-or-fall-outside-program")
    ELSE /\ vpc' = pc /\ vreg' = regs /\ vinit' = init /\ vrange' = range /\ vnext' = nxt
         /\ UNCHANGED <<cid, vverdict>>
Nxt(regs) == Goto(vpc + 1, regs, vinit, vrange, vnext)
SetR(r, v) == [vreg EXCEPT ![r] = v]

(* ---- ALU ---------------------------------------------------------------------------------------- *)
(* X10-c: pointer p (stack, packet, map value) + / - the scalar v, result into i.dst.  `isimm`: v is the immediate k
   (any 32-bit value); otherwise v is a register, usable only if its range is known (adjust_ptr_min_max_vals:
   "math between %s pointer and register with unbounded min value is not allowed", later "unbounded memory access").
   A known constant moves the fixed offset; a proper range is kept only on map value pointers and only for +.      *)
VPtrAdd(i, p, v, isimm, k, code) ==
    IF p.t = "mv" /\ p.nul THEN Reject("arithmetic-on-possibly-null-pointer")
    ELSE IF ~isimm /\ ~Ranged(v) THEN Reject("pointer-plus-unbounded-register")
    \* "R%d subtraction from stack pointer prohibited"
    ELSE IF p.t = "stk" /\ code = 1 THEN Reject("subtraction-from-stack-pointer")
    \* check_reg_sane_offset: "math between %s pointer and %lld is not allowed"
    ELSE IF isimm /\ (k >= MAXVAR \/ k <= 0 - MAXVAR) THEN Reject("pointer-offset-constant-too-large")
    ELSE IF isimm \/ v.lo = v.hi THEN
        LET c == IF isimm THEN k ELSE v.lo
            delta == IF code = 0 THEN c ELSE 0 - c IN
        \* check_reg_sane_offset on the result: "%s pointer offset %d is not allowed"
        IF ~Known(p.o) \/ p.o + delta >= MAXVAR \/ p.o + delta <= 0 - MAXVAR THEN Reject("pointer-offset-too-large")
        ELSE Nxt(SetR(i.dst, [p EXCEPT !.o = p.o + delta]))
    ELSE IF p.t # "mv" \/ code # 0 THEN Reject("variable-offset-not-modelled")
    ELSE IF p.vhi + v.hi >= MAXVAR THEN Reject("pointer-offset-too-large")
    ELSE Nxt(SetR(i.dst, [p EXCEPT !.vlo = p.vlo + v.lo, !.vhi = p.vhi + v.hi,
                                    !.val = IF p.vhi = 0 THEN v.al ELSE MinN(p.val, v.al)]))
VAlu(i) ==
    LET code == AluCode(i.op)  is64 == Cls(i.op) = 7
        d == vreg[i.dst]  usesrc == SrcIsReg(i.op) /\ code \notin {8, 13}
        s == IF usesrc THEN vreg[i.src] ELSE VS
        bits == IF is64 THEN 64 ELSE 32 IN
    IF i.dst = 10 THEN Reject("write-to-frame-pointer")
    ELSE IF code = 13 THEN
        (IF d.t # "s" THEN Reject("byte-swap-of-non-scalar")
         ELSE IF ImmInt(i) \notin {16, 32, 64} THEN Reject("byte-swap-width")
         \* X10-f: BPF_ALU64 | BPF_END exists only as the unconditional swap (BPF_TO_LE bit); "BPF_END uses reserved fields"
         ELSE IF is64 /\ SrcIsReg(i.op) THEN Reject("byte-swap-64-bit-class-with-direction")
         ELSE Nxt(SetR(i.dst, VS)))                               \* X10-c: a range known before does not survive
    ELSE IF code > 12 THEN Reject("bad-alu-code")
    ELSE IF code = 8 /\ SrcIsReg(i.op) THEN Reject("bad-alu-code")          \* X10-f: "BPF_NEG uses reserved fields"
    ELSE IF usesrc /\ s.t = "u" THEN Reject("read-of-unwritten-register")
    ELSE IF code = 11 THEN                                          \* MOV
        (IF is64 THEN Nxt(SetR(i.dst, IF usesrc THEN s ELSE ScalarAlu(i.op, ImmInt(i), VS)))   \* X10-c: a constant
         ELSE IF IsPtr(s) \/ s.t = "map" THEN Reject("32-bit-move-of-pointer") ELSE Nxt(SetR(i.dst, VS)))
    ELSE IF d.t = "u" THEN Reject("read-of-unwritten-register")
    ELSE IF ~SrcIsReg(i.op) /\ code \in {6, 7, 12} /\ (ImmInt(i) < 0 \/ ImmInt(i) >= bits) THEN Reject("constant-shift-too-large")
    ELSE IF ~SrcIsReg(i.op) /\ code \in {3, 9} /\ ImmInt(i) = 0 THEN Reject("constant-division-by-zero")
    ELSE IF d.t = "s" /\ s.t = "s" THEN Nxt(SetR(i.dst, ScalarAlu(i.op, ImmInt(i), d)))              \* X10-c
    ELSE IF d.t = "map" \/ s.t = "map" THEN Reject("arithmetic-on-map-handle")
    ELSE IF ~is64 THEN Reject("32-bit-arithmetic-on-pointer")
    ELSE IF d.t \in {"stk", "pkt", "mv"} /\ s.t = "s" /\ code \in {0, 1} THEN        \* pointer +- scalar
        VPtrAdd(i, d, IF SrcIsReg(i.op) THEN s ELSE MkS(ImmInt(i), ImmInt(i), 1), ~SrcIsReg(i.op), ImmInt(i), code)  \* X10-c
    ELSE IF d.t = "s" /\ s.t \in {"stk", "pkt", "mv"} /\ code = 0 THEN               \* scalar + pointer
        VPtrAdd(i, s, d, FALSE, 0, 0)                                                             \* X10-c
    ELSE Reject("forbidden-pointer-arithmetic")

(* ---- memory access ------------------------------------------------------------------------------ *)
(* may `n` bytes be accessed through pointer p at p.o + off?  returns "" or the rule violated *)
Access(p, off, n, write) ==
    IF p.t = "stk" THEN
        (IF ~Known(p.o) THEN "variable-stack-offset"
         ELSE IF p.o + off < -512 \/ p.o + off + n > 0 THEN "stack-out-of-bounds"
         ELSE IF (p.o + off) % n # 0 THEN "misaligned-stack-access"
         ELSE IF ~write /\ ~({p.o + off + k : k \in 0 .. (n - 1)} \subseteq vinit) THEN "read-of-uninitialised-stack"
         ELSE "")
    ELSE IF p.t = "pkt" THEN
        (IF ~Known(p.o) THEN "variable-packet-offset"
         ELSE IF p.o + off < 0 \/ p.o + off + n > p.r THEN "packet-access-outside-proven-range"     \* X10-b: p.r, not vrange
         ELSE "")
    ELSE IF p.t = "mv" THEN
        (IF p.nul THEN "dereference-of-possibly-null-map-value"
         \* X10-c: fixed offset plus the bounds of the variable part (check_map_access)
         ELSE IF p.o + p.vlo + off < 0 \/ p.o + p.vhi + off + n > VMaps[p.fd].vs THEN "map-value-out-of-bounds"
         ELSE "")
    ELSE IF p.t = "ctx" THEN
        (IF write THEN "store-to-context"
         \* X10-e: egress_ifindex (20) is readable only with expected_attach_type BPF_XDP_DEVMAP
         ELSE IF n # 4 \/ off \notin {0, 4, 8, 12, 16} THEN "bad-context-access" ELSE "")
    ELSE IF p.t = "u" THEN "read-of-unwritten-register"
    ELSE "dereference-of-non-pointer"

VLoad(i) ==
    IF i.dst = 10 THEN Reject("write-to-frame-pointer")
    ELSE IF Cls(i.op) = 0 THEN
        (IF i.op # 24 \/ vpc + 2 > Len(VProg) THEN Reject("bad-ld-imm64")
         \* X10-d: BPF_PSEUDO_MAP_VALUE (2) gives a map value pointer, 3 .. 6 other objects, above "unrecognized
         \* bpf_ld_imm64 insn"; only a plain constant and a map handle are modelled
         ELSE IF i.src \notin {0, 1} THEN Reject("ld-imm64-pseudo-source-not-modelled")
         \* X10-d: "fd %d is not pointing to valid bpf_map"; the upper half must be zero for a map handle
         ELSE IF i.src = 1 /\ (ImmInt(i) < 1 \/ ImmInt(i) > Len(VMaps)) THEN Reject("ld-imm64-no-such-map")
         ELSE IF i.src = 1 /\ ImmInt(VProg[vpc + 2]) # 0 THEN Reject("ld-imm64-map-with-upper-half")
         ELSE Goto(vpc + 2, SetR(i.dst, IF i.src = 1 THEN [t |-> "map", fd |-> ImmInt(i)] ELSE VS), vinit, vrange, vnext))
    ELSE IF Mode(i.op) # 3 THEN Reject("bad-load-mode")                                \* X10-g: BPF_MEM only
    ELSE LET p == vreg[i.src]  n == SzBytes(i.op)  why == Access(p, i.off, n, FALSE) IN
         IF why # "" THEN Reject(why)
         \* X10-b: a packet pointer read from the context starts with NO proven range, whatever was proven before
         ELSE IF p.t = "ctx" /\ i.off = 0 THEN Nxt(SetR(i.dst, [t |-> "pkt", o |-> 0, r |-> 0]))
         ELSE IF p.t = "ctx" /\ i.off = 4 THEN Nxt(SetR(i.dst, [t |-> "end"]))
         ELSE IF p.t = "ctx" /\ i.off = 8 THEN Nxt(SetR(i.dst, [t |-> "meta"]))       \* X10-e: PTR_TO_PACKET_META
         ELSE Nxt(SetR(i.dst, VS))

VStore(i) ==
    LET p == vreg[i.dst]  n == SzBytes(i.op)
        v == IF Cls(i.op) = 2 THEN VS ELSE vreg[i.src]
        atomic == Mode(i.op) = 6
        why == Access(p, i.off, n, TRUE) IN
    IF v.t = "u" THEN Reject("read-of-unwritten-register")
    ELSE IF why # "" THEN Reject(why)
    ELSE IF v.t # "s" THEN Reject("store-of-pointer")
    ELSE IF atomic /\ (p.t = "pkt" \/ n \notin {4, 8}) THEN Reject("atomic-on-packet-or-bad-size")
    \* X10-g: "BPF_ST uses reserved fields" (ST has only BPF_MEM); of the atomic operations only add (field 0) is
    \* modelled: the fetching ones write a register, other values are "BPF_ATOMIC uses invalid atomic opcode"
    ELSE IF Cls(i.op) = 2 /\ Mode(i.op) # 3 THEN Reject("bad-store-mode")
    ELSE IF atomic /\ ImmInt(i) # 0 THEN Reject("atomic-operation-not-modelled")
    \* X10-g: check_atomic -> check_mem_access with strict alignment: "misaligned value access off .. size .."
    ELSE IF atomic /\ p.t = "mv" /\ ((p.o + i.off) % n # 0 \/ (p.vhi > 0 /\ p.val % n # 0)) THEN Reject("misaligned-atomic")
    ELSE IF atomic /\ p.t = "stk" /\ ~({p.o + i.off + k : k \in 0 .. (n - 1)} \subseteq vinit)
         THEN Reject("read-of-uninitialised-stack")
    ELSE IF Mode(i.op) \notin {3, 6} THEN Reject("bad-store-mode")
    ELSE Goto(vpc + 1, vreg,
              IF p.t = "stk" THEN vinit \cup {p.o + i.off + k : k \in 0 .. (n - 1)} ELSE vinit, vrange, vnext)

(* ---- jumps: both outcomes are explored; some comparisons refine the path state ----------------- *)
(* what a comparison `a code b` being TRUE / FALSE proves about the packet range *)
Proves(code, a, b, truth) ==
    \* strict: end > pkt+o  ->  o+1 ;  non-strict: end >= pkt+o -> o ; 0 = nothing
    LET endLeft == a.t = "end" /\ b.t = "pkt" /\ Known(b.o)
        endRight == a.t = "pkt" /\ Known(a.o) /\ b.t = "end"
        o == IF endLeft THEN b.o ELSE IF endRight THEN a.o ELSE 0
        \* normalise to a statement about (end ? pkt+o): gt ge lt le
        rel == IF endLeft THEN code ELSE CASE code = 2 -> 10 [] code = 3 -> 11 [] code = 10 -> 2 [] code = 11 -> 3 [] OTHER -> 0
        eff == IF truth THEN rel ELSE CASE rel = 2 -> 11 [] rel = 3 -> 10 [] rel = 10 -> 3 [] rel = 11 -> 2 [] OTHER -> 0 IN
    IF ~(endLeft \/ endRight) THEN 0
    \* X10-b: find_good_pkt_pointers: "if (dst_reg->off < 0 || (dst_reg->off == 0 && range_right_open)) return"
    \* and nothing beyond MAX_PACKET_OFF
    ELSE IF o < 0 \/ o > 65535 \/ (o = 0 /\ eff = 2) THEN 0
    ELSE IF eff = 2 THEN o + 1 ELSE IF eff = 3 THEN o ELSE 0
(* X10-b: the range just proven is given to every packet pointer that exists now (they all share the packet's base:
   offsets are constants here), not to pointers loaded from the context later                                      *)
PktProved(regs, n) == [r \in 0 .. 10 |-> IF regs[r].t = "pkt" /\ regs[r].r < n THEN [regs[r] EXCEPT !.r = n] ELSE regs[r]]
MaxN(a, b) == IF a > b THEN a ELSE b
(* registers after learning that the lookup result `id` is / is not NULL *)
NullKnown(id, isnull) ==
    [r \in 0 .. 10 |-> IF vreg[r].t = "mv" /\ vreg[r].nul /\ vreg[r].id = id
                       THEN (IF isnull THEN VS ELSE [vreg[r] EXCEPT !.nul = FALSE]) ELSE vreg[r]]
VJmpOutcome(i, taken) ==
    LET code == AluCode(i.op)
        d == vreg[i.dst]
        s == IF SrcIsReg(i.op) THEN vreg[i.src] ELSE VS
        target == IF taken THEN vpc + 1 + i.off ELSE vpc + 1
        nullcheck == d.t = "mv" /\ d.nul /\ ~SrcIsReg(i.op) /\ ImmInt(i) = 0 /\ code \in {1, 5}
        \* JEQ (1): taken means == 0 ; JNE (5): taken means # 0
        isnull == (code = 1) = taken
        \* X10-c: what an unsigned 64-bit comparison with a constant tells about the scalar compared
        regs == IF nullcheck THEN NullKnown(d.id, isnull)
                ELSE IF d.t = "s" /\ Cls(i.op) = 5 /\ ~SrcIsReg(i.op)
                     THEN [vreg EXCEPT ![i.dst] = Refined(code, d, ImmInt(i), taken)]
                ELSE vreg
        proved == IF Cls(i.op) = 5 /\ SrcIsReg(i.op) THEN Proves(code, d, s, taken) ELSE 0 IN
    \* X10-a: the generator emits forward jumps only; the kernel accepts some loops, this model none
    IF target <= vpc THEN Reject("backward-jump")
    ELSE Goto(target, PktProved(regs, proved), vinit, vrange, vnext)                   \* X10-b
VJmp(i) ==
    LET code == AluCode(i.op)  is32 == Cls(i.op) = 6
        d == vreg[i.dst]
        s == IF SrcIsReg(i.op) THEN vreg[i.src] ELSE VS IN
    IF code = 0 THEN (IF is32 THEN Reject("bad-jmp32")
                      ELSE IF i.off < 0 THEN Reject("backward-jump")                  \* X10-a
                      ELSE Goto(vpc + 1 + i.off, vreg, vinit, vrange, vnext))
    ELSE IF code \notin {1, 2, 3, 4, 5, 6, 7, 10, 11, 12, 13} THEN Reject("bad-jump-code")
    ELSE IF d.t = "u" \/ s.t = "u" THEN Reject("read-of-unwritten-register")
    ELSE IF d.t = "map" \/ s.t = "map" THEN Reject("comparison-of-map-handle")
    ELSE IF IsPtr(d) /\ s.t = "s" /\ ~(d.t = "mv" /\ ~SrcIsReg(i.op) /\ ImmInt(i) = 0 /\ code \in {1, 5})
         THEN Reject("comparison-of-pointer-with-scalar")
    ELSE IF d.t = "s" /\ IsPtr(s) THEN Reject("comparison-of-pointer-with-scalar")
    ELSE IF IsPtr(d) /\ IsPtr(s) /\ ~({d.t, s.t} \subseteq {"pkt", "end"}) /\ d.t # s.t THEN Reject("comparison-of-unrelated-pointers")
    ELSE IF is32 /\ (IsPtr(d) \/ IsPtr(s)) THEN Reject("32-bit-comparison-of-pointer")
    ELSE VJmpOutcome(i, TRUE) \/ VJmpOutcome(i, FALSE)

(* ---- helper calls and exit ------------------------------------------------------------------------ *)
Scrubbed(r0) == [r \in 0 .. 10 |-> IF r = 0 THEN r0 ELSE IF r \in 1 .. 5 THEN VU ELSE vreg[r]]
StackBytesOK(p, n) == /\ p.t = "stk" /\ Known(p.o) /\ p.o >= -512 /\ p.o + n <= 0
                      /\ {p.o + k : k \in 0 .. (n - 1)} \subseteq vinit
VCall(i) ==
    LET f == ImmInt(i) IN
    IF f \in {5, 7} THEN Goto(vpc + 1, Scrubbed(VS), vinit, vrange, vnext)
    ELSE IF f = 12 THEN
        (IF vreg[1].t # "ctx" THEN Reject("tail-call-needs-context")
         ELSE IF vreg[2].t # "map" \/ VMaps[vreg[2].fd].type # "prog" THEN Reject("tail-call-needs-program-array")
         ELSE IF vreg[3].t # "s" THEN Reject("tail-call-needs-scalar-index")
         ELSE Goto(vpc + 1, Scrubbed(VU), vinit, vrange, vnext))          \* falls through; r0 holds nothing
    ELSE IF f \notin {1, 2, 3} THEN Reject("helper-not-modelled")
    ELSE IF vreg[1].t # "map" THEN Reject("helper-needs-map-handle")
    ELSE LET fd == vreg[1].fd  mp == VMaps[fd] IN
         IF mp.type = "prog" THEN Reject("map-helper-on-program-array")
         ELSE IF ~StackBytesOK(vreg[2], mp.ks) THEN Reject("helper-key-not-initialised-stack")
         ELSE IF f = 1 THEN
             Goto(vpc + 1, Scrubbed([t |-> "mv", fd |-> fd, o |-> 0, nul |-> TRUE, id |-> vnext,
                                  vlo |-> 0, vhi |-> 0, val |-> 8])  (* X10-c: no variable part yet *),
                  vinit, vrange, vnext + 1)
         ELSE IF f = 2 /\ ~(\/ StackBytesOK(vreg[3], mp.vs)
                            \/ (vreg[3].t = "mv" /\ ~vreg[3].nul)
                            \* X10-h (precision, not soundness): the generator passes packet memory as the value
                            \* (hash variable := packet variable); check_helper_mem_access -> check_packet_access
                            \/ (vreg[3].t = "pkt" /\ vreg[3].o >= 0 /\ vreg[3].o + mp.vs <= vreg[3].r))
              THEN Reject("helper-value-not-initialised-memory")
         \* the helper reads mp.vs bytes: inside a map value they must lie inside that value (found with F35)
         ELSE IF f = 2 /\ vreg[3].t = "mv" /\ Known(vreg[3].o)                            \* X10-c: variable part
                       /\ (vreg[3].o + vreg[3].vlo < 0 \/ vreg[3].o + vreg[3].vhi + mp.vs > VMaps[vreg[3].fd].vs)
              THEN Reject("helper-value-outside-map-value")
         ELSE IF f = 2 /\ vreg[4].t # "s" THEN Reject("helper-flags-not-scalar")
         ELSE Goto(vpc + 1, Scrubbed(VS), vinit, vrange, vnext)
VExit ==
    IF vreg[0].t = "u" THEN Reject("exit-without-return-value")
    ELSE IF vreg[0].t # "s" THEN Reject("exit-with-pointer")
    ELSE /\ vverdict' = <<"accept-path">> /\ UNCHANGED <<cid, vpc, vreg, vinit, vrange, vnext>>

VNext ==
    /\ vverdict = <<"run">>
    /\ LET i == VIns  cl == Cls(i.op) IN
         IF i.dst > 10 \/ i.src > 10 THEN Reject("bad-register-number")
         ELSE IF cl \in {4, 7} THEN VAlu(i)
         ELSE IF cl \in {0, 1} THEN VLoad(i)
         ELSE IF cl \in {2, 3} THEN VStore(i)
         ELSE IF i.op = 133 THEN VCall(i)
         ELSE IF i.op = 149 THEN VExit
         ELSE VJmp(i)
VSpec == VInit /\ [][VNext]_vvars

(* one line per finished path: the harness aggregates per program (any rejected path = rejected) *)
VObserve == IF vverdict[1] = "reject" THEN PrintT(<<"VPATH", cid, "reject", vverdict[2], vverdict[3]>>)
            ELSE IF vverdict[1] = "accept-path" THEN PrintT(<<"VPATH", cid, "accept", "", vpc>>)
            ELSE TRUE
=============================================================================
