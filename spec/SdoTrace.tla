---------------------------- MODULE SdoTrace ----------------------------
(* Trace validation for C16: the mailbox messages logged by the simulated terminal while the
   real Terminal.sdo_read / sdo_write ran, the outcome of the call and the server's final
   value must be a behaviour of Sdo || CoE.  Requests are judged by the client obligations,
   replies by the server relation (so a simulator that strays is rejected as well).
   One TLC run validates all traces of one (MbxOut, MbxIn) pair.                             *)
EXTENDS Sdo, Json, IOUtils, TLCExt
Traces == JsonDeserialize(IOEnv.TRACE_FILE)
VARIABLES tid, l
tvars == <<vars, tid, l>>
T == Traces[tid]
Ev == T.ev[l]

TInit == /\ tid \in 1 .. Len(Traces) /\ l = 1
         /\ Init(T.obj, T.val0)

TEnd(e) == /\ Finish(e.out)
           /\ e.srvval = val                                   \* the simulator's value is the spec's
           /\ (cl.op = "down" /\ ~aborted) => val = cl.data    \* byte for byte
           /\ (cl.op = "up" /\ ~aborted) => e.out.value = val

TNext == /\ l <= Len(T.ev)
         /\ l' = l + 1 /\ UNCHANGED tid
         /\ LET e == Ev IN
              \/ e.ev = "start" /\ Start(e.op, e.data)
              \/ e.ev = "c2s" /\ CSend(e.m)
              \/ e.ev = "s2c" /\ (SReply(e.m) \/ SMail(e.m))
              \/ e.ev = "end" /\ TEnd(e)
TSpec == TInit /\ [][TNext]_tvars

Progress == TLCSet(tid, Max2(TLCGet(tid), l))
ASSUME \A i \in 1 .. Len(Traces) : TLCSet(i, 0)
Post == \A i \in 1 .. Len(Traces) : PrintT(<<"RESULT", i, TLCGet(i) - 1, Len(Traces[i].ev)>>)
=============================================================================
