SPECIFICATION TSpec
CONSTANTS MaxN = 4
          Ids = {1, 2, 3, 4, 5, 6}
          Addrs = {1, 2, 3, 4, 5, 6}
CONSTRAINT Progress
INVARIANTS NoSharing
           RegsAgree
           CountAgree
POSTCONDITION Post
CHECK_DEADLOCK FALSE
