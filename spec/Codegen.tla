------------------------------ MODULE Codegen ------------------------------
(* C01: the bytecode the real generator emits for `dst = <expression>` is executed on the eBPF
   machine and the destination's final bytes are compared with the denotation of the expression
   (Dsl.tla) on the same inputs.

   case = EbpfRun's case record plus
     ast      the expression tree (Dsl.tla)
     leaves   <<[fd, off, len], ...>>  where the operands' initial bytes are (len bytes each)
     n        length in bytes of exact values (no intermediate of the tree can overflow it)
     dst      [fd, off, size]  where the destination's bytes are after the run (size = the number
              of bytes the destination format defines: 1, 2, 4 or 8)                            *)
EXTENDS EbpfRun, Dsl

(* a variable declared with a byte order (">h", "!Q") keeps its value in memory in that order: the value's bytes,
   least significant first, are the memory bytes reversed when the record says be (big-endian)                    *)
InOrder(rec, bytes) == IF "be" \in DOMAIN rec /\ rec.be
                       THEN Mat([i \in 1 .. Len(bytes) |-> bytes[Len(bytes) + 1 - i]], Len(bytes)) ELSE bytes

RECURSIVE LeafFn(_, _, _)
LeafFn(k, m, j) ==
    IF j > Len(k.leaves) THEN (<<0, -1>> :> W0)
    ELSE (<<k.leaves[j].fd, k.leaves[j].off>> :>
             WZext(IF "key" \in DOMAIN k.leaves[j]           \* a hash-map variable: the entry of its key
                   THEN LoadBytes(m, Rg("hash", k.leaves[j].fd, k.leaves[j].key), 0, k.leaves[j].len)
                   ELSE InOrder(k.leaves[j],
                                LoadBytes(m, Rg("arr", k.leaves[j].fd, <<>>), k.leaves[j].off, k.leaves[j].len)), 8))
         @@ LeafFn(k, m, j + 1)
Leaves(k) == LeafFn(k, Mem(k), 1)

Observed(k, f) == IF "key" \in DOMAIN k.dst
                  THEN (IF Rg("hash", k.dst.fd, k.dst.key) \in DOMAIN f.m
                        THEN LoadBytes(f.m, Rg("hash", k.dst.fd, k.dst.key), 0, k.dst.size) ELSE <<"absent">>)
                  ELSE InOrder(k.dst, LoadBytes(f.m, Rg("arr", k.dst.fd, <<>>), k.dst.off, k.dst.size))

(* verdict of one case; f = Final(k), L = Leaves(k), w = the narrowest width involved *)
VerdictOf(k, f, L, w) ==
    IF ~Exited(f.c) THEN <<"fault", f.c.st, <<>>, {}>>
    ELSE IF ~Checkable(k.ast, L, k.n, w) THEN <<"skipped", <<>>, <<>>, {}>>
    ELSE IF Observed(k, f) \in Expected(k.ast, L, k.n, k.dst.size) THEN <<"ok", <<>>, <<>>, {}>>
    ELSE <<"wrong", <<>>, Observed(k, f), Expected(k.ast, L, k.n, k.dst.size)>>
Verdict(k) == VerdictOf(k, Final(k), Leaves(k), Width(k.ast, k.dst.size))

Flags(k) == <<SignedDivNeg(k.ast, Leaves(k), k.n), UnaryOnNarrow(k.ast), SwNegative(k.ast, Leaves(k), k.n)>>
Observe == PrintT(<<"VERDICT", cid>> \o Verdict(Cases[cid]) \o Flags(Cases[cid]))
=============================================================================
