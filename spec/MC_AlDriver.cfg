SPECIFICATION Spec
CONSTANTS K = 3
INVARIANTS TypeOK
           NeverAboveTarget
           ReturnedMeansThere
           RaisedMeansError
PROPERTIES Walk
           Terminates
CHECK_DEADLOCK FALSE
