SPECIFICATION DSpec
CONSTANTS Terms = {1, 2}
          MaxCancel = 2
          Protected = TRUE
INVARIANTS TypeOK
           Judged
           OnlyEndIsFinal
PROPERTIES CancelledEnds
CHECK_DEADLOCK FALSE
