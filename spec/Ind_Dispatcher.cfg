SPECIFICATION Spec
INVARIANT KeepsRunning IndInv
CHECK_DEADLOCK FALSE
