---------------------------- MODULE MC_DevicesAll ----------------------------
(* X07 - the three small models of the device laws in ONE state space (one TLC process instead of
   three): the grid of MC_Devices (initial states only), the Counter histories of
   MC_DevicesCounter and the generator orbits of MC_DevicesLcg.  `mode` says which model a state
   belongs to; the variables of the other two models are parked at 0.  Nothing is stated here
   that the three modules do not state: their initial conditions, steps and invariants are
   instantiated unchanged.                                                                     *)
EXTENDS Naturals
CONSTANTS FrameLen, FrameBytes, Vals, SmallVals,            \* MC_Devices
          Dts, T0s, MaxCycles,                              \* MC_DevicesCounter
          M, Seeds, Values                                  \* MC_DevicesLcg
VARIABLES mode,
          gdev, gframe, gv, gnow, gpath,
          cv, ct, cn, cbig, csum,
          lseed0, lvalue, lseed, lsteps, lon
gvars == <<gdev, gframe, gv, gnow, gpath>>
cvars == <<cv, ct, cn, cbig, csum>>
lvars == <<lseed0, lvalue, lseed, lsteps, lon>>
vars == <<mode, gvars, cvars, lvars>>

G == INSTANCE MC_Devices WITH dev <- gdev, frame <- gframe, v <- gv, now <- gnow, path <- gpath
C == INSTANCE MC_DevicesCounter WITH v <- cv, t <- ct, n <- cn, big <- cbig, sum <- csum
L == INSTANCE MC_DevicesLcg WITH seed0 <- lseed0, value <- lvalue, seed <- lseed, steps <- lsteps, on <- lon

GValsQuick == G!ValsQuick
GValsDef == G!ValsDef
ParkedG == gdev = 0 /\ gframe = 0 /\ gv = 0 /\ gnow = 0 /\ gpath = 0
ParkedC == cv = 0 /\ ct = 0 /\ cn = 0 /\ cbig = 0 /\ csum = 0
ParkedL == lseed0 = 0 /\ lvalue = 0 /\ lseed = 0 /\ lsteps = 0 /\ lon = 0
Init == \/ mode = "grid" /\ G!Init /\ ParkedC /\ ParkedL
        \/ mode = "counter" /\ C!Init /\ ParkedG /\ ParkedL
        \/ mode = "lcg" /\ L!Init /\ ParkedG /\ ParkedC
Next == \/ mode = "counter" /\ C!Next /\ UNCHANGED <<mode, gvars, lvars>>
        \/ mode = "lcg" /\ L!Next /\ UNCHANGED <<mode, gvars, cvars>>
Spec == Init /\ [][Next]_vars

GridLaws == mode = "grid" =>
    /\ G!InFrame /\ G!FrameCondition /\ G!InputIsGet /\ G!OutputIsSet /\ G!CounterIsInt /\ G!CounterSlowIsInt
    /\ G!DropperIsInt /\ G!RandomOutputIsInt /\ G!SlowInert /\ G!OnlyDropperDrops
CounterMeaning == mode = "counter" => C!CountsCycles /\ C!LastTime /\ C!MaxTime /\ C!Squared
GeneratorFacts == mode = "lcg" => L!FullPeriod /\ L!Frequency
=============================================================================
