-------------------------------- MODULE Xadd --------------------------------
(* C06 - in-place addition on 4/8-byte variables never loses an update.

   N instances of the SAME emitted program (the real generator's bytecode for `v += k` or
   `v -= k` inside a minimal wrapper) run over one shared memory; each has its own registers,
   program counter and stack.  Next == \E i : Step(i) interleaves them at instruction
   granularity, so TLC visits every schedule.  An atomic add is one step of the machine; a
   load / add / store lowering is three, and some schedule then loses an update.

   case = EbpfRun's case record plus
          n       number of instances
          var     [kind |-> "map" | "stack" | "hash", fd, off, size (, key)]    where v lives ("hash": a member of
                  the entry `key` of a hash map - the looked-up value of a Dict, shared like a map variable)
          fmt     format letter of v (i I q Q x)
          amount  the amount one execution adds, as a `size`-byte two's-complement word, in the
                  unit the statement is written in (for x: the integer k of `v += k`)
          sign    1 for +=, -1 for -=                                                       *)
EXTENDS EbpfRun

VARIABLES cpu, mem              \* cid (the case number) is EbpfRun's variable
xvars == <<cid, cpu, mem>>
K == Cases[cid]
Inst == 1 .. K.n
StackOf(i) == Rg("stack", i, <<>>)

(* what one execution must add to the raw bytes of v: fixed-point variables hold value * 100000 *)
Raw(k) == LET a == IF k.fmt = "x" THEN WMul(k.amount, WFromInt(100000, k.var.size)) ELSE k.amount IN
          IF k.sign = 1 THEN a ELSE WNeg(a)
RECURSIVE Times(_, _, _)
Times(a, n, acc) == IF n = 0 THEN acc ELSE Times(a, n - 1, WAdd(acc, a))

XInit == /\ cid \in 1 .. Len(Cases)
         /\ cpu = [i \in 1 .. Cases[cid].n |-> CpuN(Cases[cid].entry, StackOf(i))]
         /\ mem = LET m0 == Mem(Cases[cid])
                      dom == (DOMAIN m0 \ {RStack}) \cup {StackOf(i) : i \in 1 .. Cases[cid].n} IN
                  [r \in dom |-> IF r.k = "stack" THEN FreshStack ELSE m0[r]]

Step(i) == /\ Running(cpu[i])
           /\ LET r == StepF(Env(K), cpu[i], mem) IN
                /\ cpu' = [cpu EXCEPT ![i] = r.c]
                /\ mem' = r.m
           /\ UNCHANGED cid
XNext == \E i \in Inst : Step(i)
XSpec == XInit /\ [][XNext]_xvars

AllDone == \A i \in Inst : ~Running(cpu[i])
Shared == K.var.kind \in {"map", "hash"}
VarBytes(m, i) ==
    IF K.var.kind = "map" THEN LoadBytes(m, Rg("arr", K.var.fd, <<>>), K.var.off, K.var.size)
    ELSE IF K.var.kind = "hash" THEN LoadBytes(m, Rg("hash", K.var.fd, K.var.key), K.var.off, K.var.size)
    ELSE LoadBytes(m, StackOf(i), K.var.off, K.var.size)
Init0 == IF K.var.kind = "map"
         THEN LoadBytes(Mem(K), Rg("arr", K.var.fd, <<>>), K.var.off, K.var.size)
         ELSE IF K.var.kind = "hash"
         THEN LoadBytes(Mem(K), Rg("hash", K.var.fd, K.var.key), K.var.off, K.var.size)
         ELSE K.stack0                       \* value the wrapper's prologue stores into the local

(* no instance ever faults *)
NoFault == \A i \in Inst : ~Faulted(cpu[i])
(* the variable ends up changed by exactly the sum of all amounts:
   shared map variable: init + n * amount; a local variable: each instance's own copy + amount *)
NoLostUpdate ==
    AllDone =>
      IF Shared
      THEN VarBytes(mem, 1) = Times(Raw(K), K.n, Init0)
      ELSE \A i \in Inst : VarBytes(mem, i) = WAdd(Init0, Raw(K))
(* every instance leaves through its exit instruction *)
AllExit == AllDone => \A i \in Inst : Exited(cpu[i])
(* verdict collection: always TRUE, but prints one line per distinct final or faulted state, so
   that one TLC run reports every failing case and not only the first (Xadd.cfg with the real
   invariants is used to obtain the counterexample schedule for a replay)                     *)
Bad == \/ ~NoFault
       \/ (AllDone /\ ~(NoLostUpdate /\ AllExit))
Observe == IF Bad THEN PrintT(<<"VERDICT", cid, FALSE,
                                 [i \in Inst |-> cpu[i].st], [i \in Inst |-> VarBytes(mem, i)]>>)
           ELSE IF AllDone THEN PrintT(<<"VERDICT", cid, TRUE, <<>>, <<>>>>)
           ELSE TRUE
=============================================================================
