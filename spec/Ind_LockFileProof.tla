-------------------------- MODULE Ind_LockFileProof --------------------------
(* X05 - TLAPS proof, over the ORIGINAL module LockFile, that MutualExclusion, OwnerAgrees,
   ValidCounters, Chain and ZeroOnlyFirst hold in every reachable state of LSpec for ANY number
   of users, ANY grouping ProcOf of users into processes, ANY file size N and ANY assignment Bytes
   of users to terminals.                                                                    *)
EXTENDS LockFile, SequenceTheorems, TLAPS

ASSUME LFAssump == /\ N \in Nat
                   /\ Bytes \in [Users -> 0 .. (N - 1)]
                   /\ None \notin Users
                   /\ None \notin 0 .. 7

PCs == {"idle", "locked", "holding", "written"}
PPCs == {"start", "created", "open"}
BytesR == 0 .. (N - 1)
Ctr == 0 .. 7

TypeInv == /\ exists \in BOOLEAN
           /\ phys \in Seq(Ctr) /\ Len(phys) <= N
           /\ owner \in [BytesR -> Users \cup {None}]
           /\ ppc \in [Procs -> PPCs]
           /\ pc \in [Users -> PCs]
           /\ ctr \in [Users -> Ctr]
           /\ last \in [BytesR -> Ctr \cup {None}]

OwnerInv == \A p \in Users : Holding(p) <=> owner[Bytes[p]] = p

(* nothing has happened while the file does not exist *)
NotYet == ~exists => /\ phys = <<>>
                     /\ \A q \in Procs : ppc[q] = "start"
                     /\ \A b \in BytesR : last[b] = None

(* a user works on the file only once its process has it open *)
UserOpen == \A u \in Users : pc[u] # "idle" => ppc[ProcOf[u]] = "open"

(* the chain, strengthened: the file carries the successor whenever nobody is between reading
   the byte and writing it back                                                              *)
ChainS == \A b \in BytesR : last[b] # None =>
            /\ \A p \in Users : (pc[p] \in {"holding", "written"} /\ Bytes[p] = b) => ctr[p] = Succ(last[b])
            /\ (\A p \in Users : ~(pc[p] = "holding" /\ Bytes[p] = b)) => Logical(b) = Succ(last[b])

IndInv == TypeInv /\ OwnerInv /\ NotYet /\ UserOpen /\ ChainS

-----------------------------------------------------------------------------
LEMMA SuccType == \A c \in Ctr : Succ(c) \in 1 .. 7
  BY DEF Succ, Ctr

LEMMA ZerosProp == \A k \in Nat : /\ Zeros(k) \in Seq(Ctr)
                                  /\ Len(Zeros(k)) = k
                                  /\ \A i \in 1 .. k : Zeros(k)[i] = 0
  BY DEF Zeros, Ctr

LEMMA PadProp == \A f \in Seq(Ctr), k \in Nat :
                    LET g == f \o Zeros(k) IN
                    /\ g \in Seq(Ctr)
                    /\ Len(g) = Len(f) + k
                    /\ \A i \in 1 .. Len(g) : g[i] = IF i <= Len(f) THEN f[i] ELSE 0
<1> SUFFICES ASSUME NEW f \in Seq(Ctr), NEW k \in Nat
             PROVE LET g == f \o Zeros(k) IN
                    /\ g \in Seq(Ctr)
                    /\ Len(g) = Len(f) + k
                    /\ \A i \in 1 .. Len(g) : g[i] = IF i <= Len(f) THEN f[i] ELSE 0
  OBVIOUS
<1>1. Zeros(k) \in Seq(Ctr) /\ Len(Zeros(k)) = k /\ \A i \in 1 .. k : Zeros(k)[i] = 0
  BY ZerosProp
<1> HIDE DEF Zeros
<1> QED BY <1>1, ConcatProperties

LEMMA SetByteProp == \A f \in Seq(Ctr), b \in Nat, v \in Ctr :
                    LET h == SetByte(f, b, v) IN
                    /\ h \in Seq(Ctr)
                    /\ Len(h) = IF Len(f) > b THEN Len(f) ELSE b + 1
                    /\ \A i \in 1 .. Len(h) : h[i] = IF i = b + 1 THEN v ELSE IF i <= Len(f) THEN f[i] ELSE 0
<1> SUFFICES ASSUME NEW f \in Seq(Ctr), NEW b \in Nat, NEW v \in Ctr
             PROVE LET h == SetByte(f, b, v) IN
                    /\ h \in Seq(Ctr)
                    /\ Len(h) = IF Len(f) > b THEN Len(f) ELSE b + 1
                    /\ \A i \in 1 .. Len(h) : h[i] = IF i = b + 1 THEN v ELSE IF i <= Len(f) THEN f[i] ELSE 0
  OBVIOUS
<1> DEFINE g == IF Len(f) > b THEN f ELSE f \o Zeros(b + 1 - Len(f))
<1>1. /\ g \in Seq(Ctr)
      /\ Len(g) = (IF Len(f) > b THEN Len(f) ELSE b + 1)
      /\ \A i \in 1 .. Len(g) : g[i] = IF i <= Len(f) THEN f[i] ELSE 0
  <2>1. CASE Len(f) > b
    BY <2>1
  <2>2. CASE ~(Len(f) > b)
    <3>1. b + 1 - Len(f) \in Nat
      BY <2>2
    <3> QED BY <2>2, <3>1, PadProp
  <2> QED BY <2>1, <2>2
<1>2. b + 1 \in 1 .. Len(g)
  BY <1>1
<1>3. SetByte(f, b, v) = [g EXCEPT ![b + 1] = v]
  BY DEF SetByte
<1> HIDE DEF g
<1> DEFINE h == [g EXCEPT ![b + 1] = v]
<1>4. /\ h \in Seq(Ctr)
      /\ Len(h) = Len(g)
      /\ \A j \in 1 .. Len(g) : h[j] = IF j = b + 1 THEN v ELSE g[j]
  BY <1>1, <1>2, ExceptSeq
<1>5. /\ h \in Seq(Ctr)
      /\ Len(h) = (IF Len(f) > b THEN Len(f) ELSE b + 1)
      /\ \A i \in 1 .. Len(h) : h[i] = IF i = b + 1 THEN v ELSE IF i <= Len(f) THEN f[i] ELSE 0
  BY <1>1, <1>4
<1> HIDE DEF h
<1> QED BY <1>3, <1>5 DEF h

LEMMA LogicalType == TypeInv => \A b \in BytesR : Logical(b) \in Ctr
  BY DEF TypeInv, Logical, BytesR, Ctr

-----------------------------------------------------------------------------
THEOREM LInitInd == LInit => IndInv
  BY LFAssump DEF LInit, IndInv, TypeInv, OwnerInv, NotYet, UserOpen, ChainS, Holding, PCs, PPCs, BytesR, Ctr, Procs

THEOREM LStepInd == IndInv /\ [LNext]_lvars => IndInv'
<1> SUFFICES ASSUME IndInv, [LNext]_lvars PROVE IndInv'
  OBVIOUS
<1> USE LFAssump
<1>0. CASE UNCHANGED lvars
  BY <1>0 DEF lvars, IndInv, TypeInv, OwnerInv, NotYet, UserOpen, ChainS, Holding, Logical
<1>1. ASSUME NEW q \in Procs, Create(q) PROVE IndInv'
  BY <1>1 DEF Create, IndInv, TypeInv, OwnerInv, NotYet, UserOpen, ChainS, Holding, Logical, PCs, PPCs, BytesR, Procs, Ctr
<1>2. ASSUME NEW q \in Procs, WriteInit(q) PROVE IndInv'
  <2>1. exists /\ N - Len(phys) \in Nat /\ phys \in Seq(Ctr)
    BY <1>2 DEF WriteInit, IndInv, TypeInv, NotYet
  <2>2. /\ phys' \in Seq(Ctr) /\ Len(phys') = N
        /\ \A i \in 1 .. Len(phys') : phys'[i] = IF i <= Len(phys) THEN phys[i] ELSE 0
    BY <1>2, <2>1, PadProp DEF WriteInit
  <2>3. \A b \in BytesR : Logical(b)' = Logical(b)
    BY <2>1, <2>2 DEF Logical, BytesR, IndInv, TypeInv
  <2>4. UserOpen'
    BY <1>2 DEF WriteInit, IndInv, TypeInv, UserOpen, Procs
  <2>5. TypeInv' /\ OwnerInv' /\ NotYet' /\ ChainS'
    BY <1>2, <2>1, <2>2, <2>3 DEF WriteInit, IndInv, TypeInv, OwnerInv, NotYet, ChainS, Holding, PCs, PPCs, BytesR
  <2> QED BY <2>4, <2>5 DEF IndInv
<1>3. ASSUME NEW q \in Procs, OpenExisting(q) PROVE IndInv'
  BY <1>3 DEF OpenExisting, IndInv, TypeInv, OwnerInv, NotYet, UserOpen, ChainS, Holding, Logical, PCs, PPCs, BytesR, Procs
<1>4. ASSUME NEW p \in Users, NEW ok \in BOOLEAN, TryLockf(p, ok) PROVE IndInv'
  BY <1>4 DEF TryLockf, IndInv, TypeInv, OwnerInv, NotYet, UserOpen, ChainS, Holding, Logical, PCs, PPCs, BytesR, Procs
<1>5. ASSUME NEW p \in Users, ReadByte(p, Logical(Bytes[p])) PROVE IndInv'
  <2>1. Logical(Bytes[p]) \in Ctr /\ Bytes[p] \in BytesR
    BY LogicalType DEF IndInv, BytesR
  <2>2. \A u \in Users : (pc[u] = "holding" /\ Bytes[u] = Bytes[p]) => FALSE
    BY <1>5 DEF ReadByte, IndInv, OwnerInv, Holding
  <2> QED BY <1>5, <2>1, <2>2 DEF ReadByte, IndInv, TypeInv, OwnerInv, NotYet, UserOpen, ChainS, Holding, Logical, PCs, PPCs, BytesR, Procs
<1>6. ASSUME NEW p \in Users, Next(p, ctr[p]) PROVE IndInv'
  <2>1. ctr[p] \in Ctr /\ Succ(ctr[p]) \in Ctr /\ Bytes[p] \in BytesR /\ ctr[p] # None
    BY SuccType DEF IndInv, TypeInv, BytesR, Ctr
  <2>2. \A u \in Users : (pc[u] \in {"holding", "written"} /\ Bytes[u] = Bytes[p]) => u = p
    BY <1>6 DEF Next, IndInv, OwnerInv, Holding
  <2>3. exists
    BY <1>6 DEF Next, IndInv, NotYet, UserOpen, Procs
  <2> QED BY <1>6, <2>1, <2>2, <2>3 DEF Next, IndInv, TypeInv, OwnerInv, NotYet, UserOpen, ChainS, Holding, Logical, PCs, PPCs, BytesR, Procs
<1>7. ASSUME NEW p \in Users, WriteByte(p) PROVE IndInv'
  <2> DEFINE b == Bytes[p]
  <2>1. b \in Nat /\ b \in BytesR /\ b + 1 <= N /\ ctr[p] \in Ctr /\ phys \in Seq(Ctr) /\ Len(phys) <= N /\ Len(phys) \in Nat
    BY DEF IndInv, TypeInv, BytesR
  <2>2. /\ phys' \in Seq(Ctr)
        /\ Len(phys') = (IF Len(phys) > b THEN Len(phys) ELSE b + 1)
        /\ \A i \in 1 .. Len(phys') : phys'[i] = IF i = b + 1 THEN ctr[p] ELSE IF i <= Len(phys) THEN phys[i] ELSE 0
    BY <1>7, <2>1, SetByteProp DEF WriteByte
  <2>3. Len(phys') <= N /\ Logical(b)' = ctr[p] /\ \A c \in BytesR : c # b => Logical(c)' = Logical(c)
    BY <2>1, <2>2 DEF Logical, BytesR
  <2>4. \A u \in Users : (pc[u] \in {"holding", "written"} /\ Bytes[u] = b) => u = p
    BY <1>7 DEF WriteByte, IndInv, OwnerInv, Holding
  <2>5. exists
    BY <1>7 DEF WriteByte, IndInv, NotYet, UserOpen, Procs
  <2> HIDE DEF b
  <2>6. TypeInv' /\ OwnerInv' /\ NotYet' /\ UserOpen'
    BY <1>7, <2>1, <2>2, <2>3, <2>5 DEF WriteByte, IndInv, TypeInv, OwnerInv, NotYet, UserOpen, Holding, PCs, PPCs, BytesR, b
  <2>7. ChainS'
    BY <1>7, <2>1, <2>3, <2>4 DEF WriteByte, IndInv, TypeInv, ChainS, PCs, BytesR, b
  <2> QED BY <2>6, <2>7 DEF IndInv
<1>8. ASSUME NEW p \in Users, Unlockf(p) PROVE IndInv'
  BY <1>8 DEF Unlockf, IndInv, TypeInv, OwnerInv, NotYet, UserOpen, ChainS, Holding, Logical, PCs, PPCs, BytesR, Procs
<1> QED BY <1>0, <1>1, <1>2, <1>3, <1>4, <1>5, <1>6, <1>7, <1>8 DEF LNext

-----------------------------------------------------------------------------
THEOREM IndImplies == IndInv => MutualExclusion /\ OwnerAgrees /\ ValidCounters /\ Chain /\ ZeroOnlyFirst
<1> SUFFICES ASSUME IndInv PROVE MutualExclusion /\ OwnerAgrees /\ ValidCounters /\ Chain /\ ZeroOnlyFirst
  OBVIOUS
<1> USE LFAssump
<1>1. MutualExclusion /\ OwnerAgrees
  BY DEF IndInv, OwnerInv, MutualExclusion, OwnerAgrees
<1>2. ValidCounters
  BY DEF IndInv, TypeInv, ValidCounters, Ctr
<1>3. Chain
  BY DEF IndInv, TypeInv, OwnerInv, ChainS, Chain, Holding, BytesR
<1>4. ZeroOnlyFirst
  <2> SUFFICES ASSUME NEW p \in Users, pc[p] \in {"holding", "written"}, ctr[p] = 0, last[Bytes[p]] # None
               PROVE FALSE
    BY DEF ZeroOnlyFirst
  <2>1. ctr[p] = Succ(last[Bytes[p]]) /\ last[Bytes[p]] \in Ctr
    BY DEF IndInv, TypeInv, ChainS, BytesR
  <2> QED BY <2>1, SuccType
<1> QED BY <1>1, <1>2, <1>3, <1>4

THEOREM LSafe == LSpec => [](MutualExclusion /\ OwnerAgrees /\ ValidCounters /\ Chain /\ ZeroOnlyFirst)
  BY LInitInd, LStepInd, IndImplies, PTL DEF LSpec
=============================================================================
