SPECIFICATION SSpec
CONSTANTS NCycles = 2
          Dts = {1, 2}
          Mode = "full"
          NewMts = {0, 1, 3}
          NewSafes = {}
          MinChanges = 1
          MaxChanges = 1
INVARIANT Emit
CHECK_DEADLOCK FALSE
