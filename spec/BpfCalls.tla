------------------------------ MODULE BpfCalls ------------------------------
(* C10 - user-space map calls never overrun Python buffers.

   The registry `maps` records what CreateMap fixed for each descriptor: map type, key size, value
   size, capacity.  Every later bpf() map command hands the kernel bare addresses; the kernel then
   transfers a number of bytes that depends ONLY on the registry entry (and, for per-CPU maps, on
   the number of possible CPUs of the host) - never on the size of the object the caller had in
   mind.  The obligation of the property is therefore, for each command, a lower bound on the size
   of the buffer behind each address.

   Kernel side (kernel/bpf/syscall.c, stated here as the model `Touched`):
     lookup / lookup_and_delete : reads key_size bytes at key, writes ValueSize bytes at value
     update                     : reads key_size bytes at key, reads ValueSize bytes at value
     delete                     : reads key_size bytes at key
     get_next_key               : reads key_size bytes at key unless key is NULL,
                                  writes key_size bytes at next_key
     ValueSize = round_up(value_size, 8) * num_possible_cpus()   for per-CPU map types
               = value_size                                     otherwise
   A command on a descriptor that is not a map fails with EBADF before any user memory is used. *)
EXTENDS Integers, Sequences, TLC

VARIABLES maps,      \* fd -> [type, ks, vs, max]
          ncpu       \* number of POSSIBLE CPUs: a fact of the environment, fixed for a run
bvars == <<maps, ncpu>>

PerCpuTypes == {"percpu", "percpu_hash", "lru_percpu_hash"}
RoundUp8(n) == ((n + 7) \div 8) * 8
ValueSize(m) == IF m.type \in PerCpuTypes THEN RoundUp8(m.vs) * ncpu ELSE m.vs
Known(fd) == fd \in DOMAIN maps

Ops == {"lookup", "lookup_delete", "update", "delete", "next"}
(* a call: [op, fd, keybuf, valbuf, nextbuf, keynull] - the buf fields are the number of bytes
   available from the passed address to the end of the Python object it points into (0 for NULL) *)
KeyOk(c) == c.keybuf >= maps[c.fd].ks
ValOk(c) == c.valbuf >= ValueSize(maps[c.fd])
Accept(c) ==
    Known(c.fd) =>
      CASE c.op \in {"lookup", "lookup_delete", "update"} -> KeyOk(c) /\ ValOk(c)
        [] c.op = "delete" -> KeyOk(c)
        [] c.op = "next" -> (c.keynull \/ KeyOk(c)) /\ c.nextbuf >= maps[c.fd].ks
        [] OTHER -> FALSE

(* what the kernel does with the addresses: the set of byte offsets it uses behind each pointer *)
Bytes(n) == 0 .. (n - 1)
Touched(c) ==
    IF ~Known(c.fd) THEN [key |-> {}, val |-> {}, next |-> {}]
    ELSE LET m == maps[c.fd] IN
      CASE c.op \in {"lookup", "lookup_delete", "update"} ->
               [key |-> Bytes(m.ks), val |-> Bytes(ValueSize(m)), next |-> {}]
        [] c.op = "delete" -> [key |-> Bytes(m.ks), val |-> {}, next |-> {}]
        [] c.op = "next" -> [key |-> IF c.keynull THEN {} ELSE Bytes(m.ks), val |-> {},
                             next |-> Bytes(m.ks)]
Inside(c) == LET t == Touched(c) IN
             /\ t.key \subseteq Bytes(c.keybuf)
             /\ t.val \subseteq Bytes(c.valbuf)
             /\ t.next \subseteq Bytes(c.nextbuf)

(* the possible CPUs of a host as the kernel publishes them: a list of ranges <<lo, hi>> (cpulist
   "0-3,8-11" = <<<<0, 3>>, <<8, 11>>>>); every CPU of every range counts *)
RECURSIVE CountCpus(_, _)
CountCpus(ranges, i) == IF i > Len(ranges) THEN 0
                        ELSE (ranges[i][2] - ranges[i][1] + 1) + CountCpus(ranges, i + 1)
BInit(n) == maps = <<>> /\ ncpu = n
CreateMap(fd, type, ks, vs, max) ==
    /\ fd \notin DOMAIN maps
    /\ maps' = (fd :> [type |-> type, ks |-> ks, vs |-> vs, max |-> max]) @@ maps
    /\ UNCHANGED ncpu
CloseMap(fd) == /\ Known(fd)
                /\ maps' = [f \in DOMAIN maps \ {fd} |-> maps[f]]
                /\ UNCHANGED ncpu
Call(c) == Accept(c) /\ UNCHANGED bvars
=============================================================================
