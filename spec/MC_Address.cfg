SPECIFICATION MCSpec
CONSTANTS HiIncl = FALSE
          Addrs = {1, 2, 3, 4}
          N = 3
          Lo = 1
          Hi = 4
          MaxTasks = 4
INVARIANTS TypeOK
           DesignSafe
           UniqueAssigned
           WrittenInRange
           UsedCovers
CHECK_DEADLOCK FALSE
