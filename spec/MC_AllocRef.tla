---------------------------- MODULE MC_AllocRef ----------------------------
(* exhaustive check of the designed scheme against Alloc over the configurations of AllocConfigs *)
EXTENDS AllocConfigs
CONSTANTS MaxFrame, MaxDgrams, Stride, Half
R == INSTANCE AllocRef
RefOK == R!ConfigOK(ts, gs)
mcModes == {"F", "D", "A"}
mcIn == <<{0, 8, 1400}, {0, 64, 1400}, {0, 7}>>
mcOut == <<{0, 700, 1400}, {0, 700, 1400}, {0, 2}>>
=============================================================================
