INIT AInit
NEXT DNext
CONSTANTS MaxFrame = 1500
          MaxDgrams = 15
CHECK_DEADLOCK FALSE
