----------------------------- MODULE MC_EscInit -----------------------------
(* Exhaustive model of EscInit with a reference master: for every EEPROM sync-manager category
   of up to MaxEnt entries (from MCEntries, non-zero types distinct, or no category at all) and
   every prior state of a small ESC (NSm = 3 sync managers, one FMMU, old configurations active
   or not, with / without station address, AL state INIT / PRE-OP / OP) the reference procedures
   below - one register write per step - are run for up to MaxCalls calls.  Checked: every write
   is inside the frame of its call (RefInFrame) and the post-condition of every call holds when
   its writes are done (RefMeetsPost), i.e. the requirements of EscInit are satisfiable on the
   ESC's register semantics (sync-manager registers locked while active, read-only bytes) and the
   reference order of writes (deactivate - configure - activate) achieves them.              *)
EXTENDS EscInit, TLC
CONSTANTS MaxEnt, MaxCalls, Rich     \* Rich = FALSE: only a fresh terminal and all-old configurations
VARIABLES todo, ncalls
mvars == <<evars, todo, ncalls>>

EB(start, len, ctl, en, type) == LE16(start) \o LE16(len) \o <<ctl, 0, en, type>>
MCEntries == {EB(4096, 128, 38, 1, 1), EB(4224, 128, 34, 1, 2), EB(4352, 0, 36, 1, 3),
              EB(4352, 6, 100, 1, 3), EB(4480, 2, 32, 1, 4), EB(4480, 0, 0, 0, 4), EB(0, 0, 0, 0, 0)}
RECURSIVE Flat(_, _)
Flat(ss, k) == IF k > Len(ss) THEN <<>> ELSE ss[k] \o Flat(ss, k + 1)
TypesDistinct(ss) == \A i, j \in 1 .. Len(ss) : (i # j /\ ss[i][8] # 0) => ss[i][8] # ss[j][8]
Cats == {Flat(ss, 1) : ss \in {s \in UNION {[1 .. n -> MCEntries] : n \in 0 .. MaxEnt} : TypesDistinct(s)}}
Eeproms == {[has41 |-> TRUE, d |-> d, outbits |-> 0, inbits |-> 0, other |-> 1911, rx |-> {}] : d \in Cats}
           \cup {[has41 |-> FALSE, d |-> <<>>, outbits |-> 0, inbits |-> 0, other |-> 1911, rx |-> {}]}

Zeros(n) == [i \in 1 .. n |-> 0]
JunkA(n) == LE16(6144 + 64 * n) \o LE16(7 + n) \o <<36, 48, 1, 0>>
JunkI(n) == LE16(6144 + 64 * n) \o LE16(7 + n) \o <<38, 48, 0, 0>>
FmmuJunk == <<0, 0, 1, 0, 4, 0, 0, 7, 0, 17, 0, 1, 1, 0, 0, 0>>
Clean(p) == p[1] = 0 /\ p[2] = StInit /\ p[3] = Zeros(8) /\ p[4] = Zeros(8) /\ p[5] = Zeros(8) /\ p[6] = Zeros(16)
Old(p) == p[3] = JunkA(0) /\ p[4] = JunkA(1) /\ p[5] = JunkI(2) /\ p[6] = FmmuJunk
PriorParts == {p \in {0, 291} \X {StInit, StOp} \X {Zeros(8), JunkA(0)} \X {Zeros(8), JunkA(1)}
                      \X {Zeros(8), JunkA(2), JunkI(2)} \X {Zeros(16), FmmuJunk} :
                  Rich \/ Clean(p) \/ Old(p)}
Priors == {[station |-> p[1], wd |-> <<2498, 1000, 1000>>, fmmu |-> <<p[6]>>, sm |-> <<p[3], p[4], p[5]>>,
            al |-> p[2], nf |-> 1] : p \in PriorParts}

(* ---- the reference master ---- *)
W(ado, data) == [ado |-> ado, data |-> data]
FreeAddr == 1001
SanEntry(d, n) == LET x == Ent(d, n) IN
    LE16(x.start) \o LE16(x.len) \o <<x.ctl, 0, IF Bit0(x.en) /\ x.len # 0 THEN 1 ELSE 0, 0>>
RECURSIVE SanCat(_, _)
SanCat(d, n) == IF n >= NEnt(d) THEN <<>> ELSE SanEntry(d, n) \o SanCat(d, n + 1)
RefApply == IF ee.has41 THEN <<W(ASm, Zeros(8 * NSm)), W(ASm, SanCat(ee.d, 0))>> ELSE <<>>
RefInitialize(c) ==
    (IF c.has_rel THEN <<W(AStation, LE16(IF c.has_abs THEN c.abs ELSE FreeAddr))>> ELSE <<>>)
    \o <<W(AAlCtl, <<StInit, 0>>)>>
    \o [i \in 1 .. c.pre.nf |-> W(AFmmu + 16 * (i - 1) + 12, <<0>>)]
    \o RefApply
RefPdoOne(kind, sz) ==
    IF ByType(ee.d, kind) = {} THEN <<>>
    ELSE LET n == CHOOSE m \in ByType(ee.d, kind) : TRUE IN
         <<W(ASm + 8 * n + 6, <<0>>), W(ASm + 8 * n + 2, LE16(sz)),
           W(ASm + 8 * n + 6, <<IF sz > 0 THEN 1 ELSE 0>>)>>
RefWrites(c) ==
    CASE c.op = "initialize" -> RefInitialize(c)
      [] c.op = "gentle" -> IF Configured(c) THEN <<>> ELSE RefInitialize(c)
      [] c.op = "apply_eeprom" -> RefApply
      [] c.op = "write_pdo_sm" -> RefPdoOne("pdo_out", c.a) \o RefPdoOne("pdo_in", c.b)
      [] c.op = "set_watchdog" -> <<W(AWdPdi, LE16(c.a)), W(AWdProc, LE16(c.b))>>

(* what the reference master knows afterwards *)
Area(kind, fromreg) ==
    IF ~ee.has41 \/ ByType(ee.d, kind) = {} THEN [off |-> None, sz |-> None, addr |-> None]
    ELSE LET n == CHOOSE m \in ByType(ee.d, kind) : TRUE IN
         IF fromreg THEN [off |-> SmBlock(esc, n).start, sz |-> SmBlock(esc, n).len, addr |-> ASm + 8 * n]
         ELSE [off |-> Ent(ee.d, n).start, sz |-> Ent(ee.d, n).len, addr |-> ASm + 8 * n]
RefView(c) ==
    LET fr == c.op = "gentle" /\ Configured(c) IN
    [position |-> esc.station, nfmmu |-> esc.nf,
     mbx_out_off |-> Area("mbx_out", fr).off, mbx_out_sz |-> Area("mbx_out", fr).sz,
     mbx_in_off |-> Area("mbx_in", fr).off, mbx_in_sz |-> Area("mbx_in", fr).sz,
     pdo_out_off |-> Area("pdo_out", fr).off, pdo_out_sz |-> Area("pdo_out", fr).sz,
     pdo_out_addr |-> Area("pdo_out", fr).addr,
     pdo_in_off |-> Area("pdo_in", fr).off, pdo_in_sz |-> Area("pdo_in", fr).sz,
     pdo_in_addr |-> Area("pdo_in", fr).addr]

Mk(op, rel, abs, addr, a, b) == [op |-> op, has_rel |-> rel, has_abs |-> abs, abs |-> addr, a |-> a, b |-> b]
Station == esc.station
Knows == obj.position # Unset /\ obj.position = Station /\ Station # 0
Choices ==
    ({Mk("initialize", rel, abs, IF rel THEN 20 ELSE Station, 0, 0) :
         rel \in {r \in BOOLEAN : r \/ Station # 0}, abs \in BOOLEAN}
     \ {Mk("initialize", FALSE, FALSE, Station, 0, 0)})
    \cup {Mk("gentle", rel, ~rel, IF rel THEN 0 ELSE Station, 0, 0) : rel \in {r \in BOOLEAN : r \/ Station # 0}}
    \cup (IF Knows THEN {Mk("apply_eeprom", FALSE, FALSE, 0, 0, 0), Mk("set_watchdog", FALSE, FALSE, 0, 1000, 65535)}
          ELSE {})
    \cup (IF Knows /\ ConfiguredAsEeprom(esc, ee)
          THEN {Mk("write_pdo_sm", FALSE, FALSE, 0, IF z \/ ByType(ee.d, "pdo_out") = {} THEN 0 ELSE 5,
                   IF z \/ ByType(ee.d, "pdo_in") = {} THEN 0 ELSE 3) : z \in BOOLEAN}
          ELSE {})

MCInit == /\ ee \in Eeproms /\ esc \in Priors /\ obj = NoObj /\ call = Idle
          /\ todo = <<>> /\ ncalls = 0
MCNext ==
    \/ /\ ncalls < MaxCalls /\ \E c \in Choices : Call(c)
       /\ todo' = RefWrites(call') /\ ncalls' = ncalls + 1
    \/ /\ Busy /\ todo # <<>> /\ Write(0, Head(todo).ado, Head(todo).data)
       /\ todo' = Tail(todo) /\ UNCHANGED ncalls
    \/ /\ Busy /\ todo = <<>> /\ Return(RefView(call), <<>>) /\ UNCHANGED <<todo, ncalls>>
    \/ /\ \E s \in {StInit, StOp} : s # esc.al /\ EnvAl(s)
       /\ ncalls \in 1 .. (MaxCalls - 1) /\ UNCHANGED <<todo, ncalls>>
    \/ /\ EnvNewObj /\ obj # NoObj /\ ncalls < MaxCalls /\ UNCHANGED <<todo, ncalls>>
MCSpec == MCInit /\ [][MCNext]_mvars

RefMeetsPost == (Busy /\ todo = <<>>) => PostOf(call, esc, RefView(call), obj, ee, {})
RefInFrame == (Busy /\ todo # <<>>) => InFrame(call, ee, Head(todo).ado, Len(Head(todo).data))
MCTypeOK == /\ esc.al \in {StInit, StPreop, StSafeop, StOp}
            /\ esc.station \in 0 .. 65535 /\ \A k \in 1 .. 3 : esc.wd[k] \in 0 .. 65535
            /\ Len(esc.fmmu) = esc.nf /\ \A i \in 1 .. esc.nf : esc.fmmu[i] \in [1 .. 16 -> 0 .. 255]
            /\ Len(esc.sm) = NSm /\ \A n \in 1 .. NSm : esc.sm[n] \in [1 .. 8 -> 0 .. 255]
=============================================================================
