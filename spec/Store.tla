------------------------------- MODULE Store -------------------------------
(* C08 / C09 - the sequential specification of map variables as seen from both sides.

   Abstract values are mathematical integers, written as 9-byte two's-complement words (Wide), so
   that every value of every 1..8-byte format, signed or unsigned, has exactly one representation.
   A fixed-point ("x") variable holds a decimal with five fractional digits; its abstract value is
   that decimal times 100000 (an integer).  A multi-element format holds a tuple of elements.

   Two more abstract values express freedom the properties leave:
     Unknown   the specification says nothing about the value (e.g. a program stored a number that
               its destination format cannot represent); the first read from either side fixes it;
     NonZero   some value different from zero (the error code a failed helper call returns).

   Declarations D (constant for a history):
     D.avars  <<[f |-> [n, c], percpu |-> BOOLEAN]>>   array-map variables (n elements of letter c)
     D.ncpu   number of copies of a per-CPU variable
     D.hvars  <<[c |-> letter, def |-> word]>>          hash-map variables and their declared defaults
     D.dicts  <<[key |-> <<letters>>, val |-> <<letters>>, cap |-> n, lru |-> BOOLEAN]>>
     D.prog   the statements of the program (below)

   State:
     aval[v][copy][elem]   array variable v (copy = CPU for per-CPU variables, else 1)
     hval[v]               hash variable v: an independent cell
     dval[d]               Dict d: [known |-> BOOLEAN, m |-> function key tuple -> value tuple]

   Statements of a program (the real generator emits them; `Exec` is what they must do):
     [op |-> "const",  dst, v]            dst := v
     [op |-> "copy",   dst, src]          dst := src       (both fixed-point or both integer)
     [op |-> "add",    dst, src, v]       dst := src + v   (same format; also what `dst += v` must do)
     [op |-> "update", d, flags, dst]     d.update(flags); dst := r0    flags: the NAME the program wrote -
                                          "ANY", "NOEXIST" (insert only) or "EXIST" (modify only)
     [op |-> "lookup", d, body, els]      with d.lookup() as (value, Else): body   with Else: els
   Locations: [k |-> "a", id, i] element i of array variable id (on the CPU of the run);
     [k |-> "h", id] hash variable; [k |-> "l", id] local (stack) variable of the program, fresh in every run; [k |-> "key" / "val", id, i] member i of the key / value that the
     program keeps on its stack for Dict id; [k |-> "lk", i] member i of the looked-up entry.
   Storing a value its destination cannot represent leaves the destination Unknown - the properties
   speak about values being read back UNCHANGED, not about conversions.                         *)
EXTENDS Layout, Wide, TLC

VL == 9
Unknown == <<>>
NonZero == <<-1>>
Zero == WZero(VL)
IsWord(v) == Len(v) = VL
Fixed(c) == c = "x"
Fits(v, c) == IF Signed(c) THEN WFitsS(v, ElemSize(c)) ELSE WFitsU(v, ElemSize(c))
(* the abstract value a location of format c holds after v was stored into it *)
Into(v, c) == IF v = NonZero THEN (IF ElemSize(c) = 8 THEN NonZero ELSE Unknown)
              ELSE IF IsWord(v) /\ Fits(v, c) THEN v ELSE Unknown
(* an observed (concrete) word is consistent with an abstract value *)
Match(abs, obs) == IF abs = Unknown THEN TRUE ELSE IF abs = NonZero THEN obs # Zero ELSE abs = obs
MatchSeq(abs, obs) == Len(abs) = Len(obs) /\ \A i \in DOMAIN abs : Match(abs[i], obs[i])
AllFit(ws, cs) == Len(ws) = Len(cs) /\ \A i \in DOMAIN ws : IsWord(ws[i]) /\ Fits(ws[i], cs[i])

Copies(D, v) == IF D.avars[v].percpu THEN D.ncpu ELSE 1
Rep(x, n) == Mat([i \in 1 .. n |-> x], n)

AInit(D) == Mat([v \in 1 .. Len(D.avars) |-> Rep(Rep(Zero, Len(VLetters(D.avars[v].f))), Copies(D, v))], Len(D.avars))
HInit(D) == Mat([v \in 1 .. Len(D.hvars) |-> Into(D.hvars[v].def, D.hvars[v].c)], Len(D.hvars))
EmptyDict == [known |-> TRUE, m |-> <<>>]
HavocDict == [known |-> FALSE, m |-> <<>>]
DInit(D) == Rep(EmptyDict, Len(D.dicts))

(* concrete functions (TLC keeps [x \in S |-> e] unevaluated) *)
RECURSIVE MkFun(_, _, _)
MkFun(S, f, acc) == IF S = {} THEN acc
                    ELSE LET x == CHOOSE y \in S : TRUE IN MkFun(S \ {x}, f, (x :> f[x]) @@ acc)
Without(f, k) == MkFun(DOMAIN f \ {k}, f, <<>>)
With(f, k, v) == (k :> v) @@ Without(f, k)
Count(f) == Cardinality(DOMAIN f)

(* ---- the program ----------------------------------------------------------------------------- *)
Cpu(D, S, v) == IF D.avars[v].percpu THEN S.cpu ELSE 1
LkDict(S) == S.lk[1]
LkKey(S) == S.lk[2]
(* local variables of the program (its stack): [c |-> letter]; absent in declarations without any *)
LVars(D) == IF "lvars" \in DOMAIN D THEN D.lvars ELSE <<>>
LocFmt(D, S, l) ==
    CASE l.k = "l" -> LVars(D)[l.id].c
      [] l.k = "a" -> VLetters(D.avars[l.id].f)[l.i]
      [] l.k = "h" -> D.hvars[l.id].c
      [] l.k = "key" -> D.dicts[l.id].key[l.i]
      [] l.k = "val" -> D.dicts[l.id].val[l.i]
      [] l.k = "lk" -> IF S.lk = <<>> THEN "q" ELSE D.dicts[LkDict(S)].val[l.i]
Read(D, S, l) ==
    CASE l.k = "l" -> S.loc[l.id]
      [] l.k = "a" -> S.a[l.id][Cpu(D, S, l.id)][l.i]
      [] l.k = "h" -> S.h[l.id]
      [] l.k = "key" -> S.key[l.id][l.i]
      [] l.k = "val" -> S.val[l.id][l.i]
      [] l.k = "lk" -> IF S.lk = <<>> \/ ~S.d[LkDict(S)].known THEN Unknown
                       ELSE S.d[LkDict(S)].m[LkKey(S)][l.i]
Write(D, S, l, v) ==
    LET w == Into(v, LocFmt(D, S, l)) IN
    CASE l.k = "l" -> [S EXCEPT !.loc[l.id] = w]
      [] l.k = "a" -> [S EXCEPT !.a[l.id][Cpu(D, S, l.id)][l.i] = w]
      [] l.k = "h" -> [S EXCEPT !.h[l.id] = w]
      [] l.k = "key" -> [S EXCEPT !.key[l.id][l.i] = w]
      [] l.k = "val" -> [S EXCEPT !.val[l.id][l.i] = w]
      [] l.k = "lk" -> IF S.lk = <<>> \/ ~S.d[LkDict(S)].known THEN S
                       ELSE [S EXCEPT !.d[LkDict(S)].m[LkKey(S)][l.i] = w]
AnyUnknown(t) == \E i \in DOMAIN t : ~IsWord(t[i])
Err(n) == WFromInt(-n, VL)

Update(D, S, s) ==
    LET dd == S.d[s.d]  kt == S.key[s.d]  vt == S.val[s.d]  decl == D.dicts[s.d] IN
    IF ~dd.known \/ AnyUnknown(kt) THEN Write(D, [S EXCEPT !.d[s.d] = HavocDict], s.dst, Unknown)
    ELSE IF s.flags = "NOEXIST" /\ kt \in DOMAIN dd.m THEN Write(D, S, s.dst, NonZero)
    ELSE IF s.flags = "EXIST" /\ kt \notin DOMAIN dd.m THEN Write(D, S, s.dst, NonZero)
    ELSE IF decl.lru THEN
         \* an LRU map gives no retention guarantee: any update may evict any entry (the kernel's
         \* per-CPU free lists do so long before the map is full, even for the key being updated)
         Write(D, [S EXCEPT !.d[s.d] = HavocDict], s.dst, Zero)
    ELSE IF kt \notin DOMAIN dd.m /\ Count(dd.m) >= decl.cap THEN Write(D, S, s.dst, NonZero)
    ELSE Write(D, [S EXCEPT !.d[s.d].m = With(dd.m, kt, vt)], s.dst, Zero)

RECURSIVE ExecSeq(_, _, _, _), Exec1(_, _, _), HavocSeq(_, _, _, _)
(* a block whose execution cannot be followed (unknown key): everything it may write is Unknown *)
HavocSeq(D, stmts, i, S) ==
    IF i > Len(stmts) THEN S
    ELSE LET s == stmts[i] IN
         HavocSeq(D, stmts, i + 1,
                  IF s.op = "lookup" THEN HavocSeq(D, s.els, 1, HavocSeq(D, s.body, 1, S))
                  ELSE IF s.op = "update" THEN Write(D, [S EXCEPT !.d[s.d] = HavocDict], s.dst, Unknown)
                  ELSE IF s.dst.k = "lk" THEN S
                  ELSE Write(D, S, s.dst, Unknown))
Exec1(D, S, s) ==
    CASE s.op = "const" -> Write(D, S, s.dst, s.v)
      [] s.op = "copy" ->
           Write(D, S, s.dst, IF Fixed(LocFmt(D, S, s.src)) = Fixed(LocFmt(D, S, s.dst))
                              THEN Read(D, S, s.src) ELSE Unknown)
      [] s.op = "add" ->
           LET v == Read(D, S, s.src) IN
           Write(D, S, s.dst, IF IsWord(v) /\ LocFmt(D, S, s.src) = LocFmt(D, S, s.dst)
                              THEN WAdd(v, s.v) ELSE Unknown)      \* fixed point: s.v in the same unit (scaled)
      [] s.op = "update" -> Update(D, S, s)
      [] s.op = "lookup" ->
           LET dd == S.d[s.d]  kt == S.key[s.d] IN
           IF ~dd.known \/ AnyUnknown(kt)
           THEN HavocSeq(D, s.els, 1, HavocSeq(D, s.body, 1, [S EXCEPT !.d[s.d] = HavocDict]))
           ELSE IF kt \in DOMAIN dd.m
           THEN [ExecSeq(D, s.body, 1, [S EXCEPT !.lk = <<s.d, kt>>]) EXCEPT !.lk = <<>>]
           ELSE ExecSeq(D, s.els, 1, S)
ExecSeq(D, stmts, i, S) == IF i > Len(stmts) THEN S ELSE ExecSeq(D, stmts, i + 1, Exec1(D, S, stmts[i]))

UnknownTuple(n) == Rep(Unknown, n)
Run(D, a, h, d, cpu) ==
    ExecSeq(D, D.prog, 1,
            [a |-> a, h |-> h, d |-> d, cpu |-> cpu, lk |-> <<>>,
             loc |-> UnknownTuple(Len(LVars(D))),      \* a fresh stack for every run
             key |-> Mat([i \in 1 .. Len(D.dicts) |-> UnknownTuple(Len(D.dicts[i].key))], Len(D.dicts)),
             val |-> Mat([i \in 1 .. Len(D.dicts) |-> UnknownTuple(Len(D.dicts[i].val))], Len(D.dicts))])
(* nothing is known any more (a run that did not complete) *)
HavocA(D) == Mat([v \in 1 .. Len(D.avars) |-> Rep(Rep(Unknown, Len(VLetters(D.avars[v].f))), Copies(D, v))], Len(D.avars))
HavocH(D) == Rep(Unknown, Len(D.hvars))
HavocD(D) == Rep(HavocDict, Len(D.dicts))

(* ---- Python-side operations: acceptance of an observed outcome, and the state afterwards ------ *)
Letters(D, v) == VLetters(D.avars[v].f)
(* array variable *)
PyWriteAOk(D, v, elems) == ~D.avars[v].percpu /\ AllFit(elems, Letters(D, v))
PyReadAOk(D, a, v, obs) == /\ Len(obs) = Copies(D, v)
                           /\ \A c \in DOMAIN obs : MatchSeq(a[v][c], obs[c]) /\ AllFit(obs[c], Letters(D, v))
(* hash variable *)
PyWriteHOk(D, v, w) == IsWord(w) /\ Fits(w, D.hvars[v].c)
PyReadHOk(D, h, v, obs) == IsWord(obs) /\ Match(h[v], obs) /\ Fits(obs, D.hvars[v].c)
(* Dict: `dd` is the state of the dict, `decl` its declaration *)
Present(dd, kt) == kt \in DOMAIN dd.m
Full(dd, decl) == Count(dd.m) >= decl.cap
KeyOk(decl, kt) == AllFit(kt, decl.key)
ValOk(decl, vt) == AllFit(vt, decl.val)
KeySet(keys) == {keys[i] : i \in DOMAIN keys}
=============================================================================
