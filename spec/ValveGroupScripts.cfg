SPECIFICATION SSpec
CONSTANTS N = 2
          NCycles = 2
          Dts = {0, 1}
          Mode = "three-switch"
          Staggers = {0}
INVARIANT Emit
CHECK_DEADLOCK FALSE
