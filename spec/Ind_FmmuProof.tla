--------------------------- MODULE Ind_FmmuProof ---------------------------
(* X05 - TLAPS proof, over the ORIGINAL module Fmmu (no restatement), that NoSharing and RegsAgree
   hold in every reachable state of FSpec for ANY MaxN and ANY set Logicals of integers.      *)
EXTENDS Fmmu, TLAPS

ASSUME ConstAssump == MaxN \in Nat /\ Logicals \subseteq Int

IndInv == /\ n \in Nat
          /\ slot \in [Slots -> Int]
          /\ DOMAIN reg = Slots
          /\ NoSharing
          /\ RegsAgree

THEOREM FInitInd == (\E k \in 1 .. MaxN : FInit(k)) => IndInv
  BY ConstAssump DEF FInit, IndInv, Slots, NoSharing, RegsAgree, Free, RegOff

THEOREM FStepInd == IndInv /\ [FNext]_fvars => IndInv'
<1> SUFFICES ASSUME IndInv, [FNext]_fvars PROVE IndInv'
  OBVIOUS
<1>1. CASE UNCHANGED fvars
  BY <1>1 DEF fvars, IndInv, Slots, NoSharing, RegsAgree, Live, Free
<1>2. ASSUME NEW m \in Logicals, NEW w \in BOOLEAN, NEW s \in Slots, MapOk(m, w, s)
      PROVE IndInv'
  BY <1>2, ConstAssump DEF MapOk, IndInv, Slots, NoSharing, RegsAgree, Live, Free
<1>3. ASSUME NEW m \in Logicals, MapFail(m) PROVE IndInv'
  BY <1>3 DEF MapFail, fvars, IndInv, Slots, NoSharing, RegsAgree, Live, Free
<1>4. ASSUME NEW m \in Logicals, Unmap(m) PROVE IndInv'
  <2> DEFINE s == CHOOSE i \in Slots : slot[i] = m
  <2>1. s \in Slots /\ slot[s] = m
    BY <1>4 DEF Unmap, Live
  <2>2. slot' = [slot EXCEPT ![s] = Free] /\ reg' = [reg EXCEPT ![s].active = FALSE] /\ n' = n
    BY <1>4 DEF Unmap
  <2> HIDE DEF s
  <2> QED BY <2>1, <2>2 DEF IndInv, Slots, NoSharing, RegsAgree, Free
<1>5. ASSUME NEW m \in Logicals, UnmapAbort(m) PROVE IndInv'
  <2> DEFINE s == CHOOSE i \in Slots : slot[i] = m
  <2>1. s \in Slots /\ slot[s] = m
    BY <1>5 DEF UnmapAbort, Live
  <2>2. slot' = [slot EXCEPT ![s] = Free] /\ reg' = reg /\ n' = n
    BY <1>5 DEF UnmapAbort
  <2> HIDE DEF s
  <2> QED BY <2>1, <2>2 DEF IndInv, Slots, NoSharing, RegsAgree, Free
<1> QED BY <1>1, <1>2, <1>3, <1>4, <1>5 DEF FNext

THEOREM FSafe == FSpec => [](NoSharing /\ RegsAgree)
<1>1. IndInv => NoSharing /\ RegsAgree
  BY DEF IndInv
<1> QED BY FInitInd, FStepInd, <1>1, PTL DEF FSpec
(* the guard itself, as a step property: a live slot only ever changes by being freed - it is
   never taken by another mapping while live (NoSharing alone would admit overwriting)        *)
KeepsLive == \A i \in Slots : slot[i] # Free => slot'[i] \in {slot[i], Free}

THEOREM FStepKeeps == IndInv /\ [FNext]_fvars => KeepsLive
<1> SUFFICES ASSUME IndInv, [FNext]_fvars PROVE KeepsLive
  OBVIOUS
<1>1. CASE UNCHANGED fvars
  BY <1>1 DEF fvars, KeepsLive
<1>2. ASSUME NEW m \in Logicals, NEW w \in BOOLEAN, NEW s \in Slots, MapOk(m, w, s)
      PROVE KeepsLive
  BY <1>2 DEF MapOk, IndInv, Slots, KeepsLive, Free
<1>3. ASSUME NEW m \in Logicals, MapFail(m) PROVE KeepsLive
  BY <1>3 DEF MapFail, fvars, KeepsLive
<1>4. ASSUME NEW m \in Logicals, Unmap(m) PROVE KeepsLive
  <2> DEFINE s == CHOOSE i \in Slots : slot[i] = m
  <2>1. s \in Slots /\ slot[s] = m
    BY <1>4 DEF Unmap, Live
  <2>2. slot' = [slot EXCEPT ![s] = Free]
    BY <1>4 DEF Unmap
  <2> HIDE DEF s
  <2> QED BY <2>1, <2>2 DEF IndInv, Slots, KeepsLive, Free
<1>5. ASSUME NEW m \in Logicals, UnmapAbort(m) PROVE KeepsLive
  <2> DEFINE s == CHOOSE i \in Slots : slot[i] = m
  <2>1. s \in Slots /\ slot[s] = m
    BY <1>5 DEF UnmapAbort, Live
  <2>2. slot' = [slot EXCEPT ![s] = Free]
    BY <1>5 DEF UnmapAbort
  <2> HIDE DEF s
  <2> QED BY <2>1, <2>2 DEF IndInv, Slots, KeepsLive, Free
<1> QED BY <1>1, <1>2, <1>3, <1>4, <1>5 DEF FNext

THEOREM FKeeps == FSpec => [][KeepsLive]_fvars
<1> QED BY FInitInd, FStepInd, FStepKeeps, PTL DEF FSpec
=============================================================================
