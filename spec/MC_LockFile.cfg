SPECIFICATION LSpec
CONSTANTS Users = {"u1", "u2", "u3"}
          N = 2
          None = None
          ProcOf <- ProcMulti
          Bytes <- BytesMulti
INVARIANTS MutualExclusion OwnerAgrees ValidCounters Chain ZeroOnlyFirst
CHECK_DEADLOCK FALSE
