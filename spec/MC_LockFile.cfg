SPECIFICATION LSpec
CONSTANTS Procs = {"p1", "p2", "p3"}
          N = 2
          None = None
          Bytes <- BytesMixed
INVARIANTS MutualExclusion OwnerAgrees ValidCounters Chain ZeroOnlyFirst
CHECK_DEADLOCK FALSE
