----------------------------- MODULE SiiImage -----------------------------
(* C17, part (b) - what is stored in a SII (slave information interface) EEPROM image.

   An image is a sequence of bytes (TLA+ sequences are 1-based; byte offsets below are
   0-based).  Words are 16 bit little endian; word address w is byte offset 2w.  32-bit
   quantities are kept as 4-byte sequences (TLC integers are 32 bit signed).

   Everything here is a constant-level definition evaluated by TLC on concrete images; all
   recursions are linear in the size of what they walk over and pass intermediate results
   as operator arguments.                                                                   *)
EXTENDS Integers, Sequences

U16(s, o) == s[o + 1] + 256 * s[o + 2]
Bytes(s, o, n) == SubSeq(s, o + 1, o + n)

(* a byte of the EEPROM; an erased / absent cell reads 0xFF *)
ImageByte(img, o) == IF o < Len(img) THEN img[o + 1] ELSE 255
ImageBytes(img, o, n) == [k \in 1 .. n |-> ImageByte(img, o + k - 1)]

---------------------------------------------------------------------------
(* identity: vendor id, product code, revision number, serial number at words 8, 10, 12, 14 *)
WVendorId == 8
WProductCode == 10
WRevisionNo == 12
WSerialNo == 14
Identity(img) == [vendorId    |-> Bytes(img, 2 * WVendorId, 4),
                  productCode |-> Bytes(img, 2 * WProductCode, 4),
                  revisionNo  |-> Bytes(img, 2 * WRevisionNo, 4),
                  serialNo    |-> Bytes(img, 2 * WSerialNo, 4)]

---------------------------------------------------------------------------
(* categories: from word 0x40 on, header = type word, length in words; data follows; the
   type word 0xFFFF ends the list.  Result: the categories in stored order, as records
   [type, data].  ok = FALSE if the image ends before an end marker (not well formed).     *)
FirstCategoryWord == 64
EndMarker == 65535

RECURSIVE CatWalk(_, _, _)
CatWalk(img, o, acc) ==
    IF o + 2 > Len(img) THEN [ok |-> FALSE, cats |-> acc]
    ELSE IF U16(img, o) = EndMarker THEN [ok |-> TRUE, cats |-> acc]
    ELSE IF o + 4 > Len(img) \/ o + 4 + 2 * U16(img, o + 2) > Len(img)
         THEN [ok |-> FALSE, cats |-> acc]
    ELSE CatWalk(img, o + 4 + 2 * U16(img, o + 2),
                 Append(acc, [type |-> U16(img, o),
                              data |-> Bytes(img, o + 4, 2 * U16(img, o + 2))]))

Categories(img) == CatWalk(img, 2 * FirstCategoryWord, <<>>)

HasCat(cats, t) == \E i \in 1 .. Len(cats) : cats[i].type = t
CatData(cats, t) == cats[CHOOSE i \in 1 .. Len(cats) : cats[i].type = t].data
CatOrEmpty(cats, t) == IF HasCat(cats, t) THEN CatData(cats, t) ELSE <<>>
DistinctTypes(cats) == \A i, j \in 1 .. Len(cats) : cats[i].type = cats[j].type => i = j

CatSyncM == 41
CatTxPdo == 50      \* inputs: terminal -> master
CatRxPdo == 51      \* outputs: master -> terminal

---------------------------------------------------------------------------
(* sync managers (category 41): 8-byte entries
       physical start address (2), length (2), control byte, status, enable, type.
   The low nibble of the control byte is the operation mode (bits 0-1: 0 buffered = process
   data, 2 mailbox) and the direction (bits 2-3: 0 read by the master, 1 written by it).
   Entry number i configures the sync-manager registers at 0x800 + 8 i.                    *)
SmEntries(d) == [i \in 1 .. (Len(d) \div 8) |->
                   [off  |-> U16(d, 8 * (i - 1)),
                    size |-> U16(d, 8 * (i - 1) + 2),
                    mode |-> d[8 * (i - 1) + 5] % 16,
                    addr |-> 2048 + 8 * (i - 1)]]
ModeMbxOut == 6
ModeMbxIn == 2
ModePdoOut == 4
ModePdoIn == 0
SmWellFormed(d) == Len(d) % 8 = 0 /\ \A i \in 1 .. (Len(d) \div 8) :
                       SmEntries(d)[i].mode \in {ModeMbxOut, ModeMbxIn, ModePdoOut, ModePdoIn}

None == -1      \* how the driver reports Python's None

(* an area (offset, size) reported for a mode is what is stored in an entry of that mode;
   if several entries have the mode the property does not say which one; if none has, the
   area is reported absent                                                                  *)
AreaOK(sms, mode, off, size) ==
    IF \E i \in 1 .. Len(sms) : sms[i].mode = mode
    THEN \E i \in 1 .. Len(sms) : sms[i].mode = mode /\ sms[i].off = off /\ sms[i].size = size
    ELSE off = None /\ size = None
(* for the process-data areas also the address of the sync manager's registers *)
PdoAreaOK(sms, mode, off, size, addr) ==
    IF \E i \in 1 .. Len(sms) : sms[i].mode = mode
    THEN \E i \in 1 .. Len(sms) :
            sms[i].mode = mode /\ sms[i].off = off /\ sms[i].size = size /\ sms[i].addr = addr
    ELSE off = None /\ size = None

SyncManagersOK(d, o) ==
    LET sms == SmEntries(d) IN
    /\ AreaOK(sms, ModeMbxOut, o.mbx_out_off, o.mbx_out_sz)
    /\ AreaOK(sms, ModeMbxIn, o.mbx_in_off, o.mbx_in_sz)
    /\ PdoAreaOK(sms, ModePdoOut, o.pdo_out_off, o.pdo_out_sz, o.pdo_out_addr)
    /\ PdoAreaOK(sms, ModePdoIn, o.pdo_in_off, o.pdo_in_sz, o.pdo_in_addr)
HasMailbox(d) == LET sms == SmEntries(d) IN
    /\ \E i \in 1 .. Len(sms) : sms[i].mode = ModeMbxOut
    /\ \E i \in 1 .. Len(sms) : sms[i].mode = ModeMbxIn

---------------------------------------------------------------------------
(* PDOs (category 50 TxPDO = inputs, 51 RxPDO = outputs): a list of PDOs, each an 8-byte
   header   PDO index (2), number of entries (1), sync manager (1), sync unit, name, flags (2)
   followed by that many 8-byte entries
            index (2), subindex (1), name (1), data type (1), bit length (1), flags (2).
   The entries of all PDOs of a category lie one after the other in the process-data area of
   the category's direction, the first at bit 0.  An entry with index 0 is padding.  An entry
   shorter than 8 bits is located by byte and bit, a longer one by byte and a format letter
   for its width.                                                                           *)
Format(bits) == CASE bits = 8 -> "B" [] bits = 16 -> "H" [] bits = 32 -> "I" [] bits = 64 -> "Q"
                  [] OTHER -> "?"
NoBit == -1
NoFormat == ""
PdoEntry(idx, sub, sm, bitpos, bits) ==
    [idx |-> idx, sub |-> sub, sm |-> sm, byte |-> bitpos \div 8,
     bit |-> IF bits < 8 THEN bitpos % 8 ELSE NoBit,
     fmt |-> IF bits < 8 THEN NoFormat
             ELSE IF bitpos % 8 = 0 THEN Format(bits) ELSE "?"]

(* d: category data, o: byte offset, left: entries still to come in the current PDO *)
RECURSIVE PdoWalk(_, _, _, _, _, _)
PdoWalk(d, o, left, bitpos, sm, acc) ==
    IF o + 8 > Len(d) THEN [bits |-> bitpos, entries |-> acc, ok |-> left = 0 /\ o = Len(d)]
    ELSE IF left = 0 THEN PdoWalk(d, o + 8, d[o + 3], bitpos, sm, acc)
    ELSE PdoWalk(d, o + 8, left - 1, bitpos + d[o + 6], sm,
                 IF U16(d, o) = 0 THEN acc
                 ELSE Append(acc, PdoEntry(U16(d, o), d[o + 3], sm, bitpos, d[o + 6])))

Pdos(d, sm) == PdoWalk(d, 0, 0, 0, sm, <<>>)
PdosWellFormed(d, sm) == LET p == Pdos(d, sm) IN
    p.ok /\ \A i \in 1 .. Len(p.entries) : p.entries[i].fmt # "?"

SmOut == "OUT"
SmIn == "IN"

(* the layout reported (a sequence of entries in any order, one per (index, subindex)) is the
   stored one: same set of (index, subindex); each reported location is a stored location of
   that (index, subindex)                                                                   *)
Key(e) == <<e.idx, e.sub>>
LayoutOK(exp, obs) ==
    /\ {Key(exp[i]) : i \in 1 .. Len(exp)} = {Key(obs[i]) : i \in 1 .. Len(obs)}
    /\ \A i, j \in 1 .. Len(obs) : Key(obs[i]) = Key(obs[j]) => i = j
    /\ \A i \in 1 .. Len(obs) : \E j \in 1 .. Len(exp) : exp[j] = obs[i]

(* the same walk over a CoE object dictionary (SDO source): assignment = sequence of PDO
   indices assigned to the sync manager (object 0x1C12 / 0x1C13, 0 = unused slot), mapping =
   function PDO index -> sequence of mapping entries <<bit length, subindex, index>>        *)
RECURSIVE MapWalk(_, _, _, _, _)
MapWalk(m, k, bitpos, sm, acc) ==
    IF k > Len(m) THEN [bits |-> bitpos, entries |-> acc]
    ELSE MapWalk(m, k + 1, bitpos + m[k][1], sm,
                 IF m[k][3] = 0 THEN acc
                 ELSE Append(acc, PdoEntry(m[k][3], m[k][2], sm, bitpos, m[k][1])))
RECURSIVE Flatten(_, _, _)
Flatten(ss, k, acc) == IF k > Len(ss) THEN acc ELSE Flatten(ss, k + 1, acc \o ss[k])
=============================================================================
