------------------------------ MODULE FmmuAddr ------------------------------
(* C20 - the FMMUs of one terminal as a slot table, mappings told apart from their addresses.

   Fmmu.tla identifies a mapping with its logical address.  Terminal.map_fmmu does not ask for
   that: two live mappings of one terminal may carry the SAME logical address (outputs in the
   lowest slot and inputs in the highest, as for a logical read-write).  Here a mapping is an
   identity m with an address addr[m]; the master's table (fmmu_used) and the terminal's
   registers hold addresses, the specification knows which mapping sits in which slot.  With an
   injective addr this is Fmmu.tla (MC_FmmuAddr checks the refinement).

   As in Fmmu.tla: which free slot a mapping takes is not prescribed; a live slot is never taken
   again, a failing map leaves everything untouched, ending a mapping frees exactly ITS slot -
   not another slot that happens to hold the same address.                                    *)
EXTENDS Integers, Sequences, FiniteSets, TLC

CONSTANTS MaxN,        \* largest number of FMMUs considered
          Ids,         \* mapping identities (positive integers)
          Addrs        \* logical addresses (positive integers; 0 is "free" in the tables)

Free == 0

VARIABLES n,           \* number of FMMUs of this terminal
          addr,        \* addr[m]: the logical address of mapping m (fixed during a behaviour)
          slot,        \* slot[i]: the live mapping in FMMU i, or Free
          reg          \* reg[i]: [active, dir, logical] as last written to the terminal

avars == <<n, addr, slot, reg>>

Slots == 0 .. (n - 1)
Live == {slot[i] : i \in Slots} \ {Free}
RegOff == [active |-> FALSE, dir |-> 0, logical |-> 0]
(* what the master's table shows: the address of the mapping in each slot *)
Table == [i \in Slots |-> IF slot[i] = Free THEN Free ELSE addr[slot[i]]]

AInit(k, a) == /\ n = k
               /\ addr = a
               /\ slot = [i \in 0 .. (k - 1) |-> Free]
               /\ reg = [i \in 0 .. (k - 1) |-> RegOff]

MapOk(m, write, s) ==
    /\ m \in Ids /\ m \notin Live
    /\ s \in Slots /\ slot[s] = Free
    /\ slot' = [slot EXCEPT ![s] = m]
    /\ reg' = [reg EXCEPT ![s] = [active |-> TRUE, dir |-> IF write THEN 2 ELSE 1, logical |-> addr[m]]]
    /\ UNCHANGED <<n, addr>>

MapFail(m) == /\ m \in Ids /\ m \notin Live /\ UNCHANGED avars

SlotOf(m) == CHOOSE i \in Slots : slot[i] = m

Unmap(m) ==
    /\ m \in Live
    /\ slot' = [slot EXCEPT ![SlotOf(m)] = Free]
    /\ reg' = [reg EXCEPT ![SlotOf(m)].active = FALSE]
    /\ UNCHANGED <<n, addr>>

UnmapAbort(m) ==
    /\ m \in Live
    /\ slot' = [slot EXCEPT ![SlotOf(m)] = Free]
    /\ UNCHANGED <<n, addr, reg>>

ANext == \E m \in Ids :
            \/ \E w \in BOOLEAN, s \in Slots : MapOk(m, w, s)
            \/ MapFail(m) \/ Unmap(m) \/ UnmapAbort(m)

ASpec == (\E k \in 1 .. MaxN, a \in [Ids -> Addrs] : AInit(k, a)) /\ [][ANext]_avars

-----------------------------------------------------------------------------
(* no FMMU serves two live mappings: every live mapping sits in exactly one slot *)
NoSharing == \A i, j \in Slots : (slot[i] # Free /\ slot[i] = slot[j]) => i = j
(* every live mapping is what the terminal has activated in that slot, at its address *)
RegsAgree == \A i \in Slots : slot[i] # Free => (reg[i].active /\ reg[i].logical = addr[slot[i]])
(* as many table entries in use as live mappings: an address shared by two mappings takes two slots *)
CountAgree == Cardinality({i \in Slots : Table[i] # Free}) = Cardinality(Live)
TypeOK == /\ n \in 1 .. MaxN
          /\ addr \in [Ids -> Addrs]
          /\ slot \in [Slots -> Ids \cup {Free}]
=============================================================================
