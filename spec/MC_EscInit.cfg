SPECIFICATION MCSpec
CONSTANTS NSm = 3
          MaxEnt = 2
          MaxCalls = 2
          Rich = FALSE
INVARIANTS RefMeetsPost
           RefInFrame
           MCTypeOK
CHECK_DEADLOCK FALSE
