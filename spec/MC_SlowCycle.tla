---------------------------- MODULE MC_SlowCycle ----------------------------
(* Exhaustive model of SlowCycle on small constants.

   Three configurations: two FMMU terminals sharing one LRD (expected count 2) plus one LWR with
   two output bits in the same byte, and one directly addressed terminal (FPRD + FPWR, one
   byte each), and an FMMU input terminal followed by a terminal with FMMU inputs and
   directly addressed outputs.  The master picks any frame of the configuration's layout that Send admits
   (deadlock freedom = the demands of Send can always be met, e.g. two bits of one byte), the
   environment returns any data and any counter from WkcVals (below and above 256) or does not
   answer at all (Lose), the devices set any subset of their outputs; at any moment the group
   may be started again (Restart).

   With Honest = TRUE the environment is an honest segment instead: the counter that comes
   back is the counter sent plus the number p of terminals that processed the datagram.  Then
   HonestDetect says that what the group counts from the second cycle on is exactly the
   datagrams not processed by the expected number of terminals - which is why the counters
   have to be cleared before resending.                                                      *)
EXTENDS SlowCycle
CONSTANTS MaxCycles, ByteVals, InVals, WkcVals, Honest
VARIABLE absent          \* ghost: datagrams with p # expected since the second cycle

Fm(l, n, p, d) == [logical |-> l, length |-> n, phys |-> p, dir |-> d]
Var(t, sm, pos, n, bit) == [term |-> t, sm |-> sm, pos |-> pos, n |-> n, bit |-> bit]
Sh(cmd, adp, ado, laddr, len) == [cmd |-> cmd, adp |-> adp, ado |-> ado, laddr |-> laddr, len |-> len]

CfgFmmu == [terms |-> << [station |-> 5, fmmu_in |-> TRUE, fmmu_out |-> TRUE, in_off |-> 16, out_off |-> 32,
                          fm |-> <<Fm(100, 1, 16, 1), Fm(200, 1, 32, 2)>>],
                         [station |-> 6, fmmu_in |-> TRUE, fmmu_out |-> TRUE, in_off |-> 16, out_off |-> 32,
                          fm |-> <<Fm(101, 1, 16, 1)>>] >>,
            vars |-> << Var(1, "in", 0, 1, -1), Var(2, "in", 0, 1, 1),
                        Var(1, "out", 0, 1, 0), Var(1, "out", 0, 1, 1) >>,
            ndev |-> 1,
            shape |-> << Sh(LRD, 100, 0, 100, 2), Sh(LWR, 200, 0, 200, 1) >>]
CfgDirect == [terms |-> << [station |-> 7, fmmu_in |-> FALSE, fmmu_out |-> FALSE, in_off |-> 16, out_off |-> 32,
                            fm |-> <<>>] >>,
              vars |-> << Var(1, "in", 0, 1, -1), Var(1, "out", 0, 1, -1) >>,
              ndev |-> 1,
              shape |-> << Sh(FPRD, 7, 16, 0, 1), Sh(FPWR, 7, 32, 0, 1) >>]
(* inputs through an FMMU, outputs by station address (the package's Aerotech terminals),
   behind a plain FMMU input terminal: the logical read is processed by both *)
CfgSplit == [terms |-> << [station |-> 4, fmmu_in |-> TRUE, fmmu_out |-> TRUE, in_off |-> 16,
                           out_off |-> 32, fm |-> <<Fm(100, 1, 16, 1)>>],
                          [station |-> 8, fmmu_in |-> TRUE, fmmu_out |-> FALSE, in_off |-> 16,
                           out_off |-> 32, fm |-> <<Fm(101, 3, 16, 1)>>] >>,
             vars |-> << Var(1, "in", 0, 1, -1), Var(2, "in", 0, 1, 0), Var(2, "out", 0, 1, -1) >>,
             ndev |-> 1,
             shape |-> << Sh(LRD, 100, 0, 100, 2), Sh(FPWR, 8, 32, 0, 1) >>]
MCConfigs == {CfgFmmu, CfgDirect, CfgSplit}

Dg(s, d, w) == [cmd |-> s.cmd, adp |-> s.adp, ado |-> s.ado, laddr |-> s.laddr, len |-> s.len,
                data |-> d, wkc |-> w]
IsRead(s) == s.cmd \in {FPRD, LRD}
(* frames of the layout of c: counters from wk, data of read datagrams from rd, of write
   datagrams from wr (what the master puts into a read datagram, and what comes back in a
   write datagram, plays no part in the property: one value each is enough)               *)
DgChoices(s, wk, rd, wr) ==
    { Dg(s, d, w) : d \in [1 .. s.len -> IF IsRead(s) THEN rd ELSE wr], w \in wk }
Frames(c, wk, rd, wr) == { <<a, b>> : a \in DgChoices(c.shape[1], wk, rd, wr),
                                      b \in DgChoices(c.shape[2], wk, rd, wr) }

OutVars(c) == {v \in DOMAIN c.vars : c.vars[v].sm = "out"}
InVars(c) == {v \in DOMAIN c.vars : c.vars[v].sm = "in"}
ValsOf(v) == IF v.bit >= 0 THEN {0, 1} ELSE ByteVals
(* every setting of a subset of the outputs, in index order *)
RECURSIVE SetSeqs(_, _)
SetSeqs(c, vs) ==
    IF vs = {} THEN {<<>>}
    ELSE LET v == CHOOSE x \in vs : \A y \in vs : x <= y
             rest == SetSeqs(c, vs \ {v})
         IN rest \cup { <<[v |-> v, val |-> x]>> \o r : x \in ValsOf(c.vars[v]), r \in rest }
RECURSIVE ReadSeq(_, _, _)
ReadSeq(c, R, vs) ==
    IF vs = {} THEN <<>>
    ELSE LET v == CHOOSE x \in vs : \A y \in vs : x <= y
             loc == CHOOSE l \in Locs(c, R, c.vars[v]) : TRUE
         IN <<[v |-> v, val |-> ValAt(R, c.vars[v], loc)]>> \o ReadSeq(c, R, vs \ {v})

MCInit == /\ \E c \in MCConfigs : Init(c)
          /\ absent = 0

MCSend == /\ \E F \in Frames(cfg, IF k = 0 THEN {0, 2} ELSE WkcVals, {0}, ByteVals) : Send(F)
          /\ UNCHANGED absent

MCReceive ==
    IF Honest
    THEN \E R \in Frames(cfg, {0}, InVals, {0}), p1, p2 \in 0 .. 2 :
            LET p == <<p1, p2>>
                RR == [i \in 1 .. 2 |-> [R[i] EXCEPT !.wkc = (frame[i].wkc + p[i]) % 65536]]
            IN /\ Receive(RR)
               /\ absent' = absent + (IF k = 0 THEN 0 ELSE
                     Cardinality({i \in 1 .. 2 : p[i] # Expected(cfg, frame[i])}))
    ELSE /\ \E R \in Frames(cfg, WkcVals, InVals, {0}) : Receive(R)
         /\ UNCHANGED absent

MCUpdate == /\ \E S \in SetSeqs(cfg, OutVars(cfg)), e0 \in 0 .. 1 :
                 Update([ran |-> <<1>>, reads |-> ReadSeq(cfg, resp, InVars(cfg)), sets |-> S,
                         errs |-> IF k = 0 THEN e0 ELSE errs + WrongCount(cfg, resp)])
            /\ UNCHANGED absent

MCLose == /\ \E e \in (IF k = 0 THEN 0 .. 1 ELSE {errs}) : Lose(e)
          /\ UNCHANGED absent

MCRestart == /\ \E c \in MCConfigs : Restart(c)
             /\ absent' = 0

MCNext == MCSend \/ MCReceive \/ MCLose \/ MCUpdate \/ MCRestart
MCSpec == MCInit /\ [][MCNext]_<<svars, absent>>

Bound == k <= MaxCycles
TypeOK == /\ phase \in {"send", "recv", "update"} /\ k \in Nat /\ errs \in Nat
          /\ cfg \in MCConfigs
HonestDetect == Honest => ((phase = "send" /\ k >= 1) => errs = base + absent)
=============================================================================
