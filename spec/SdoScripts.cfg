SPECIFICATION SSpec
CONSTANTS MaxLen = 2
          Kinds = {"plain", "d1", "d2", "eoe", "emcy", "both", "short", "norm", "abort"}
INVARIANT Emit
CHECK_DEADLOCK FALSE
