---------------------------- MODULE MC_SharedVars ----------------------------
(* exhaustive: three variables of two devices, formats B and H, every placement in an ArrayLen-byte
   array shared by both clients, every sequence of writes of bytes 0/1 by either client.
   Refines must hold; BytesAreCells alone must be refuted (by an overlapping placement).       *)
EXTENDS SharedVars
CONSTANT ArrayLen
Devs == <<1, 1, 2>>
Layouts == {lay \in [1 .. 3 -> [dev : {1, 2}, fmt : {"B", "H"}, pos : 0 .. (ArrayLen - 1)]] :
               /\ \A v \in 1 .. 3 : lay[v].dev = Devs[v]
               /\ \A v \in 1 .. 3 : lay[v].pos + SizeOf(lay[v].fmt) <= ArrayLen}
Bytes == {0, 1}
ValuesOf(f) == [1 .. SizeOf(f) -> Bytes]
MInit == /\ \E lay \in Layouts : SInit([c \in Clients |-> lay])
         /\ mem = [i \in 1 .. ArrayLen |-> 0]
MNext == \E c \in Clients, v \in Vars : \E x \in ValuesOf(layout[c][v].fmt) : MWrite(c, v, x)
MSpec == MInit /\ [][MNext]_svars
=============================================================================
