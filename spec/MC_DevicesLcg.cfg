SPECIFICATION Spec
CONSTANTS
  M = 1
  Seeds = {0, 77}
  Values = {0, 1, 2, 127, 128, 254, 255, 256, 300}
INVARIANTS FullPeriod
           Frequency
CHECK_DEADLOCK FALSE
