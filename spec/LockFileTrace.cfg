SPECIFICATION TSpec
CONSTANTS Procs = {"p1", "p2"}
          N = 2
          None = None
          Bytes <- BytesSame
CONSTRAINT Progress
POSTCONDITION Post
CHECK_DEADLOCK FALSE
