SPECIFICATION TSpec
CONSTANTS Users = {"u1", "u2"}
          N = 2
          None = None
          ProcOf <- ProcTwo
          Bytes <- BytesSame
CONSTRAINT Progress
POSTCONDITION Post
CHECK_DEADLOCK FALSE
