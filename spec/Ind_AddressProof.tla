--------------------------- MODULE Ind_AddressProof ---------------------------
(* X05 - TLAPS proof, over the ORIGINAL modules Address / MC_Address, that the address assignment
   design is safe (DesignSafe: every write it gets to is a permitted assignment; UniqueAssigned;
   WrittenInRange; UsedCovers) for ANY number N of terminals, ANY range (Lo, Hi), ANY pool Addrs of
   integers, either reading of the upper end (HiIncl) and ANY number of concurrent tasks.       *)
EXTENDS MC_Address, FiniteSetTheorems, TLAPS

ASSUME AAssump == /\ N \in Nat /\ Lo \in Int /\ Hi \in Int /\ Addrs \subseteq Int
                  /\ HiIncl \in BOOLEAN

PCs == {"read", "pick", "probe", "write", "done"}
TaskRec == [kind : Kinds, pos : 1 .. N, pc : PCs, cand : Int]
Busy(k) == task[k].pc \in {"probe", "write"}

TypeInv == /\ conf \in [1 .. N -> Int]
           /\ rng = [lo |-> Lo, hi |-> Hi]
           /\ answered \subseteq Int /\ written \subseteq Int /\ used \subseteq Int
           /\ task \in [Ids -> TaskRec]

(* a task that has picked an address owns it: nobody else has picked it, it was never written,
   nobody answered there; once its own probe found nobody, nobody holds it either               *)
Owned == \A k \in Ids : Busy(k) =>
            /\ task[k].cand \in used
            /\ InRange(task[k].cand)
            /\ task[k].cand \notin written
            /\ task[k].cand \notin answered
            /\ \A j \in Ids : (j # k /\ Busy(j)) => task[j].cand # task[k].cand
            /\ task[k].pc = "write" => \A u \in 1 .. N : conf[u] # task[k].cand

IndInv == TypeInv /\ UniqueAssigned /\ UsedCovers /\ WrittenInRange /\ Owned

-----------------------------------------------------------------------------
THEOREM AInitInd == MCInit => IndInv
<1> SUFFICES ASSUME MCInit PROVE IndInv
  OBVIOUS
<1> USE AAssump
<1>1. PICK scan \in BOOLEAN, inits \in SUBSET (1 .. N) :
          task = [id \in Ids |->
                    [kind |-> id[1], pos |-> id[2], cand |-> 0,
                     pc |-> IF id[1] = "scan" THEN (IF scan THEN "read" ELSE "done")
                            ELSE (IF id[2] \in inits THEN "pick" ELSE "done")]]
  BY DEF MCInit
<1>2. task \in [Ids -> TaskRec] /\ \A k \in Ids : ~Busy(k)
  BY <1>1 DEF Ids, Kinds, TaskRec, PCs, Busy
<1>3. conf \in [1 .. N -> Int] /\ UniqueAssigned
  BY DEF MCInit, UniqueAssigned, Terms
<1> QED BY <1>2, <1>3 DEF MCInit, IndInv, TypeInv, UsedCovers, WrittenInRange, Owned

THEOREM AStepInd == IndInv /\ [DNext]_avars => IndInv'
<1> SUFFICES ASSUME IndInv, [DNext]_avars PROVE IndInv'
  OBVIOUS
<1> USE AAssump
<1>0. CASE UNCHANGED avars
  BY <1>0 DEF avars, bvars, IndInv, TypeInv, UniqueAssigned, UsedCovers, WrittenInRange, Owned, Busy, InRange, Terms
<1>a. DOMAIN task = Ids /\ Terms = 1 .. N
  BY DEF IndInv, TypeInv, Terms
<1>1. ASSUME NEW k \in Ids, DRead(k) PROVE IndInv'
  <2>1. task' = [task EXCEPT ![k].pc = IF conf[task[k].pos] # 0 THEN "done" ELSE "pick"]
        /\ task[k].pc = "read" /\ UNCHANGED <<conf, rng, answered, written, used>>
    BY <1>1 DEF DRead, Go, bvars
  <2>2. task' \in [Ids -> TaskRec] /\ ~Busy(k)' /\ \A j \in Ids : j # k => task'[j] = task[j]
    BY <2>1 DEF IndInv, TypeInv, TaskRec, PCs, Busy
  <2>3. \A j \in Ids : task'[j].cand = task[j].cand
    BY <2>1 DEF IndInv, TypeInv, TaskRec
  <2> QED BY <2>1, <2>2, <2>3 DEF IndInv, TypeInv, UniqueAssigned, UsedCovers, WrittenInRange, Owned, Busy, InRange, Terms
<1>2. ASSUME NEW k \in Ids, DPick(k) PROVE IndInv'
  <2>1. PICK a \in Addrs : /\ InRange(a) /\ a \notin used
                           /\ used' = used \cup {a}
                           /\ task' = [task EXCEPT ![k].pc = "probe", ![k].cand = a]
    BY <1>2 DEF DPick
  <2>2. task[k].pc = "pick" /\ UNCHANGED <<conf, rng, answered, written>>
    BY <1>2 DEF DPick, bvars
  <2>3. /\ task' \in [Ids -> TaskRec] /\ task'[k].pc = "probe" /\ task'[k].cand = a
        /\ \A j \in Ids : j # k => task'[j] = task[j]
    BY <2>1 DEF IndInv, TypeInv, TaskRec, PCs
  <2>4. TypeInv' /\ UniqueAssigned' /\ UsedCovers' /\ WrittenInRange'
    BY <2>1, <2>2, <2>3 DEF IndInv, TypeInv, UniqueAssigned, UsedCovers, WrittenInRange, InRange, Terms
  <2>5. Owned'
    BY <2>1, <2>2, <2>3 DEF IndInv, TypeInv, UsedCovers, Owned, Busy, InRange
  <2> QED BY <2>4, <2>5 DEF IndInv
<1>3. ASSUME NEW k \in Ids, DProbe(k) PROVE IndInv'
  <2> DEFINE a == task[k].cand
  <2> DEFINE w == Cardinality(Holders(a))
  <2>1. /\ task[k].pc = "probe" /\ UNCHANGED <<conf, rng, written, used>>
        /\ answered' = IF w > 0 THEN answered \cup {a} ELSE answered
        /\ task' = [task EXCEPT ![k].pc = IF Holders(a) # {} THEN "pick" ELSE "write"]
    BY <1>3 DEF DProbe, Probe, Go
  <2>2. Holders(a) = {} => answered' = answered
    BY <2>1, FS_EmptySet
  <2>3. Holders(a) = {} <=> \A u \in 1 .. N : conf[u] # a
    BY <1>a DEF Holders
  <2>4. /\ task' \in [Ids -> TaskRec]
        /\ task'[k].pc = (IF Holders(a) # {} THEN "pick" ELSE "write")
        /\ \A j \in Ids : task'[j].cand = task[j].cand
        /\ \A j \in Ids : j # k => task'[j] = task[j]
    BY <2>1 DEF IndInv, TypeInv, TaskRec, PCs
  <2>5. a \in used /\ a \in Int /\ answered' \subseteq answered \cup {a}
    BY <2>1 DEF IndInv, TypeInv, Owned, Busy, TaskRec
  <2> HIDE DEF a, w
  <2>6. TypeInv' /\ UniqueAssigned' /\ UsedCovers' /\ WrittenInRange'
    BY <2>1, <2>4, <2>5 DEF IndInv, TypeInv, UniqueAssigned, UsedCovers, WrittenInRange, InRange, Terms
  <2>7. Owned'
    BY <2>1, <2>2, <2>3, <2>4, <2>5 DEF IndInv, TypeInv, Owned, Busy, InRange, a
  <2> QED BY <2>6, <2>7 DEF IndInv
<1>4. ASSUME NEW k \in Ids, DWrite(k) PROVE IndInv'
  <2> DEFINE a == task[k].cand
  <2> DEFINE t == task[k].pos
  <2>1. /\ task[k].pc = "write" /\ UNCHANGED <<rng, answered, used>>
        /\ conf' = [conf EXCEPT ![t] = a] /\ written' = written \cup {a}
        /\ task' = [task EXCEPT ![k].pc = "done"]
    BY <1>4 DEF DWrite, Write, Go
  <2>2. /\ task' \in [Ids -> TaskRec] /\ ~Busy(k)'
        /\ \A j \in Ids : task'[j].cand = task[j].cand
        /\ \A j \in Ids : j # k => task'[j] = task[j]
    BY <2>1 DEF IndInv, TypeInv, TaskRec, PCs, Busy
  <2>3. /\ a \in used /\ a \in Int /\ t \in 1 .. N /\ InRange(a)
        /\ \A u \in 1 .. N : conf[u] # a
        /\ \A j \in Ids : (j # k /\ Busy(j)) => task[j].cand # a
    BY <2>1 DEF IndInv, TypeInv, Owned, Busy, TaskRec
  <2> HIDE DEF a, t
  <2>4. TypeInv' /\ UsedCovers' /\ WrittenInRange'
    BY <2>1, <2>2, <2>3 DEF IndInv, TypeInv, UsedCovers, WrittenInRange, InRange, Terms
  <2>5. UniqueAssigned'
    BY <2>1, <2>3 DEF IndInv, TypeInv, UniqueAssigned, Terms
  <2>6. Owned'
    BY <2>1, <2>2, <2>3 DEF IndInv, TypeInv, Owned, Busy, InRange
  <2> QED BY <2>4, <2>5, <2>6 DEF IndInv
<1> QED BY <1>0, <1>a, <1>1, <1>2, <1>3, <1>4 DEF DNext

THEOREM IndImplies == IndInv => DesignSafe /\ UniqueAssigned /\ WrittenInRange /\ UsedCovers
  BY DEF IndInv, TypeInv, Owned, Busy, DesignSafe, WriteOK, Terms

THEOREM ASafe == MCSpec => [](DesignSafe /\ UniqueAssigned /\ WrittenInRange /\ UsedCovers)
  BY AInitInd, AStepInd, IndImplies, PTL DEF MCSpec
=============================================================================
