--------------------------- MODULE SharedVarsTrace ---------------------------
(* Trace validation for C29: the merged history of reads and writes of device variables made
   alternately by the controlling process and by the spawned sync-group process (in the order the
   two sides were synchronised) must be a behaviour of SharedVars, with the layout each side
   works with bound from the trace.

   Events: [t |-> "w", c, v, x, res]   client c wrote x to variable v; res = "ok" or the exception
           [t |-> "r", c, v, x, res]   client c read variable v and got x
   An operation that raised matches no action.  Why: register Len(Traces)+tid names the demand
   the rejected event does not meet.                                                           *)
EXTENDS SharedVars, Json, IOUtils, TLCExt
Traces == JsonDeserialize(IOEnv.TRACE_FILE)
VARIABLES tid, l
tvars == <<svars, tid, l>>
Ev == Traces[tid].ev[l]
WhyReg(i) == Len(Traces) + i

Lay(tr) == [c \in Clients |-> [v \in 1 .. Len(tr.layout[c]) |-> tr.layout[c][v]]]

TInit == /\ tid \in 1 .. Len(Traces) /\ l = 1
         /\ SInit(Lay(Traces[tid])) /\ mem = <<>>

Refuse(why) == TLCSet(WhyReg(tid), why) /\ FALSE

TNext == /\ l <= Len(Traces[tid].ev)
         /\ l' = l + 1 /\ UNCHANGED <<tid, mem>>
         /\ LET e == Ev IN
              IF e.res # "ok" THEN Refuse(<<"operation raised", e.t, e.c, e.v, e.res>>)
              ELSE IF e.t = "w" THEN Write(e.c, e.v, e.x)
              ELSE IF e.v \in written /\ e.x # val[e.v]
                   THEN Refuse(<<"read differs from last write", e.c, e.v, layout[e.c][e.v].fmt,
                                 val[e.v], e.x>>)
                   ELSE Read(e.c, e.v, e.x)
TSpec == TInit /\ [][TNext]_tvars

Max2(a, b) == IF a > b THEN a ELSE b
Progress == TLCSet(tid, Max2(TLCGet(tid), l))
ASSUME \A i \in 1 .. Len(Traces) : TLCSet(i, 0) /\ TLCSet(WhyReg(i), <<>>)

(* the storage demand is a property of the initial state of each trace: report it per trace *)
Shared(lay) == {<<v, w>> \in (DOMAIN lay) \X (DOMAIN lay) :
                   v < w /\ lay[v].dev # lay[w].dev /\ Span(lay[v]) \cap Span(lay[w]) # {}}
Post == \A i \in 1 .. Len(Traces) :
           PrintT(<<"RESULT", i, TLCGet(i) - 1, Len(Traces[i].ev), TLCGet(WhyReg(i)),
                    [c \in Clients |-> Shared(Lay(Traces[i])[c])]>>)
=============================================================================
