INIT Init
NEXT Next
INVARIANT ObserveCond
CHECK_DEADLOCK FALSE
