---------------------------- MODULE MC_Valve ----------------------------
(* exhaustive model of Valve: every history of target changes, switch readings, clock advances,
   reconfigurations and updates, for all configurations, up to a clock bound *)
EXTENDS Valve
CONSTANTS MovingTimes, MaxDt, MaxClock
MCInit == \E m \in MovingTimes, s, c0, t0, o0, c1 \in BOOLEAN : VInit(m, s, c0, t0, o0, c1)
MCNext == \/ VNext(MaxDt)
          \/ \E m \in MovingTimes : SetMovingTime(m)
          \/ \E s \in BOOLEAN : SetSafeState(s)
MCSpec == MCInit /\ [][MCNext]_vvars
Bound == clock <= MaxClock
=============================================================================
