------------------------------- MODULE Sii -------------------------------
(* C17, part (a) - the SII (EEPROM) register protocol of an EtherCAT slave controller.

   Registers seen by the master, read as one block from 0x502:
       0x502  control/status (16 bit): 0x8000 busy, 0x0040 the interface delivers 8 bytes
              per read command (otherwise 4); a write of 0x0100 is the read command
       0x504  EEPROM word address (32 bit)
       0x508  data (8 bytes; only the first 4 are loaded if the interface is a 4-byte one)
   The terminal (environment) accepts a read command when it is not busy (AcceptRead), stays
   busy for as many status polls as it likes (BusyTick, at most MaxBusy in the bounded model)
   and then loads the data register from the EEPROM and drops busy (Ready).  While busy, and in
   the half of the data register a 4-byte interface does not load, the data is undefined
   (Garbage).  A command written while busy is not executed (RejectCmd, flagged in err).

   Requirement (C17): a read of n = 4 or 8 bytes at word address a returns the bytes
   [2a, 2a+n) of the image, whatever the busy durations and the read width.  The reference
   client below is the protocol every master has to follow to get there; it is model-checked
   against the terminal (MC_Sii) and real register traces are validated against the terminal
   actions (SiiTrace).  The image decoding itself is in SiiImage.                            *)
EXTENDS SiiImage, TLC

CONSTANTS MaxBusy

VARIABLES image,    \* the EEPROM contents (fixed during a behaviour)
          esc,      \* the terminal's SII interface
          cl        \* the client (master side)

svars == <<image, esc, cl>>

Garbage == -1
G(n) == [k \in 1 .. n |-> Garbage]
CmdRead == 256
BitBusy == 32768
BitCap8 == 64

Width(e) == IF e.cap8 THEN 8 ELSE 4
EscInit == esc \in [busy : BOOLEAN, cap8 : BOOLEAN, addr : {0}, data : {G(8)},
                    ticks : {0}, err : {FALSE}]

(* ---- terminal (environment) actions ---- *)
AcceptRead(a) == /\ ~esc.busy
                 /\ esc' = [esc EXCEPT !.busy = TRUE, !.addr = a, !.data = G(8), !.ticks = 0]
RejectCmd == esc.busy /\ esc' = [esc EXCEPT !.err = TRUE]
BusyTick == /\ esc.busy /\ esc.ticks < MaxBusy
            /\ esc' = [esc EXCEPT !.ticks = @ + 1]
Loaded(e) == [e EXCEPT !.busy = FALSE,
                       !.data = ImageBytes(image, 2 * e.addr, Width(e)) \o G(8 - Width(e))]
Ready == esc.busy /\ esc' = Loaded(esc) /\ UNCHANGED <<image, cl>>

StatusWord(e) == (IF e.busy THEN BitBusy ELSE 0) + (IF e.cap8 THEN BitCap8 ELSE 0)

(* ---- reference client: read n bytes (4 or 8) at word address a ---- *)
Idle == [pc |-> "idle", a |-> 0, n |-> 0, cur |-> 0, lo |-> <<>>, res |-> <<>>]
Start(a, n) == /\ cl.pc = "idle"
               /\ cl' = [Idle EXCEPT !.pc = "wait", !.a = a, !.n = n, !.cur = a]
               /\ UNCHANGED <<image, esc>>
(* never write a command to a busy interface: poll the status first *)
WaitPoll == /\ cl.pc = "wait"
            /\ IF esc.busy THEN BusyTick /\ UNCHANGED cl
               ELSE cl' = [cl EXCEPT !.pc = "cmd"] /\ UNCHANGED esc
            /\ UNCHANGED image
Cmd == /\ cl.pc = "cmd"
       /\ (AcceptRead(cl.cur) \/ RejectCmd)
       /\ cl' = [cl EXCEPT !.pc = "poll"]
       /\ UNCHANGED image
(* read status and data in one access; the data counts only if the status is not busy *)
Poll == /\ cl.pc = "poll"
        /\ UNCHANGED image
        /\ IF esc.busy THEN BusyTick /\ UNCHANGED cl
           ELSE /\ UNCHANGED esc
                /\ IF cl.n = 4 THEN
                       cl' = [cl EXCEPT !.pc = "done", !.res = SubSeq(esc.data, 1, 4)]
                   ELSE IF esc.cap8 THEN
                       cl' = [cl EXCEPT !.pc = "done", !.res = esc.data]
                   ELSE IF cl.lo = <<>> THEN     \* second half: another command, 2 words on
                       cl' = [cl EXCEPT !.pc = "cmd", !.lo = SubSeq(esc.data, 1, 4),
                                        !.cur = cl.a + 2]
                   ELSE cl' = [cl EXCEPT !.pc = "done", !.res = cl.lo \o SubSeq(esc.data, 1, 4)]
Finish == cl.pc = "done" /\ cl' = Idle /\ UNCHANGED <<image, esc>>

ClientStep(Addrs) == (\E a \in Addrs, n \in {4, 8} : Start(a, n)) \/ WaitPoll \/ Cmd \/ Poll \/ Finish
SInit(img) == image = img /\ EscInit /\ cl = Idle
SNext(Addrs) == ClientStep(Addrs) \/ Ready

(* ---- requirements ---- *)
ReadCorrect == cl.pc = "done" => cl.res = ImageBytes(image, 2 * cl.a, cl.n)
NeverRejected == ~esc.err
STypeOK == /\ esc.busy \in BOOLEAN /\ esc.cap8 \in BOOLEAN /\ esc.ticks \in 0 .. MaxBusy
           /\ Len(esc.data) = 8
           /\ cl.pc \in {"idle", "wait", "cmd", "poll", "done"}
=============================================================================
