-------------------------- MODULE Ind_DispatcherBind --------------------------
(* X05 - TLC: binds the abstract model Ind_Dispatcher to the real bytecode.

   (1) RowsBad = {}: AStep(cb, ix, registered) equals every row (cb2, ix2, ran, act) of the table
       that DispatcherTable.tla computed by running the emitted dispatcher + group programs
       (TABLE_FILE, the same file C22 uses), and the fresh frame's index byte is FreshIx.
   (2) Every state Dispatcher.tla reaches with Fifo = TRUE and the group registered maps into
       Ind_Dispatcher!IndInv (cb, since as they are; q = the index bytes in ring order).      *)
EXTENDS Dispatcher

QSeq == [i \in 1 .. BagCardinality(fl) |-> (CHOOSE f \in Frames : f.pos = i).ix]
A == INSTANCE Ind_Dispatcher WITH q <- QSeq

RowOf(ci, d, vi) == Tab.rows[((ci - 1) * ND + d) * NV + vi]
IxAt(c, d) == IF d = ND - 1 THEN 0 ELSE (c + 256 - d) % 256
Agree(c, d, vi) ==
    LET r == RowOf(CbIndex(c), d, vi)
        a == A!AStep(c, IxAt(c, d), vi >= 3)
    IN r.cb2 = a.cb2 /\ r.ix2 = a.ix2 /\ r.ran = a.ran /\ r.act = a.act
RowsBad == {t \in {Tab.cbs[i] : i \in 1 .. Len(Tab.cbs)} \X (0 .. ND - 1) \X (1 .. NV) : ~Agree(t[1], t[2], t[3])}
ASSUME PrintT(<<"ROWS", Len(Tab.rows), Tab.freshIx = A!FreshIx, Cardinality(RowsBad), RowsBad>>)

MapsIntoInd == reg => A!IndInv
=============================================================================
