--------------------------- MODULE LifecycleTrace ---------------------------
(* Trace validation for C24: a recorded run of a real sync-group task with cancellations injected
   (harness/lifecycle.py) must be a behaviour of the ledger of Lifecycle (part 1): every event is
   one ledger action, and the final `end` event is accepted only if the judgement holds.  The
   design's variables (part 2) do not move.

   When the `end` event is refused, the violated demands are left in TLC register
   Len(Traces) + tid and printed with the result.                                              *)
EXTENDS Lifecycle, Json, IOUtils, TLCExt
Traces == JsonDeserialize(IOEnv.TRACE_FILE)
VARIABLES tid, l
tvars == <<vars, tid, l>>
Ev == Traces[tid].ev[l]
WhyReg(i) == Len(Traces) + i

TInit == /\ tid \in 1 .. Len(Traces) /\ l = 1
         /\ RInit(Traces[tid].kind)
         /\ pc = "trace" /\ need = [t \in Terms |-> 0] /\ writers = {} /\ stop = FALSE

TEnd(e) == IF (~Obliged) \/ Violations(e.groups) = {} \/ outcome \in {"none", "running"} \/ ended
           THEN End(e.groups)
           ELSE TLCSet(WhyReg(tid), Violations(e.groups)) /\ FALSE

TNext == /\ l <= Len(Traces[tid].ev)
         /\ l' = l + 1 /\ UNCHANGED <<tid, dvars>>
         /\ LET e == Ev IN
              \/ e.t = "start" /\ Start
              \/ e.t = "spawn" /\ Spawn
              \/ e.t = "childexit" /\ ChildExit
              \/ e.t = "reg" /\ Register
              \/ e.t = "unreg" /\ Unregister
              \/ e.t = "al" /\ AskAL(e.term, e.v)
              \/ e.t = "fmmu" /\ SetFm(e.term, e.n)
              \/ e.t = "frame" /\ Frame
              \/ e.t = "silent" /\ Silent(e.term)
              \/ e.t = "cancel" /\ Cancel
              \/ e.t = "done" /\ Done(e.outcome)
              \/ /\ e.t = "end"
                 /\ e.prog = prog                      \* the table as observed = the bpf calls seen
                 /\ e.child = child
                 /\ TEnd(e)
TSpec == TInit /\ [][TNext]_tvars

Max2(a, b) == IF a > b THEN a ELSE b
Progress == TLCSet(tid, Max2(TLCGet(tid), l))
ASSUME \A i \in 1 .. Len(Traces) : TLCSet(i, 0) /\ TLCSet(WhyReg(i), {})
Post == \A i \in 1 .. Len(Traces) :
           PrintT(<<"RESULT", i, TLCGet(i) - 1, Len(Traces[i].ev), TLCGet(WhyReg(i))>>)
=============================================================================
