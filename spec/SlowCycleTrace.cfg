SPECIFICATION TSpec
CONSTRAINT Progress
INVARIANTS ErrAccounting
           ClearedOnWire
           OutputsOnWire
POSTCONDITION Post
CHECK_DEADLOCK FALSE
