SPECIFICATION FSpec
CONSTANTS MaxCalls = 3
          Cancels = {"no", "flight"}
          Bigs = {FALSE, TRUE}
INVARIANT Emit
CHECK_DEADLOCK FALSE
