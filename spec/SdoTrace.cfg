SPECIFICATION TSpec
CONSTANTS MinSeg = 0
CONSTRAINT Progress
POSTCONDITION Post
CHECK_DEADLOCK FALSE
