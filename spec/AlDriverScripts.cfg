SPECIFICATION SSpec
CONSTANTS K = 2
          HiBits = {0, 32}
INVARIANT Emit
CHECK_DEADLOCK FALSE
