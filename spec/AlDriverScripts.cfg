SPECIFICATION SSpec
CONSTANTS K = 2
INVARIANT Emit
CHECK_DEADLOCK FALSE
