SPECIFICATION FSpec
CONSTANTS MaxN = 4
          Logicals = {1, 2, 3, 4, 5}
INVARIANTS NoSharing
           RegsAgree
           TypeOK
CHECK_DEADLOCK FALSE
