SPECIFICATION SSpec
CONSTANTS Procs = {"p1", "p2"}
          REth = {12289}
          Addrs = {1, 2}
          MaxCrash = 0
          MaxFault = 1
          MaxPre = 1
          Mutex = TRUE
          LockedInit = TRUE
          Bare = FALSE
INVARIANT Emit
CHECK_DEADLOCK FALSE
