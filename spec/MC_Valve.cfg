SPECIFICATION MCSpec
CONSTANTS MovingTimes = {0, 1, 3}
          MaxDt = 2
          MaxClock = 8
CONSTRAINT Bound
INVARIANTS TypeOK
           CoilFollows
           NeverStuck
PROPERTY ErrorReaction
CHECK_DEADLOCK FALSE
