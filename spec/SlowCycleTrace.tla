--------------------------- MODULE SlowCycleTrace ---------------------------
(* Trace validation for C30: a recorded run of the real SyncGroup.start()/run() - the frames
   the group put on the wire, the responses it was given, and after every cycle what the
   recording devices saw and set in update() together with wkc_errors - must be a behaviour of
   SlowCycle.  The configuration of each trace (terminals with the FMMUs the group programmed
   into them, variables, number of devices) comes from the trace file.

   Any event that is not send / recv / lost / update / restart (the run loop crashed, or stalled) matches no
   action and is where the trace is rejected.

   Why(i) names, for the event at which trace i was rejected, the demands of SlowCycle that it
   does not meet.  It is evaluated on the recorded events alone, with the same operators the
   actions use (the state needed - the previous response, the previous update - is itself
   bound from the trace).                                                                    *)
EXTENDS SlowCycle, Json, IOUtils, TLCExt
Traces == JsonDeserialize(IOEnv.TRACE_FILE)
VARIABLES tid, l
tvars == <<svars, tid, l>>
Ev == Traces[tid].ev[l]

Obs(e) == [ran |-> e.ran, reads |-> e.reads, sets |-> e.sets, errs |-> e.errs]

TInit == /\ tid \in 1 .. Len(Traces) /\ l = 1 /\ Init(Traces[tid].cfg)
TNext == /\ l <= Len(Traces[tid].ev)
         /\ l' = l + 1 /\ UNCHANGED tid
         /\ LET e == Ev IN
              \/ e.t = "send" /\ Send(e.dg)
              \/ e.t = "recv" /\ Receive(e.dg)
              \/ e.t = "restart" /\ Restart(e.cfg)
              \/ e.t = "lost" /\ Lose(e.errs)
              \/ e.t = "update" /\ Update(Obs(e))
TSpec == TInit /\ [][TNext]_tvars

Max2(a, b) == IF a > b THEN a ELSE b
Progress == TLCSet(tid, Max2(TLCGet(tid), l))
ASSUME \A i \in 1 .. Len(Traces) : TLCSet(i, 0)

-----------------------------------------------------------------------------
LastOf(tr, lo, m, typ) == LET S == {i \in lo .. m : tr.ev[i].t = typ}
                          IN IF S = {} THEN 0 ELSE CHOOSE i \in S : \A j \in S : j <= i
Why(i) ==
    LET tr == Traces[i]
        m  == TLCGet(i) - 1                       \* events accepted
    IN IF m >= Len(tr.ev) THEN {}
       ELSE LET e  == tr.ev[m + 1]
                r0 == LastOf(tr, 1, m, "restart")                 \* the current run starts after r0
                c  == IF r0 = 0 THEN tr.cfg ELSE tr.ev[r0].cfg
                kk == Cardinality({j \in r0 + 1 .. m : tr.ev[j].t = "update"})
                pu == LastOf(tr, r0 + 1, m, "update")
                pr == LastOf(tr, r0 + 1, m, "recv")
                want == IF m = r0 THEN "send"
                        ELSE IF tr.ev[m].t = "send" THEN "recv"
                        ELSE IF tr.ev[m].t = "recv" THEN "update" ELSE "send"
            IN IF e.t = "lost" /\ want = "recv"
               THEN {"wkc_errors changed to " \o ToString(e.errs) \o " though nothing was returned"}
               ELSE IF e.t # want THEN {"expected " \o want \o ", got " \o e.t}
               ELSE IF e.t = "send" THEN
                   (IF kk >= 1 /\ ~Cleared(e.dg) THEN {"working counter not cleared"} ELSE {})
                   \cup (IF kk >= 1 /\ ~OutputsSent(c, e.dg, tr.ev[pu].sets)
                         THEN {"output set in update not in frame"} ELSE {})
               ELSE IF e.t = "recv" THEN {"response does not match frame"}
               ELSE
                   (IF ~RanOnce(c, e.ran) THEN {"not every device updated once"} ELSE {})
                   \cup (IF ~InputsSeen(c, tr.ev[pr].dg, e.reads)
                         THEN {"device saw a value that is not in the latest response"} ELSE {})
                   \cup (IF kk >= 1 /\ e.errs # tr.ev[pu].errs + WrongCount(c, tr.ev[pr].dg)
                         THEN {"wkc_errors off: wrong datagrams = "
                               \o ToString(WrongCount(c, tr.ev[pr].dg)) \o ", counted "
                               \o ToString(e.errs - tr.ev[pu].errs)} ELSE {})
Post == \A i \in 1 .. Len(Traces) :
           PrintT(<<"RESULT", i, TLCGet(i) - 1, Len(Traces[i].ev), ToString(Why(i))>>)
=============================================================================
