SPECIFICATION SSpec
CONSTANTS K = 1
          Gaps = {0, 1}
          MaxTx = 2
          MaxRx = 2
          FullInit = TRUE
INVARIANT Emit
CHECK_DEADLOCK FALSE
