------------------------------- MODULE Serial -------------------------------
(* C28 - one channel of an EL6002 serial terminal and the Serial device that serves it.

   The process image of a channel carries, master -> terminal: the toggle bits TR (transmit
   request), RA (receive accepted), the level IR (init request) and the string outStr;
   terminal -> master: TA (transmit accepted), RR (receive request), IA (init accepted) and
   inStr.  Two one-place channels:

     application -> terminal: the device takes a chunk (1..MaxChunk bytes) from the front of what
        the application has written, puts it into outStr and announces it by one toggle of TR; it
        keeps outStr and TR until it has seen TA toggle.  The terminal takes outStr when it
        accepts.
     terminal -> application: the terminal puts a chunk into inStr and announces it by one toggle
        of RR; it keeps inStr until it sees RA toggle.  The device hands inStr to the application
        and acknowledges by one toggle of RA.

   Where the property leaves freedom the actions are nondeterministic: how many bytes a chunk
   takes, in which update a chunk is presented or acknowledged, what outStr holds while nothing
   is outstanding.  The terminal actions are the assumptions about the environment:
   initialisation on IR (acknowledged by IA, the toggle bits may come up in any state), ready once
   IR is seen low, requests registered as changes of TR since initialisation, accept and announce
   whenever it likes (delays).                                                                  *)
EXTENDS Integers, Sequences, TLC

CONSTANT MaxChunk          \* bytes per chunk (22 for the EL6002)

VARIABLES
    \* process image
    TR, RA, IR, outStr, TA, RR, IA, inStr,
    \* the device
    connected,  \* the initialisation handshake has been seen
    seenTA,     \* TA as of the last update
    seenRR,     \* RR as of the last update
    txWait,     \* a chunk is presented and its acceptance has not been seen
    rxPend,     \* an announcement has been seen and is not yet acknowledged
    \* the application
    outPipe,    \* bytes written by the application and not yet taken by the device
    written,    \* all bytes the application ever wrote
    delivered,  \* all bytes handed to the application
    \* the terminal
    tReady,     \* initialised and ready for data exchange
    tSeenTR,    \* TR as of the last request the terminal registered (or of initialisation)
    tAwait,     \* an announced chunk awaits its acknowledgement
    tRA,        \* RA when that chunk was announced
    lastAnn,    \* that chunk
    accepted,   \* all bytes the terminal accepted, in order
    announced,  \* all bytes the terminal announced, in order
    nPres, nAcc, nAnn, nAck    \* numbers of TR toggles, accepts, RR toggles, RA toggles

image == <<TR, RA, IR, outStr, TA, RR, IA, inStr>>
device == <<connected, seenTA, seenRR, txWait, rxPend>>
app == <<outPipe, written, delivered>>
term == <<tReady, tSeenTR, tAwait, tRA, lastAnn, accepted, announced>>
counts == <<nPres, nAcc, nAnn, nAck>>
svars == <<image, device, app, term, counts>>

SInit == /\ TR = FALSE /\ RA = FALSE /\ IR = FALSE /\ outStr = <<>>
         /\ TA = FALSE /\ RR = FALSE /\ IA = FALSE /\ inStr = <<>>
         /\ connected = FALSE /\ seenTA = FALSE /\ seenRR = FALSE /\ txWait = FALSE /\ rxPend = FALSE
         /\ outPipe = <<>> /\ written = <<>> /\ delivered = <<>>
         /\ tReady = FALSE /\ tSeenTR = FALSE /\ tAwait = FALSE /\ tRA = FALSE /\ lastAnn = <<>>
         /\ accepted = <<>> /\ announced = <<>>
         /\ nPres = 0 /\ nAcc = 0 /\ nAnn = 0 /\ nAck = 0

Min2(a, b) == IF a < b THEN a ELSE b
Rest(s, k) == SubSeq(s, k + 1, Len(s))

----------------------------------------------------------------------------
(* the application *)
AppWrite(c) == /\ Len(c) > 0
               /\ outPipe' = outPipe \o c /\ written' = written \o c
               /\ UNCHANGED <<image, device, delivered, term, counts>>

----------------------------------------------------------------------------
(* the terminal (environment assumptions) *)
TInitAck(ta, rr) ==
    /\ IR /\ ~IA
    /\ IA' = TRUE /\ TA' = ta /\ RR' = rr
    /\ tReady' = FALSE /\ tSeenTR' = TR /\ tAwait' = FALSE
    /\ UNCHANGED <<TR, RA, IR, outStr, inStr, device, app, tRA, lastAnn, accepted, announced, counts>>

TReady == /\ IA /\ ~IR
          /\ IA' = FALSE /\ tReady' = TRUE
          /\ UNCHANGED <<TR, RA, IR, outStr, TA, RR, inStr, device, app,
                         tSeenTR, tAwait, tRA, lastAnn, accepted, announced, counts>>

TxInFlight == TR # tSeenTR           \* a request the terminal has not accepted yet

TAccept == /\ tReady /\ ~IR /\ TxInFlight
           /\ TA' = ~TA /\ tSeenTR' = TR
           /\ accepted' = accepted \o outStr /\ nAcc' = nAcc + 1
           /\ UNCHANGED <<TR, RA, IR, outStr, RR, IA, inStr, device, app,
                          tReady, tAwait, tRA, lastAnn, announced, nPres, nAnn, nAck>>

RxFree == ~tAwait \/ RA # tRA         \* nothing announced that is not acknowledged

TAnnounce(c) ==
    /\ tReady /\ ~IR /\ RxFree /\ Len(c) <= MaxChunk
    /\ inStr' = c /\ RR' = ~RR
    /\ tAwait' = TRUE /\ tRA' = RA /\ lastAnn' = c
    /\ announced' = announced \o c /\ nAnn' = nAnn + 1
    /\ UNCHANGED <<TR, RA, IR, outStr, TA, IA, device, app, tReady, tSeenTR, accepted,
                   nPres, nAcc, nAck>>

(* once a chunk is acknowledged its buffer is the terminal's again *)
TScribble(c) ==
    /\ tReady /\ RxFree /\ Len(c) <= MaxChunk
    /\ inStr' = c
    /\ UNCHANGED <<TR, RA, IR, outStr, TA, RR, IA, device, app, term, counts>>

----------------------------------------------------------------------------
(* the device: one update *)

(* not connected, and staying so: nothing is transmitted or acknowledged *)
UpdateIdle(ir, os) ==
    /\ ~connected
    /\ IR' = ir /\ outStr' = os
    /\ UNCHANGED <<TR, RA, TA, RR, IA, inStr, device, app, term, counts>>

(* the update that sees the initialisation acknowledged: the request is withdrawn and the
   toggle bits are taken as they are *)
UpdateConnect(os) ==
    /\ ~connected /\ IA
    /\ connected' = TRUE /\ IR' = FALSE /\ outStr' = os
    /\ seenTA' = TA /\ seenRR' = RR
    /\ UNCHANGED <<TR, RA, TA, RR, IA, inStr, txWait, rxPend, app, term, counts>>

(* connected.  ack: this update acknowledges an announcement; n: number of bytes presented
   (0: nothing presented); os: outStr afterwards where it is not prescribed *)
UpdateData(ack, n, os) ==
    /\ connected
    /\ IR' = FALSE
    /\ LET pend == rxPend \/ RR # seenRR IN
         /\ ack => pend
         /\ RA' = IF ack THEN ~RA ELSE RA
         /\ delivered' = IF ack THEN delivered \o inStr ELSE delivered
         /\ nAck' = IF ack THEN nAck + 1 ELSE nAck
         /\ rxPend' = (pend /\ ~ack)
         /\ seenRR' = RR
    /\ LET wait == txWait /\ TA = seenTA IN
         /\ n \in 0 .. Min2(MaxChunk, Len(outPipe))
         /\ n > 0 => ~wait
         /\ TR' = IF n > 0 THEN ~TR ELSE TR
         /\ outStr' = IF n > 0 THEN SubSeq(outPipe, 1, n) ELSE IF wait THEN outStr ELSE os
         /\ outPipe' = Rest(outPipe, n)
         /\ nPres' = IF n > 0 THEN nPres + 1 ELSE nPres
         /\ txWait' = (n > 0 \/ wait)
         /\ seenTA' = TA
    /\ UNCHANGED <<TA, RR, IA, inStr, connected, written, term, nAcc, nAnn>>

----------------------------------------------------------------------------
(* what the property promises, as consequences (checked exhaustively in MC_Serial) *)
RxInFlight == IF connected THEN rxPend \/ RR # seenRR ELSE FALSE
B(x) == IF x THEN 1 ELSE 0

(* every byte written is, in order, accepted, or in the chunk on offer, or still waiting *)
TxExactlyOnce == accepted \o (IF TxInFlight THEN outStr ELSE <<>>) \o outPipe = written
TxOneToggle == nPres = nAcc + B(TxInFlight)
(* every byte announced is, in order, delivered, or in the chunk on offer *)
RxExactlyOnce == delivered \o (IF RxInFlight THEN lastAnn ELSE <<>>) = announced
RxOneToggle == nAnn = nAck + B(RxInFlight)
(* a chunk on offer is kept, and not announced again, until it is accepted *)
TxKept == [][(TxInFlight /\ TxInFlight' /\ nAcc' = nAcc) => (outStr' = outStr /\ TR' = TR)]_svars
(* the terminal sees what was handed over when it accepts: inStr is the announced chunk whenever
   the device may still read it *)
RxStable == RxInFlight => inStr = lastAnn

(* everything has arrived *)
Quiescent == /\ connected /\ outPipe = <<>> /\ ~TxInFlight /\ ~RxInFlight
             /\ accepted = written /\ delivered = announced
=============================================================================
