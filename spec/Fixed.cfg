INIT Init
NEXT Next
INVARIANT ObserveFixed
CHECK_DEADLOCK FALSE
