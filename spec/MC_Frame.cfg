SPECIFICATION MSpec
CONSTANTS MaxSize = 64
          Lens = {0, 1, 2, 7, 30}
          Index = 2000
          Ethertype = 34980
INVARIANTS FrameInv
           SterileInv
           SizeInv
           RejectInv
CHECK_DEADLOCK FALSE
