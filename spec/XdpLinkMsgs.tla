---------------------------- MODULE XdpLinkMsgs ----------------------------
(* X04: the single-call sessions that exercise the bytes of the RTM_SETLINK request:
   operation x target x pair of interface indices (of networks "a", "b") x lowest descriptor
   number prog_load hands out.  Printed once each for replay on the real classes.            *)
EXTENDS Integers, Sequences, TLC, Json
CONSTANTS Targets, IfxPairs, FdBases
VARIABLES m
MInit == m = <<>>
MNext == /\ m = <<>>
         /\ \E op \in {"attach", "detach", "enter"}, t \in Targets, p \in IfxPairs, f \in FdBases :
               m' = <<[op |-> op, net |-> t[1], flags |-> t[2], a |-> p[1], b |-> p[2], fdbase |-> f]>>
MSpec == MInit /\ [][MNext]_m
EmitMsg == Len(m) = 1 => PrintT(<<"MSG", ToJson(m[1])>>)
=============================================================================
