INIT FInit
NEXT FNext
INVARIANT Observe
CHECK_DEADLOCK FALSE
