---------------------------- MODULE Ind_SerialProof ----------------------------
(* X05 - TLAPS proof, over the ORIGINAL modules Serial / MC_Serial, that the handshake of C28
   neither loses, duplicates nor reorders data (TxExactlyOnce, TxOneToggle, RxExactlyOnce,
   RxOneToggle, RxStable; step property TxKept) for payloads of ANY length, ANY number of writes
   and announcements and ANY chunk size (MC_Serial: 4 bytes, 2 announcements, chunks of 2).     *)
EXTENDS MC_Serial, SequenceTheorems, TLAPS

ASSUME SAssump == MaxChunk \in Nat /\ MaxBytes \in Nat /\ MaxWrite \in Nat /\ MaxAnn \in Nat

S == Seq(Int)
TypeInv ==
    /\ TR \in BOOLEAN /\ RA \in BOOLEAN /\ IR \in BOOLEAN /\ TA \in BOOLEAN /\ RR \in BOOLEAN /\ IA \in BOOLEAN
    /\ connected \in BOOLEAN /\ seenTA \in BOOLEAN /\ seenRR \in BOOLEAN /\ txWait \in BOOLEAN /\ rxPend \in BOOLEAN
    /\ tReady \in BOOLEAN /\ tSeenTR \in BOOLEAN /\ tAwait \in BOOLEAN /\ tRA \in BOOLEAN
    /\ outStr \in S /\ inStr \in S /\ outPipe \in S /\ written \in S /\ delivered \in S
    /\ lastAnn \in S /\ accepted \in S /\ announced \in S
    /\ nPres \in Nat /\ nAcc \in Nat /\ nAnn \in Nat /\ nAck \in Nat

(* what the device knows about its own request, and what the terminal knows about its announcement *)
Knows ==
    /\ TxInFlight => (txWait /\ TA = seenTA)
    /\ ~connected => (~TxInFlight /\ ~rxPend)
    /\ IR => ~connected
    /\ (IA \/ tReady) => (IR \/ connected)
    /\ (connected /\ (rxPend \/ RR # seenRR)) => (tAwait /\ RA = tRA)

IndInv == TypeInv /\ Knows /\ TxExactlyOnce /\ TxOneToggle /\ RxExactlyOnce /\ RxOneToggle /\ RxStable
KeptStep == (TxInFlight /\ TxInFlight' /\ nAcc' = nAcc) => (outStr' = outStr /\ TR' = TR)

-----------------------------------------------------------------------------
LEMMA RunSeq == \A from \in Int, k \in Nat : Run(from, k) \in S /\ Len(Run(from, k)) = k
  BY DEF Run, S

LEMMA Split == \A s \in S, n \in Nat : n <= Len(s) =>
                  /\ SubSeq(s, 1, n) \in S /\ Rest(s, n) \in S
                  /\ SubSeq(s, 1, n) \o Rest(s, n) = s
                  /\ (n = 0 => Rest(s, n) = s)
<1> SUFFICES ASSUME NEW s \in S, NEW n \in Nat, n <= Len(s)
             PROVE /\ SubSeq(s, 1, n) \in S /\ Rest(s, n) \in S
                   /\ SubSeq(s, 1, n) \o Rest(s, n) = s
                   /\ (n = 0 => Rest(s, n) = s)
  OBVIOUS
<1>1. SubSeq(s, 1, Len(s)) = s
  BY DEF S
<1>2. SubSeq(s, 1, n) \o SubSeq(s, n + 1, Len(s)) = SubSeq(s, 1, Len(s))
  BY ConcatAdjacentSubSeq DEF S
<1>3. SubSeq(s, 1, n) \in S /\ SubSeq(s, n + 1, Len(s)) \in S
  BY SubSeqProperties DEF S
<1>4. n = 0 => SubSeq(s, 1, n) = << >>
  BY SubSeqEmpty
<1> QED BY <1>1, <1>2, <1>3, <1>4, ConcatEmptySeq DEF Rest, S

LEMMA Assoc == \A a, b, c \in S : (a \o b) \o c = a \o (b \o c) /\ a \o b \in S
  BY ConcatAssociative, ConcatProperties DEF S
LEMMA Empty == << >> \in S /\ \A a \in S : a \o << >> = a /\ << >> \o a = a
  BY ConcatEmptySeq DEF S

-----------------------------------------------------------------------------
THEOREM SInitInd == SInit => IndInv
  BY Empty DEF SInit, IndInv, TypeInv, Knows, TxExactlyOnce, TxOneToggle, RxExactlyOnce, RxOneToggle, RxStable,
               TxInFlight, RxInFlight, B, S

THEOREM SStepInd == IndInv /\ [MCNext]_svars => IndInv' /\ KeptStep
<1> SUFFICES ASSUME IndInv, [MCNext]_svars PROVE IndInv' /\ KeptStep
  OBVIOUS
<1> USE SAssump
<1> USE DEF image, device, app, term, counts
<1>t. TypeInv /\ Knows /\ TxExactlyOnce /\ TxOneToggle /\ RxExactlyOnce /\ RxOneToggle /\ RxStable
  BY DEF IndInv
<1>0. CASE UNCHANGED svars
  BY <1>0, <1>t DEF svars, TypeInv, Knows, TxExactlyOnce, TxOneToggle, RxExactlyOnce, RxOneToggle, RxStable,
                   TxInFlight, RxInFlight, B, IndInv, KeptStep
<1>1. ASSUME NEW k \in 1 .. MaxWrite, AppWrite(Run(Len(written), k)) PROVE IndInv' /\ KeptStep
  <2> DEFINE c == Run(Len(written), k)
  <2>1. c \in S
    BY <1>t, RunSeq DEF TypeInv, S
  <2>2. outPipe' = outPipe \o c /\ written' = written \o c
        /\ UNCHANGED <<image, device, delivered, term, counts>>
    BY <1>1 DEF AppWrite
  <2> HIDE DEF c
  <2>3. outPipe' \in S /\ written' \in S
    BY <1>t, <2>1, <2>2, Assoc DEF TypeInv
  <2>4. TxExactlyOnce'
    <3> DEFINE X == IF TxInFlight THEN outStr ELSE << >>
    <3>1. X \in S /\ accepted \in S /\ outPipe \in S /\ accepted \o X \in S
      BY <1>t, Empty, Assoc DEF TypeInv
    <3>2. (accepted \o X) \o (outPipe \o c) = ((accepted \o X) \o outPipe) \o c
      BY <3>1, <2>1, Assoc
    <3> QED BY <1>t, <2>2, <3>2 DEF TxExactlyOnce, TxInFlight
  <2> QED BY <1>t, <2>2, <2>3, <2>4 DEF TypeInv, Knows, TxOneToggle, RxExactlyOnce, RxOneToggle, RxStable,
                   TxInFlight, RxInFlight, B, IndInv, KeptStep
<1>2. ASSUME NEW ta \in BOOLEAN, NEW rr \in BOOLEAN, TInitAck(ta, rr) PROVE IndInv' /\ KeptStep
  BY <1>2, <1>t DEF TInitAck, TypeInv, Knows, TxExactlyOnce, TxOneToggle, RxExactlyOnce, RxOneToggle, RxStable,
                   TxInFlight, RxInFlight, B, IndInv, KeptStep
<1>3. ASSUME TReady PROVE IndInv' /\ KeptStep
  BY <1>3, <1>t DEF TReady, TypeInv, Knows, TxExactlyOnce, TxOneToggle, RxExactlyOnce, RxOneToggle, RxStable,
                   TxInFlight, RxInFlight, B, IndInv, KeptStep
<1>4. ASSUME TAccept PROVE IndInv' /\ KeptStep
  <2>1. /\ tReady /\ ~IR /\ TxInFlight /\ TA' = ~TA /\ tSeenTR' = TR
        /\ accepted' = accepted \o outStr /\ nAcc' = nAcc + 1
        /\ UNCHANGED <<TR, RA, IR, outStr, RR, IA, inStr, device, app,
                          tReady, tAwait, tRA, lastAnn, announced, nPres, nAnn, nAck>>
    BY <1>4 DEF TAccept
  <2>2. accepted' \in S
    BY <1>t, <2>1, Assoc DEF TypeInv
  <2>3. TxExactlyOnce'
    <3>1. (accepted \o outStr) \o << >> = accepted \o outStr
      BY <1>t, Assoc, Empty DEF TypeInv
    <3> QED BY <1>t, <2>1, <3>1 DEF TxExactlyOnce, TxInFlight
  <2> QED BY <1>t, <2>1, <2>2, <2>3 DEF TypeInv, Knows, TxOneToggle, RxExactlyOnce, RxOneToggle, RxStable,
                   TxInFlight, RxInFlight, B, IndInv, KeptStep
<1>5. ASSUME NEW k \in 0 .. MaxChunk, nAnn < MaxAnn, TAnnounce(Run(100 + Len(announced), k)) PROVE IndInv' /\ KeptStep
  <2> DEFINE c == Run(100 + Len(announced), k)
  <2>1. c \in S
    BY <1>t, RunSeq DEF TypeInv, S
  <2>2. /\ tReady /\ ~IR /\ RxFree
        /\ inStr' = c /\ RR' = ~RR
        /\ tAwait' = TRUE /\ tRA' = RA /\ lastAnn' = c
        /\ announced' = announced \o c /\ nAnn' = nAnn + 1
        /\ UNCHANGED <<TR, RA, IR, outStr, TA, IA, device, app, tReady, tSeenTR, accepted,
                   nPres, nAcc, nAck>>
    BY <1>5 DEF TAnnounce
  <2> HIDE DEF c
  <2>3. connected /\ ~RxInFlight /\ RxInFlight'
    BY <1>t, <2>2 DEF Knows, RxFree, RxInFlight, TypeInv
  <2>4. announced' \in S
    BY <1>t, <2>1, <2>2, Assoc DEF TypeInv
  <2>5. RxExactlyOnce'
    <3>1. delivered \o << >> = delivered
      BY <1>t, Empty DEF TypeInv
    <3> QED BY <1>t, <2>2, <2>3, <3>1 DEF RxExactlyOnce
  <2>6. RxOneToggle' /\ RxStable'
    BY <1>t, <2>2, <2>3 DEF RxOneToggle, RxStable, B, TypeInv
  <2>7. TypeInv' /\ Knows' /\ TxExactlyOnce' /\ TxOneToggle' /\ KeptStep
    BY <1>t, <2>1, <2>2, <2>4 DEF TypeInv, Knows, TxExactlyOnce, TxOneToggle, TxInFlight, KeptStep
  <2> QED BY <2>5, <2>6, <2>7 DEF IndInv
<1>6. ASSUME inStr # <<99>>, TScribble(<<99>>) PROVE IndInv' /\ KeptStep
  <2>1. <<99>> \in S
    BY DEF S
  <2>2. ~RxInFlight
    BY <1>6, <1>t DEF TScribble, Knows, RxFree, RxInFlight, TypeInv
  <2> QED BY <1>6, <1>t, <2>1, <2>2 DEF TScribble, TypeInv, Knows, TxExactlyOnce, TxOneToggle, RxExactlyOnce, RxOneToggle,
                   RxStable, TxInFlight, RxInFlight, B, IndInv, KeptStep
<1>7. ASSUME UpdateIdle(TRUE, outStr) PROVE IndInv' /\ KeptStep
  BY <1>7, <1>t DEF UpdateIdle, TypeInv, Knows, TxExactlyOnce, TxOneToggle, RxExactlyOnce, RxOneToggle, RxStable,
                   TxInFlight, RxInFlight, B, IndInv, KeptStep
<1>8. ASSUME NEW os \in {outStr, << >>}, UpdateConnect(os) PROVE IndInv' /\ KeptStep
  <2>1. os \in S
    BY <1>t, Empty DEF TypeInv
  <2> QED BY <1>8, <1>t, <2>1 DEF UpdateConnect, TypeInv, Knows, TxExactlyOnce, TxOneToggle, RxExactlyOnce, RxOneToggle,
                   RxStable, TxInFlight, RxInFlight, B, IndInv, KeptStep
<1>9. ASSUME NEW os \in {outStr, << >>}, NEW ack \in BOOLEAN, NEW n \in 0 .. MaxChunk, UpdateData(ack, n, os)
      PROVE IndInv' /\ KeptStep
  <2> DEFINE pend == rxPend \/ RR # seenRR
  <2> DEFINE wait == txWait /\ TA = seenTA
  <2>1. /\ connected /\ IR' = FALSE
        /\ ack => pend
        /\ RA' = (IF ack THEN ~RA ELSE RA)
        /\ delivered' = (IF ack THEN delivered \o inStr ELSE delivered)
        /\ nAck' = (IF ack THEN nAck + 1 ELSE nAck)
        /\ rxPend' = (pend /\ ~ack)
        /\ seenRR' = RR
        /\ n \in 0 .. Min2(MaxChunk, Len(outPipe))
        /\ n > 0 => ~wait
        /\ TR' = (IF n > 0 THEN ~TR ELSE TR)
        /\ outStr' = (IF n > 0 THEN SubSeq(outPipe, 1, n) ELSE IF wait THEN outStr ELSE os)
        /\ outPipe' = Rest(outPipe, n)
        /\ nPres' = (IF n > 0 THEN nPres + 1 ELSE nPres)
        /\ txWait' = (n > 0 \/ wait)
        /\ seenTA' = TA
        /\ UNCHANGED <<TA, RR, IA, inStr, connected, written, term, nAcc, nAnn>>
    BY <1>9 DEF UpdateData
  <2>2. n \in Nat /\ n <= Len(outPipe) /\ os \in S
    BY <1>t, <2>1, Empty DEF Min2, TypeInv, S
  <2>3. /\ SubSeq(outPipe, 1, n) \in S /\ Rest(outPipe, n) \in S
        /\ SubSeq(outPipe, 1, n) \o Rest(outPipe, n) = outPipe
        /\ (n = 0 => Rest(outPipe, n) = outPipe)
    BY <1>t, <2>2, Split DEF TypeInv
  <2> HIDE DEF pend, wait
  <2>4. delivered' \in S /\ outStr' \in S /\ outPipe' \in S
    BY <1>t, <2>1, <2>2, <2>3, Assoc DEF TypeInv
  <2>5. TxInFlight => (wait /\ n = 0)
    BY <1>t, <2>1, <2>2 DEF Knows, wait
  <2>6. TxExactlyOnce'
    <3>1. CASE n > 0
      <4>1. ~TxInFlight /\ TxInFlight' /\ outStr' = SubSeq(outPipe, 1, n)
        BY <3>1, <2>1, <2>5, <1>t DEF TxInFlight, TypeInv
      <4>2. accepted \o << >> = accepted /\ accepted \in S
        BY <1>t, Empty DEF TypeInv
      <4>3. (accepted \o SubSeq(outPipe, 1, n)) \o Rest(outPipe, n) = accepted \o outPipe
        BY <2>3, <4>2, Assoc
      <4> QED BY <1>t, <2>1, <4>1, <4>2, <4>3 DEF TxExactlyOnce
    <3>2. CASE n = 0
      <4>1. TxInFlight' = TxInFlight /\ outPipe' = outPipe /\ (TxInFlight => outStr' = outStr)
        BY <3>2, <2>1, <2>3, <2>5 DEF TxInFlight
      <4> QED BY <1>t, <2>1, <4>1 DEF TxExactlyOnce
    <3> QED BY <3>1, <3>2, <2>2
  <2>7. TxOneToggle' /\ KeptStep
    BY <1>t, <2>1, <2>2, <2>5 DEF TxOneToggle, TxInFlight, B, TypeInv, KeptStep
  <2>8. RxInFlight = pend /\ RxInFlight' = (pend /\ ~ack) /\ (pend => inStr = lastAnn)
    BY <1>t, <2>1 DEF RxInFlight, RxStable, pend
  <2>9. RxExactlyOnce'
    <3>1. delivered \o << >> = delivered /\ (delivered \o inStr) \o << >> = delivered \o inStr
      BY <1>t, Empty, Assoc DEF TypeInv
    <3> QED BY <1>t, <2>1, <2>8, <3>1 DEF RxExactlyOnce, TypeInv
  <2>10. RxOneToggle' /\ RxStable'
    BY <1>t, <2>1, <2>8 DEF RxOneToggle, RxStable, B, TypeInv
  <2>11. TypeInv'
    BY <1>t, <2>1, <2>4 DEF TypeInv
  <2>12. Knows'
    BY <1>t, <2>1, <2>5, <2>2 DEF Knows, TxInFlight, TypeInv, pend, wait
  <2> QED BY <2>6, <2>7, <2>9, <2>10, <2>11, <2>12 DEF IndInv
<1> QED BY <1>0, <1>1, <1>2, <1>3, <1>4, <1>5, <1>6, <1>7, <1>8, <1>9 DEF MCNext

THEOREM SSafe == MCSpec => [](TxExactlyOnce /\ TxOneToggle /\ RxExactlyOnce /\ RxOneToggle /\ RxStable) /\ TxKept
<1>1. IndInv => TxExactlyOnce /\ TxOneToggle /\ RxExactlyOnce /\ RxOneToggle /\ RxStable
  BY DEF IndInv
<1>2. KeptStep <=> ((TxInFlight /\ TxInFlight' /\ nAcc' = nAcc) => (outStr' = outStr /\ TR' = TR))
  BY DEF KeptStep
<1> QED BY SInitInd, SStepInd, <1>1, <1>2, PTL DEF MCSpec, TxKept
=============================================================================
