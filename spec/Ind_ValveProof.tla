---------------------------- MODULE Ind_ValveProof ----------------------------
(* X05 - TLAPS proof, over the ORIGINAL modules Valve / MC_Valve, of TypeOK, CoilFollows,
   NeverStuck and the step property ErrorReaction for ANY set of moving times (natural numbers),
   ANY step bound MaxDt, reconfiguration (SetMovingTime, SetSafeState) at any time and without the
   clock bound of MC_Valve.                               *)
EXTENDS MC_Valve, TLAPS

ASSUME VAssump == MovingTimes \subseteq Nat /\ MaxDt \in Nat

IndInv == mt \in Nat /\ clock \in Nat /\ safe \in BOOLEAN /\ TypeOK /\ CoilFollows /\ NeverStuck
Step == (error' /\ ~error) => (coil' = safe /\ target' = safe)

THEOREM VInitInd == MCInit => IndInv
  BY VAssump DEF MCInit, VInit, IndInv, TypeOK, CoilFollows, NeverStuck, InTime

THEOREM VStepInd == IndInv /\ [MCNext]_vvars => IndInv' /\ Step
<1> SUFFICES ASSUME IndInv, [MCNext]_vvars PROVE IndInv' /\ Step
  OBVIOUS
<1> USE VAssump
<1>0. CASE UNCHANGED vvars
  BY <1>0 DEF vvars, IndInv, TypeOK, CoilFollows, NeverStuck, InTime, Step
<1>1. ASSUME NEW v \in BOOLEAN, SetTarget(v) PROVE IndInv' /\ Step
  BY <1>1 DEF SetTarget, IndInv, TypeOK, CoilFollows, NeverStuck, InTime, Step
<1>2. ASSUME NEW o \in BOOLEAN, NEW c \in BOOLEAN, Switches(o, c) PROVE IndInv' /\ Step
  BY <1>2 DEF Switches, IndInv, TypeOK, CoilFollows, NeverStuck, InTime, Step
<1>3. ASSUME NEW dt \in 1 .. MaxDt, Advance(dt) PROVE IndInv' /\ Step
  BY <1>3 DEF Advance, IndInv, TypeOK, CoilFollows, NeverStuck, InTime, Step
<1>4. ASSUME NEW conf \in BOOLEAN, Update(conf) PROVE IndInv' /\ Step
  BY <1>4 DEF Update, Confirmations, Confirms, IndInv, TypeOK, CoilFollows, NeverStuck, InTime, Step
<1>5. ASSUME NEW m \in MovingTimes, SetMovingTime(m) PROVE IndInv' /\ Step
  BY <1>5 DEF SetMovingTime, IndInv, TypeOK, CoilFollows, NeverStuck, InTime, Step
<1>6. ASSUME NEW s \in BOOLEAN, SetSafeState(s) PROVE IndInv' /\ Step
  BY <1>6 DEF SetSafeState, IndInv, TypeOK, CoilFollows, NeverStuck, InTime, Step
<1> QED BY <1>0, <1>1, <1>2, <1>3, <1>4, <1>5, <1>6 DEF MCNext, VNext

THEOREM VSafe == MCSpec => [](TypeOK /\ CoilFollows /\ NeverStuck) /\ ErrorReaction
<1>1. IndInv => TypeOK /\ CoilFollows /\ NeverStuck
  BY DEF IndInv
<1>2. Step <=> ((error' /\ ~error) => (coil' = safe /\ target' = safe))
  BY DEF Step
<1> QED BY VInitInd, VStepInd, <1>1, <1>2, PTL DEF MCSpec, ErrorReaction
=============================================================================
