--------------------------- MODULE Ind_MailboxProof ---------------------------
(* X05 - TLAPS proof, over the ORIGINAL module Mailbox, for ANY set of users and wire histories of
   ANY length: at most one holder; operations are never interleaved on the wire; every request is
   answered before the next; request counters form the chain c, c%7+1, ...

   OneHolder is proved in quantifier form (OneHolderQ: two users in phase "holding" are the same
   user, and the holder is in phase "holding"); CounterChain (stated with SelectSeq in Mailbox) is
   proved in position form (ChainQ: two requests with no request between them carry c and
   Succ(c)).  MC_Mailbox-sized TLC runs of Ind_MailboxEq check that the two forms agree on every
   reachable state of the bounded model.                                                       *)
EXTENDS Mailbox, SequenceTheorems, TLAPS

ASSUME MbAssump == /\ None \notin Users
                   /\ InitCounters \subseteq 0 .. 7

Phases == {"idle", "waiting", "holding", "released"}
Msg == [u : Users, op : Nat, dir : {"req", "rsp"}, cnt : 0 .. 7]

OneHolderQ == /\ \A u, v \in Users : (phase[u] = "holding" /\ phase[v] = "holding") => u = v
              /\ (holder # None => phase[holder] = "holding")
ChainQ == \A i, j \in 1 .. Len(wire) :
             (i < j /\ wire[i].dir = "req" /\ wire[j].dir = "req"
                    /\ \A k \in (i + 1) .. (j - 1) : wire[k].dir # "req")
                => wire[j].cnt = Succ(wire[i].cnt)

TypeInv == /\ phase \in [Users -> Phases]
           /\ opno \in [Users -> Nat]
           /\ holder \in Users \cup {None}
           /\ pending \in BOOLEAN
           /\ counter \in 0 .. 7
           /\ wire \in Seq(Msg)

HoldInv == /\ \A u \in Users : phase[u] = "holding" <=> holder = u
           /\ pending => holder # None

(* the last message is a request only while its sender holds the lock and waits for the answer *)
LastReq == (Len(wire) > 0 /\ wire[Len(wire)].dir = "req") => (pending /\ holder = wire[Len(wire)].u)

(* the messages of an operation: none of a future operation, none yet of an operation that waits
   for the lock, and those of the holder's operation are the end of the wire                   *)
OpInv == /\ \A i \in 1 .. Len(wire) : wire[i].op <= opno[wire[i].u]
         /\ \A i \in 1 .. Len(wire) : phase[wire[i].u] = "waiting" => wire[i].op < opno[wire[i].u]
         /\ \A i \in 1 .. Len(wire) : (holder # None /\ wire[i].u = holder /\ wire[i].op = opno[holder])
               => \A j \in i .. Len(wire) : wire[j].u = holder /\ wire[j].op = opno[holder]

(* the counter continues the last request on the wire *)
CtrInv == \A i \in 1 .. Len(wire) :
             (wire[i].dir = "req" /\ \A k \in (i + 1) .. Len(wire) : wire[k].dir # "req")
                => counter = Succ(wire[i].cnt)

IndInv == TypeInv /\ HoldInv /\ LastReq /\ OpInv /\ CtrInv /\ NotInterleaved /\ Answered /\ ChainQ

-----------------------------------------------------------------------------
LEMMA SuccType == \A c \in 0 .. 7 : Succ(c) \in 1 .. 7
  BY DEF Succ

THEOREM MInitInd == MInit => IndInv
  BY MbAssump DEF MInit, IndInv, TypeInv, HoldInv, LastReq, OpInv, CtrInv, NotInterleaved, Answered, ChainQ, Phases

(* steps that leave the wire alone *)
LEMMA WireSame == ASSUME IndInv, wire' = wire, counter' = counter
                  PROVE  CtrInv' /\ NotInterleaved' /\ Answered' /\ ChainQ'
  BY DEF IndInv, CtrInv, NotInterleaved, Answered, ChainQ

THEOREM MStepInd == IndInv /\ [MNext]_mvars => IndInv'
<1> SUFFICES ASSUME IndInv, [MNext]_mvars PROVE IndInv'
  OBVIOUS
<1> USE MbAssump
<1>0. CASE UNCHANGED mvars
  BY <1>0 DEF mvars, IndInv, TypeInv, HoldInv, LastReq, OpInv, CtrInv, NotInterleaved, Answered, ChainQ
<1>1. ASSUME NEW u \in Users, Begin(u) PROVE IndInv'
  <2>1. TypeInv' /\ HoldInv' /\ LastReq'
    BY <1>1 DEF Begin, IndInv, TypeInv, HoldInv, LastReq, Phases
  <2>2. OpInv'
    BY <1>1 DEF Begin, IndInv, TypeInv, HoldInv, OpInv, Msg, Phases
  <2>3. CtrInv' /\ NotInterleaved' /\ Answered' /\ ChainQ'
    BY <1>1, WireSame DEF Begin
  <2> QED BY <2>1, <2>2, <2>3 DEF IndInv
<1>2. ASSUME NEW u \in Users, Acquire(u) PROVE IndInv'
  <2>1. TypeInv' /\ HoldInv' /\ LastReq'
    BY <1>2 DEF Acquire, IndInv, TypeInv, HoldInv, LastReq, Phases
  <2>2. OpInv'
    BY <1>2 DEF Acquire, IndInv, TypeInv, HoldInv, OpInv, Msg, Phases
  <2>3. CtrInv' /\ NotInterleaved' /\ Answered' /\ ChainQ'
    BY <1>2, WireSame DEF Acquire
  <2> QED BY <2>1, <2>2, <2>3 DEF IndInv
<1>3. ASSUME NEW u \in Users, Send(u, counter) PROVE IndInv'
  <2> DEFINE m == [u |-> u, op |-> opno[u], dir |-> "req", cnt |-> counter]
  <2> DEFINE L == Len(wire)
  <2>1. m \in Msg /\ wire \in Seq(Msg) /\ L \in Nat
    BY DEF IndInv, TypeInv, Msg
  <2>2. /\ wire' = Append(wire, m) /\ wire' \in Seq(Msg) /\ Len(wire') = L + 1
        /\ wire'[L + 1] = m /\ \A i \in 1 .. L : wire'[i] = wire[i]
    BY <1>3, <2>1, AppendProperties DEF Send
  <2>3. holder = u /\ phase[u] = "holding" /\ ~pending /\ counter' = Succ(counter) /\ pending' = TRUE
        /\ UNCHANGED <<phase, opno, holder>>
    BY <1>3 DEF Send
  <2>4. L > 0 => wire[L].dir # "req"
    BY <2>3 DEF IndInv, LastReq, TypeInv, Msg
  <2> HIDE DEF m, L
  <2>5. TypeInv' /\ HoldInv'
    BY <2>1, <2>2, <2>3, SuccType DEF IndInv, TypeInv, HoldInv
  <2>6. LastReq'
    BY <2>1, <2>2, <2>3 DEF LastReq, m, L
  <2>7. OpInv'
    BY <2>1, <2>2, <2>3 DEF IndInv, TypeInv, HoldInv, OpInv, Msg, m, L
  <2>8. CtrInv'
    BY <2>1, <2>2, <2>3 DEF IndInv, CtrInv, m, L
  <2>9. NotInterleaved'
    BY <2>1, <2>2, <2>3 DEF IndInv, TypeInv, HoldInv, OpInv, NotInterleaved, Msg, m, L
  <2>10. Answered'
    BY <2>1, <2>2, <2>3, <2>4 DEF IndInv, Answered, m, L
  <2>11. ChainQ'
    BY <2>1, <2>2, <2>3 DEF IndInv, TypeInv, CtrInv, ChainQ, Msg, m, L
  <2> QED BY <2>5, <2>6, <2>7, <2>8, <2>9, <2>10, <2>11 DEF IndInv
<1>4. ASSUME NEW u \in Users, NEW f \in BOOLEAN, Recv(u, f) PROVE IndInv'
  <2> DEFINE m == [u |-> u, op |-> opno[u], dir |-> "rsp", cnt |-> 0]
  <2> DEFINE L == Len(wire)
  <2>1. m \in Msg /\ wire \in Seq(Msg) /\ L \in Nat
    BY DEF IndInv, TypeInv, Msg
  <2>2. /\ wire' = Append(wire, m) /\ wire' \in Seq(Msg) /\ Len(wire') = L + 1
        /\ wire'[L + 1] = m /\ \A i \in 1 .. L : wire'[i] = wire[i]
    BY <1>4, <2>1, AppendProperties DEF Recv
  <2>3. holder = u /\ phase[u] = "holding" /\ pending /\ pending' = ~f
        /\ UNCHANGED <<phase, opno, holder, counter>>
    BY <1>4 DEF Recv
  <2>4. (L > 0 /\ wire[L].dir = "req") => wire[L].u = u
    BY <2>3 DEF IndInv, LastReq
  <2> HIDE DEF m, L
  <2>5. TypeInv' /\ HoldInv'
    BY <2>1, <2>2, <2>3 DEF IndInv, TypeInv, HoldInv
  <2>6. LastReq'
    BY <2>1, <2>2, <2>3 DEF LastReq, m, L
  <2>7. OpInv'
    BY <2>1, <2>2, <2>3 DEF IndInv, TypeInv, HoldInv, OpInv, Msg, m, L
  <2>8. CtrInv'
    BY <2>1, <2>2, <2>3 DEF IndInv, CtrInv, m, L
  <2>9. NotInterleaved'
    BY <2>1, <2>2, <2>3 DEF IndInv, TypeInv, HoldInv, OpInv, NotInterleaved, Msg, m, L
  <2>10. Answered'
    BY <2>1, <2>2, <2>3, <2>4 DEF IndInv, Answered, m, L
  <2>11. ChainQ'
    BY <2>1, <2>2, <2>3 DEF IndInv, TypeInv, ChainQ, Msg, m, L
  <2> QED BY <2>5, <2>6, <2>7, <2>8, <2>9, <2>10, <2>11 DEF IndInv
<1>5. ASSUME NEW u \in Users, Release(u) PROVE IndInv'
  <2>1. TypeInv' /\ HoldInv' /\ LastReq'
    BY <1>5 DEF Release, IndInv, TypeInv, HoldInv, LastReq, Phases
  <2>2. OpInv'
    BY <1>5 DEF Release, IndInv, TypeInv, HoldInv, OpInv, Msg, Phases
  <2>3. CtrInv' /\ NotInterleaved' /\ Answered' /\ ChainQ'
    BY <1>5, WireSame DEF Release
  <2> QED BY <2>1, <2>2, <2>3 DEF IndInv
<1>6. ASSUME NEW u \in Users, End(u) PROVE IndInv'
  <2>1. TypeInv' /\ HoldInv' /\ LastReq'
    BY <1>6 DEF End, IndInv, TypeInv, HoldInv, LastReq, Phases
  <2>2. OpInv'
    BY <1>6 DEF End, IndInv, TypeInv, HoldInv, OpInv, Msg, Phases
  <2>3. CtrInv' /\ NotInterleaved' /\ Answered' /\ ChainQ'
    BY <1>6, WireSame DEF End
  <2> QED BY <2>1, <2>2, <2>3 DEF IndInv
<1> QED BY <1>0, <1>1, <1>2, <1>3, <1>4, <1>5, <1>6 DEF MNext

THEOREM IndImplies == IndInv => OneHolderQ /\ NotInterleaved /\ Answered /\ ChainQ
  BY MbAssump DEF IndInv, TypeInv, HoldInv, OneHolderQ

THEOREM MSafe == MSpec => [](OneHolderQ /\ NotInterleaved /\ Answered /\ ChainQ)
  BY MInitInd, MStepInd, IndImplies, PTL DEF MSpec
=============================================================================
