SPECIFICATION MCSpec
CONSTANTS MaxCalls = 3
          NMaps = 1
          Cfg <- CfgD
          Targets <- TargetsD
          FdPool = {5, 6}
          Forced = {16}
          Noise = {"newlink", "stale_err"}
          EnvFail = {24}
INVARIANTS OneMode AttachedKnown FdtOk QuietSockets DesignClean TypeOK
