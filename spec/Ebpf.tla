------------------------------- MODULE Ebpf -------------------------------
(* The eBPF instruction set as an executable specification.

   The bytecode emitted by the real generator (ebpfcat.ebpf.EBPF.assemble) is split by the harness
   into raw fields [op, dst, src, off, imm] (imm as 4 little-endian bytes, off signed) and handed
   to TLC; decoding and execution are defined here.  Words are 8-byte little-endian tuples (Wide).

   A register holds   [t |-> "s", v |-> word]            a scalar
                      [t |-> "p", r |-> region, o |-> n]  a pointer: region + byte offset
                      [t |-> "m", fd |-> n]               a map handle (LD_IMM64 with src = 1)
                      [t |-> "u"]                          nothing (never written / scrubbed by a call)
   Regions are records [k, fd, key]: the stack, the packet, the XDP context, the value of an
   array map, the value stored under a key of a hash map.  Memory is a function from regions to
   byte tuples; a stack byte that was never written is -1.

   Every rule the kernel enforces statically and that can be observed on a concrete run is a
   dynamic check here: a violated check ends the run with st = <<"fault", kind>> instead of
   blocking, so that invariants can name it.                                                  *)
EXTENDS Wide, TLC, FiniteSets

U == [t |-> "u"]
S(v) == [t |-> "s", v |-> v]
P(r, o) == [t |-> "p", r |-> r, o |-> o]
Rg(k, fd, key) == [k |-> k, fd |-> fd, key |-> key]
RStack == Rg("stack", 0, <<>>)
RPkt == Rg("pkt", 0, <<>>)
RCtx == Rg("ctx", 0, <<>>)
W0 == WZero(8)

(* ---- decoding --------------------------------------------------------------------------- *)
Cls(op) == op % 8                 \* 0 LD 1 LDX 2 ST 3 STX 4 ALU 5 JMP 6 JMP32 7 ALU64
SzCode(op) == (op \div 8) % 4     \* 0 W 1 H 2 B 3 DW
SzBytes(op) == CASE SzCode(op) = 0 -> 4 [] SzCode(op) = 1 -> 2 [] SzCode(op) = 2 -> 1 [] OTHER -> 8
Mode(op) == op \div 32            \* 0 IMM, 3 MEM, 6 ATOMIC
AluCode(op) == op \div 16
SrcIsReg(op) == (op \div 8) % 2 = 1
Imm64(i) == WSext(i.imm, 8)       \* 32-bit immediate sign-extended

(* ---- cpu record helpers ----------------------------------------------------------------- *)
Fault(c, kind) == [c EXCEPT !.st = <<"fault", kind>>]
Running(c) == c.st = <<"run">>
SetReg(c, r, v) == [c EXCEPT !.reg[r] = v, !.pc = c.pc + 1]

(* ---- memory ------------------------------------------------------------------------------ *)
(* byte index of offset o in region r: the stack is addressed by negative offsets from r10 *)
Idx(r, o) == IF r.k = "stack" THEN 512 + o + 1 ELSE o + 1
InRegion(m, r, o, n) == /\ r \in DOMAIN m
                        /\ Idx(r, o) >= 1 /\ Idx(r, o) + n - 1 <= Len(m[r])
LoadBytes(m, r, o, n) == Mat([i \in 1 .. n |-> m[r][Idx(r, o) + i - 1]], n)
(* a store is a short chain of single-element updates: rebuilding the 512-entry stack with a
   function constructor on every store cost about 9 ms in TLC's interpreter (measured)        *)
RECURSIVE PutR(_, _, _, _)
PutR(seq, idx, bytes, j) ==
    IF j > Len(bytes) THEN seq ELSE PutR([seq EXCEPT ![idx + j - 1] = bytes[j]], idx, bytes, j + 1)
StoreBytes(m, r, o, bytes) == [m EXCEPT ![r] = PutR(m[r], Idx(r, o), bytes, 1)]
AllInit(bytes) == \A i \in 1 .. Len(bytes) : bytes[i] >= 0

(* ---- ALU --------------------------------------------------------------------------------- *)
(* 64-bit operation on scalars a, b (8-byte words); shifts mask the amount as the kernel does *)
ShAmt(b, bits) == (b[1] % bits)
Alu64(code, a, b) ==
    CASE code = 0 -> WAdd(a, b)
      [] code = 1 -> WSub(a, b)
      [] code = 2 -> WMul(a, b)
      [] code = 3 -> IF WIsZero(b) THEN W0 ELSE WUDiv(a, b)
      [] code = 4 -> WOr(a, b)
      [] code = 5 -> WAnd(a, b)
      [] code = 6 -> WShl(a, ShAmt(b, 64))
      [] code = 7 -> WShr(a, ShAmt(b, 64))
      [] code = 8 -> WNeg(a)
      [] code = 9 -> IF WIsZero(b) THEN a ELSE WUMod(a, b)
      [] code = 10 -> WXor(a, b)
      [] code = 11 -> b
      [] code = 12 -> WSar(a, ShAmt(b, 64))
Lo(a) == WTrunc(a, 4)
Alu32(code, a, b) ==      \* on the low halves, result zero-extended
    WZext(CASE code = 0 -> WAdd(Lo(a), Lo(b))
            [] code = 1 -> WSub(Lo(a), Lo(b))
            [] code = 2 -> WMul(Lo(a), Lo(b))
            [] code = 3 -> IF WIsZero(Lo(b)) THEN WZero(4) ELSE WUDiv(Lo(a), Lo(b))
            [] code = 4 -> WOr(Lo(a), Lo(b))
            [] code = 5 -> WAnd(Lo(a), Lo(b))
            [] code = 6 -> WShl(Lo(a), ShAmt(b, 32))
            [] code = 7 -> WShr(Lo(a), ShAmt(b, 32))
            [] code = 8 -> WNeg(Lo(a))
            [] code = 9 -> IF WIsZero(Lo(b)) THEN Lo(a) ELSE WUMod(Lo(a), Lo(b))
            [] code = 10 -> WXor(Lo(a), Lo(b))
            [] code = 11 -> Lo(b)
            [] code = 12 -> WSar(Lo(a), ShAmt(b, 32)), 8)

(* jump conditions on words of equal length (8 for JMP, 4 for JMP32) *)
Cond(code, a, b) ==
    CASE code = 1 -> a = b
      [] code = 2 -> WULt(b, a)
      [] code = 3 -> WULe(b, a)
      [] code = 4 -> ~WIsZero(WAnd(a, b))
      [] code = 5 -> a # b
      [] code = 6 -> WSLt(b, a)
      [] code = 7 -> WSLe(b, a)
      [] code = 10 -> WULt(a, b)
      [] code = 11 -> WULe(a, b)
      [] code = 12 -> WSLt(a, b)
      [] code = 13 -> WSLe(a, b)
(* ---- one instruction --------------------------------------------------------------------- *)
(* E is the environment of a run: E.prog (sequence of instructions of the current program),
   E.maps (fd -> [type, ks, vs, max]), E.progs (fd -> index -> program number, 0 = none),
   E.programs (program number -> instruction sequence), E.orc (values returned by ktime /
   prandom, as 8-byte words).  c is the cpu record [pc, reg, st, cur, orc], m the memory.      *)
Ins(E, c) == E.programs[c.cur][c.pc + 1]
PcOk(E, c, pc) == /\ pc >= 0 /\ pc < Len(E.programs[c.cur])
                  /\ E.programs[c.cur][pc + 1].op # 0        \* op 0 = second slot of LD_IMM64
Ret(c, m) == [c |-> c, m |-> m]

ExecAlu(E, c, m, i) ==
    LET code == AluCode(i.op)  is64 == Cls(i.op) = 7
        d == c.reg[i.dst]
        s == IF SrcIsReg(i.op) THEN c.reg[i.src] ELSE S(Imm64(i)) IN
    IF code = 13 THEN                                   \* BPF_END: byte order conversion
        IF d.t # "s" THEN Ret(Fault(c, "end-on-nonscalar"), m)
        ELSE LET bits == WToS32(WZext(i.imm, 8)) IN
             IF bits \notin {16, 32, 64} THEN Ret(Fault(c, "end-bad-width"), m)
             ELSE IF SrcIsReg(i.op)                      \* to big endian: swap (host is little endian)
                  THEN Ret(SetReg(c, i.dst, S(WBswap(d.v, bits \div 8))), m)
                  ELSE Ret(SetReg(c, i.dst, S(WZextFrom(d.v, bits \div 8))), m)
    ELSE IF code > 12 THEN Ret(Fault(c, "bad-alu-code"), m)
    ELSE IF code = 11 THEN                              \* MOV
        IF s.t = "u" THEN Ret(Fault(c, "read-uninit-reg"), m)
        ELSE IF is64 THEN Ret(SetReg(c, i.dst, s), m)
        ELSE IF s.t # "s" THEN Ret(Fault(c, "mov32-pointer"), m)
        ELSE Ret(SetReg(c, i.dst, S(WZextFrom(s.v, 4))), m)
    ELSE IF d.t = "u" \/ (code # 8 /\ s.t = "u") THEN Ret(Fault(c, "read-uninit-reg"), m)
    ELSE IF d.t = "s" /\ (code = 8 \/ s.t = "s") THEN
        Ret(SetReg(c, i.dst, S(IF is64 THEN Alu64(code, d.v, s.v) ELSE Alu32(code, d.v, s.v))), m)
    ELSE IF ~is64 THEN Ret(Fault(c, "alu32-on-pointer"), m)
    ELSE IF d.t = "p" /\ s.t = "s" /\ code \in {0, 1} THEN      \* pointer +- scalar
        IF ~WFitsS32(s.v) THEN Ret(Fault(c, "pointer-offset-range"), m)
        ELSE Ret(SetReg(c, i.dst, P(d.r, IF code = 0 THEN d.o + WToS32(s.v) ELSE d.o - WToS32(s.v))), m)
    ELSE IF d.t = "s" /\ s.t = "p" /\ code = 0 THEN              \* scalar + pointer
        IF ~WFitsS32(d.v) THEN Ret(Fault(c, "pointer-offset-range"), m)
        ELSE Ret(SetReg(c, i.dst, P(s.r, s.o + WToS32(d.v))), m)
    ELSE Ret(Fault(c, "pointer-arithmetic"), m)

(* loads: LDX (class 1), LD_IMM64 (class 0, op 0x18) *)
CtxLoad(c, m, i, o, n) ==
    IF n = 4 /\ o = 0 THEN Ret(SetReg(c, i.dst, P(RPkt, 0)), m)
    ELSE IF n = 4 /\ o = 4 THEN Ret(SetReg(c, i.dst, P(RPkt, Len(m[RPkt]))), m)
    ELSE IF n = 4 /\ o \in {8, 12, 16, 20} THEN Ret(SetReg(c, i.dst, S(W0)), m)
    ELSE Ret(Fault(c, "bad-ctx-access"), m)
ExecLoad(E, c, m, i) ==
    IF Cls(i.op) = 0 THEN
        IF i.op # 24 THEN Ret(Fault(c, "bad-ld"), m)
        ELSE IF c.pc + 2 > Len(E.programs[c.cur]) THEN Ret(Fault(c, "ld64-truncated"), m)
        ELSE LET hi == E.programs[c.cur][c.pc + 2].imm IN
             IF i.src = 1
             THEN Ret([c EXCEPT !.reg[i.dst] = [t |-> "m", fd |-> WToS32(WZext(i.imm, 8))], !.pc = c.pc + 2], m)
             ELSE Ret([c EXCEPT !.reg[i.dst] = S(i.imm \o hi), !.pc = c.pc + 2], m)
    ELSE LET b == c.reg[i.src]  n == SzBytes(i.op) IN
         IF b.t = "u" THEN Ret(Fault(c, "read-uninit-reg"), m)
         ELSE IF b.t # "p" THEN Ret(Fault(c, "load-via-nonpointer"), m)
         ELSE IF b.r.k = "ctx" THEN CtxLoad(c, m, i, b.o + i.off, n)
         ELSE IF ~InRegion(m, b.r, b.o + i.off, n) THEN Ret(Fault(c, <<"load-out-of-bounds", b.r.k>>), m)
         ELSE LET bytes == LoadBytes(m, b.r, b.o + i.off, n) IN
              IF ~AllInit(bytes) THEN Ret(Fault(c, "read-uninit-stack"), m)
              ELSE Ret(SetReg(c, i.dst, S(WZext(bytes, 8))), m)

(* stores: ST (class 2, immediate), STX (class 3, register; mode 6 = atomic add) *)
ExecStore(E, c, m, i) ==
    LET b == c.reg[i.dst]  n == SzBytes(i.op)
        v == IF Cls(i.op) = 2 THEN S(Imm64(i)) ELSE c.reg[i.src] IN
    IF b.t = "u" \/ v.t = "u" THEN Ret(Fault(c, "read-uninit-reg"), m)
    ELSE IF b.t # "p" THEN Ret(Fault(c, "store-via-nonpointer"), m)
    ELSE IF v.t # "s" THEN Ret(Fault(c, "store-of-pointer"), m)
    ELSE IF b.r.k = "ctx" THEN Ret(Fault(c, "store-to-ctx"), m)
    ELSE IF ~InRegion(m, b.r, b.o + i.off, n) THEN Ret(Fault(c, <<"store-out-of-bounds", b.r.k>>), m)
    ELSE IF Mode(i.op) = 3 THEN
        Ret([c EXCEPT !.pc = c.pc + 1], StoreBytes(m, b.r, b.o + i.off, WTrunc(v.v, n)))
    ELSE IF Mode(i.op) = 6 /\ Cls(i.op) = 3 /\ n \in {4, 8} /\ WIsZero(i.imm) THEN    \* atomic add
        LET old == LoadBytes(m, b.r, b.o + i.off, n) IN
        IF b.r.k = "pkt" THEN Ret(Fault(c, "atomic-on-packet"), m)
        ELSE IF ~AllInit(old) THEN Ret(Fault(c, "read-uninit-stack"), m)
        ELSE Ret([c EXCEPT !.pc = c.pc + 1],
                 StoreBytes(m, b.r, b.o + i.off, WAdd(old, WTrunc(v.v, n))))
    ELSE Ret(Fault(c, "bad-store-mode"), m)
(* ---- jumps, calls, exit ------------------------------------------------------------------- *)
JumpTo(E, c, m, off) ==
    IF PcOk(E, c, c.pc + 1 + off) THEN Ret([c EXCEPT !.pc = c.pc + 1 + off], m)
    ELSE Ret(Fault(c, "jump-out-of-program"), m)
(* comparable operands: two scalars, or two pointers into the same region (compared by offset) *)
ExecJmp(E, c, m, i) ==
    LET code == AluCode(i.op)  is32 == Cls(i.op) = 6
        d == c.reg[i.dst]
        s == IF SrcIsReg(i.op) THEN c.reg[i.src] ELSE S(Imm64(i)) IN
    IF code = 0 THEN (IF is32 THEN Ret(Fault(c, "bad-jmp32"), m) ELSE JumpTo(E, c, m, i.off))
    ELSE IF code \notin {1, 2, 3, 4, 5, 6, 7, 10, 11, 12, 13} THEN Ret(Fault(c, "bad-jmp-code"), m)
    ELSE IF d.t = "u" \/ s.t = "u" THEN Ret(Fault(c, "read-uninit-reg"), m)
    ELSE IF d.t = "s" /\ s.t = "s" THEN
        IF (IF is32 THEN Cond(code, Lo(d.v), Lo(s.v)) ELSE Cond(code, d.v, s.v))
        THEN JumpTo(E, c, m, i.off) ELSE JumpTo(E, c, m, 0)
    ELSE IF d.t = "p" /\ s.t = "p" /\ d.r = s.r /\ ~is32 /\ code # 4 THEN
        IF Cond(code, WFromInt(d.o, 8), WFromInt(s.o, 8))
        THEN JumpTo(E, c, m, i.off) ELSE JumpTo(E, c, m, 0)
    ELSE IF d.t = "p" /\ s.t = "s" /\ WIsZero(s.v) /\ code \in {1, 5} /\ ~is32 THEN   \* pointer vs NULL
        IF code = 5 THEN JumpTo(E, c, m, i.off) ELSE JumpTo(E, c, m, 0)
    ELSE Ret(Fault(c, "compare-pointer-with-scalar"), m)

Scrub(c) == [c EXCEPT !.reg = [r \in 0 .. 10 |-> IF r \in 1 .. 5 THEN U ELSE c.reg[r]]]
(* the key a helper reads through r2: ks initialised bytes of the stack (or of a map value)  *)
KeyOf(E, c, m, fd) ==
    LET p == c.reg[2]  ks == E.maps[fd].ks IN
    IF p.t # "p" \/ ~InRegion(m, p.r, p.o, ks) THEN <<"bad">>
    ELSE IF ~AllInit(LoadBytes(m, p.r, p.o, ks)) THEN <<"uninit">>
    ELSE <<"ok", LoadBytes(m, p.r, p.o, ks)>>
HashRegion(fd, key) == Rg("hash", fd, key)
HashCount(m, fd) == Cardinality({r \in DOMAIN m : r.k = "hash" /\ r.fd = fd})
ErrW(n) == S(WFromInt(-n, 8))
ExecCall(E, c, m, i) ==
    LET f == WToS32(WZext(i.imm, 8))  h == c.reg[1] IN
    IF f = 5 \/ f = 7 THEN                     \* ktime_get_ns / get_prandom_u32: oracle stream
        IF c.orc + 1 > Len(E.orc) THEN Ret(Fault(c, "oracle-exhausted"), m)
        ELSE Ret([Scrub(c) EXCEPT !.reg[0] = S(IF f = 7 THEN WZextFrom(E.orc[c.orc + 1], 4)
                                               ELSE E.orc[c.orc + 1]),
                                  !.orc = c.orc + 1, !.pc = c.pc + 1], m)
    ELSE IF f \notin {1, 2, 3, 12} THEN Ret(Fault(c, <<"unsupported-helper", f>>), m)
    ELSE IF f = 12 THEN                        \* tail_call(ctx, prog array, index)
        IF c.reg[1].t # "p" \/ c.reg[1].r.k # "ctx" THEN Ret(Fault(c, "tail-call-ctx"), m)
        ELSE IF c.reg[2].t # "m" \/ E.maps[c.reg[2].fd].type # "prog" THEN Ret(Fault(c, "tail-call-map"), m)
        ELSE IF c.reg[3].t # "s" THEN Ret(Fault(c, "tail-call-index"), m)
        ELSE LET ix == Lo(c.reg[3].v)  fd == c.reg[2].fd IN
             IF WFitsU31(WZext(ix, 8)) /\ WToS32(WZext(ix, 8)) < E.maps[fd].max
                /\ E.progs[fd][WToS32(WZext(ix, 8)) + 1] # 0
             THEN Ret([c EXCEPT !.cur = E.progs[fd][WToS32(WZext(ix, 8)) + 1], !.pc = 0,
                                !.tail = c.tail + 1,
                                !.reg = [r \in 0 .. 10 |-> IF r = 1 THEN P(RCtx, 0)
                                                          ELSE IF r = 10 THEN P(RStack, 0) ELSE U]],
                      [m EXCEPT ![RStack] = Mat([k \in 1 .. 512 |-> -1], 512)])
             ELSE Ret([Scrub(c) EXCEPT !.reg[0] = U, !.pc = c.pc + 1], m)   \* falls through
    ELSE IF h.t # "m" THEN Ret(Fault(c, "helper-needs-map"), m)
    ELSE LET fd == h.fd  mp == E.maps[fd]  k == KeyOf(E, c, m, fd) IN
         IF k[1] = "bad" THEN Ret(Fault(c, "helper-bad-key-pointer"), m)
         ELSE IF k[1] = "uninit" THEN Ret(Fault(c, "helper-uninit-key"), m)
         ELSE IF mp.type \in {"array", "percpu"} THEN     \* one copy: all instances on one CPU
             LET ix == WZext(k[2], 8) IN
             IF f = 1 THEN
                 IF WFitsU31(ix) /\ WToS32(ix) < mp.max
                 THEN Ret([Scrub(c) EXCEPT !.reg[0] = P(Rg("arr", fd, <<>>), WToS32(ix) * mp.vs),
                                           !.pc = c.pc + 1], m)
                 ELSE Ret([Scrub(c) EXCEPT !.reg[0] = S(W0), !.pc = c.pc + 1], m)
             ELSE Ret(Fault(c, "array-update-unsupported"), m)
         ELSE IF mp.type = "hash" THEN
             LET r == HashRegion(fd, k[2]) IN
             IF f = 1 THEN
                 Ret([Scrub(c) EXCEPT !.reg[0] = IF r \in DOMAIN m THEN P(r, 0) ELSE S(W0),
                                      !.pc = c.pc + 1], m)
             ELSE IF f = 3 THEN
                 IF r \in DOMAIN m
                 THEN Ret([Scrub(c) EXCEPT !.reg[0] = S(W0), !.pc = c.pc + 1],
                          [x \in DOMAIN m \ {r} |-> m[x]])
                 ELSE Ret([Scrub(c) EXCEPT !.reg[0] = ErrW(2), !.pc = c.pc + 1], m)
             ELSE LET vp == c.reg[3]  fl == c.reg[4] IN             \* f = 2: update
                  IF vp.t # "p" \/ ~InRegion(m, vp.r, vp.o, mp.vs) THEN Ret(Fault(c, "helper-bad-value-pointer"), m)
                  ELSE IF ~AllInit(LoadBytes(m, vp.r, vp.o, mp.vs)) THEN Ret(Fault(c, "helper-uninit-value"), m)
                  ELSE IF fl.t # "s" THEN Ret(Fault(c, "helper-bad-flags"), m)
                  ELSE LET flag == fl.v[1]  val == LoadBytes(m, vp.r, vp.o, mp.vs) IN
                       IF flag = 1 /\ r \in DOMAIN m THEN Ret([Scrub(c) EXCEPT !.reg[0] = ErrW(17), !.pc = c.pc + 1], m)
                       ELSE IF flag = 2 /\ r \notin DOMAIN m THEN Ret([Scrub(c) EXCEPT !.reg[0] = ErrW(2), !.pc = c.pc + 1], m)
                       ELSE IF r \notin DOMAIN m /\ HashCount(m, fd) >= mp.max
                            THEN Ret([Scrub(c) EXCEPT !.reg[0] = ErrW(7), !.pc = c.pc + 1], m)
                       ELSE Ret([Scrub(c) EXCEPT !.reg[0] = S(W0), !.pc = c.pc + 1],
                                [x \in DOMAIN m \cup {r} |-> IF x = r THEN val ELSE m[x]])
         ELSE Ret(Fault(c, "helper-on-wrong-map-type"), m)

ExecExit(c, m) ==
    IF c.reg[0].t = "u" THEN Ret(Fault(c, "exit-without-r0"), m)
    ELSE IF c.reg[0].t # "s" THEN Ret(Fault(c, "exit-with-pointer"), m)
    ELSE Ret([c EXCEPT !.st = <<"exit">>], m)

(* ---- the step function and its iteration ---------------------------------------------------- *)
StepF(E, c, m) ==
    IF ~Running(c) THEN Ret(c, m)
    ELSE IF c.pc < 0 \/ c.pc >= Len(E.programs[c.cur]) THEN Ret(Fault(c, "fell-off-program"), m)
    ELSE LET i == Ins(E, c)  cl == Cls(i.op) IN
         IF i.dst > 10 \/ i.src > 10 THEN Ret(Fault(c, "bad-register"), m)
         ELSE IF cl = 4 \/ cl = 7 THEN
              (IF i.dst = 10 THEN Ret(Fault(c, "write-to-frame-pointer"), m) ELSE ExecAlu(E, c, m, i))
         ELSE IF cl = 0 \/ cl = 1 THEN
              (IF i.dst = 10 THEN Ret(Fault(c, "write-to-frame-pointer"), m) ELSE ExecLoad(E, c, m, i))
         ELSE IF cl = 2 \/ cl = 3 THEN ExecStore(E, c, m, i)
         ELSE IF i.op = 133 THEN ExecCall(E, c, m, i)          \* 0x85
         ELSE IF i.op = 149 THEN ExecExit(c, m)                \* 0x95
         ELSE ExecJmp(E, c, m, i)

RECURSIVE RunF(_, _, _, _), RunS(_, _, _)
RunF(E, c, m, fuel) ==
    IF ~Running(c) THEN Ret(c, m)
    ELSE IF fuel = 0 THEN Ret(Fault(c, "out-of-fuel"), m)
    ELSE RunS(E, StepF(E, c, m), fuel - 1)
RunS(E, r, fuel) == RunF(E, r.c, r.m, fuel)

(* initial cpu: r1 = context, r10 = frame pointer, everything else unwritten.  CpuN gives an
   instance its own stack region Rg("stack", i, <<>>) so that several instances of a program can
   run over one shared memory (instances never tail-call: that path resets RStack).           *)
CpuN(prog, stack) == [pc |-> 0, st |-> <<"run">>, cur |-> prog, orc |-> 0, tail |-> 0,
               reg |-> [r \in 0 .. 10 |-> IF r = 1 THEN P(RCtx, 0) ELSE IF r = 10 THEN P(stack, 0) ELSE U]]
Cpu0(prog) == CpuN(prog, RStack)
FreshStack == Mat([k \in 1 .. 512 |-> -1], 512)
Exited(c) == c.st = <<"exit">>
Faulted(c) == c.st[1] = "fault"
=============================================================================
