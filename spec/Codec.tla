------------------------------- MODULE Codec -------------------------------
(* C13 - what a datagram request puts on the wire and what it hands back.

   A request has   groups : format strings that come with their values,
                   ro     : an optional trailing read-only format (no values),
                   data   : optional raw data, given as bytes or as a count of zero bytes.
   A format string is a sequence of fields [c, n] with the codes of Python's struct module in
   little-endian standard mode ("<": standard sizes, no alignment):
       B H I L Q   unsigned integers of 1 2 4 4 8 bytes      b h i l q   signed (two's complement)
       e f d       IEEE 754 binary16 / binary32 / binary64   ?           bool, one byte 0 / 1
       c           one byte                                   x           n pad bytes (no value)
       s           byte string of n bytes (padded with zeros / cut)
       p           Pascal string in n bytes: length byte, then the bytes, padded with zeros
   Values and decoded items have one shape [t, lo, hi, b] (a TLC integer has only 32 bits):
       "int"    lo = 1 iff negative, b = magnitude as four 16-bit limbs, least significant first
       "float"  lo = sign, b = the significant bits from the leading 1 to the last 1,
                hi = exponent of the leading bit:  value = (-1)^lo * 1.b2b3.. * 2^hi
       "fzero" / "finf"  lo = sign          "fnan"  not-a-number (payload not compared)
       "bool"   lo = 0 / 1                  "bytes" b = the bytes

   Payload  = encodings of the valued formats, zeros for the read-only format, then the raw
              data (the bytes, or that many zeros).
   Decoded  = the response read with the same formats at the same offsets; plus the trailing
              raw bytes exactly when raw data was given - also when it is empty.             *)
EXTENDS Integers, Sequences, TLC

Zeros(n) == [i \in 1 .. n |-> 0]
Ones(n) == [i \in 1 .. n |-> 1]
Take(s, n) == SubSeq(s, 1, n)
Item(t, lo, hi, b) == [t |-> t, lo |-> lo, hi |-> hi, b |-> b]
IntItem(neg, limbs) == Item("int", neg, 0, limbs)
BytesItem(b) == Item("bytes", 0, 0, b)

UnsignedCodes == {"B", "H", "I", "L", "Q"}
SignedCodes == {"b", "h", "i", "l", "q"}
IntCodes == UnsignedCodes \cup SignedCodes
FloatCodes == {"e", "f", "d"}
FieldSize(f) == CASE f.c \in {"B", "b", "?", "c"} -> 1 [] f.c \in {"H", "h", "e"} -> 2
                  [] f.c \in {"I", "i", "L", "l", "f"} -> 4 [] f.c \in {"Q", "q", "d"} -> 8
                  [] f.c \in {"x", "s", "p"} -> f.n
HasValue(f) == f.c # "x"
ExpBits(c) == CASE c = "e" -> 5 [] c = "f" -> 8 [] c = "d" -> 11
FracBits(c) == CASE c = "e" -> 10 [] c = "f" -> 23 [] c = "d" -> 52
Bias(c) == CASE c = "e" -> 15 [] c = "f" -> 127 [] c = "d" -> 1023

RECURSIVE FmtSizeFrom(_, _)
FmtSizeFrom(fmt, i) == IF i > Len(fmt) THEN 0 ELSE FieldSize(fmt[i]) + FmtSizeFrom(fmt, i + 1)
FmtSize(fmt) == FmtSizeFrom(fmt, 1)

(* ---- bits, bytes and limbs --------------------------------------------------------------- *)
Pow2(k) == 2 ^ k                                               \* k <= 16 here
ToBits(v, w) == [i \in 1 .. w |-> (v \div Pow2(w - i)) % 2]    \* most significant bit first
RECURSIVE FromBitsAcc(_, _, _)
FromBitsAcc(bs, i, acc) == IF i > Len(bs) THEN acc ELSE FromBitsAcc(bs, i + 1, 2 * acc + bs[i])
FromBits(bs) == FromBitsAcc(bs, 1, 0)                          \* Len(bs) <= 16
(* w little-endian bytes <-> 8w bits, most significant first *)
BitsToBytes(bits, w) == [k \in 1 .. w |-> FromBits(SubSeq(bits, 8 * (w - k) + 1, 8 * (w - k) + 8))]
BytesToBits(by) == [i \in 1 .. 8 * Len(by) |->
                      ToBits(by[Len(by) - ((i - 1) \div 8)], 8)[((i - 1) % 8) + 1]]
RECURSIVE StripTrailing(_)
StripTrailing(bs) == IF Len(bs) = 0 \/ bs[Len(bs)] = 1 THEN bs
                     ELSE StripTrailing(SubSeq(bs, 1, Len(bs) - 1))
RECURSIVE LeadingZeros(_, _)
LeadingZeros(bs, i) == IF i > Len(bs) \/ bs[i] = 1 THEN i - 1 ELSE LeadingZeros(bs, i + 1)
AllZero(s) == \A i \in 1 .. Len(s) : s[i] = 0

LimbsToBytes(l) == [k \in 1 .. 8 |-> IF k % 2 = 1 THEN l[(k + 1) \div 2] % 256
                                                 ELSE l[k \div 2] \div 256]
BytesToLimbs(by) == [k \in 1 .. 4 |-> by[2 * k - 1] + 256 * by[2 * k]]
RECURSIVE TwosFrom(_, _, _, _)
TwosFrom(l, i, carry, acc) ==          \* 2^64 - l, limb by limb
    IF i > 4 THEN acc
    ELSE TwosFrom(l, i + 1, ((65535 - l[i]) + carry) \div 65536,
                  Append(acc, ((65535 - l[i]) + carry) % 65536))
TwosComp(l) == TwosFrom(l, 1, 1, <<>>)

(* ---- which values a field can carry ------------------------------------------------------- *)
IntFits(c, v) == LET by == LimbsToBytes(v.b)  w == FieldSize([c |-> c, n |-> 1]) IN
    /\ Len(v.b) = 4 /\ \A i \in 1 .. 4 : v.b[i] \in 0 .. 65535
    /\ AllZero(SubSeq(by, w + 1, 8))
    /\ c \in UnsignedCodes => v.lo = 0
    /\ c \in SignedCodes /\ v.lo = 0 => by[w] < 128
    /\ c \in SignedCodes /\ v.lo = 1 =>
          /\ ~AllZero(by)
          /\ by[w] < 128 \/ (by[w] = 128 /\ AllZero(SubSeq(by, 1, w - 1)))
(* floats: exactly representable normal numbers, zeros and infinities (no rounding demanded) *)
FloatFits(c, v) == \/ v.t \in {"fzero", "finf"} /\ v.lo \in {0, 1}
                   \/ /\ v.t = "float" /\ v.lo \in {0, 1}
                      /\ Len(v.b) >= 1 /\ v.b[1] = 1 /\ v.b[Len(v.b)] = 1
                      /\ Len(v.b) - 1 <= FracBits(c)
                      /\ v.hi >= 1 - Bias(c) /\ v.hi <= Bias(c)
ValueOK(f, v) == CASE f.c \in IntCodes -> v.t = "int" /\ v.lo \in {0, 1} /\ IntFits(f.c, v)
                   [] f.c \in FloatCodes -> FloatFits(f.c, v)
                   [] f.c = "?" -> v.t = "bool" /\ v.lo \in {0, 1}
                   [] f.c = "c" -> v.t = "bytes" /\ Len(v.b) = 1
                   [] f.c \in {"s", "p"} -> v.t = "bytes"
(* a value that comes back unchanged when its own encoding is decoded *)
Canonical(f, v) == CASE f.c = "s" -> Len(v.b) = f.n
                     [] f.c = "p" -> Len(v.b) <= f.n - 1 /\ Len(v.b) <= 255
                     [] OTHER -> TRUE

(* ---- encoding ------------------------------------------------------------------------------ *)
EncInt(f, v) == Take(LimbsToBytes(IF v.lo = 1 THEN TwosComp(v.b) ELSE v.b), FieldSize(f))
EncFloat(f, v) ==
    BitsToBytes(CASE v.t = "fzero" -> <<v.lo>> \o Zeros(ExpBits(f.c) + FracBits(f.c))
                  [] v.t = "finf" -> <<v.lo>> \o Ones(ExpBits(f.c)) \o Zeros(FracBits(f.c))
                  [] v.t = "float" -> <<v.lo>> \o ToBits(v.hi + Bias(f.c), ExpBits(f.c))
                                      \o SubSeq(v.b, 2, Len(v.b))
                                      \o Zeros(FracBits(f.c) - (Len(v.b) - 1)),
                FieldSize(f))
MinOf(a, b) == IF a < b THEN a ELSE b
EncField(f, v) ==
    CASE f.c \in IntCodes -> EncInt(f, v)
      [] f.c \in FloatCodes -> EncFloat(f, v)
      [] f.c = "?" -> <<v.lo>>
      [] f.c = "c" -> v.b
      [] f.c = "s" -> Take(v.b \o Zeros(f.n), f.n)
      [] f.c = "p" -> LET k == MinOf(MinOf(Len(v.b), f.n - 1), 255) IN
                      Take(<<k>> \o Take(v.b, k) \o Zeros(f.n), f.n)

RECURSIVE EncFmt(_, _, _, _, _)
EncFmt(fmt, i, vals, j, acc) ==          \* field i takes value j unless it is padding
    IF i > Len(fmt) THEN acc
    ELSE IF HasValue(fmt[i]) THEN EncFmt(fmt, i + 1, vals, j + 1, acc \o EncField(fmt[i], vals[j]))
         ELSE EncFmt(fmt, i + 1, vals, j, acc \o Zeros(fmt[i].n))
Encode(fmt, vals) == EncFmt(fmt, 1, vals, 1, <<>>)

RECURSIVE EncGroups(_, _, _)
EncGroups(groups, g, acc) ==
    IF g > Len(groups) THEN acc
    ELSE EncGroups(groups, g + 1, acc \o Encode(groups[g].fmt, groups[g].vals))

RawOut(data) == CASE data.kind = "none" -> <<>>
                  [] data.kind = "count" -> Zeros(data.n)
                  [] data.kind = "bytes" -> data.bytes

Payload(req) == EncGroups(req.groups, 1, <<>>)
                \o (IF req.ro.present THEN Zeros(FmtSize(req.ro.fmt)) ELSE <<>>)
                \o RawOut(req.data)
(* ---- decoding ------------------------------------------------------------------------------ *)
RECURSIVE CatFmts(_, _, _)
CatFmts(groups, g, acc) == IF g > Len(groups) THEN acc
                           ELSE CatFmts(groups, g + 1, acc \o groups[g].fmt)
AllFields(req) == CatFmts(req.groups, 1, <<>>) \o (IF req.ro.present THEN req.ro.fmt ELSE <<>>)

DecInt(f, by) ==            \* by: the field's bytes
    IF f.c \in SignedCodes /\ by[Len(by)] >= 128
    THEN IntItem(1, TwosComp(BytesToLimbs(by \o [i \in 1 .. 8 - Len(by) |-> 255])))
    ELSE IntItem(0, BytesToLimbs(by \o Zeros(8 - Len(by))))
DecFloatBits(c, s, E, F) ==     \* sign, biased exponent, fraction bits
    IF E = Pow2(ExpBits(c)) - 1 THEN (IF AllZero(F) THEN Item("finf", s, 0, <<>>)
                                                    ELSE Item("fnan", 0, 0, <<>>))
    ELSE IF E = 0 THEN (IF AllZero(F) THEN Item("fzero", s, 0, <<>>)
                        ELSE Item("float", s, (1 - Bias(c)) - (LeadingZeros(F, 1) + 1),   \* subnormal
                                  StripTrailing(SubSeq(F, LeadingZeros(F, 1) + 1, Len(F)))))
    ELSE Item("float", s, E - Bias(c), StripTrailing(<<1>> \o F))
DecFloat(f, bits) == DecFloatBits(f.c, bits[1], FromBits(SubSeq(bits, 2, ExpBits(f.c) + 1)),
                                  SubSeq(bits, ExpBits(f.c) + 2, Len(bits)))
DecField(f, r, o) ==        \* field f read at 0-based offset o of r
    CASE f.c \in IntCodes -> DecInt(f, SubSeq(r, o + 1, o + FieldSize(f)))
      [] f.c \in FloatCodes -> DecFloat(f, BytesToBits(SubSeq(r, o + 1, o + FieldSize(f))))
      [] f.c = "?" -> Item("bool", IF r[o + 1] = 0 THEN 0 ELSE 1, 0, <<>>)
      [] f.c \in {"c", "s"} -> BytesItem(SubSeq(r, o + 1, o + FieldSize(f)))
      [] f.c = "p" -> BytesItem(SubSeq(r, o + 2, o + 1 + MinOf(r[o + 1], f.n - 1)))

RECURSIVE DecFields(_, _, _, _, _)
DecFields(fs, i, r, o, acc) ==
    IF i > Len(fs) THEN acc
    ELSE DecFields(fs, i + 1, r, o + FieldSize(fs[i]),
                   IF HasValue(fs[i]) THEN Append(acc, DecField(fs[i], r, o)) ELSE acc)

(* defined for a response as long as the payload *)
Decoded(req, r) ==
    DecFields(AllFields(req), 1, r, 0, <<>>)
    \o (IF req.data.kind = "none" THEN <<>>
        ELSE <<BytesItem(SubSeq(r, FmtSize(AllFields(req)) + 1, Len(r)))>>)

(* ---- the round trip ------------------------------------------------------------------------ *)
RECURSIVE GroupVals(_, _, _)
GroupVals(groups, g, acc) == IF g > Len(groups) THEN acc
                             ELSE GroupVals(groups, g + 1, acc \o groups[g].vals)
ZeroItem(f) == CASE f.c \in IntCodes -> IntItem(0, Zeros(4))
                 [] f.c \in FloatCodes -> Item("fzero", 0, 0, <<>>)
                 [] f.c = "?" -> Item("bool", 0, 0, <<>>)
                 [] f.c \in {"c", "s"} -> BytesItem(Zeros(FieldSize(f)))
                 [] f.c = "p" -> BytesItem(<<>>)
RECURSIVE ZeroItems(_, _, _)
ZeroItems(fmt, i, acc) == IF i > Len(fmt) THEN acc
                          ELSE ZeroItems(fmt, i + 1, IF HasValue(fmt[i])
                                                     THEN Append(acc, ZeroItem(fmt[i])) ELSE acc)
(* what comes back when the response is the payload itself: the values, zeros, the raw data *)
Echo(req) == GroupVals(req.groups, 1, <<>>)
             \o (IF req.ro.present THEN ZeroItems(req.ro.fmt, 1, <<>>) ELSE <<>>)
             \o (IF req.data.kind = "none" THEN <<>> ELSE <<BytesItem(RawOut(req.data))>>)

RECURSIVE ValsOK(_, _, _, _, _)
ValsOK(fmt, i, vals, j, canon) ==       \* every value fits its field (and is canonical)
    IF i > Len(fmt) THEN j = Len(vals) + 1
    ELSE IF ~HasValue(fmt[i]) THEN ValsOK(fmt, i + 1, vals, j, canon)
         ELSE /\ j <= Len(vals) /\ ValueOK(fmt[i], vals[j])
              /\ canon => Canonical(fmt[i], vals[j])
              /\ ValsOK(fmt, i + 1, vals, j + 1, canon)
ReqOK(req, canon) == \A g \in 1 .. Len(req.groups) :
                        ValsOK(req.groups[g].fmt, 1, req.groups[g].vals, 1, canon)

(* decoding one's own payload gives back the (canonical) values, zeros for the read-only
   format and the raw data                                                                   *)
RoundTrip(req) == /\ ReqOK(req, TRUE)
                  /\ Len(Payload(req)) = FmtSize(AllFields(req)) + Len(RawOut(req.data))
                  /\ Decoded(req, Payload(req)) = Echo(req)

(* ---- the request as an action pair ------------------------------------------------------- *)
(* Send: the bytes put into the send queue.  Return: the value handed back for response r.
   Without any format the raw response may come back bare instead of as a 1-tuple.
   Both are demanded for requests whose values fit their fields (ReqOK).                     *)
SendOK(req, out) == ReqOK(req, FALSE) /\ out = Payload(req)
ReturnOK(req, r, shape, items) ==
    /\ Len(r) = Len(Payload(req))
    /\ items = Decoded(req, r)
    /\ \/ shape = "tuple"
       \/ shape = "bytes" /\ Len(req.groups) = 0 /\ ~req.ro.present /\ req.data.kind # "none"
=============================================================================
