------------------------------- MODULE Codec -------------------------------
(* C13 - what a datagram request puts on the wire and what it hands back.

   A request has   groups : format strings that come with their values,
                   ro     : an optional trailing read-only format (no values),
                   data   : optional raw data, given as bytes or as a count of zero bytes.
   A format string is modelled as a sequence of fields [c, n]:
       "B" / "H" / "I"  unsigned integers of 1 / 2 / 4 bytes (n = 1),
       "x"              n pad bytes (carry no value),
       "s"              a byte string of n bytes.
   Packing is little-endian without alignment ("<"): fields simply follow each other.
   Integers are written as two 16-bit limbs <<lo, hi>> (value lo + 65536 hi), because a TLC
   integer has 32 bits; byte strings are sequences of 0 .. 255.

   Payload  = encodings of the valued formats, zeros for the read-only format, then the raw
              data (the bytes, or that many zeros).
   Decoded  = the response read with the same formats at the same offsets; plus the trailing
              raw bytes exactly when raw data was given - also when it is empty.             *)
EXTENDS Integers, Sequences, TLC

Zeros(n) == [i \in 1 .. n |-> 0]
LE16(v) == <<v % 256, (v \div 256) % 256>>
Take(s, n) == SubSeq(s, 1, n)

FieldSize(f) == CASE f.c = "B" -> 1 [] f.c = "H" -> 2 [] f.c = "I" -> 4
                  [] f.c = "x" -> f.n [] f.c = "s" -> f.n
HasValue(f) == f.c # "x"

RECURSIVE FmtSizeFrom(_, _)
FmtSizeFrom(fmt, i) == IF i > Len(fmt) THEN 0 ELSE FieldSize(fmt[i]) + FmtSizeFrom(fmt, i + 1)
FmtSize(fmt) == FmtSizeFrom(fmt, 1)

(* a value fits its field *)
ValueOK(f, v) == CASE f.c = "B" -> v[1] \in 0 .. 255 /\ v[2] = 0
                   [] f.c = "H" -> v[1] \in 0 .. 65535 /\ v[2] = 0
                   [] f.c = "I" -> v[1] \in 0 .. 65535 /\ v[2] \in 0 .. 65535
                   [] f.c = "s" -> Len(v) = f.n /\ \A i \in 1 .. Len(v) : v[i] \in 0 .. 255

(* ---- encoding ---------------------------------------------------------------------------- *)
EncField(f, v) == IF f.c = "s" THEN v ELSE Take(LE16(v[1]) \o LE16(v[2]), FieldSize(f))

RECURSIVE EncFmt(_, _, _, _, _)
EncFmt(fmt, i, vals, j, acc) ==          \* field i takes value j unless it is padding
    IF i > Len(fmt) THEN acc
    ELSE IF HasValue(fmt[i]) THEN EncFmt(fmt, i + 1, vals, j + 1, acc \o EncField(fmt[i], vals[j]))
         ELSE EncFmt(fmt, i + 1, vals, j, acc \o Zeros(fmt[i].n))
Encode(fmt, vals) == EncFmt(fmt, 1, vals, 1, <<>>)

RECURSIVE EncGroups(_, _, _)
EncGroups(groups, g, acc) ==
    IF g > Len(groups) THEN acc
    ELSE EncGroups(groups, g + 1, acc \o Encode(groups[g].fmt, groups[g].vals))

RawOut(data) == CASE data.kind = "none" -> <<>>
                  [] data.kind = "count" -> Zeros(data.n)
                  [] data.kind = "bytes" -> data.bytes

Payload(req) == EncGroups(req.groups, 1, <<>>)
                \o (IF req.ro.present THEN Zeros(FmtSize(req.ro.fmt)) ELSE <<>>)
                \o RawOut(req.data)

(* ---- decoding ---------------------------------------------------------------------------- *)
RECURSIVE CatFmts(_, _, _)
CatFmts(groups, g, acc) == IF g > Len(groups) THEN acc
                           ELSE CatFmts(groups, g + 1, acc \o groups[g].fmt)
AllFields(req) == CatFmts(req.groups, 1, <<>>) \o (IF req.ro.present THEN req.ro.fmt ELSE <<>>)

IntItem(lo, hi) == [t |-> "int", lo |-> lo, hi |-> hi, b |-> <<>>]
BytesItem(b) == [t |-> "bytes", lo |-> 0, hi |-> 0, b |-> b]
DecField(f, r, o) ==        \* field f read at 0-based offset o of r
    CASE f.c = "B" -> IntItem(r[o + 1], 0)
      [] f.c = "H" -> IntItem(r[o + 1] + 256 * r[o + 2], 0)
      [] f.c = "I" -> IntItem(r[o + 1] + 256 * r[o + 2], r[o + 3] + 256 * r[o + 4])
      [] f.c = "s" -> BytesItem(SubSeq(r, o + 1, o + f.n))

RECURSIVE DecFields(_, _, _, _, _)
DecFields(fs, i, r, o, acc) ==
    IF i > Len(fs) THEN acc
    ELSE DecFields(fs, i + 1, r, o + FieldSize(fs[i]),
                   IF HasValue(fs[i]) THEN Append(acc, DecField(fs[i], r, o)) ELSE acc)

(* defined for a response as long as the payload *)
Decoded(req, r) ==
    DecFields(AllFields(req), 1, r, 0, <<>>)
    \o (IF req.data.kind = "none" THEN <<>>
        ELSE <<BytesItem(SubSeq(r, FmtSize(AllFields(req)) + 1, Len(r)))>>)

(* the items a request's own values and raw data would decode to: what comes back when the
   response is the payload itself                                                            *)
RECURSIVE ValItems(_, _, _, _, _)
ValItems(fmt, i, vals, j, acc) ==
    IF i > Len(fmt) THEN acc
    ELSE IF ~HasValue(fmt[i]) THEN ValItems(fmt, i + 1, vals, j, acc)
         ELSE ValItems(fmt, i + 1, vals, j + 1,
                       Append(acc, IF fmt[i].c = "s" THEN BytesItem(vals[j])
                                   ELSE IntItem(vals[j][1], vals[j][2])))
RECURSIVE GroupItems(_, _, _)
GroupItems(groups, g, acc) ==
    IF g > Len(groups) THEN acc
    ELSE GroupItems(groups, g + 1, acc \o ValItems(groups[g].fmt, 1, groups[g].vals, 1, <<>>))
ZeroItem(f) == IF f.c = "s" THEN BytesItem(Zeros(f.n)) ELSE IntItem(0, 0)
RECURSIVE ZeroItems(_, _, _)
ZeroItems(fmt, i, acc) == IF i > Len(fmt) THEN acc
                          ELSE ZeroItems(fmt, i + 1, IF HasValue(fmt[i])
                                                     THEN Append(acc, ZeroItem(fmt[i])) ELSE acc)
Echo(req) == GroupItems(req.groups, 1, <<>>)
             \o (IF req.ro.present THEN ZeroItems(req.ro.fmt, 1, <<>>) ELSE <<>>)
             \o (IF req.data.kind = "none" THEN <<>> ELSE <<BytesItem(RawOut(req.data))>>)

(* the round trip: decoding one's own payload gives back the values, zeros for the read-only
   format and the raw data                                                                   *)
RoundTrip(req) == /\ Len(Payload(req)) = FmtSize(AllFields(req)) + Len(RawOut(req.data))
                  /\ Decoded(req, Payload(req)) = Echo(req)

(* ---- the request as an action pair ------------------------------------------------------- *)
(* Send: the bytes put into the send queue.  Return: the value handed back for response r.
   Without any format the raw response may come back bare instead of as a 1-tuple.           *)
SendOK(req, out) == out = Payload(req)
ReturnOK(req, r, shape, items) ==
    /\ Len(r) = Len(Payload(req))
    /\ items = Decoded(req, r)
    /\ \/ shape = "tuple"
       \/ shape = "bytes" /\ Len(req.groups) = 0 /\ ~req.ro.present /\ req.data.kind # "none"
=============================================================================
