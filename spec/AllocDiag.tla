---------------------------- MODULE AllocDiag ----------------------------
(* For traces that AllocTrace rejected: name the part of Alloc's requirement that the first
   refused group violates (only used to word the report; the verdict is AllocTrace's).         *)
EXTENDS Alloc, Json, IOUtils, TLCExt
Traces == JsonDeserialize(IOEnv.TRACE_FILE)

Overlaps(g) == {p \in Regions(g) \X Regions(g) :
                  /\ p[1] # p[2]
                  /\ ~Apart(Start(g, p[1][1], p[1][2]),
                            Start(g, p[1][1], p[1][2]) + Size(g.terms[p[1][1]], p[1][2]),
                            Start(g, p[2][1], p[2][2]),
                            Start(g, p[2][1], p[2][2]) + Size(g.terms[p[2][1]], p[2][2]))}
Clashes(g, w) == {p \in Windows(g) \X w : ~Apart(p[1][1], p[1][2], p[2][1], p[2][2])}

Parts(i, l, g, w) ==
    /\ ~FrameOK(g) => PrintT(<<"DIAG", i, l, "frame", g.flen, g.elen>>)
    /\ \A r \in Regions(g) :
          ~RegionOK(g, r[1], r[2]) =>
             PrintT(<<"DIAG", i, l, "region", g.terms[r[1]].mode, r[2], r[1], Start(g, r[1], r[2]),
                      Size(g.terms[r[1]], r[2]), Logical(g, r[1], r[2])>>)
    /\ Overlaps(g) # {} => PrintT(<<"DIAG", i, l, "overlap", ToString(Overlaps(g))>>)
    /\ Clashes(g, w) # {} => PrintT(<<"DIAG", i, l, "windows", ToString(Clashes(g, w))>>)

RECURSIVE Walk(_, _, _)
Walk(i, l, w) ==
    IF l > Len(Traces[i].groups) THEN TRUE
    ELSE LET g == Traces[i].groups[l] IN
      CASE g.res = "ok" ->
             IF GroupOK(g) /\ Clashes(g, w) = {} THEN Walk(i, l + 1, w \cup Windows(g))
             ELSE Parts(i, l, g, w)
        [] g.res = "overflow" ->
             IF TooLarge(g.terms) THEN Walk(i, l + 1, w)
             ELSE PrintT(<<"DIAG", i, l, "rejected-but-fits", CustomaryBytes(g.terms),
                           CustomaryDgrams(g.terms)>>)
        [] OTHER -> PrintT(<<"DIAG", i, l, "error", g.exc>>)
ASSUME \A i \in 1 .. Len(Traces) : Walk(i, 1, {})
DNext == UNCHANGED wins
=============================================================================
