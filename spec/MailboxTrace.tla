---------------------------- MODULE MailboxTrace ----------------------------
(* Trace validation for C15 (in-process and cross-process): what can be observed is
     begin(u)        a user starts an operation (calls sdo_read / sdo_write / coe_request)
     send(u, cnt)    the terminal received a complete mail of u carrying counter cnt
     recv(u, final)  u read a mail from the terminal (final: it is the response)
     end(u)          the operation returned or raised
   Acquire and Release are not observable; they are inferred: a user that sends while
   another still holds the lock can only have acquired it if the holder could release (no
   unanswered request), and that holder's operation is then over - any further message of it
   is rejected.  Hence interleaved exchanges, stolen responses and counter repeats / gaps all
   make the trace leave the specification.                                                  *)
EXTENDS Mailbox, Json, IOUtils, TLCExt
Traces == JsonDeserialize(IOEnv.TRACE_FILE)
VARIABLES tid, l
tvars == <<mvars, tid, l>>
T == Traces[tid]

TInit == tid \in 1 .. Len(Traces) /\ l = 1 /\ MInit

(* Release(holder) . Acquire(u) . Send(u, c) when someone else (or nobody) holds the lock *)
TakeAndSend(u, c) ==
    /\ holder # u /\ phase[u] = "waiting" /\ ~pending
    /\ c = counter
    /\ phase' = [v \in Users |-> IF v = u THEN "holding"
                                 ELSE IF v = holder THEN "released" ELSE phase[v]]
    /\ holder' = u /\ pending' = TRUE /\ counter' = Succ(counter)
    /\ wire' = Append(wire, [u |-> u, op |-> opno[u], dir |-> "req", cnt |-> c])
    /\ UNCHANGED opno

(* Release(u) . End(u), or End(u) after an inferred release *)
TEnd(u) ==
    \/ End(u)
    \/ /\ holder = u /\ phase[u] = "holding" /\ ~pending
       /\ holder' = None /\ phase' = [phase EXCEPT ![u] = "idle"]
       /\ UNCHANGED <<opno, pending, counter, wire>>
    \/ /\ phase[u] = "waiting" /\ holder # u          \* gave up without ever sending
       /\ phase' = [phase EXCEPT ![u] = "idle"]
       /\ UNCHANGED <<opno, holder, pending, counter, wire>>

TNext == /\ l <= Len(T.ev)
         /\ l' = l + 1 /\ UNCHANGED tid
         /\ LET e == T.ev[l] IN
              \/ e.ev = "begin" /\ Begin(e.u)
              \/ e.ev = "send" /\ (Send(e.u, e.cnt) \/ TakeAndSend(e.u, e.cnt))
              \/ e.ev = "recv" /\ Recv(e.u, e.final)
              \/ e.ev = "end" /\ TEnd(e.u)
TSpec == TInit /\ [][TNext]_tvars

Max2(a, b) == IF a > b THEN a ELSE b
Progress == TLCSet(tid, Max2(TLCGet(tid), l))
ASSUME \A i \in 1 .. Len(Traces) : TLCSet(i, 0)
Post == \A i \in 1 .. Len(Traces) : PrintT(<<"RESULT", i, TLCGet(i) - 1, Len(Traces[i].ev)>>)
=============================================================================
