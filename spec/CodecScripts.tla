---------------------------- MODULE CodecScripts ----------------------------
(* Argument shapes for C13, enumerated by TLC: 0 .. MaxGroups format strings with values (from
   the Alphabet, values rotating through boundary tables), an optional trailing read-only format,
   raw data absent / a count / bytes (both including empty), and the seed of the response the
   bus will give.  Every finished request is printed once for replay on the real
   EtherCat.roundtrip; the invariant RoundTripInv checks Codec's encoder against its decoder on
   every one of them.                                                                          *)
EXTENDS Codec, Json
CONSTANTS MaxGroups, Variants, RSeeds, FmtNames

F(c, n) == [c |-> c, n |-> n]
Fmt(name) == CASE name = "B" -> <<F("B", 1)>>
               [] name = "H" -> <<F("H", 1)>>
               [] name = "I" -> <<F("I", 1)>>
               [] name = "HI" -> <<F("H", 1), F("I", 1)>>
               [] name = "H2xH" -> <<F("H", 1), F("x", 2), F("H", 1)>>
               [] name = "4x" -> <<F("x", 4)>>
               [] name = "8s" -> <<F("s", 8)>>
               [] name = "bh" -> <<F("b", 1), F("h", 1)>>          \* signed integers
               [] name = "iq" -> <<F("i", 1), F("q", 1)>>
               [] name = "QlL" -> <<F("Q", 1), F("l", 1), F("L", 1)>>
               [] name = "e" -> <<F("e", 1)>>                      \* floating point
               [] name = "f" -> <<F("f", 1)>>
               [] name = "Hd" -> <<F("H", 1), F("d", 1)>>
               [] name = "?c" -> <<F("?", 1), F("c", 1)>>          \* bool, char
               [] name = "5p" -> <<F("p", 5)>>                     \* Pascal string

(* values: boundary tables per field code, rotated by the running value index *)
U(l0, l1, l2, l3) == IntItem(0, <<l0, l1, l2, l3>>)
N(l0, l1, l2, l3) == IntItem(1, <<l0, l1, l2, l3>>)
Fl(s, e, bits) == Item("float", s, e, bits)
BTab == <<U(0, 0, 0, 0), U(1, 0, 0, 0), U(127, 0, 0, 0), U(128, 0, 0, 0), U(255, 0, 0, 0), U(90, 0, 0, 0)>>
HTab == <<U(258, 0, 0, 0), U(0, 0, 0, 0), U(32767, 0, 0, 0), U(32768, 0, 0, 0), U(65535, 0, 0, 0)>>
ITab == <<U(772, 258, 0, 0), U(0, 0, 0, 0), U(65535, 32767, 0, 0), U(0, 32768, 0, 0),
          U(65535, 65535, 0, 0), U(1, 0, 0, 0)>>
QTab == <<U(2055, 1541, 1027, 513), U(65535, 65535, 65535, 65535), U(0, 0, 0, 32768), U(0, 0, 1, 0)>>
SbTab == <<N(1, 0, 0, 0), U(127, 0, 0, 0), N(128, 0, 0, 0), U(0, 0, 0, 0), N(90, 0, 0, 0)>>
ShTab == <<N(2, 0, 0, 0), U(32767, 0, 0, 0), N(32768, 0, 0, 0), U(258, 0, 0, 0), N(1, 0, 0, 0)>>
SiTab == <<N(1, 0, 0, 0), U(65535, 32767, 0, 0), N(0, 32768, 0, 0), U(772, 258, 0, 0), N(772, 258, 0, 0)>>
SqTab == <<N(1, 0, 0, 0), U(65535, 65535, 65535, 32767), N(0, 0, 0, 32768), N(2055, 1541, 1027, 513),
           U(0, 0, 1, 0)>>
(* 1.5, 0.5, -2.25, 1000.5, +0, -0, +inf, 65504 (largest binary16), 2^-14, -0.25, -inf *)
ETab == <<Fl(0, 0, <<1, 1>>), Fl(0, -1, <<1>>), Fl(1, 1, <<1, 0, 0, 1>>),
          Fl(0, 9, <<1, 1, 1, 1, 1, 0, 1, 0, 0, 0, 1>>), Item("fzero", 0, 0, <<>>),
          Item("fzero", 1, 0, <<>>), Item("finf", 0, 0, <<>>), Fl(0, 15, Ones(11)),
          Fl(0, -14, <<1>>), Fl(1, -2, <<1>>), Item("finf", 1, 0, <<>>)>>
FTab == ETab \o <<Fl(0, 23, Ones(24)), Fl(1, 100, <<1, 0, 1>>), Fl(0, -126, <<1, 1>>), Fl(0, 127, Ones(24))>>
DTab == FTab \o <<Fl(0, 52, Ones(53)), Fl(1, -1000, <<1, 0, 1>>), Fl(0, 1023, Ones(53)), Fl(0, -1022, <<1>>)>>
Pick(tab, i) == tab[(i % Len(tab)) + 1]
Val(f, j) == CASE f.c = "B" -> Pick(BTab, j) [] f.c = "H" -> Pick(HTab, j)
               [] f.c \in {"I", "L"} -> Pick(ITab, j) [] f.c = "Q" -> Pick(QTab, j)
               [] f.c = "b" -> Pick(SbTab, j) [] f.c = "h" -> Pick(ShTab, j)
               [] f.c \in {"i", "l"} -> Pick(SiTab, j) [] f.c = "q" -> Pick(SqTab, j)
               [] f.c = "e" -> Pick(ETab, j) [] f.c = "f" -> Pick(FTab, j) [] f.c = "d" -> Pick(DTab, j)
               [] f.c = "?" -> Item("bool", j % 2, 0, <<>>)
               [] f.c = "c" -> BytesItem(<<(65 + 7 * j) % 256>>)
               [] f.c = "s" -> BytesItem([i \in 1 .. f.n |-> (16 * j + 3 * i) % 256])
               [] f.c = "p" -> BytesItem([i \in 1 .. (j % f.n) |-> (97 + j + i) % 256])
RECURSIVE Vals(_, _, _, _)
Vals(fmt, i, j, acc) == IF i > Len(fmt) THEN acc
                        ELSE IF HasValue(fmt[i]) THEN Vals(fmt, i + 1, j + 1, Append(acc, Val(fmt[i], j)))
                             ELSE Vals(fmt, i + 1, j, acc)

DataOpts == { [kind |-> "none", n |-> 0, bytes |-> <<>>],
              [kind |-> "count", n |-> 0, bytes |-> <<>>],
              [kind |-> "count", n |-> 3, bytes |-> <<>>],
              [kind |-> "bytes", n |-> 0, bytes |-> <<>>],
              [kind |-> "bytes", n |-> 1, bytes |-> <<161>>],
              [kind |-> "bytes", n |-> 2, bytes |-> <<0, 178>>],
              [kind |-> "bytes", n |-> 3, bytes |-> <<161, 178, 195>>] }

VARIABLES groups, nv, var, req
svars == <<groups, nv, var, req>>
None == [present |-> FALSE]
SInit == groups = <<>> /\ nv = 0 /\ var \in Variants /\ req = None
AddGroup == /\ ~req.present /\ Len(groups) < MaxGroups
            /\ \E name \in FmtNames :
                 LET vs == Vals(Fmt(name), 1, nv + var, <<>>) IN
                   /\ groups' = Append(groups, [name |-> name, fmt |-> Fmt(name), vals |-> vs])
                   /\ nv' = nv + Len(vs)
            /\ UNCHANGED <<var, req>>
Finish == /\ ~req.present
          /\ \E d \in DataOpts, rs \in RSeeds :
               \/ req' = [present |-> TRUE, groups |-> groups, data |-> d, rseed |-> rs,
                          ro |-> [present |-> FALSE, name |-> "", fmt |-> <<>>]]
               \/ \E name \in FmtNames :
                    req' = [present |-> TRUE, groups |-> groups, data |-> d, rseed |-> rs,
                            ro |-> [present |-> TRUE, name |-> name, fmt |-> Fmt(name)]]
          /\ UNCHANGED <<groups, nv, var>>
SNext == AddGroup \/ Finish
SSpec == SInit /\ [][SNext]_svars

RoundTripInv == req.present => RoundTrip(req)
Emit == req.present => PrintT(<<"SCRIPT", ToJson(req)>>)
=============================================================================
