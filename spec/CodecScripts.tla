---------------------------- MODULE CodecScripts ----------------------------
(* Argument shapes for C13, enumerated by TLC: 0 .. MaxGroups format strings with values (from
   the Alphabet, values rotating through boundary tables), an optional trailing read-only format,
   raw data absent / a count / bytes (both including empty), and the seed of the response the
   bus will give.  Every finished request is printed once for replay on the real
   EtherCat.roundtrip; the invariant RoundTripInv checks Codec's encoder against its decoder on
   every one of them.                                                                          *)
EXTENDS Codec, Json
CONSTANTS MaxGroups, Variants, RSeeds, FmtNames

F(c, n) == [c |-> c, n |-> n]
Fmt(name) == CASE name = "B" -> <<F("B", 1)>>
               [] name = "H" -> <<F("H", 1)>>
               [] name = "I" -> <<F("I", 1)>>
               [] name = "HI" -> <<F("H", 1), F("I", 1)>>
               [] name = "H2xH" -> <<F("H", 1), F("x", 2), F("H", 1)>>
               [] name = "4x" -> <<F("x", 4)>>
               [] name = "8s" -> <<F("s", 8)>>
               [] name = "BI" -> <<F("B", 1), F("I", 1)>>
               [] name = "3sB" -> <<F("s", 3), F("B", 1)>>

BTab == <<<<0, 0>>, <<1, 0>>, <<127, 0>>, <<128, 0>>, <<255, 0>>, <<90, 0>>>>
HTab == <<<<258, 0>>, <<0, 0>>, <<32767, 0>>, <<32768, 0>>, <<65535, 0>>>>
ITab == <<<<772, 258>>, <<0, 0>>, <<65535, 32767>>, <<0, 32768>>, <<65535, 65535>>, <<1, 0>>>>
Pick(tab, i) == tab[(i % Len(tab)) + 1]
Val(f, j) == CASE f.c = "B" -> Pick(BTab, j) [] f.c = "H" -> Pick(HTab, j) [] f.c = "I" -> Pick(ITab, j)
               [] f.c = "s" -> [i \in 1 .. f.n |-> (16 * j + 3 * i) % 256]
RECURSIVE Vals(_, _, _, _)
Vals(fmt, i, j, acc) == IF i > Len(fmt) THEN acc
                        ELSE IF HasValue(fmt[i]) THEN Vals(fmt, i + 1, j + 1, Append(acc, Val(fmt[i], j)))
                             ELSE Vals(fmt, i + 1, j, acc)

DataOpts == { [kind |-> "none", n |-> 0, bytes |-> <<>>],
              [kind |-> "count", n |-> 0, bytes |-> <<>>],
              [kind |-> "count", n |-> 3, bytes |-> <<>>],
              [kind |-> "bytes", n |-> 0, bytes |-> <<>>],
              [kind |-> "bytes", n |-> 1, bytes |-> <<161>>],
              [kind |-> "bytes", n |-> 2, bytes |-> <<0, 178>>],
              [kind |-> "bytes", n |-> 3, bytes |-> <<161, 178, 195>>] }

VARIABLES groups, nv, var, req
svars == <<groups, nv, var, req>>
None == [present |-> FALSE]
SInit == groups = <<>> /\ nv = 0 /\ var \in Variants /\ req = None
AddGroup == /\ ~req.present /\ Len(groups) < MaxGroups
            /\ \E name \in FmtNames :
                 LET vs == Vals(Fmt(name), 1, nv + var, <<>>) IN
                   /\ groups' = Append(groups, [name |-> name, fmt |-> Fmt(name), vals |-> vs])
                   /\ nv' = nv + Len(vs)
            /\ UNCHANGED <<var, req>>
Finish == /\ ~req.present
          /\ \E d \in DataOpts, rs \in RSeeds :
               \/ req' = [present |-> TRUE, groups |-> groups, data |-> d, rseed |-> rs,
                          ro |-> [present |-> FALSE, name |-> "", fmt |-> <<>>]]
               \/ \E name \in FmtNames :
                    req' = [present |-> TRUE, groups |-> groups, data |-> d, rseed |-> rs,
                            ro |-> [present |-> TRUE, name |-> name, fmt |-> Fmt(name)]]
          /\ UNCHANGED <<groups, nv, var>>
SNext == AddGroup \/ Finish
SSpec == SInit /\ [][SNext]_svars

RoundTripInv == req.present => RoundTrip(req)
Emit == req.present => PrintT(<<"SCRIPT", ToJson(req)>>)
=============================================================================
