------------------------------- MODULE LockFile -------------------------------
(* C15 - the lock file that carries the mailbox locks and counters of several processes.

   One file of N bytes, byte b = the mailbox counter of terminal b; a POSIX byte-range lock
   on byte b = the mailbox lock of terminal b.  A user p works on terminal Bytes[p]; the file is
   opened once per process q:

     Create(q)        open(O_CREAT|O_EXCL) succeeds: the file now exists and is empty
     WriteInit(q)     the creator brings the file to its N zero bytes
     OpenExisting(q)  the file exists already (possibly still being initialised)
     TryLockf(p, ok)  non-blocking lockf on its byte; ok iff no other participant holds it
     ReadByte(p, v)   reads its counter v                      (with TryLockf: Mailbox!Acquire)
     Next(p, c)       takes the counter c for a message        (Mailbox!Send)
     WriteByte(p)     stores the counter - however the hold ends: a message that went out has
                      used its counter even if the exchange then fails or is cancelled
     Unlockf(p)       releases the byte                         (with WriteByte: Mailbox!Release)

   Required: a byte is locked by at most one participant; a byte that was never written holds
   counter 0 - whether or not the file has been initialised yet, so ReadByte in the window
   between Create and WriteInit obtains 0 and never a missing byte; initialising preserves
   what others have already stored; the counters taken for one terminal form the chain
   c, c%7+1, ... across all participants.                                                   *)
EXTENDS Integers, Sequences, FiniteSets, TLC

(* Users are the mailbox users (one lock object each: a task, or the only task of a process);
   ProcOf[u] is the operating-system process u lives in - the users of one process share one
   LockFile object (one descriptor), and POSIX record locks belong to the process; Bytes[u] is
   the byte (terminal) u works on.  Users of one process work on different terminals (users
   of one terminal inside a process share one lock object and are serialised by it).        *)
CONSTANTS Users, N, None,
          ProcOf,        \* ProcOf[u]: the process of user u
          Bytes          \* Bytes[u]: the byte (terminal) user u works on, in 0..N-1

Procs == {ProcOf[u] : u \in Users}
ASSUME \A u, v \in Users : (u # v /\ ProcOf[u] = ProcOf[v]) => Bytes[u] # Bytes[v]

VARIABLES exists,        \* the file exists
          phys,          \* its content: a sequence of at most N bytes
          owner,         \* owner[b]: the user holding the lock on byte b, or None
          ppc,           \* ppc[q]: "start" -> "created" -> "open" of process q's LockFile
          pc,            \* pc[u]: "idle" -> "locked" -> "holding" -> "written" -> "idle"
          ctr,           \* ctr[u]: u's copy of the counter while it holds the lock
          last           \* last[b]: the counter of the last message for terminal b, or None

lvars == <<exists, phys, owner, ppc, pc, ctr, last>>

Succ(c) == (c % 7) + 1
Zeros(n) == [i \in 1 .. n |-> 0]
Logical(b) == IF b < Len(phys) THEN phys[b + 1] ELSE 0      \* a byte never written is 0
SetByte(f, b, v) == LET g == IF Len(f) > b THEN f ELSE f \o Zeros(b + 1 - Len(f))
                    IN [g EXCEPT ![b + 1] = v]

LInit == /\ exists = FALSE /\ phys = <<>>
         /\ owner = [b \in 0 .. N - 1 |-> None]
         /\ ppc = [q \in Procs |-> "start"]
         /\ pc = [u \in Users |-> "idle"]
         /\ ctr = [u \in Users |-> 0]
         /\ last = [b \in 0 .. N - 1 |-> None]

Create(q) == /\ ppc[q] = "start" /\ ~exists
             /\ exists' = TRUE /\ phys' = <<>>
             /\ ppc' = [ppc EXCEPT ![q] = "created"]
             /\ UNCHANGED <<owner, pc, ctr, last>>

WriteInit(q) == /\ ppc[q] = "created"
                /\ phys' = phys \o Zeros(N - Len(phys))      \* what is there already stays
                /\ ppc' = [ppc EXCEPT ![q] = "open"]
                /\ UNCHANGED <<exists, owner, pc, ctr, last>>

OpenExisting(q) == /\ ppc[q] = "start" /\ exists
                   /\ ppc' = [ppc EXCEPT ![q] = "open"]
                   /\ UNCHANGED <<exists, phys, owner, pc, ctr, last>>

(* the lock on a byte stays with its holder until that holder unlocks it - whatever else the
   holder's process does with the locks of other terminals in the meantime                   *)
TryLockf(p, ok) == /\ ppc[ProcOf[p]] = "open" /\ pc[p] = "idle"
                   /\ ok = (owner[Bytes[p]] = None)
                   /\ IF ok THEN /\ owner' = [owner EXCEPT ![Bytes[p]] = p]
                                 /\ pc' = [pc EXCEPT ![p] = "locked"]
                            ELSE UNCHANGED <<owner, pc>>
                   /\ UNCHANGED <<exists, phys, ppc, ctr, last>>

ReadByte(p, v) == /\ pc[p] = "locked"
                  /\ v = Logical(Bytes[p])
                  /\ ctr' = [ctr EXCEPT ![p] = v]
                  /\ pc' = [pc EXCEPT ![p] = "holding"]
                  /\ UNCHANGED <<exists, phys, owner, ppc, last>>

Next(p, c) == /\ pc[p] = "holding"
              /\ c = ctr[p]
              /\ ctr' = [ctr EXCEPT ![p] = Succ(c)]
              /\ last' = [last EXCEPT ![Bytes[p]] = c]
              /\ UNCHANGED <<exists, phys, owner, ppc, pc>>

WriteByte(p) == /\ pc[p] = "holding"
                /\ phys' = SetByte(phys, Bytes[p], ctr[p])
                /\ pc' = [pc EXCEPT ![p] = "written"]
                /\ UNCHANGED <<exists, owner, ppc, ctr, last>>

Unlockf(p) == /\ pc[p] = "written"
              /\ owner' = [owner EXCEPT ![Bytes[p]] = None]
              /\ pc' = [pc EXCEPT ![p] = "idle"]
              /\ UNCHANGED <<exists, phys, ppc, ctr, last>>

LNext == \/ \E q \in Procs : Create(q) \/ WriteInit(q) \/ OpenExisting(q)
         \/ \E p \in Users :
            \/ \E ok \in BOOLEAN : TryLockf(p, ok)
            \/ ReadByte(p, Logical(Bytes[p]))
            \/ Next(p, ctr[p]) \/ WriteByte(p) \/ Unlockf(p)
LSpec == LInit /\ [][LNext]_lvars

-----------------------------------------------------------------------------
Holding(p) == pc[p] \in {"locked", "holding", "written"}
MutualExclusion == \A p, q \in Users : (Holding(p) /\ Holding(q) /\ Bytes[p] = Bytes[q]) => p = q
OwnerAgrees == \A p \in Users : Holding(p) <=> owner[Bytes[p]] = p
(* ReadByte never observes a missing byte, and counters are always valid *)
ValidCounters == /\ \A p \in Users : ctr[p] \in 0 .. 7
                 /\ Len(phys) <= N /\ \A i \in 1 .. Len(phys) : phys[i] \in 0 .. 7
(* the chain: whoever holds terminal b continues from the last message sent for b, and while
   nobody holds it the file carries the successor                                          *)
Chain == \A b \in 0 .. N - 1 : last[b] # None =>
            /\ \A p \in Users : (pc[p] \in {"holding", "written"} /\ Bytes[p] = b) => ctr[p] = Succ(last[b])
            /\ (owner[b] = None => Logical(b) = Succ(last[b]))
(* 0 is only ever the very first counter of a terminal *)
ZeroOnlyFirst == \A p \in Users : (pc[p] \in {"holding", "written"} /\ ctr[p] = 0) => last[Bytes[p]] = None
=============================================================================
