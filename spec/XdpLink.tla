------------------------------- MODULE XdpLink -------------------------------
(* X04 - loading an XDP program and attaching it to / detaching it from a network interface.

   Code:  ebpfcat/xdp.py   XDRFD (connection_made, datagram_received, error_received),
                           XDP._netlink, XDP.attach, XDP.detach, XDP.run, XDPFlags
          ebpfcat/ebpf.py  EBPF.load, EBPF.close (EBPF.assemble and bpf.prog_load take part in load)

   The module has three parts.

   1. BYTES.  The rtnetlink messages, as byte tuples (0..255, host order = little endian):
      a parser for the RTM_SETLINK request (SetlinkOk and the extractors), a parser for a
      datagram of replies (MsgWalk, IsAck), and reference encoders (Build, AckBytes, ...) which
      the design model uses and whose round trip through the parser is checked by MC_XdpLink.
   2. KERNEL.  What the kernel does with a request (KSet): the interface state machine,
      per interface [skb, drv] = the program attached in generic / native mode (0 = none).
      Taken from net/core/dev.c dev_change_xdp_fd / dev_xdp_attach; compared with the real
      kernel by the optional part of checks/x04.py.
   3. LIFECYCLE.  One action per step the library takes (load, map load, socket open, send,
      receive, socket close, descriptor close, return) and per step of its environment (call,
      cancel).  Every action states what is REQUIRED at that step; values the requirements
      leave open (descriptor numbers, sequence numbers, the order of map loads, whether `run`
      closes the descriptor after attaching ...) are parameters bound from the trace.

   Requirements and where they are taken from
     R1  every datagram sent is ONE well-formed RTM_SETLINK request: nlmsghdr {len = size of
         the datagram, type 19, flags NLM_F_REQUEST|NLM_F_ACK = 5, seq, pid}, ifinfomsg
         {family AF_UNSPEC, index = the interface, flags = change = 0 (anything else would
         change the interface's flags)}, exactly one attribute IFLA_XDP|NLA_F_NESTED holding
         exactly one IFLA_XDP_FD (s32) and one IFLA_XDP_FLAGS (u32); attribute lengths include
         the 4-byte header, attributes are padded to 4.      [linux/rtnetlink.h, if_link.h,
         netlink.h; the message "adopted from xdp1_user.c" (xdp.py:65)]
     R2  attach / run load the program first and pass ITS descriptor, which is open when the
         request is sent; the interface index is that of the network named in the call, the
         flags are the call's.  detach / leaving run send descriptor -1 with the same index
         and flags.                        [docstrings of XDP.attach / detach / run, ebpf.rst]
     R3  one request per call (a second one only to take back a cancelled entry of `run`).
     R4  the call returns normally iff the kernel's acknowledgement of ITS request (NLMSG_ERROR
         with the request's sequence number) carries error 0, and raises OSError with errno e
         iff it carries -e; any other message on the socket is not the acknowledgement and
         does not complete the call.            [netlink(7); OSError.errno is positive, as in
         ebpfcat.bpf.bpf(); consistency: the caller must learn what the kernel did]
     R5  every socket opened is closed when the call ends, however it ends.   [consistency]
     R6  a cancelled call ends with CancelledError.                          [asyncio]
     R7  a failure of the environment (prog_load, socket(), sendto) is raised as the OSError
         it was, and nothing is sent after a failed load.                    [consistency]
     R8  `run`: "attach this program to the network while the context manager is running, and
         detach it afterwards" - when the context has ended in any way (entry failed or was
         cancelled, body returned, raised or was cancelled) no program loaded by it is still
         attached, unless the kernel refused the detach request (then that error is raised).
         The body's exception is propagated.                   [docstring of XDP.run, ebpf.rst]
     R9  load: `loaded` is set, every map's load is called once after prog_load ("called
         after the program has been loaded", Map.load); close: os.close on the open program
         descriptor; only own, open descriptors are ever closed; `file_descriptor` never names
         a closed descriptor; a successful attach leaves the descriptor open (ParallelEtherCat
         closes it itself); no open descriptor is left without a handle.     [consistency]
     R11 every load of one object gives the kernel the same program: assemble() "return[s]
         the assembled program".                         [docstring of EBPF.assemble]
     R10 (simulator) the fake kernel's verdicts, replies and interface state are KSet's.

   Observations (behaviours of /repo that break a requirement) are NOT accepted here; they are
   recognised in XdpLinkTrace.tla, which passes an explicit excuse to RetWith.              *)
EXTENDS Integers, Sequences, FiniteSets, TLC

-----------------------------------------------------------------------------
(* 1. BYTES *)

U8(b, o) == b[o + 1]
U16(b, o) == b[o + 1] + 256 * b[o + 2]
(* 32-bit fields as signed numbers: TLC's integers are 32 bit; u32 fields are required to be
   non-negative where their value matters *)
S32(b, o) == b[o + 1] + 256 * b[o + 2] + 65536 * b[o + 3]
             + 16777216 * (IF b[o + 4] >= 128 THEN b[o + 4] - 256 ELSE b[o + 4])
Align4(n) == ((n + 3) \div 4) * 4
IsBytes(b) == \A i \in 1 .. Len(b) : b[i] \in 0 .. 255

LE16(v) == <<v % 256, v \div 256>>
LE32(v) == IF v >= 0
           THEN <<v % 256, (v \div 256) % 256, (v \div 65536) % 256, v \div 16777216>>
           ELSE LET w == (v + 2147483647) + 1 IN
                <<w % 256, (w \div 256) % 256, (w \div 65536) % 256, (w \div 16777216) + 128>>

RTM_SETLINK == 19
NLMSG_ERROR == 2
IFLA_XDP == 43
NLA_F_NESTED == 32768
NlaType(t) == t % 16384            \* without NLA_F_NESTED / NLA_F_NET_BYTEORDER
IFLA_XDP_FD == 1
IFLA_XDP_FLAGS == 3

(* attributes between offsets pos and end: <<[ty, off, ln]>>; ok = they tile the range exactly *)
RECURSIVE Walk(_, _, _, _)
Walk(b, pos, end, acc) ==
    IF pos = end THEN [ok |-> TRUE, at |-> acc]
    ELSE IF pos + 4 > end THEN [ok |-> FALSE, at |-> acc]
    ELSE IF U16(b, pos) < 4 \/ pos + Align4(U16(b, pos)) > end THEN [ok |-> FALSE, at |-> acc]
    ELSE Walk(b, pos + Align4(U16(b, pos)), end,
              Append(acc, [ty |-> U16(b, pos + 2), off |-> pos, ln |-> U16(b, pos)]))

Req(b) == [len |-> S32(b, 0), type |-> U16(b, 4), flags |-> U16(b, 6), seq |-> S32(b, 8),
           family |-> U8(b, 16), index |-> S32(b, 20), ififlags |-> S32(b, 24),
           change |-> S32(b, 28)]
Top(b) == Walk(b, 32, Len(b), <<>>)
Nested(b, x) == Walk(b, x.off + 4, x.off + x.ln, <<>>)
Count(at, t) == Cardinality({i \in 1 .. Len(at) : at[i].ty = t})

NestedOk(b, x) ==
    /\ x.ty = NLA_F_NESTED + IFLA_XDP
    /\ LET n == Nested(b, x) IN
         /\ n.ok
         /\ \A i \in 1 .. Len(n.at) : n.at[i].ty \in {IFLA_XDP_FD, IFLA_XDP_FLAGS} /\ n.at[i].ln = 8
         /\ Count(n.at, IFLA_XDP_FD) = 1
         /\ Count(n.at, IFLA_XDP_FLAGS) = 1

(* R1 *)
SetlinkOk(b) ==
    /\ Len(b) >= 32 /\ IsBytes(b)
    /\ LET r == Req(b) IN
         /\ r.len = Len(b) /\ r.type = RTM_SETLINK /\ r.flags = 5
         /\ r.family = 0 /\ r.ififlags = 0 /\ r.change = 0
    /\ Top(b).ok /\ Len(Top(b).at) = 1
    /\ NestedOk(b, Top(b).at[1])

NestedAttr(b, t) == LET n == Nested(b, Top(b).at[1]).at IN n[CHOOSE i \in 1 .. Len(n) : n[i].ty = t]
ReqIndex(b) == S32(b, 20)
ReqSeq(b) == S32(b, 8)
XdpFd(b) == S32(b, NestedAttr(b, IFLA_XDP_FD).off + 4)
XdpFlagsOf(b) == S32(b, NestedAttr(b, IFLA_XDP_FLAGS).off + 4)

(* the request a correct client builds *)
Build(ifx, fd, flags, seq) ==
    LE32(52) \o LE16(RTM_SETLINK) \o LE16(5) \o LE32(seq) \o LE32(0)
    \o <<0, 0>> \o LE16(0) \o LE32(ifx) \o LE32(0) \o LE32(0)
    \o LE16(20) \o LE16(NLA_F_NESTED + IFLA_XDP)
    \o LE16(8) \o LE16(IFLA_XDP_FD) \o LE32(fd)
    \o LE16(8) \o LE16(IFLA_XDP_FLAGS) \o LE32(flags)

(* a datagram from the kernel: messages <<[off, len, type, flags, seq]>> *)
RECURSIVE MsgWalk(_, _, _)
MsgWalk(b, pos, acc) ==
    IF pos >= Len(b) THEN [ok |-> pos = Len(b) \/ pos = Align4(Len(b)), at |-> acc]
    ELSE IF pos + 16 > Len(b) THEN [ok |-> FALSE, at |-> acc]
    ELSE IF S32(b, pos) < 16 \/ pos + S32(b, pos) > Len(b) THEN [ok |-> FALSE, at |-> acc]
    ELSE MsgWalk(b, pos + Align4(S32(b, pos)),
                 Append(acc, [off |-> pos, len |-> S32(b, pos), type |-> U16(b, pos + 4),
                              flags |-> U16(b, pos + 6), seq |-> S32(b, pos + 8)]))

(* message m of datagram b claims to be the acknowledgement of request req ... *)
ClaimsAck(m, req) == m.type = NLMSG_ERROR /\ m.seq = ReqSeq(req)
(* ... and is one: error code, then the header of the request it answers *)
IsAck(b, m, req) == /\ ClaimsAck(m, req) /\ m.len >= 36
                    /\ SubSeq(b, m.off + 21, m.off + 36) = SubSeq(req, 1, 16)
AckErr(b, m) == S32(b, m.off + 16)

(* the kernel's acknowledgement: success carries the request's header only (NLM_F_CAPPED =
   0x100), an error echoes the whole request *)
AckBytes(req, err, pid) ==
    IF err = 0
    THEN LE32(36) \o LE16(NLMSG_ERROR) \o LE16(256) \o SubSeq(req, 9, 12) \o LE32(pid)
         \o LE32(0) \o SubSeq(req, 1, 16)
    ELSE LE32(20 + Len(req)) \o LE16(NLMSG_ERROR) \o LE16(0) \o SubSeq(req, 9, 12) \o LE32(pid)
         \o LE32(err) \o req
(* an unrelated message: RTM_NEWLINK notification (type 16) / NLMSG_NOOP (1) / a stale
   acknowledgement with another sequence number *)
NoiseBytes(kind, req) ==
    CASE kind = "newlink" -> LE32(32) \o LE16(16) \o LE16(0) \o LE32(0) \o LE32(0)
                             \o <<0, 0>> \o LE16(772) \o LE32(1) \o LE32(65609) \o LE32(0)
      [] kind = "noop" -> LE32(16) \o LE16(1) \o LE16(0) \o LE32(0) \o LE32(0)
      [] kind = "stale_ok" -> LE32(36) \o LE16(NLMSG_ERROR) \o LE16(256) \o LE32(ReqSeq(req) + 1)
                              \o LE32(0) \o LE32(0) \o LE32(52) \o LE16(RTM_SETLINK) \o LE16(5)
                              \o LE32(ReqSeq(req) + 1) \o LE32(0)
      [] kind = "stale_err" -> LE32(36) \o LE16(NLMSG_ERROR) \o LE16(256) \o LE32(ReqSeq(req) + 1)
                               \o LE32(0) \o LE32(-16) \o LE32(52) \o LE16(RTM_SETLINK) \o LE16(5)
                               \o LE32(ReqSeq(req) + 1) \o LE32(0)

-----------------------------------------------------------------------------
(* 2. KERNEL *)

NoProg == [skb |-> 0, drv |-> 0]
SKB == 2
DRV == 4
EBADF == 9
EEXIST == 17
ENODEV == 19
EINVAL == 22
EOPNOTSUPP == 95

FdProg(fdtab, fd) == (CHOOSE e \in fdtab : e[1] = fd)[2]
FdOpen(fdtab, fd) == \E e \in fdtab : e[1] = fd

(* do_setlink -> dev_change_xdp_fd -> dev_xdp_attach for flags SKB_MODE / DRV_MODE (the two
   members of XDPFlags; every other flag word is outside this model and answered EINVAL):
     forced # 0        the kernel fails for a reason outside the model (ENOMEM, EPERM, EBUSY
                       of an upper device ...): nothing changes
     fd >= 0           the descriptor must be an open program; the OTHER mode must be empty
                       ("Native and generic XDP can't be active at the same time"); native
                       mode needs driver support; the program replaces what was attached in
                       this mode
     fd < 0            the program attached in THIS mode is removed; nothing attached in this
                       mode is a success that changes nothing (also when the other mode holds
                       a program)                                                          *)
KSet(st, nat, fdtab, ifx, fd, flags, forced) ==
    IF forced # 0 THEN [res |-> -forced, ifs |-> st]
    ELSE IF ifx \notin DOMAIN st THEN [res |-> -ENODEV, ifs |-> st]
    ELSE IF flags \notin {SKB, DRV} THEN [res |-> -EINVAL, ifs |-> st]
    ELSE IF fd >= 0 /\ ~FdOpen(fdtab, fd) THEN [res |-> -EBADF, ifs |-> st]
    ELSE LET cur == IF flags = SKB THEN st[ifx].skb ELSE st[ifx].drv
             oth == IF flags = SKB THEN st[ifx].drv ELSE st[ifx].skb
             new == IF fd >= 0 THEN FdProg(fdtab, fd) ELSE 0
         IN IF new # 0 /\ oth # 0 THEN [res |-> -EEXIST, ifs |-> st]
            ELSE IF new = cur THEN [res |-> 0, ifs |-> st]
            ELSE IF flags = DRV /\ ~nat[ifx] THEN [res |-> -EOPNOTSUPP, ifs |-> st]
            ELSE [res |-> 0,
                  ifs |-> IF flags = SKB THEN [st EXCEPT ![ifx].skb = new]
                          ELSE [st EXCEPT ![ifx].drv = new]]

-----------------------------------------------------------------------------
(* 3. LIFECYCLE *)

VARIABLES ifs,      \* interface index -> [skb, drv]                          (kernel)
          native,   \* interface index -> the driver has native XDP            (constant)
          nmaps,    \* number of maps of the program                           (constant)
          fdt,      \* open program descriptors of this process: {<<fd, program>>}
          nprog,    \* programs loaded so far (program k = the k-th load)
          ever,     \* a load has succeeded
          image,    \* the program (a checksum of its instructions) given to the first prog_load
          orph,     \* open descriptors without a handle, already reported
          socks,    \* netlink sockets of the call in progress, in order of creation
          cl,       \* the call in progress
          ctx       \* the `run` context

xvars == <<ifs, native, nmaps, fdt, nprog, ever, image, orph, socks, cl, ctx>>

Ops == {"load", "attach", "detach", "enter", "exit", "close"}
NetOps == {"attach", "detach", "enter", "exit"}
AttachOps == {"attach", "enter"}

Idle == [pc |-> "idle", op |-> "none", ifx |-> 0, flags |-> 0, how |-> "none", prog |-> 0,
         fd |-> -1, maps |-> {}, nloads |-> 0, fail |-> 0, prim |-> 0, comp |-> 0,
         cancel |-> FALSE, pre |-> {}]
NoCtx == [on |-> FALSE, ifx |-> 0, flags |-> 0, prog |-> 0]
NewSock == [st |-> "open", sent |-> FALSE, lost |-> FALSE, req |-> <<>>, res |-> 0,
            acked |-> FALSE, noise |-> FALSE]

Fds(t) == {e[1] : e \in t}

(* cfg: <<[ifx, native]>> *)
Init(cfg, nm) ==
    /\ ifs = [i \in {cfg[k].ifx : k \in 1 .. Len(cfg)} |-> NoProg]
    /\ native = [i \in {cfg[k].ifx : k \in 1 .. Len(cfg)} |->
                    \E k \in 1 .. Len(cfg) : cfg[k].ifx = i /\ cfg[k].native]
    /\ nmaps = nm
    /\ fdt = {} /\ nprog = 0 /\ ever = FALSE /\ image = 0 /\ orph = {}
    /\ socks = <<>> /\ cl = Idle /\ ctx = NoCtx

Running == cl.pc = "run"

(* the user calls the library.  exit is called for the context the entry created. *)
Call(op, ifx, flags, how) ==
    /\ cl.pc = "idle" /\ op \in Ops
    /\ op \in NetOps => ifx \in DOMAIN ifs /\ flags \in {SKB, DRV}
    /\ op = "enter" => ~ctx.on
    /\ op = "exit" => ctx.on /\ ifx = ctx.ifx /\ flags = ctx.flags
                      /\ how \in {"normal", "raise", "cancelled"}
    /\ cl' = [Idle EXCEPT !.pc = "run", !.op = op, !.ifx = ifx, !.flags = flags, !.how = how,
                          !.pre = Fds(fdt), !.prog = IF op = "exit" THEN ctx.prog ELSE 0]
    /\ UNCHANGED <<ifs, native, nmaps, fdt, nprog, ever, image, orph, socks, ctx>>

(* R11: the object's program is the same at every load *)
SameImage(img) == img # 0 /\ image \in {0, img}

(* bpf.prog_load returned descriptor fd  (R2: before anything is sent).
   xImg: R11 is excused (XdpLinkTrace, for a recognised observation; never here) *)
LoadWith(fd, img, xImg) ==
    /\ Running /\ cl.op \in {"load"} \cup AttachOps
    /\ cl.nloads = 0 /\ cl.fail = 0 /\ cl.prim = 0
    /\ ~FdOpen(fdt, fd)
    /\ xImg \/ SameImage(img)
    /\ image' = IF image = 0 THEN img ELSE image
    /\ nprog' = nprog + 1
    /\ fdt' = fdt \cup {<<fd, nprog + 1>>}
    /\ ever' = TRUE
    /\ cl' = [cl EXCEPT !.nloads = 1, !.prog = nprog + 1, !.fd = fd]
    /\ UNCHANGED <<ifs, native, nmaps, orph, socks, ctx>>
Load(fd, img) == LoadWith(fd, img, FALSE)

(* the environment fails: prog_load / socket() / sendto raise OSError(errno) *)
LoadFailWith(errno, img, xImg) ==
    /\ Running /\ cl.op \in {"load"} \cup AttachOps
    /\ cl.nloads = 0 /\ cl.fail = 0 /\ cl.prim = 0 /\ errno > 0
    /\ xImg \/ SameImage(img)
    /\ image' = IF image = 0 THEN img ELSE image
    /\ cl' = [cl EXCEPT !.fail = errno, !.nloads = 2]
    /\ UNCHANGED <<ifs, native, nmaps, fdt, nprog, ever, orph, socks, ctx>>
LoadFail(errno, img) == LoadFailWith(errno, img, FALSE)

(* R9: each map's load, once, after the program is loaded *)
MapLoad(m) ==
    /\ Running /\ cl.nloads = 1
    /\ m \in 1 .. nmaps /\ m \notin cl.maps
    /\ cl' = [cl EXCEPT !.maps = @ \cup {m}]
    /\ UNCHANGED <<ifs, native, nmaps, fdt, nprog, ever, image, orph, socks, ctx>>

MayOpen == /\ Running /\ cl.op \in NetOps /\ cl.fail = 0
           /\ cl.op \in AttachOps => cl.nloads = 1          \* R2, R7: load first

Open(s) ==
    /\ MayOpen /\ s = Len(socks) + 1
    /\ socks' = Append(socks, NewSock)
    /\ UNCHANGED <<ifs, native, nmaps, fdt, nprog, ever, image, orph, cl, ctx>>

OpenFail(errno) ==
    /\ MayOpen /\ errno > 0
    /\ cl' = [cl EXCEPT !.fail = errno]
    /\ UNCHANGED <<ifs, native, nmaps, fdt, nprog, ever, image, orph, socks, ctx>>

(* what the request of this call must say (R1, R2, R3) *)
Primary(b) ==
    /\ cl.prim = 0
    /\ XdpFd(b) = IF cl.op \in AttachOps THEN cl.fd ELSE -1
    /\ cl.op \in AttachOps => <<cl.fd, cl.prog>> \in fdt
(* an entry of `run` that was cancelled after its request went out may be taken back *)
Compensation(b) ==
    /\ cl.prim # 0 /\ cl.comp = 0 /\ cl.op = "enter" /\ cl.cancel
    /\ XdpFd(b) = -1
Sendable(s, b) ==
    /\ Running /\ cl.op \in NetOps
    /\ s \in 1 .. Len(socks) /\ socks[s].st = "open" /\ ~socks[s].sent /\ ~socks[s].lost
    /\ SetlinkOk(b)
    /\ ReqIndex(b) = cl.ifx /\ XdpFlagsOf(b) = cl.flags
    /\ Primary(b) \/ Compensation(b)

(* the request goes out and the kernel acts on it at once (rtnetlink is synchronous) *)
Send(s, b, forced) ==
    /\ Sendable(s, b)
    /\ cl' = IF cl.prim = 0 THEN [cl EXCEPT !.prim = s] ELSE [cl EXCEPT !.comp = s]
    /\ LET k == KSet(ifs, native, fdt, ReqIndex(b), XdpFd(b), XdpFlagsOf(b), forced) IN
         /\ ifs' = k.ifs
         /\ socks' = [socks EXCEPT ![s].sent = TRUE, ![s].req = b, ![s].res = k.res]
    /\ UNCHANGED <<native, nmaps, fdt, nprog, ever, image, orph, ctx>>

(* sendto fails: the kernel never sees the request *)
SendFail(s, b, errno) ==
    /\ Sendable(s, b) /\ errno > 0
    /\ LET c == IF cl.prim = 0 THEN [cl EXCEPT !.prim = s] ELSE [cl EXCEPT !.comp = s] IN
         cl' = [c EXCEPT !.fail = errno]
    /\ socks' = [socks EXCEPT ![s].lost = TRUE, ![s].req = b]
    /\ UNCHANGED <<ifs, native, nmaps, fdt, nprog, ever, image, orph, ctx>>

(* a datagram is delivered on socket s.  R10: whatever claims to be the acknowledgement is the
   one the kernel owes, once.  noise = a message that is not the acknowledgement arrived
   before it. *)
Recv(s, b) ==
    /\ s \in 1 .. Len(socks) /\ socks[s].st = "open" /\ socks[s].sent
    /\ IsBytes(b)
    /\ LET w == MsgWalk(b, 0, <<>>)
           claims == {i \in 1 .. Len(w.at) : ClaimsAck(w.at[i], socks[s].req)}
       IN /\ w.ok /\ Len(w.at) >= 1
          /\ Cardinality(claims) <= 1
          /\ \A i \in claims : /\ ~socks[s].acked
                               /\ IsAck(b, w.at[i], socks[s].req)
                               /\ AckErr(b, w.at[i]) = socks[s].res
          /\ socks' = [socks EXCEPT
                ![s].acked = @ \/ claims # {},
                ![s].noise = @ \/ (~socks[s].acked /\ \E i \in 1 .. Len(w.at) :
                                       i \notin claims /\ \A j \in claims : i < j)]
    /\ UNCHANGED <<ifs, native, nmaps, fdt, nprog, ever, image, orph, cl, ctx>>

SClose(s) ==
    /\ s \in 1 .. Len(socks) /\ socks[s].st = "open"
    /\ socks' = [socks EXCEPT ![s].st = "closed"]
    /\ UNCHANGED <<ifs, native, nmaps, fdt, nprog, ever, image, orph, cl, ctx>>

(* R9: os.close is called on an own, open program descriptor only *)
Close(fd) ==
    /\ Running /\ FdOpen(fdt, fd)
    /\ fdt' = {e \in fdt : e[1] # fd}
    /\ orph' = orph \ {fd}
    /\ UNCHANGED <<ifs, native, nmaps, nprog, ever, image, socks, cl, ctx>>

(* close() without a descriptor to close is a misuse whose outcome is not specified; it must
   not close anything *)
CloseNone ==
    /\ Running /\ cl.op = "close" /\ Fds(fdt) \subseteq orph
    /\ UNCHANGED xvars

Cancel ==
    /\ Running /\ ~cl.cancel
    /\ cl' = [cl EXCEPT !.cancel = TRUE]
    /\ UNCHANGED <<ifs, native, nmaps, fdt, nprog, ever, image, orph, socks, ctx>>

-----------------------------------------------------------------------------
(* the return of a call.  out = [res, errno, loaded, handle]:
     res     "ok" | "propagate" (leaving run: the body's exception goes on) | "oserror" (errno)
             | "cancelled" | anything else (another exception, a swallowed exception, a hang)
     loaded  the attribute `loaded`
     handle  the attribute `file_descriptor`: a number, -1 = None, -2 = not set          *)

Answered == cl.prim # 0 /\ socks[cl.prim].acked
Verdict == socks[cl.prim].res

(* R4, R6, R7 *)
OutOk(out) ==
    IF cl.cancel THEN out.res = "cancelled"
    ELSE IF cl.fail # 0 THEN out.res = "oserror" /\ out.errno = cl.fail
    ELSE CASE cl.op = "load" -> cl.nloads = 1 /\ out.res = "ok"
           [] cl.op = "close" -> (cl.pre \ orph) # {} => out.res = "ok"
           [] OTHER ->
                /\ Answered
                /\ IF Verdict < 0 THEN out.res = "oserror" /\ out.errno = -Verdict
                   ELSE out.res = IF cl.op = "exit" /\ cl.how # "normal" THEN "propagate" ELSE "ok"

(* R9: the attributes say what is the case *)
ObjOk(out) ==
    /\ out.loaded = ever
    /\ out.handle \in {-1, -2} \/ FdOpen(fdt, out.handle)
    /\ (cl.op = "attach" /\ out.res = "ok") => out.handle = cl.fd
    /\ (cl.op = "close" /\ (cl.pre \ orph) # {}) => out.handle = -1 /\ Fds(fdt) \subseteq orph
    /\ (cl.nloads = 1 /\ ~cl.cancel) => cl.maps = 1 .. nmaps
Leaked(out) == (Fds(fdt) \ {out.handle}) \ orph
LeakOk(out) == Leaked(out) = {}

(* R8 *)
Holds(i, p) == p # 0 /\ (ifs[i].skb = p \/ ifs[i].drv = p)
Refused == cl.fail # 0 \/ (Answered /\ Verdict < 0)
(* taking back a cancelled entry was tried and the environment / the kernel refused *)
CompRefused == /\ cl.prim # 0 /\ cl.cancel
               /\ cl.fail # 0 \/ (cl.comp # 0 /\ socks[cl.comp].sent /\ socks[cl.comp].res < 0)
RunOk(out) ==
    /\ (cl.op = "enter" /\ out.res # "ok" /\ ~CompRefused) => ~Holds(cl.ifx, cl.prog)
    /\ (cl.op = "exit" /\ ~Refused) => ~Holds(cl.ifx, cl.prog)

(* xOut / xLeak / xRun: the respective requirement is excused (used by XdpLinkTrace for
   recognised observations only; Ret excuses nothing) *)
RetWith(out, xOut, xLeak, xRun) ==
    /\ Running
    /\ \A s \in 1 .. Len(socks) : socks[s].st = "closed"                   \* R5
    /\ xOut \/ OutOk(out)
    /\ ObjOk(out)
    /\ xLeak \/ LeakOk(out)
    /\ xRun \/ RunOk(out)
    /\ orph' = orph \cup Leaked(out)
    /\ ctx' = IF cl.op = "enter" /\ out.res = "ok"
              THEN [on |-> TRUE, ifx |-> cl.ifx, flags |-> cl.flags, prog |-> cl.prog]
              ELSE IF cl.op \in {"enter", "exit"} THEN NoCtx ELSE ctx
    /\ cl' = Idle
    /\ socks' = <<>>                       \* sockets are numbered per call
    /\ UNCHANGED <<ifs, native, nmaps, fdt, nprog, ever, image>>

Ret(out) == RetWith(out, FALSE, FALSE, FALSE)

-----------------------------------------------------------------------------
(* invariants *)
(* the kernel never has a generic and a native program on one interface *)
OneMode == \A i \in DOMAIN ifs : ifs[i].skb = 0 \/ ifs[i].drv = 0
(* what is attached was loaded by this process *)
AttachedKnown == \A i \in DOMAIN ifs : ifs[i].skb \in 0 .. nprog /\ ifs[i].drv \in 0 .. nprog
(* descriptors name distinct programs *)
FdtOk == \A e, f \in fdt : (e[1] = f[1] \/ e[2] = f[2]) => e = f
(* between calls no socket exists *)
QuietSockets == cl.pc = "idle" => socks = <<>>
=============================================================================
