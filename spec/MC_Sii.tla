------------------------------ MODULE MC_Sii ------------------------------
(* exhaustive model of the SII protocol: every word address of a small image (and addresses at
   and beyond its end), 4- and 8-byte reads, 4- and 8-byte interfaces, initially busy or not,
   every busy duration 0..MaxBusy at every poll, any number of reads one after the other      *)
EXTENDS Sii
CONSTANTS ImageLen, MaxAddr
MCImage == [k \in 1 .. ImageLen |-> 10 + k]       \* all bytes different
MCAddrs == 0 .. MaxAddr
MCSpec == SInit(MCImage) /\ [][SNext(MCAddrs)]_svars /\ WF_svars(SNext(MCAddrs))
Terminates == (cl.pc = "wait") ~> (cl.pc = "done")
=============================================================================
