------------------------------- MODULE Bytes -------------------------------
(* Python's struct module for single-value integer formats, over the words of Wide.tla.

   A format is a sequence of one-character strings: <<"H">>, <<"<", "h">>, <<"!", "Q">> ...
   (TLC cannot index into a string).  The last element is the type letter, an optional first
   element the byte order:  none = native (this host, like the eBPF machine of Ebpf.tla, is
   little endian), "<" little endian, ">" and "!" big endian (network order).

   A value is an 8-byte two's-complement word (little-endian byte tuple): the integer
   struct.unpack returns, sign-extended (b h i q) or zero-extended (B H I Q).                 *)
EXTENDS Wide

Letters == {"B", "H", "I", "Q", "b", "h", "i", "q"}
Orders == {"", "<", ">", "!"}
Letter(fmt) == fmt[Len(fmt)]
Order(fmt) == IF Len(fmt) = 1 THEN "" ELSE fmt[1]
IsFmt(fmt) == /\ Len(fmt) \in {1, 2}
              /\ Letter(fmt) \in Letters
              /\ Order(fmt) \in Orders

(* struct.calcsize *)
Size(fmt) == CASE Letter(fmt) \in {"B", "b"} -> 1
               [] Letter(fmt) \in {"H", "h"} -> 2
               [] Letter(fmt) \in {"I", "i"} -> 4
               [] Letter(fmt) \in {"Q", "q"} -> 8
Signed(fmt) == Letter(fmt) \in {"b", "h", "i", "q"}
BigEndian(fmt) == Order(fmt) \in {">", "!"}

Reverse(s) == Mat([i \in 1 .. Len(s) |-> s[Len(s) + 1 - i]], Len(s))
(* the bytes in order of increasing significance *)
Little(fmt, bytes) == IF BigEndian(fmt) THEN Reverse(bytes) ELSE bytes

(* struct.unpack(fmt, bytes)[0], Len(bytes) = Size(fmt) *)
Unpack(fmt, bytes) == IF Signed(fmt) THEN WSext(Little(fmt, bytes), 8)
                      ELSE WZext(Little(fmt, bytes), 8)

(* the values struct.pack accepts for fmt (anything else raises struct.error) *)
InRange(fmt, v) == IF Signed(fmt) THEN WFitsS(v, Size(fmt)) ELSE WFitsU(v, Size(fmt))
(* struct.pack(fmt, v) for InRange(fmt, v); for other v: the value reduced modulo 256^size,
   which is what storing a wider machine word into the field means *)
Pack(fmt, v) == Little(fmt, WTrunc(v, Size(fmt)))

(* seq with the bytes at offsets pos .. pos+Len(bytes)-1 (0-based) replaced; all others kept *)
Patch(seq, pos, bytes) ==
    Mat([i \in 1 .. Len(seq) |-> IF i > pos /\ i <= pos + Len(bytes) THEN bytes[i - pos] ELSE seq[i]],
        Len(seq))
(* the n bytes of seq at 0-based offset pos *)
Slice(seq, pos, n) == SubSeq(seq, pos + 1, pos + n)
=============================================================================
