SPECIFICATION SSpec
CONSTANTS MaxSize = 1500
          Families = {"l0", "l32", "mix", "l86", "l87", "l730", "l1471"}
          MaxFill = 15
          TailDepth = 1
          Variants = {0}
          ProbeAt = {0, 2, 14, 15}
INVARIANT Emit
CHECK_DEADLOCK FALSE
