"""X09 - real terminal classes on simulated devices built from the records of ebpfcat/testdata.py.

A record of testdata.py is what was read from a REAL terminal: `eeprom` (the SII image) and `sdo`
({(index, subindex): bytes} of its object dictionary).  `device(record)` makes a `simbus.SimTerminal`
that serves exactly that: the image through the SII registers, the dictionary through the CoE server of
harness/odserver (SDO upload / download, SDO information).  Where a record has no subindex 0 for an
object the number of consecutive subindices from 1 is served (as the package's MockTerminal does);
entry descriptions (which the records do not contain) are synthesised for the SDO information service:
the recorded entries with the bit length of their recorded value, gaps as empty descriptions.

`run_segment(items)` puts one device per item on one simulated segment, creates the REAL class of each
item on a REAL EtherCat object, runs the real `initialize` of all of them concurrently (as the test
suite does with gather) and records, per item, what happened: the table parse_pdos built, the sizes, what
every declaration of the class resolved to, the sync-manager registers and the assignment objects of
the device afterwards.  Nothing is judged here.
"""
import logging
import os
import re
import struct
from ast import literal_eval

from . import core, odserver, simbus, simloop

PDO_RELEVANT = lambda i: i in (0x1c12, 0x1c13) or 0x1400 <= i < 0x1c00     # parameter, mapping objects


def load_records():
    with open(os.path.join(core.REPO, "ebpfcat", "testdata.py")) as f:
        return literal_eval(f.read())


# ---- the device side ---------------------------------------------------------------------------

def categories(image):
    """[(type, bytes)] - used only to build devices and derived images, never to judge"""
    pos, out = 0x80, []
    while pos + 4 <= len(image):
        t, n = struct.unpack_from("<HH", image, pos)
        if t == 0xffff:
            break
        out.append((t, bytes(image[pos + 4:pos + 4 + 2 * n])))
        pos += 4 + 2 * n
    return out


def rebuild(image, cats):
    img = bytes(image[:0x80])
    for t, body in cats:
        img += struct.pack("<HH", t, len(body) // 2) + body
    return img + b"\xff\xff"


def nomailbox_variant(record):
    """the same image without the two mailbox sync managers (and so without CoE): what a master sees of
    a terminal of this PDO structure that has no mailbox.  The PDOs' sync-manager fields are renumbered."""
    cats = categories(record["eeprom"])
    sm = dict(cats).get(41, b"")
    keep, renum = [], {}
    for i in range(len(sm) // 8):
        ent = sm[8 * i:8 * i + 8]
        if ent[4] & 0xf in (2, 6):
            continue
        renum[i] = len(keep)
        keep.append(ent)
    out = []
    for t, body in cats:
        if t == 41:
            body = b"".join(keep)
        elif t in (50, 51):
            b = bytearray(body)
            p = 0
            while p + 8 <= len(b):
                n = b[p + 2]
                if b[p + 3] in renum:
                    b[p + 3] = renum[b[p + 3]]
                p += 8 + 8 * n
            body = bytes(b)
        out.append((t, body))
    return dict(eeprom=rebuild(record["eeprom"], out), sdo={})


def served_dictionary(sdo):
    """-> (values for the SDO server, descriptions for the SDO information server)"""
    sdo = dict(sdo)
    for i in sorted({k[0] for k in sdo}):
        if (i, 0) not in sdo:
            n = 0
            while (i, n + 1) in sdo:
                n += 1
            sdo[i, 0] = bytes([n])
    values = {(i, False, s): bytes(v) for (i, s), v in sdo.items()}
    dic = []
    for i in sorted({k[0] for k in sdo}):
        subs = sorted(s for (ii, s) in sdo if ii == i)
        ents = []
        for s in range(0, max(subs) + 1):
            if (i, s) in sdo:
                ents.append(dict(sub=s, kind="val", dtype=5, bits=8 * len(sdo[i, s]), access=0x3f,
                                 name=list(b"e")))
            else:
                ents.append(dict(sub=s, kind="null"))
        dic.append(dict(index=i, dtype=0x2a, maxsub=max(subs), code=9, name=list(b"o"), ents=ents))
    return values, dic


def device(record, name):
    st = simbus.SimTerminal(name)
    st.eeprom = bytes(record["eeprom"])
    sm = dict(categories(st.eeprom)).get(41, b"")
    st.mem[0x800:0x800 + len(sm)] = sm          # so that the server can find the mailboxes when it is built
    st.srv = None
    out, inn = st.mailboxes()
    if out and inn:
        values, dic = served_dictionary(record["sdo"])
        st.srv = odserver.OdServer(st, dic, (), None, values)
        st.mbx_server = st.srv
    st.mem[0x800:0x880] = bytes(0x80)           # the real code has to write the sync managers itself
    return st


def case_of(record):
    """the device description as TermDeclEval takes it (raw: nothing decoded here)"""
    sdo = record["sdo"]
    return dict(image=list(record["eeprom"]),
                od=[dict(idx=i, sub=s, data=list(v)) for (i, s), v in sorted(sdo.items()) if PDO_RELEVANT(i)],
                odkeys=[[i, s] for (i, s) in sorted(sdo)],
                runs=[])


# ---- the class side ----------------------------------------------------------------------------

def _u32(v):
    return list(struct.pack("<I", v))


def _ov(size):
    if size is None:
        return dict(k="none", n=-1, c=[], s="")
    if isinstance(size, int):
        return dict(k="bit", n=int(size), c=[], s="")
    return dict(k="fmt", n=-1, c=[ord(ch) for ch in str(size)], s=str(size))


def _members(cls):
    """class attributes as getattr sees them (first definition in the MRO wins), in definition order"""
    seen = {}
    for c in cls.__mro__:
        for k, v in c.__dict__.items():
            seen.setdefault(k, v)
    return seen


def class_info(cls):
    """everything a terminal class declares, as data"""
    from ebpfcat.ebpfcat import PacketDesc, ProcessDesc, ServiceDesc, StructDesc
    from ebpfcat.ethercat import SyncManager
    decls, svcs = [], []

    def walk(owner, path, offs):
        for k, v in _members(owner).items():
            if isinstance(v, ProcessDesc):
                decls.append(dict(name=".".join(path + [k]), path=path + [k], kind="process",
                                  idx=v.index, off=offs[None], sub=v.subindex, dsm="", pos=0, poff=0,
                                  ov=_ov(v.size)))
            elif isinstance(v, PacketDesc):
                decls.append(dict(name=".".join(path + [k]), path=path + [k], kind="packet",
                                  idx=0, off=0, sub=0, dsm=v.sm.name, pos=v.position, poff=offs[v.sm],
                                  ov=_ov(v.size)))
            elif isinstance(v, ServiceDesc):
                svcs.append(dict(name=".".join(path + [k]), idx=v.index, off=offs[None], sub=v.subidx))
            elif isinstance(v, StructDesc) and not path:
                walk(v.struct, [k], v.position_offset)
    walk(cls, [], {SyncManager.OUT: 0, SyncManager.IN: 0, None: 0})
    compat = cls.compatibility
    named = []
    m = re.fullmatch(r"(EL|EK)(\d{4})", cls.__name__)
    if compat is None and m:
        named = _u32(int(m.group(2)) << 16 | (0x3052 if m.group(1) == "EL" else 0x2c52))
    return dict(name=cls.__name__, hascompat=compat is not None,
                compat=[dict(v=_u32(v), p=_u32(p)) for v, p in sorted(compat or ())],
                named=named, generic=cls.__name__ == "Generic",
                outp=dict(set=cls.out_pdos is not None, pdos=list(cls.out_pdos or [])),
                inp=dict(set=cls.in_pdos is not None, pdos=list(cls.in_pdos or [])),
                decls=decls, svcs=svcs)


def probe_class(probes):
    """a terminal class made of TLC-generated declarations: [(index, subindex, override record)]"""
    from ebpfcat.ebpfcat import EBPFTerminal, ProcessDesc
    attrs = {}
    for k, (idx, sub, ov) in enumerate(probes):
        size = None if ov["k"] == "none" else int(ov["n"]) if ov["k"] == "bit" else "".join(chr(c) for c in ov["c"])
        attrs[f"p{k:04d}"] = ProcessDesc(idx, sub, size)
    return type("Probe", (EBPFTerminal,), attrs)


def bundled_classes():
    """the terminal classes of ebpfcat.terminals that describe a terminal (not Skip, not the abstract
    AerotechBase)"""
    from ebpfcat import terminals as TM
    from ebpfcat.ebpfcat import EBPFTerminal
    out = []
    for k, v in vars(TM).items():
        if isinstance(v, type) and issubclass(v, EBPFTerminal) and v is not EBPFTerminal \
                and v.__module__ == TM.__name__ and k not in ("Skip", "AerotechBase"):
            out.append(v)
    return out


# ---- one run -----------------------------------------------------------------------------------

RES_NONE = dict(sm="", byte=-1, bit=-1, fmtc=[], fmt="")


def _resolve(term, path):
    obj = term
    try:
        for p in path:
            obj = getattr(obj, p)
    except KeyError as e:
        return dict(RES_NONE, status="keyerror", exc=repr(e)[:100])
    except Exception as e:
        return dict(RES_NONE, status="exception", exc=f"{type(e).__name__}: {e}"[:160])
    try:
        size = obj.size
        r = dict(status="ok", sm=obj.sm.name, byte=int(obj.position))
        if isinstance(size, int):
            r.update(bit=int(size), fmtc=[], fmt="")
        else:
            r.update(bit=-1, fmtc=[ord(ch) for ch in size], fmt=size)
        return r
    except Exception as e:
        return dict(RES_NONE, status="exception", exc=f"not a process variable: {type(e).__name__}: {e}"[:160])


def _table(t):
    out = []
    for (idx, sub), (sm, byte, third) in getattr(t, "pdos", {}).items():
        e = dict(idx=int(idx), sub=int(sub), sm=sm.name, byte=int(byte), bit=-1, fmtc=[], fmt="")
        if isinstance(third, str):
            e.update(fmtc=[ord(ch) for ch in third], fmt=third)
        else:
            e["bit"] = int(third)
        out.append(e)
    return out


def _int(v):
    return -1 if v is None else int(v)


CYCLE_NONE = dict(done=False, inimg=[], reads=[], writes=[], exc="")


def _snapshot(t, st, r):
    """what the terminal object and the simulated device hold after initialize"""
    r["table"] = _table(t)
    r["sizes"] = dict(out=_int(getattr(t, "pdo_out_sz", None)), inp=_int(getattr(t, "pdo_in_sz", None)))
    r["smregs"] = [dict(len=struct.unpack_from("<H", st.mem, 0x802 + 8 * k)[0], act=st.mem[0x806 + 8 * k] & 1)
                   for k in range(8)]
    if st.srv is not None:
        for key, idx in (("out", 0x1c12), ("inp", 0x1c13)):
            v0 = st.srv.od.get((idx, False, 0))
            if v0 is not None and len(v0) >= 1:
                ents = []
                for s in range(1, v0[0] + 1):
                    v = st.srv.od.get((idx, False, s), b"")
                    ents.append(struct.unpack("<H", v)[0] if len(v) == 2 else -1)
                r["assigned"][key] = dict(n=v0[0], pdos=ents)
    if r["init"]["status"] == "ok":
        for d in r["decls"]:
            d["res"] = _resolve(t, d["path"])


def _new_run(inf, it):
    r = dict(cls={k: inf[k] for k in ("name", "hascompat", "compat", "named", "generic")},
             outp=inf["outp"], inp=inf["inp"], svcs=inf["svcs"],
             decls=[dict(d, res=dict(RES_NONE, status="notrun")) for d in inf["decls"]],
             init=dict(status="notrun", exc=""), table=[], bits=dict(out=-1, inp=-1),
             sizes=dict(out=-1, inp=-1), smregs=[],
             assigned=dict(out=dict(n=-1, pdos=[]), inp=dict(n=-1, pdos=[])), cycle=dict(done=False, inimg=[], reads=[], writes=[], exc=""))
    r["probe"] = bool(it.get("probe"))
    if r["probe"]:
        r["cls"]["generic"] = True          # a probe class is made for the device it runs on
    for key, attr in (("outp", "out_pdos"), ("inp", "in_pdos")):
        if it.get(attr) is not None:
            r[key] = dict(set=True, pdos=list(it[attr]))
    return r


async def _initialize(t, i, r):
    from ebpfcat.ethercat import EtherCatError
    real_parse = t.parse_pdos

    async def parse_pdos():
        ret = await real_parse()
        r["bits"] = dict(out=_int(ret[0]), inp=_int(ret[1]))
        return ret
    t.parse_pdos = parse_pdos
    try:
        await t.initialize(-i, i + 1)
        r["init"] = dict(status="ok", exc="")
    except EtherCatError as e:
        r["init"] = dict(status="incompatible" if str(e).startswith("Incompatible Terminal") else "exception",
                         exc=f"EtherCatError: {e}"[:200])
    except Exception as e:
        r["init"] = dict(status="exception", exc=f"{type(e).__name__}: {e}"[:200])


def _value(v):
    """a Python value read from / written to a process variable, as data (16-byte two's complement)"""
    if isinstance(v, bool):
        return dict(kind="bit", b=v, w=[])
    if isinstance(v, int) and -2 ** 127 <= v < 2 ** 127:
        return dict(kind="int", b=False, w=list(v.to_bytes(16, "little", signed=True)))
    return dict(kind="other", b=False, w=[], repr=repr(v)[:60])


def run_cycle(item, rng, rounds=2):
    """one terminal on its own segment: the real initialize, then a REAL SyncGroup (slow path) with one
    device that links every declared variable.  The device's input area holds a random image; update()
    reads every variable once, then writes one output variable per cycle; the device's output area is
    recorded at every cycle.  -> run record with `cycle`"""
    import asyncio
    from ebpfcat.ebpfcat import Device, SyncGroup, TerminalVar
    from ebpfcat.ethercat import EtherCat
    st = device(item["record"], "T0")
    bus = simbus.SimBus([st])
    r = _new_run(class_info(item["cls"]), item)
    cyc = r["cycle"]
    holder = {}

    async def main():
        ec = EtherCat("x")
        simbus.attach(ec, bus)
        t = holder["t"] = item["cls"](ec)
        await _initialize(t, 0, r)
        _snapshot(t, st, r)
        if r["init"]["status"] != "ok" or any(d["res"]["status"] != "ok" for d in r["decls"]) or not r["decls"]:
            return
        names = [f"v{k}" for k in range(len(r["decls"]))]
        dev = type("Linked", (Device,), {n: TerminalVar() for n in names})()
        for n, d in zip(names, r["decls"]):
            obj = t
            for p in d["path"]:
                obj = getattr(obj, p)
            setattr(dev, n, obj)
        insz, outsz = t.pdo_in_sz or 0, t.pdo_out_sz or 0
        inimg = bytes(rng.randrange(256) for _ in range(insz))
        if insz:
            st.mem[t.pdo_in_off:t.pdo_in_off + insz] = inimg
        cyc["inimg"] = list(inimg)
        outs = [k for k, d in enumerate(r["decls"]) if d["res"]["sm"] == "OUT"]
        # round 0 switches everything on in declaration order, round 1 off in reverse order (so that a write
        # that touches a neighbour is seen against a background of ones), further rounds in random order
        plan = []
        for rnd in range(rounds):
            order = list(outs) if rnd == 0 else list(reversed(outs)) if rnd == 1 else rng.sample(outs, len(outs))
            plan += [(k, rnd) for k in order]
        mems, done = [], asyncio.Event()
        state = dict(n=0)

        def outmem():
            return list(st.mem[t.pdo_out_off:t.pdo_out_off + outsz]) if outsz else []

        def choose(d, rnd):
            res = d["res"]
            if res["bit"] >= 0:
                return rnd == 0 if rnd < 2 else rng.random() < 0.5
            f = res["fmt"]
            if len(f) == 1 and f in "bhilq":
                w = struct.calcsize("<" + f)
                return rng.randrange(-2 ** (8 * w - 1), 2 ** (8 * w - 1)) if rnd != 1 else -2
            if len(f) == 1 and f in "BHILQ":
                w = struct.calcsize("<" + f)
                return rng.randrange(1, 2 ** (8 * w))
            if f.endswith(("s", "p")):
                return bytes(rng.randrange(1, 256) for _ in range(rng.randrange(1, struct.calcsize("<" + f))))
            return None

        def update():
            n = state["n"]
            state["n"] += 1
            mems.append(outmem())
            try:
                if n == 0:
                    for k, (nm, d) in enumerate(zip(names, r["decls"])):
                        cyc["reads"].append(dict(k=k + 1, val=_value(getattr(dev, nm))))
                if n >= 1 and n - 1 < len(plan):        # the write of the previous cycle has reached the device
                    cyc["writes"][n - 1]["after"] = mems[n]
                if n < len(plan):
                    k, rnd = plan[n]
                    v = choose(r["decls"][k], rnd)
                    w = dict(k=k + 1, val=_value(v), before=mems[n], after=[], status="ok")
                    cyc["writes"].append(w)
                    if v is None:
                        w["status"] = "novalue"
                    else:
                        try:
                            setattr(dev, names[k], v)
                        except Exception as e:
                            w["status"] = f"{type(e).__name__}: {e}"[:120]
                else:
                    done.set()
            except Exception as e:
                cyc["exc"] = f"update: {type(e).__name__}: {e}"[:200]
                done.set()
        dev.update = update
        sg = SyncGroup(ec, [dev])
        task = sg.start()
        waiter = asyncio.ensure_future(done.wait())
        await asyncio.wait([waiter, task], return_when=asyncio.FIRST_COMPLETED)
        if task.done() and not task.cancelled() and task.exception() is not None:
            cyc["exc"] = f"sync group: {type(task.exception()).__name__}: {task.exception()}"[:200]
        waiter.cancel()
        task.cancel()
        try:
            await task
        except (asyncio.CancelledError, Exception):
            pass
        cyc["done"] = not cyc["exc"] and all(w["after"] or not outsz for w in cyc["writes"])

    logging.disable(logging.CRITICAL)
    try:
        simloop.run(main, budget=600000)
    except simloop.StallError as e:
        if r["init"]["status"] == "notrun":
            r["init"] = dict(status="stall", exc=str(e))
        cyc["exc"] = cyc["exc"] or f"stall: {e}"
        cyc["done"] = False
    finally:
        logging.disable(logging.NOTSET)
    r["frames"] = bus.frames
    return r


def run_segment(items, budget=None):
    """items: [dict(record=..., cls=<class>, out_pdos=None|[..], in_pdos=None|[..])] -> [run record]"""
    from ebpfcat.ethercat import EtherCat, EtherCatError
    import asyncio
    devs = [device(it["record"], f"T{i}") for i, it in enumerate(items)]
    bus = simbus.SimBus(devs)
    runs = [_new_run(class_info(it["cls"]), it) for it in items]
    terms = []

    async def one(i, t):
        await _initialize(t, i, runs[i])

    async def main():
        ec = EtherCat("x")
        simbus.attach(ec, bus)
        for it in items:
            t = it["cls"](ec)
            if it.get("out_pdos") is not None:
                t.out_pdos = list(it["out_pdos"])
            if it.get("in_pdos") is not None:
                t.in_pdos = list(it["in_pdos"])
            terms.append(t)
        await asyncio.gather(*[one(i, t) for i, t in enumerate(terms)])

    logging.disable(logging.CRITICAL)
    try:
        simloop.run(main, budget=budget or 400000 + 200000 * len(items))
    except simloop.StallError as e:
        for r in runs:
            if r["init"]["status"] == "notrun":
                r["init"] = dict(status="stall", exc=str(e))
    finally:
        logging.disable(logging.NOTSET)
    for t, st, r in zip(terms, devs, runs):
        _snapshot(t, st, r)
        r["frames"] = bus.frames
    return runs
