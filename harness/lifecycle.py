"""Drivers for C24: the REAL sync-group tasks (SyncGroup / FastSyncGroup / ProcessSyncGroup) run on
simulated terminals, with a cancellation injected after a chosen number of event-loop iterations.

Nothing here decides the property.  A run records, in one ordered event list,

    start                      the group's start() returned (the task exists)
    reg idx / unreg idx        fast: program-table entry written / deleted (bpf calls of the real
                               FastEtherCat.register_sync_group, on a real kernel PROG_ARRAY when
                               the kernel is usable, else on a dictionary)
    spawn / childexit          process: the child process exists / has exited
    al term v                  a write to register 0x120 (AL control) reached terminal `term`
    fmmu term n                the master's fmmu_used table of `term` now has n live entries
    frame                      a cyclic frame of the group went on the wire
    cancel                     the harness called task.cancel()
    silent term                terminal `term` stops answering from now on
    done outcome               the task finished: "cancelled" | "returned" | "error:<Type>" | "hang"
    end groups prog child      the segment has come to rest; what is still held:
                               groups = the group is still in ec.sync_groups,
                               prog = its entry is still in the programs table,
                               child = "none" | "running" | "exited"

and spec/LifecycleTrace.tla judges it.

Cancellation points: `HookLoop` calls a hook after every iteration of the event loop.  Iteration
granularity is finer than "every await of the task": between two resumptions of the task the
send loop, the response delivery and the children of a gather run in iterations of their own,
and a cancel() landing between them finds different things queued.
"""
import asyncio
import contextlib
import json
import logging
import os
import struct
import sys
import time

from . import simbus, simloop


class HookLoop(simloop.SimLoop):
    after = None      # callable(loop) run after every iteration

    def _run_once(self):
        super()._run_once()
        if self.after is not None:
            self.after(self)


def run_loop(coro_fn, budget=200000):
    loop = HookLoop(budget)
    asyncio.set_event_loop(loop)
    try:
        return loop.run_until_complete(coro_fn(loop))
    finally:
        loop.after = None
        try:
            simloop._cancel_all(loop)
        finally:
            asyncio.set_event_loop(None)
            loop.close()


# ---------------------------------------------------------------------------------------------
# configurations (JSON-serialisable; part of every case dict)

def config(kind, nterm=3, rw=(True, True, False), init=(4, 4, 4), delay=0.0, al_lag=0,
           fmmu=(True, True, True), cycletime=0.01, silent=None, lose_from=None):
    """terminal i: rw[i] -> has outputs and the device writes them (the group asks it to go
    OPERATIONAL); init[i] = AL state before start; al_lag = number of status polls a requested
    state change takes; delay = virtual seconds a frame takes round the segment;
    silent = index of a terminal that stops answering (drops off the segment) at the moment of
    the first cancel(), or None; lose_from = n: every cyclic frame of the group after its n-th is
    lost (the group runs on its time-out path) while register datagrams are still answered"""
    return dict(kind=kind, nterm=nterm, rw=list(rw[:nterm]), init=list(init[:nterm]),
                delay=delay, al_lag=al_lag, fmmu=list(fmmu[:nterm]), cycletime=cycletime,
                silent=silent, lose_from=lose_from)


class _LagPolicy:
    """AL state changes take `lag` polls of the status register"""
    def __init__(self, lag):
        self.lag = lag
        self.pending = None
        self.left = 0

    def __call__(self, term, req, ack):
        if ack:
            term.al_err = False
        if self.lag <= 0:
            term.al_state = req
        else:
            self.pending, self.left = req, self.lag

    def poll(self, term):
        if self.pending is not None:
            self.left -= 1
            if self.left <= 0:
                term.al_state = self.pending
                self.pending = None


class Recorder:
    def __init__(self):
        self.ev = []
        self.frames = 0
        self.fm = None

    def add(self, **e):
        self.ev.append(e)


def _build_segment(cfg, rec, E, ec):
    """simulated terminals + the real EBPFTerminal objects of the master + one device"""
    from ebpfcat.ethercat import SyncManager
    sims, objs = [], []
    for i in range(cfg["nterm"]):
        s = simbus.SimTerminal(f"S{i}", fmmus=4, station=100 + i)
        s.al_state = cfg["init"][i]
        s.al_policy = _LagPolicy(cfg["al_lag"])
        sims.append(s)
        attrs = dict(pin=E.PacketDesc(SyncManager.IN, 0, "B"))
        if cfg["rw"][i]:
            attrs["pout"] = E.PacketDesc(SyncManager.OUT, 0, "B")
        o = type(f"Term{i}", (E.EBPFTerminal,), attrs)(ec)
        o.name = f"T{i}"
        o.position = 100 + i
        o.use_fmmu = cfg["fmmu"][i]
        o.pdo_in_sz, o.pdo_in_off = 2, 0x1100
        o.pdo_out_sz, o.pdo_out_off = (2, 0x1000) if cfg["rw"][i] else (0, None)
        o.fmmu_used = [None] * 4
        objs.append(o)
    return sims, objs


def _snapshot_fmmu(rec, objs):
    fm = [sum(1 for x in o.fmmu_used if x is not None) for o in objs]
    if rec.fm is None:
        rec.fm = [0] * len(objs)
    for i, (a, b) in enumerate(zip(rec.fm, fm)):
        if a != b:
            rec.add(t="fmmu", term=i + 1, n=b)
    rec.fm = fm


def where(task):
    """where the task is suspended: the chain of coroutines awaiting one another, innermost
    last, [{func, line, stmt}]; [] if the task has not made its first step"""
    import inspect
    import linecache
    out = []
    c = task.get_coro()
    if inspect.iscoroutine(c) and inspect.getcoroutinestate(c) == inspect.CORO_CREATED:
        return out
    while c is not None and len(out) < 12:
        f = getattr(c, "cr_frame", None) or getattr(c, "gi_frame", None) \
            or getattr(c, "ag_frame", None)
        if f is None:
            break
        fn, ln = f.f_code.co_filename, f.f_lineno
        stmt = " ".join(linecache.getline(fn, n).strip() for n in (ln - 1, ln, ln + 1))
        out.append(dict(func=f.f_code.co_name, file=os.path.basename(fn), line=ln, stmt=stmt))
        c = getattr(c, "cr_await", None) or getattr(c, "gi_yieldfrom", None) \
            or getattr(c, "ag_await", None)
    return out


def _outcome(task):
    if task.cancelled():
        return "cancelled"
    e = task.exception()
    return "returned" if e is None else f"error:{type(e).__name__}"


def run_async_kind(cfg, cancels, stop_frames=None, budget=40000, fake_kernel=None, translate=True):
    """kind slow | fast.  cancels: sorted iteration numbers (relative to the iteration in which
    start() was called) after which task.cancel() is called; () = reference run, which is
    cancelled when `stop_frames` cyclic frames have been sent (end of the second cycle).
    -> dict(ev, iters, cancel_iters, done_iter)"""
    import ebpfcat.ebpfcat as E
    import random
    rec = Recorder()
    info = dict(iters=0, done_iter=None, cancel_iters=[])
    kind = cfg["kind"]
    if stop_frames is None:
        stop_frames = 5 if kind == "fast" else 3      # fast: two priming frames first
        if cfg.get("lose_from") is not None:
            stop_frames = max(stop_frames, cfg["lose_from"] + 3)    # three time-outs deep
    rstate = random.getstate()
    random.seed(2424)                                 # register_sync_group draws the table index

    async def main(loop):
        ec = E.FastEtherCat("x") if kind == "fast" else E.SimpleEtherCat("x")
        sims, objs = _build_segment(cfg, rec, E, ec)
        bus = simbus.SimBus(sims)
        stack = contextlib.ExitStack()
        if kind == "fast":
            table = stack.enter_context(_programs_table(E, ec, rec, fake_kernel))
            table.translate = translate
            info["kernel"] = not table.fake
            dev = _fast_device(E, objs, cfg)
            from . import progs
            with progs.recording(use_kernel=not table.fake) as maps:
                sg = E.FastSyncGroup(ec, [dev])
            stack.callback(_close_group, sg, maps, not table.fake)
            if table.fake:
                _fake_load(sg)
        else:
            dev = _slow_device(E, objs, cfg)
            E.SyncGroup.packet_index = 1000
            sg = E.SyncGroup(ec, [dev])
        sg.cycletime = cfg["cycletime"]

        def policy(frame):
            if sg.task is not None and simbus.frame_index(frame) == getattr(sg, "packet_index", None):
                rec.frames += 1
                rec.add(t="frame")
                if cfg.get("lose_from") is not None and rec.frames > cfg["lose_from"]:
                    return [("lose",)]
            # "asked" = the request went on the wire, whether or not the terminal still answers
            for d in simbus.parse_frame(frame)["dgrams"]:
                if d["cmd"] == simbus.FPWR and d["ado"] == 0x120 and len(d["data"]) >= 2 \
                        and 100 <= d["adp"] < 100 + cfg["nterm"]:
                    rec.add(t="al", term=d["adp"] - 99, v=d["data"][0] | d["data"][1] << 8)
            if cfg.get("slow_after_cancel") is not None and info["cancel_iters"]:
                # a terminal (or the segment) answers slowly during the clean-up: the answers DO come
                return [("return", cfg["slow_after_cancel"])]
            return [("return", cfg["delay"])]

        saved = E.monotonic
        E.monotonic = loop.time
        tr, sendtask = simbus.attach(ec, bus, policy)
        todo = list(cancels)
        state = dict(base=None, task=None)

        def after(lp):
            task = state["task"]
            if task is None:
                return
            k = lp.steps - state["base"]
            _snapshot_fmmu(rec, objs)
            if task.done():
                if info["done_iter"] is None:
                    info["done_iter"] = k
                    rec.add(t="done", outcome=_outcome(task))
                return
            hit = False
            while todo and todo[0] <= k:
                todo.pop(0)
                hit = True
            if not cancels and not info["cancel_iters"] and rec.frames >= stop_frames:
                hit = True
            if hit and not info["cancel_iters"] and cfg.get("silent") is not None:
                sims[cfg["silent"]].present = False
                rec.add(t="silent", term=cfg["silent"] + 1)
            if hit:
                rec.add(t="cancel", at=where(task), held=dict(
                    fm=list(rec.fm), prog=kind == "fast" and table.holds(sg)))
                info["cancel_iters"].append(k)
                task.cancel()

        try:
            try:
                state["task"] = task = sg.start()
            except Exception as e:            # the code under test could not even start
                rec.add(t="start")
                rec.add(t="done", outcome=f"error:{type(e).__name__}")
                rec.add(t="end", groups=False, prog=False, child="none")
                info["done_iter"] = 0
                return
            state["base"] = loop.steps
            rec.add(t="start")
            loop.after = after
            try:
                await asyncio.wait([task], timeout=5.0)      # virtual seconds
            finally:
                loop.after = None
            _snapshot_fmmu(rec, objs)
            if not task.done():
                rec.add(t="done", outcome="hang")
                info["done_iter"] = loop.steps - state["base"]
            elif info["done_iter"] is None:
                info["done_iter"] = loop.steps - state["base"]
                rec.add(t="done", outcome=_outcome(task))
            await asyncio.sleep(0.2)                          # let the segment come to rest
            _snapshot_fmmu(rec, objs)
            groups = kind == "fast" and any(v is sg for v in ec.sync_groups.values())
            prog = kind == "fast" and table.holds(sg)
            rec.add(t="end", groups=bool(groups), prog=bool(prog), child="none")
        finally:
            E.monotonic = saved
            sendtask.cancel()
            stack.close()
        info["iters"] = loop.steps - state["base"]

    logging.disable(logging.CRITICAL)
    try:
        try:
            run_loop(main, budget=budget)
        except simloop.StallError as e:          # the code under test never came to rest
            if not any(x["t"] == "done" for x in rec.ev):
                rec.add(t="done", outcome="hang")
            if not any(x["t"] == "end" for x in rec.ev):
                rec.add(t="end", groups=False, prog=False, child="none", stall=str(e))
    finally:
        logging.disable(logging.NOTSET)
        random.setstate(rstate)
    return dict(ev=rec.ev, **info)


def _slow_device(E, objs, cfg):
    class Dev(E.Device):
        def update(self):
            for i, rw in enumerate(cfg["rw"]):
                if rw:
                    setattr(self, f"o{i}", (getattr(self, f"i{i}") + 1) & 0xff)
    for i in range(cfg["nterm"]):
        for n in (f"i{i}", f"o{i}"):
            tv = E.TerminalVar()
            tv.__set_name__(Dev, n)
            setattr(Dev, n, tv)
    dev = Dev()
    for i, o in enumerate(objs):
        setattr(dev, f"i{i}", o.pin)
        if cfg["rw"][i]:
            setattr(dev, f"o{i}", o.pout)
    return dev


def _fast_device(E, objs, cfg):
    class Dev(E.Device):
        counter = E.DeviceVar("I")

        def program(self):
            self.counter += 1
            for i, rw in enumerate(cfg["rw"]):
                if rw:
                    setattr(self, f"o{i}", getattr(self, f"i{i}") + 1)
    for i in range(cfg["nterm"]):
        for n in (f"i{i}", f"o{i}"):
            tv = E.TerminalVar()
            tv.__set_name__(Dev, n)
            setattr(Dev, n, tv)
    dev = Dev()
    for i, o in enumerate(objs):
        setattr(dev, f"i{i}", o.pin)
        if cfg["rw"][i]:
            setattr(dev, f"o{i}", o.pout)
    return dev


# ---------------------------------------------------------------------------------------------
# the dispatcher's program table for the fast kind

class _Table:
    def __init__(self, fake):
        self.fake = fake
        self.fd = None
        self.entries = {}        # index -> what was written (fake), or observed by update/delete
        self.seen = set()        # every index written during this run
        self.real_lookup = None
        self.translate = True

    def holds(self, sg=None):
        """is an entry this run wrote still in the table?  (kernel table: asked of the kernel)"""
        if self.fake:
            return bool(self.entries)
        for idx in self.seen:
            try:
                self.real_lookup(self.fd, struct.pack("<I", idx), "<I")
                return True
            except KeyError:
                pass
        return False


@contextlib.contextmanager
def _programs_table(E, ec, rec, fake_kernel):
    """ec.programs for the REAL FastEtherCat.register_sync_group: a kernel PROG_ARRAY if the
    kernel is usable (then lookup/update/delete are the real bpf calls, merely observed), else a
    dictionary behind the three functions"""
    from . import kernel
    fake = (not kernel.available()) if fake_kernel is None else fake_kernel
    table = _Table(fake)
    real = (E.lookup_elem, E.update_elem, E.delete_elem)
    table.real_lookup = real[0]
    if not fake:
        from ebpfcat.bpf import MapType, create_map
        table.fd = create_map(MapType.PROG_ARRAY, 4, 4, ec.MAX_PROGS)
    else:
        table.fd = -7
    ec.programs = table.fd

    def lookup(fd, key, fmt):
        if not fake:
            try:
                return real[0](fd, key, fmt)
            except KeyError:
                if table.translate:
                    # ebpfcat.bpf.lookup_elem turns ENOENT into KeyError, but register_sync_group
                    # waits for OSError(errno 2) as "slot is free": without this translation no
                    # fast group can be registered at all and C24 has nothing to look at
                    # (reported as an observation outside C24; see checks/c24.py)
                    raise OSError(2, "not found") from None
                raise
        idx, = struct.unpack("<I", key)
        if idx not in table.entries:
            raise OSError(2, "not found")
        return (table.entries[idx],)

    def update(fd, key, value, *a):
        if not fake:
            real[1](fd, key, value, *a)
        idx, = struct.unpack("<I", key)
        table.entries[idx] = struct.unpack("<I", value)[0]
        table.seen.add(idx)
        rec.add(t="reg", idx=idx)

    def delete(fd, key):
        if not fake:
            real[2](fd, key)
        idx, = struct.unpack("<I", key)
        if idx not in table.entries:
            raise OSError(2, "not found")
        del table.entries[idx]
        rec.add(t="unreg", idx=idx)

    E.lookup_elem, E.update_elem, E.delete_elem = lookup, update, delete
    try:
        yield table
    finally:
        E.lookup_elem, E.update_elem, E.delete_elem = real
        if not fake and table.fd is not None:
            os.close(table.fd)


def _close_group(sg, maps, kernel):
    """what one FastSyncGroup object opened (map descriptors, their mmaps, a program descriptor
    left open): thousands of runs per check must not run the process out of descriptors"""
    for v in list(sg.__dict__.values()):
        if hasattr(v, "close") and type(v).__name__ == "mmap":
            try:
                v.close()
            except Exception:
                pass
    if kernel:
        for m in maps:
            try:
                os.close(m["fd"])
            except OSError:
                pass
        fd = getattr(sg, "file_descriptor", None)
        if isinstance(fd, int) and fd > 2:
            try:
                os.close(fd)
            except OSError:
                pass


def _fake_load(sg):
    def load(*a, **k):
        sg.loaded = True
        sg.file_descriptor = 12345

    def close():
        sg.file_descriptor = None
    sg.load, sg.close = load, close


# ---------------------------------------------------------------------------------------------
# the process kind: real ProcessSyncGroup.start() / wait_for_process() in this process, the real
# subprocess_run / subprocess_loop / run in a spawned child on a simulated segment of its own

PROCESS_POINTS = ("k0", "k1", "k2", "cycling", "exitrace")


def _child_log(path):
    out = []
    try:
        with open(path + ".log") as f:
            for line in f:
                line = line.strip()
                if line:
                    try:
                        out.append(json.loads(line))
                    except ValueError:
                        pass         # a line cut short by kill
    except FileNotFoundError:
        pass
    return out


def _exited(pid):
    try:
        r = os.waitid(os.P_PID, pid, os.WEXITED | os.WNOWAIT | os.WNOHANG)
    except ChildProcessError:
        return True
    return r is not None


def run_process_kind(cfg, point, second, wd, tag, wall=30.0, grace=40.0):
    """point: when the first cancel() is called -
         k0 / k1 / k2  after 0, 1, 2 iterations of the parent's loop (the child is still booting),
         cycling       after the child has sent 3 cyclic frames,
         exitrace      the child's run() fails and the child exits by itself (cfg fail_after) while the parent's loop is
                       busy; cancel() is called before the loop has seen the exit;
       second: None, or "waiting": a second cancel() one iteration after the first (while
       wait_for_process waits for the child to go away)."""
    from . import procstandin as P
    import ebpfcat.ebpfcat as E
    path = os.path.join(wd, f"seg-{tag}.json")
    cfg = dict(cfg, packet_index=1000)
    if point == "exitrace":
        cfg["fail_after"] = 3
    if os.path.exists(path + ".log"):
        os.remove(path + ".log")
    with open(path, "w") as f:
        json.dump(cfg, f)
    rec = Recorder()
    info = dict(pid=None)
    t_end = time.time() + wall

    def frames():
        return sum(1 for e in _child_log(path) if e["t"] == "frame")

    async def main():
        ec, objs, dev, sg = P.build_group(cfg, path)
        E.SyncGroup.packet_index = 1000
        with P.spawn_guard():
            task = sg.start()
        rec.add(t="spawn")
        rec.add(t="start")
        info["pid"] = pid = sg.process.pid
        try:
            if point in ("k1", "k2"):
                for _ in range(int(point[1])):
                    await asyncio.sleep(0)
            elif point == "cycling":
                # three cycles, and if the cyclic frames get lost from some frame on: three
                # time-outs into that
                want = 3 + (cfg.get("lose_from") or 0)
                while frames() < want and not task.done() and time.time() < t_end:
                    await asyncio.sleep(0.01)
            elif point == "exitrace":
                await asyncio.sleep(0)
                while not _exited(pid) and time.time() < t_end:
                    time.sleep(0.005)          # the loop is busy: it does not see the exit
            if not task.done():
                rec.add(t="cancel", at=where(task), held=dict(child=not _exited(pid)))
                task.cancel()
                if second == "waiting":
                    await asyncio.sleep(0)
                    if not task.done():
                        rec.add(t="cancel", at=where(task), held=dict(child=not _exited(pid)))
                        task.cancel()
            # the task has to end within a bounded number of the child's cycles: it hangs if the
            # child has sent 60 more cyclic frames since the cancel() and the task is not done
            # (or after 40 s of wall clock, whichever comes first)
            at_cancel = frames()
            t_hang = time.time() + 40.0
            while not task.done() and time.time() < t_hang and frames() < at_cancel + 60:
                await asyncio.wait([task], timeout=0.05)
            if task.done():
                rec.add(t="done", outcome=_outcome(task))
            else:
                rec.add(t="done", outcome="hang")
            # is the subprocess stopped?  it gets time until it has demonstrably gone on cycling
            seen = frames()
            t_grace = time.time() + grace
            while not _exited(pid) and time.time() < t_grace and frames() < seen + 5:
                await asyncio.sleep(0.02)
            child = "exited" if _exited(pid) else "running"
            for e in _child_log(path):
                if e["t"] in ("al", "fmmu", "frame"):
                    rec.add(**e)
            if child == "exited":
                rec.add(t="childexit")
            rec.add(t="end", groups=False, prog=False, child=child)
        finally:
            if not task.done():
                task.cancel()
            try:
                if not _exited(pid):
                    sg.process.kill()
                sg.process.join(5)
            except Exception:
                pass

    logging.disable(logging.CRITICAL)
    loop = asyncio.new_event_loop()
    loop.set_exception_handler(lambda lp, c: None)
    try:
        asyncio.set_event_loop(loop)
        loop.run_until_complete(main())
    finally:
        logging.disable(logging.NOTSET)
        asyncio.set_event_loop(None)
        loop.close()
    return dict(ev=rec.ev, childlog=_child_log(path))
