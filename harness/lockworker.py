"""Worker processes that run the real ebpfcat.lock objects one system call at a time.

POSIX byte-range locks are per process, so every participant of a schedule is a separate
(forked) process.  In the worker - and only there - `ebpfcat.lock.os` and `ebpfcat.lock.fcntl`
are replaced by proxies whose open / write / pread / pwrite / lockf first report to the
controller over a pipe that they are *about to* run ("gate") and then wait for "go".  The
controller thereby decides the interleaving of the system calls of all participants, including
the window between `os.open(O_EXCL)` and the initialising `os.write` of `LockFile.__init__`.

A process may host several users (lock objects on the process's one LockFile, as the tasks of a
program that talks to several terminals): each user runs in a thread of its own inside the
worker, so several of them can be parked at a gate; they share the process's POSIX locks.

Protocol (controller -> worker):  ("call", uid, op, args)  start an operation of user uid
("proc" for the process itself);  ("go", uid)  pass the gate uid is parked at;  ("abort", uid);
("quit",).
Worker -> controller:  ("gate", uid, name, obs)  parked before system call `name`;
("done", uid, op, result, obs)  the operation finished (result is a value or {"exc": "..."}).
`obs` lists what the system calls since the last message returned.

Operations: init(filename, lo, hi)  -> LockFile(...);  mklock(no) -> the user's lock via
ParallelEtherCat.get_mbx_lock;  aenter  -> drives lock.__aenter__() (every `await sleep(0)` of a
failed attempt is followed by the next attempt);  next -> lock.next_counter();  aexit;  close.
"""
import multiprocessing
import os
import sys
import types


class Hang(Exception):
    pass


class _Abort(BaseException):
    """unwinds the operation a worker is parked in (end of a schedule)"""


def _worker(conn, repo):
    """one OS process; every user (lock object) of the process runs its operations in a thread
    of its own, so that several users can be parked at a gate at the same time (they share the
    process's POSIX locks and its LockFile, like the tasks of a real program).  The controller
    lets exactly one thread run at a time."""
    import fcntl as real_fcntl
    import queue
    import threading
    if repo not in sys.path:
        sys.path.insert(0, repo)
    import ebpfcat.lock as L
    tl = threading.local()       # uid, q (commands for this thread), obs
    send_lock = threading.Lock()
    fds = []                     # every descriptor the code under test opened (closed on "close")
    state = {"locks": {}}
    threads = {}

    def send(msg):
        with send_lock:
            conn.send(msg)

    def gate(name):
        send(("gate", tl.uid, name, list(tl.obs)))
        del tl.obs[:]
        msg = tl.q.get()
        if msg[0] == "abort":
            raise _Abort()
        if msg[0] != "go":
            raise SystemExit(0)

    class OsProxy:
        def __getattr__(self, k):
            return getattr(os, k)

        def open(self, path, flags, *a):
            excl = bool(flags & os.O_EXCL)
            if excl:
                gate("open")
            try:
                fd = os.open(path, flags, *a)
            except FileExistsError:
                tl.obs.append(dict(call="open_excl", res="exists"))
                raise
            tl.obs.append(dict(call="open_excl" if excl else "open", res="ok"))
            fds.append(fd)
            return fd

        def write(self, fd, data):
            gate("init")
            n = os.write(fd, data)
            tl.obs.append(dict(call="write", n=n, len=len(data)))
            return n

        def ftruncate(self, fd, n):
            gate("init")
            os.ftruncate(fd, n)
            tl.obs.append(dict(call="ftruncate", n=n))

        def pread(self, fd, n, off):
            gate("read")
            r = os.pread(fd, n, off)
            tl.obs.append(dict(call="pread", off=off, got=list(r)))
            return r

        def pwrite(self, fd, data, off):
            gate("write")
            n = os.pwrite(fd, data, off)
            tl.obs.append(dict(call="pwrite", off=off, data=list(data)))
            return n

    class FcntlProxy:
        def __getattr__(self, k):
            return getattr(real_fcntl, k)

        def lockf(self, fd, cmd, *a):
            unlock = cmd == real_fcntl.LOCK_UN
            gate("unlock" if unlock else "try")
            try:
                r = real_fcntl.lockf(fd, cmd, *a)
            except OSError as e:
                tl.obs.append(dict(call="lockf", res="fail", args=list(a), err=type(e).__name__))
                raise
            tl.obs.append(dict(call="unlockf" if unlock else "lockf", res="ok", args=list(a)))
            return r

    L.os = OsProxy()
    L.fcntl = FcntlProxy()

    def drive(coro):
        while True:
            try:
                coro.send(None)          # returns at every `await sleep(0)` of a failed attempt
            except StopIteration as s:
                return s.value

    def call(uid, op, args):
        if op == "init":                     # the process's LockFile (shared by its users)
            filename, lo, hi = args
            state["lf"] = L.LockFile(filename, lo, hi)
            return {}
        if op == "mklock":                   # the user's lock object, as ParallelEtherCat makes it
            from ebpfcat.ebpfcat import ParallelEtherCat
            lock = ParallelEtherCat.get_mbx_lock(
                types.SimpleNamespace(mbx_lock_file=state["lf"]), args[0])
            state["locks"][uid] = lock
            return dict(cls=type(lock).__name__, byte=lock.no)
        if op == "close":
            state.pop("lf", None)
            state["locks"].clear()
            for fd in fds:               # also drops every lock this process holds on the file
                try:
                    os.close(fd)
                except OSError:
                    pass
            del fds[:]
            return {}
        lock = state["locks"][uid]
        if op == "aenter":
            drive(lock.__aenter__())
            return dict(counter=lock.counter)
        if op == "next":
            return dict(value=lock.next_counter(), counter=lock.counter)
        if op == "aexit":
            mode = args[0] if args else "ok"     # how the `async with` block ended
            if mode == "raise":
                from ebpfcat.ethercat import EtherCatError
                exc = EtherCatError("exchange failed after its mail went out")
            elif mode == "cancel":
                import asyncio
                exc = asyncio.CancelledError()
            else:
                exc = None
            drive(lock.__aexit__(type(exc) if exc else None, exc, None))
            return dict(counter=lock.counter)
        raise ValueError(op)

    def thread_main(uid, q):
        tl.uid, tl.q, tl.obs = uid, q, []
        while True:
            msg = q.get()
            if msg[0] == "quit":
                return
            if msg[0] != "call":
                continue
            try:
                res = call(uid, msg[1], msg[2])
            except _Abort:
                res = dict(exc="aborted")
            except SystemExit:
                return
            except BaseException as e:
                res = dict(exc=f"{type(e).__name__}: {e}"[:200])
            send(("done", uid, msg[1], res, list(tl.obs)))
            del tl.obs[:]

    while True:
        try:
            msg = conn.recv()
        except EOFError:
            msg = ("quit",)
        if msg[0] == "quit":
            for _, q in threads.values():
                q.put(("quit",))
            return
        uid = msg[1]
        if uid not in threads:
            q = queue.Queue()
            t = threading.Thread(target=thread_main, args=(uid, q), daemon=True)
            threads[uid] = (t, q)
            t.start()
        threads[uid][1].put((msg[0],) + tuple(msg[2:]))


class Worker:
    """controller side of one worker process; `parked[uid]` is the gate user uid waits at"""
    def __init__(self, repo, timeout=10.0):
        ctx = multiprocessing.get_context("fork")
        self.conn, child = ctx.Pipe()
        self.proc = ctx.Process(target=_worker, args=(child, repo), daemon=True)
        self.proc.start()
        child.close()
        self.timeout = timeout
        self.parked = {}
        self.last = None

    def _recv(self, uid):
        if not self.conn.poll(self.timeout):
            raise Hang("worker did not answer")
        msg = self.conn.recv()
        if msg[1] != uid:
            raise Hang(f"answer from {msg[1]!r} while waiting for {uid!r}")
        if msg[0] == "gate":
            self.parked[uid] = msg[2]
        else:
            self.parked.pop(uid, None)
        self.last = msg
        # uniform view for the caller: ("gate", name, obs) / ("done", op, result, obs)
        return (msg[0],) + tuple(msg[2:])

    def call(self, uid, op, *args):
        self.conn.send(("call", uid, op, args))
        return self._recv(uid)

    def go(self, uid):
        self.conn.send(("go", uid))
        return self._recv(uid)

    def reset(self):
        """abort whatever the users are parked in and close the lock file"""
        for uid in list(self.parked):
            self.conn.send(("abort", uid))
            self._recv(uid)
        self.call("proc", "close")

    def stop(self):
        try:
            self.conn.send(("quit",))
        except (OSError, ValueError):
            pass
        self.proc.join(0.5)
        if self.proc.is_alive():
            self.proc.kill()
            self.proc.join(1)
        self.conn.close()


def file_bytes(path):
    try:
        with open(path, "rb") as f:        # the controller holds no locks: closing is harmless
            return list(f.read())
    except FileNotFoundError:
        return None


def replay(repo, path, schedule, layout, nmsgs, lo=10, n=2, pool=None):
    """replay one schedule ([{p, u, a, mode}...]: process, user, step, how the hold ends) on real
    LockFile / ParallelMailboxLock objects - one worker process per process of the layout, one
    lock object (and thread) per user; returns the list of observed events.
    layout: {user: (process, byte)}.  pool: dict reused between calls (workers kept and reset)"""
    workers = pool if pool is not None else {}
    ev = []
    modes = {}                    # how the current hold of each user will end
    procs = sorted({q for q, _ in layout.values()})
    try:
        for q in procs:
            if q not in workers:
                workers[q] = Worker(repo)
            workers[q].call("proc", "init", path, lo, lo + n)      # parks before open(O_EXCL)
        for s in schedule:
            q, a = s["p"], s["a"]
            uid = s.get("u") or "proc"
            w = workers[q]
            if a == "read":
                modes[uid] = s.get("mode") or "ok"
            mode = modes.get(uid, "") if a in ("write", "unlock") else (s.get("mode") or "")
            here = w.parked.get(uid)
            if a == "write" and here == "unlock":
                # the code ends the hold without storing the counter: the step happened without
                # effect; whether that is acceptable is for the specification to say
                ev.append(dict(p=q, u=uid, a="write", exc="", mode=mode, skipped=True, obs=[],
                               file=file_bytes(path) or []))
                continue
            if here != a:
                ev.append(dict(p=q, u=uid, a=a, res="not-at-step", at=str(here),
                               last=repr(w.last)[:200], mode=mode,
                               exc=f"the code is about to do {here!r} instead of {a!r}",
                               file=file_bytes(path) or []))
                break
            msg = w.go(uid)
            e = dict(p=q, u=uid, a=a, obs=msg[-1], exc="", mode=mode)
            if msg[0] == "done" and "exc" in msg[2]:
                e["exc"] = msg[2]["exc"]
            if a == "open":
                e["res"] = "created" if msg[0] == "gate" and msg[1] == "init" else "opened"
            elif a == "try":
                e["ok"] = msg[0] == "gate" and msg[1] == "read"
            elif a == "read":
                got = [o["got"] for o in msg[-1] if o.get("call") == "pread"]
                e["got"] = got[0] if got else []
                c = msg[2].get("counter") if msg[0] == "done" else None
                e["counter"] = c if isinstance(c, int) else -1
            e["file"] = file_bytes(path) or []
            ev.append(e)
            if e["exc"]:
                break
            if msg[0] == "done":                         # operation over: start the next one
                if msg[1] == "init":
                    for u, (q2, b) in sorted(layout.items()):
                        if q2 == q:
                            w.call(u, "mklock", lo + b)
                            w.call(u, "aenter")          # parks before the first lockf
                elif msg[1] == "aenter":
                    for _ in range(nmsgs):
                        m2 = w.call(uid, "next")
                        ev.append(dict(p=q, u=uid, a="next", value=m2[2].get("value", -1), mode="",
                                       exc=m2[2].get("exc", ""), file=file_bytes(path) or [], obs=[]))
                    w.call(uid, "aexit", modes.get(uid, "ok"))  # parks before pwrite
                elif msg[1] == "aexit":
                    w.call(uid, "aenter")
    except Hang as h:
        ev.append(dict(p="?", u="?", a="hang", exc=str(h), mode="", file=file_bytes(path) or []))
        for w in workers.values():
            w.stop()
        workers.clear()
    finally:
        for q, w in list(workers.items()):
            try:
                if pool is None:
                    w.stop()
                else:
                    w.reset()
            except (Hang, OSError, EOFError):
                w.stop()
                workers.pop(q, None)
        try:
            os.remove(path)
        except FileNotFoundError:
            pass
    return ev
