"""Worker processes that run the real ebpfcat.lock objects one system call at a time.

POSIX byte-range locks are per process, so every participant of a schedule is a separate
(forked) process.  In the worker - and only there - `ebpfcat.lock.os` and `ebpfcat.lock.fcntl`
are replaced by proxies whose open / write / pread / pwrite / lockf first report to the
controller over a pipe that they are *about to* run ("gate") and then wait for "go".  The
controller thereby decides the interleaving of the system calls of all participants, including
the window between `os.open(O_EXCL)` and the initialising `os.write` of `LockFile.__init__`.

Protocol (controller -> worker):  ("call", op, args)  start an operation;  ("go",)  pass the
gate the worker is parked at;  ("quit",).
Worker -> controller:  ("gate", name, obs)  parked before system call `name`;
("done", op, result, obs)  the operation finished (result is a value or {"exc": "..."}).
`obs` lists what the system calls since the last message returned.

Operations: init(filename, lo, hi, no)  -> LockFile(...) and the lock via
ParallelEtherCat.get_mbx_lock;  aenter  -> drives lock.__aenter__() (every `await sleep(0)` of a
failed attempt is followed by the next attempt);  next -> lock.next_counter();  aexit;  close.
"""
import multiprocessing
import os
import sys
import types


class Hang(Exception):
    pass


class _Abort(BaseException):
    """unwinds the operation a worker is parked in (end of a schedule)"""


def _worker(conn, repo):
    import fcntl as real_fcntl
    if repo not in sys.path:
        sys.path.insert(0, repo)
    import ebpfcat.lock as L
    obs = []
    fds = []                     # every descriptor the code under test opened (closed on "close")

    def gate(name):
        conn.send(("gate", name, list(obs)))
        del obs[:]
        msg = conn.recv()
        if msg[0] == "abort":
            raise _Abort()
        if msg[0] != "go":
            raise SystemExit(0)

    class OsProxy:
        def __getattr__(self, k):
            return getattr(os, k)

        def open(self, path, flags, *a):
            excl = bool(flags & os.O_EXCL)
            if excl:
                gate("open")
            try:
                fd = os.open(path, flags, *a)
            except FileExistsError:
                obs.append(dict(call="open_excl", res="exists"))
                raise
            obs.append(dict(call="open_excl" if excl else "open", res="ok"))
            fds.append(fd)
            return fd

        def write(self, fd, data):
            gate("init")
            n = os.write(fd, data)
            obs.append(dict(call="write", n=n, len=len(data)))
            return n

        def ftruncate(self, fd, n):
            gate("init")
            os.ftruncate(fd, n)
            obs.append(dict(call="ftruncate", n=n))

        def pread(self, fd, n, off):
            gate("read")
            r = os.pread(fd, n, off)
            obs.append(dict(call="pread", off=off, got=list(r)))
            return r

        def pwrite(self, fd, data, off):
            gate("write")
            n = os.pwrite(fd, data, off)
            obs.append(dict(call="pwrite", off=off, data=list(data)))
            return n

    class FcntlProxy:
        def __getattr__(self, k):
            return getattr(real_fcntl, k)

        def lockf(self, fd, cmd, *a):
            unlock = cmd == real_fcntl.LOCK_UN
            gate("unlock" if unlock else "try")
            try:
                r = real_fcntl.lockf(fd, cmd, *a)
            except OSError as e:
                obs.append(dict(call="lockf", res="fail", args=list(a), err=type(e).__name__))
                raise
            obs.append(dict(call="unlockf" if unlock else "lockf", res="ok", args=list(a)))
            return r

    L.os = OsProxy()
    L.fcntl = FcntlProxy()
    state = {}

    def drive(coro):
        while True:
            try:
                coro.send(None)          # returns at every `await sleep(0)` of a failed attempt
            except StopIteration as s:
                return s.value

    def call(op, args):
        if op == "init":
            filename, lo, hi, no = args
            state["lf"] = L.LockFile(filename, lo, hi)
            from ebpfcat.ebpfcat import ParallelEtherCat
            state["lock"] = ParallelEtherCat.get_mbx_lock(
                types.SimpleNamespace(mbx_lock_file=state["lf"]), no)
            return dict(cls=type(state["lock"]).__name__, byte=state["lock"].no)
        lock = state.get("lock")
        if op == "aenter":
            drive(lock.__aenter__())
            return dict(counter=lock.counter)
        if op == "next":
            return dict(value=lock.next_counter(), counter=lock.counter)
        if op == "aexit":
            mode = args[0] if args else "ok"     # how the `async with` block ended
            if mode == "raise":
                from ebpfcat.ethercat import EtherCatError
                exc = EtherCatError("exchange failed after its mail went out")
            elif mode == "cancel":
                import asyncio
                exc = asyncio.CancelledError()
            else:
                exc = None
            drive(lock.__aexit__(type(exc) if exc else None, exc, None))
            return dict(counter=lock.counter)
        if op == "close":
            lf = state.pop("lf", None)
            state.pop("lock", None)
            for fd in fds:               # also drops every lock this process holds on the file
                try:
                    os.close(fd)
                except OSError:
                    pass
            del fds[:]
            return {}
        raise ValueError(op)

    while True:
        try:
            msg = conn.recv()
        except EOFError:
            return
        if msg[0] == "quit":
            return
        if msg[0] != "call":
            continue
        try:
            res = call(msg[1], msg[2])
        except SystemExit:
            return
        except BaseException as e:
            res = dict(exc=f"{type(e).__name__}: {e}"[:200])
        conn.send(("done", msg[1], res, list(obs)))
        del obs[:]


class Worker:
    def __init__(self, repo, timeout=10.0):
        ctx = multiprocessing.get_context("fork")
        self.conn, child = ctx.Pipe()
        self.proc = ctx.Process(target=_worker, args=(child, repo), daemon=True)
        self.proc.start()
        child.close()
        self.timeout = timeout
        self.parked = None          # name of the gate the worker is parked at
        self.last = None

    def _recv(self):
        if not self.conn.poll(self.timeout):
            raise Hang("worker did not answer")
        msg = self.conn.recv()
        self.parked = msg[1] if msg[0] == "gate" else None
        self.last = msg
        return msg

    def call(self, op, *args):
        self.conn.send(("call", op, args))
        return self._recv()

    def go(self):
        self.conn.send(("go",))
        return self._recv()

    def reset(self):
        """abort whatever the worker is parked in and close its lock file"""
        if self.parked is not None:
            self.conn.send(("abort",))
            self._recv()
        self.call("close")

    def stop(self):
        try:
            self.conn.send(("quit",))
        except (OSError, ValueError):
            pass
        self.proc.join(0.5)
        if self.proc.is_alive():
            self.proc.kill()
            self.proc.join(1)
        self.conn.close()


def file_bytes(path):
    try:
        with open(path, "rb") as f:        # the controller holds no locks: closing is harmless
            return list(f.read())
    except FileNotFoundError:
        return None


def replay(repo, path, schedule, bytes_of, nmsgs, lo=10, n=2, pool=None):
    """replay one schedule ([{p, a}...]) on real LockFile / ParallelMailboxLock objects in one
    worker process per participant; returns the list of observed events.
    pool: dict reused between calls (worker processes are kept and reset)"""
    workers = pool if pool is not None else {}
    ev = []
    modes = {}                    # how the current hold of each participant will end
    try:
        for p in sorted({s["p"] for s in schedule}):
            if p not in workers:
                workers[p] = Worker(repo)
            w = workers[p]
            w.call("init", path, lo, lo + n, lo + bytes_of[p])      # parks before open(O_EXCL)
        for s in schedule:
            p, a = s["p"], s["a"]
            w = workers[p]
            if a == "read":
                modes[p] = s.get("mode") or "ok"
            if a == "write" and w.parked == "unlock":
                # the code ends the hold without storing the counter: the step happened without
                # effect; whether that is acceptable is for the specification to say
                ev.append(dict(p=p, a="write", exc="", mode=modes.get(p, ""), skipped=True, obs=[],
                               file=file_bytes(path) or []))
                continue
            if w.parked != a:
                ev.append(dict(p=p, a=a, res="not-at-step", at=str(w.parked), last=repr(w.last)[:200],
                               exc=f"the code is about to do {w.parked!r} instead of {a!r}",
                               mode=modes.get(p, ""),
                               file=file_bytes(path) or []))
                break
            msg = w.go()
            e = dict(p=p, a=a, obs=msg[-1], exc="", mode=modes.get(p, "") if a in ("write", "unlock") else s.get("mode", ""))
            if msg[0] == "done" and "exc" in msg[2]:
                e["exc"] = msg[2]["exc"]
            if a == "open":
                e["res"] = "created" if msg[0] == "gate" and msg[1] == "init" else "opened"
            elif a == "try":
                e["ok"] = msg[0] == "gate" and msg[1] == "read"
            elif a == "read":
                got = [o["got"] for o in msg[-1] if o.get("call") == "pread"]
                e["got"] = got[0] if got else []
                c = msg[2].get("counter") if msg[0] == "done" else None
                e["counter"] = c if isinstance(c, int) else -1
            e["file"] = file_bytes(path) or []
            ev.append(e)
            if e["exc"]:
                break
            if msg[0] == "done":                         # operation over: start the next one
                if msg[1] == "init":
                    w.call("aenter")                     # parks before the first lockf
                elif msg[1] == "aenter":
                    for _ in range(nmsgs):
                        m2 = w.call("next")
                        ev.append(dict(p=p, a="next", value=m2[2].get("value", -1),
                                       exc=m2[2].get("exc", ""), file=file_bytes(path) or [], obs=[]))
                    w.call("aexit", modes.get(p, "ok"))  # parks before pwrite
                elif msg[1] == "aexit":
                    w.call("aenter")
    except Hang as h:
        ev.append(dict(p="?", a="hang", exc=str(h), file=file_bytes(path) or []))
        for w in workers.values():
            w.stop()
        workers.clear()
    finally:
        for p, w in list(workers.items()):
            try:
                if pool is None:
                    w.stop()
                else:
                    w.reset()
            except (Hang, OSError, EOFError):
                w.stop()
                workers.pop(p, None)
        try:
            os.remove(path)
        except FileNotFoundError:
            pass
    return ev
