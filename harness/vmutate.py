"""X10 - single-edit mutants of decoded eBPF programs, chosen to sit near the kernel verifier's rules.

A program is a list of instruction records dict(op, dst, src, off, imm=[4 bytes]) as produced by
harness.bpfdecode.split (LD_IMM64 occupies two records, the second with op = 0); map handles are map NUMBERS
1..k (harness.progs renumbering).  Every mutant is well-formed at the encoding level: fields that the instruction
class does not use stay zero, register numbers stay in 0..10, offsets in int16, immediates in int32, LD_IMM64 keeps
its two slots.  `candidates` enumerates every single edit of every class; `pick` draws a class-balanced sample with a
random.Random (deterministic given the seed).  No ebpfcat code is involved.

Edit classes (the rule of the verifier they aim at):
  nop / del       one instruction replaced by `ja +0` / removed with the jumps over it re-targeted (NULL check, packet
                  guard, register or stack initialisation, the spill before a call, `r0 = ..` before exit, exit itself)
  width           load / store / atomic size 1 2 4 8                (alignment, bounds, context field size)
  off             load / store offset +-1 +-4 +-8 and the edges     (stack -512 / -513 / -1 / 0 / +1, map value size)
  imm             ALU immediate +-1 +-4 +-8, stack / value-size / packet-limit edges, 2^29, division by 0, shifts
                  at and beyond the width, byte-swap widths
  swap            dst <-> src of a two-register instruction
  dst / src       a register replaced by each of r0 .. r10
  jmpoff          jump offset +-1 or any other target inside / just outside the program (incl. backward, self)
  jmpop           condition code, JMP <-> JMP32, register <-> immediate operand, conditional -> ja
  helper          helper id among 1 2 3 5 7 12 and one the model does not know (6)
  aluop           ALU operation 0..13, ALU <-> ALU64, register <-> immediate operand, BPF_END direction and class
  ldimm           LD_IMM64 pseudo source 0 1 2 7, map number 0 / other / k+1, upper half non-zero
  atomic          atomic operation field (add, fetch-add, or, xchg, invalid), STX <-> atomic
  const           the stored / moved constant (keys of array-map lookups, helper flags)
"""
import hashlib
import json
import struct

NOP = dict(op=0x05, dst=0, src=0, off=0, imm=[0, 0, 0, 0])
HELPERS = [1, 2, 3, 5, 7, 12, 6]
SIZES = {0x00: 4, 0x08: 2, 0x10: 1, 0x18: 8}
SZCODE = {4: 0x00, 2: 0x08, 1: 0x10, 8: 0x18}
JCODES = [1, 2, 3, 4, 5, 6, 7, 10, 11, 12, 13]


def imm_of(i):
    return int.from_bytes(bytes(i["imm"]), "little", signed=True)


def with_imm(i, v):
    return dict(i, imm=list((v & 0xffffffff).to_bytes(4, "little")))


def key(insns, maps=None):
    return hashlib.sha1(json.dumps([insns, maps]).encode()).hexdigest()


def encode(insns, fds):
    """bytecode for the kernel: map number k of LD_IMM64 src=1 -> fds[k-1]; a number that names no map becomes a
    descriptor that is certainly not open (the kernel must refuse it as the model refuses the number)"""
    out = bytearray()
    for i in insns:
        imm = imm_of(i)
        if i["op"] == 0x18 and i["src"] in (1, 2):
            imm = fds[imm - 1] if 1 <= imm <= len(fds) else 0x3ffffff0
        out += struct.pack("<BBhi", i["op"], i["dst"] | i["src"] << 4, i["off"], imm)
    return bytes(out)


def show(i):
    return f"{i['op']:#04x} r{i['dst']} r{i['src']} off={i['off']} imm={imm_of(i)}"


def listing(insns):
    return [f"{n}: {show(i)}" for n, i in enumerate(insns)]


def _cls(op):
    return op & 7


def _is_jump(i):
    """a jump with an offset (conditional or ja), not call / exit"""
    return _cls(i["op"]) in (5, 6) and (i["op"] >> 4) not in (8, 9)


def delete(insns, pc):
    """remove the instruction at pc (both slots of LD_IMM64); jumps across it keep their targets, jumps to it go
    to its successor"""
    n = 2 if insns[pc]["op"] == 0x18 else 1

    def f(p):                                   # new index of the old index p (a deleted one: its successor)
        return p if p < pc else pc if p < pc + n else p - n
    out = []
    for p, i in enumerate(insns):
        if pc <= p < pc + n:
            continue
        if _is_jump(i):
            i = dict(i, off=f(p + 1 + i["off"]) - f(p) - 1)
        out.append(i)
    return out


def candidates(insns, maps):
    """-> {class: [(description, mutated instruction list)]}: every single edit, not yet deduplicated"""
    out = {}
    n = len(insns)
    vss = sorted({m["vs"] for m in maps})

    def add(cls, pc, what, new):
        if isinstance(new, dict):
            if new == insns[pc]:
                return
            if not (-32768 <= new["off"] <= 32767 and 0 <= new["dst"] <= 10 and 0 <= new["src"] <= 10):
                return
            new = insns[:pc] + [new] + insns[pc + 1:]
        out.setdefault(cls, []).append((f"{cls}@{pc} [{show(insns[pc])}] {what}", new))

    for pc, i in enumerate(insns):
        op, cl = i["op"], _cls(i["op"])
        if op == 0:                                          # second slot of LD_IMM64: edited through the first
            continue
        imm = imm_of(i)
        # ---- remove ------------------------------------------------------------------------------------
        if op == 0x18:
            add("nop", pc, "-> ja +0 (both slots)", insns[:pc] + [NOP, NOP] + insns[pc + 2:])
        else:
            add("nop", pc, "-> ja +0", dict(NOP))
        if n > 1 + (op == 0x18):
            add("del", pc, "deleted", delete(insns, pc))
        # ---- loads / stores ----------------------------------------------------------------------------
        if cl in (1, 2, 3):
            size = SIZES[op & 0x18]
            for s2, c2 in SZCODE.items():
                if s2 != size:
                    add("width", pc, f"size {size} -> {s2}", dict(i, op=(op & ~0x18) | c2))
            base = i["src"] if cl == 1 else i["dst"]
            offs = {i["off"] + d for d in (-8, -4, -1, 1, 4, 8)}
            if base == 10:
                offs |= {-512, -513, -512 + size, -size, -size + 1, -1, 0, 1}
            else:
                offs |= {-1, 0, -size}
                for vs in vss:
                    offs |= {vs - size, vs - size + 1, vs}
                offs |= {12, 20, 24}                         # context fields and just past them
            for o in sorted(offs):
                add("off", pc, f"off {i['off']} -> {o}", dict(i, off=o))
            if cl == 3 and (op >> 5) == 6:                  # atomic
                for v in (0x01, 0x40, 0xe1, 0x02, 0xf1):
                    add("atomic", pc, f"atomic op {imm:#x} -> {v:#x}", with_imm(i, v))
                add("atomic", pc, "atomic -> plain store", with_imm(dict(i, op=(op & 0x1f) | 0x60), 0))
            if cl == 3 and (op >> 5) == 3 and size in (4, 8):
                add("atomic", pc, "plain store -> atomic add", dict(i, op=(op & 0x1f) | 0xc0))
            if cl == 2:
                for v in (0, 1, -1, imm + 1, 64):
                    add("const", pc, f"imm {imm} -> {v}", with_imm(i, v))
        # ---- ALU -----------------------------------------------------------------------------------------
        if cl in (4, 7):
            code, isreg = op >> 4, bool(op & 8)
            if code == 13:                                   # BPF_END
                for v in (16, 32, 64, 8, 0, 128):
                    add("imm", pc, f"swap width {imm} -> {v}", with_imm(i, v))
                add("aluop", pc, "to_le <-> to_be", dict(i, op=op ^ 8))
                add("aluop", pc, "ALU <-> ALU64", dict(i, op=op ^ 3))
            else:
                for c2 in range(0, 14):
                    if c2 == code:
                        continue
                    if c2 == 13:
                        add("aluop", pc, f"code {code} -> END", with_imm(dict(i, op=0xd0 | (op & 0xf), src=0), 16))
                    elif c2 == 8:
                        add("aluop", pc, f"code {code} -> NEG", with_imm(dict(i, op=0x80 | (op & 7), src=0), 0))
                    elif code == 8:
                        add("aluop", pc, f"NEG -> code {c2} imm 1", with_imm(dict(i, op=c2 << 4 | (op & 7)), 1))
                    else:
                        add("aluop", pc, f"code {code} -> {c2}", dict(i, op=c2 << 4 | (op & 0xf)))
                add("aluop", pc, "ALU <-> ALU64", dict(i, op=op ^ 3))
                if code != 8:
                    if isreg:
                        for v in (0, 1, 8):
                            add("aluop", pc, f"register operand -> imm {v}", with_imm(dict(i, op=op & ~8, src=0), v))
                    else:
                        for r in (0, 2, 6, 10):
                            add("aluop", pc, f"imm operand -> r{r}", with_imm(dict(i, op=op | 8, src=r), 0))
                if not isreg and code != 8:
                    bits = 64 if cl == 7 else 32
                    vals = {imm + d for d in (-8, -4, -1, 1, 4, 8)}
                    if code in (3, 9):
                        vals |= {0, 1, -1}
                    elif code in (6, 7, 12):
                        vals |= {0, bits - 1, bits, 31, 32, 63, 64, -1}
                    elif code in (0, 1):
                        vals |= {0, 1, -1, -512, -513, 512, 513, 0xffff, 0x10000, 1 << 29, (1 << 29) - 1, -(1 << 29),
                                 2 ** 31 - 1, -2 ** 31}
                        for vs in vss:
                            vals |= {vs, vs - 1, vs - 4, vs - 8, -vs}
                    cls_name = "const" if code == 11 else "imm"
                    if code == 11:
                        vals = {0, 1, -1, imm + 1, 64}
                    for v in sorted(vals):
                        if -2 ** 31 <= v < 2 ** 31:
                            add(cls_name, pc, f"imm {imm} -> {v}", with_imm(i, v))
            if isreg and code not in (8, 13):
                add("swap", pc, "dst <-> src", dict(i, dst=i["src"], src=i["dst"]))
                for r in range(11):
                    add("src", pc, f"src r{i['src']} -> r{r}", dict(i, src=r))
            for r in range(11):
                add("dst", pc, f"dst r{i['dst']} -> r{r}", dict(i, dst=r))
        # ---- registers of loads / stores -------------------------------------------------------------------
        if cl in (1, 3):
            add("swap", pc, "dst <-> src", dict(i, dst=i["src"], src=i["dst"]))
            for r in range(11):
                add("src", pc, f"src r{i['src']} -> r{r}", dict(i, src=r))
        if cl in (1, 2, 3):
            for r in range(11):
                add("dst", pc, f"dst r{i['dst']} -> r{r}", dict(i, dst=r))
        # ---- LD_IMM64 ------------------------------------------------------------------------------------
        if op == 0x18:
            hi = insns[pc + 1]
            for s in (0, 1, 2, 7):
                add("ldimm", pc, f"pseudo source {i['src']} -> {s}", dict(i, src=s))
            for v in sorted({0, 1, 2, len(maps), len(maps) + 1, imm + 1}):
                add("ldimm", pc, f"imm {imm} -> {v}", with_imm(i, v))
            add("ldimm", pc, "upper half -> 1", insns[:pc + 1] + [with_imm(hi, imm_of(hi) ^ 1)] + insns[pc + 2:])
            for r in range(11):
                add("dst", pc, f"dst r{i['dst']} -> r{r}", dict(i, dst=r))
        # ---- jumps, calls, exit ----------------------------------------------------------------------------
        if cl in (5, 6):
            code = op >> 4
            if op == 0x85:
                for h in HELPERS:
                    add("helper", pc, f"helper {imm} -> {h}", with_imm(i, h))
            elif op == 0x95:
                pass
            elif _is_jump(i):
                for t in range(-1, n + 1):
                    o = t - pc - 1
                    cls_name = "jmpoff1" if abs(o - i["off"]) == 1 else "jmpoff"
                    add(cls_name, pc, f"target {pc + 1 + i['off']} -> {t}", dict(i, off=o))
                if code != 0:
                    isreg = bool(op & 8)
                    for c2 in JCODES:
                        add("jmpop", pc, f"condition {code} -> {c2}", dict(i, op=c2 << 4 | (op & 0xf)))
                    add("jmpop", pc, "JMP <-> JMP32", dict(i, op=op ^ 3))
                    add("jmpop", pc, "conditional -> ja", with_imm(dict(i, op=0x05, dst=0, src=0), 0))
                    if isreg:
                        add("swap", pc, "dst <-> src", dict(i, dst=i["src"], src=i["dst"]))
                        for r in range(11):
                            add("src", pc, f"src r{i['src']} -> r{r}", dict(i, src=r))
                        for v in (0, 1):
                            add("jmpop", pc, f"register operand -> imm {v}", with_imm(dict(i, op=op & ~8, src=0), v))
                    else:
                        for v in (0, 1, -1, imm + 1):
                            add("imm", pc, f"imm {imm} -> {v}", with_imm(i, v))
                        for r in (0, 6, 10):
                            add("jmpop", pc, f"imm operand -> r{r}", with_imm(dict(i, op=op | 8, src=r), 0))
                    for r in range(11):
                        add("dst", pc, f"dst r{i['dst']} -> r{r}", dict(i, dst=r))
    return out


def pick(insns, maps, rng, count, seen=None):
    """up to `count` distinct mutants (description, instructions), classes taken in turn, sites at random;
    `seen` (a set of keys) deduplicates across programs"""
    cands = candidates(insns, maps)
    seen = seen if seen is not None else set()
    orig = key(insns, maps)
    seen.add(orig)
    pools = {c: list(v) for c, v in sorted(cands.items())}
    for v in pools.values():
        rng.shuffle(v)
    order = sorted(pools)
    rng.shuffle(order)
    out = []
    rounds = 0
    while order and len(out) < count:
        rounds += 1
        for c in list(order):
            if len(out) >= count:
                break
            if c == "const" and rounds % 4 != 1 and len(order) > 1:      # far from any rule: a small share only
                continue
            pool = pools[c]
            while pool:
                what, new = pool.pop()
                k = key(new, maps)
                if k in seen:
                    continue
                seen.add(k)
                out.append((c, what, new))
                break
            if not pool and c in order and not pools[c]:
                order.remove(c)
    return out
