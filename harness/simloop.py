"""Deterministic asyncio event loop with virtual time.

* time() is virtual: when nothing is ready the clock jumps to the next timer, so sleeps and
  timeouts cost nothing and runs are reproducible.
* ready callbacks run in asyncio's FIFO order (the order asyncio guarantees); sources of
  nondeterminism are injected by the harness instead (task start order, virtual arrival times
  of bus responses, cancellation points) so that every schedule explored is one real asyncio
  could produce.
* a step budget turns a loop that never yields (or an endless ping-pong) into StallError.
* `suspensions` counts the number of times a chosen task was suspended (for cancellation
  injection at the k-th await).
"""
import asyncio
import selectors


class StallError(Exception):
    """the code under test did not come to rest within the step budget"""


class _NullSelector(selectors.DefaultSelector):
    pass


class SimLoop(asyncio.SelectorEventLoop):
    def __init__(self, budget=200000):
        super().__init__()
        self._vt = 0.0
        self.budget = budget
        self.steps = 0
        self.idle_hook = None   # called when nothing is ready and no timer is pending

    def time(self):
        return self._vt

    def _run_once(self):
        self.steps += 1
        if self.steps > self.budget:
            raise StallError(f"more than {self.budget} loop iterations")
        if not self._ready:
            # drop cancelled timers at the head, then jump to the next timer
            while self._scheduled and self._scheduled[0]._cancelled:
                import heapq
                h = heapq.heappop(self._scheduled)
                h._scheduled = False
            if self._scheduled:
                self._vt = max(self._vt, self._scheduled[0]._when)
            elif self.idle_hook is not None:
                self.idle_hook()
                if not self._ready and not self._scheduled:
                    raise StallError("deadlock: nothing ready, no timer pending")
            else:
                raise StallError("deadlock: nothing ready, no timer pending")
        super()._run_once()


def run(coro_fn, budget=200000, wall_timeout=None):
    """run coro_fn() to completion on a fresh SimLoop; returns (result, loop)"""
    loop = SimLoop(budget)
    asyncio.set_event_loop(loop)
    try:
        return loop.run_until_complete(coro_fn()), loop
    finally:
        try:
            _cancel_all(loop)
        finally:
            asyncio.set_event_loop(None)
            loop.close()


def _cancel_all(loop):
    tasks = [t for t in asyncio.all_tasks(loop) if not t.done()]
    for t in tasks:
        t.cancel()
    if tasks:
        loop.budget += 10000
        try:
            loop.run_until_complete(asyncio.gather(*tasks, return_exceptions=True))
        except (StallError, RuntimeError):
            pass
