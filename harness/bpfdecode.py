"""Split assembled eBPF bytecode into raw instruction fields for spec/Ebpf.tla.

Deliberately dumb: no opcode knowledge, no use of ebpfcat's own Opcode/Instruction classes.
Decoding (classes, sizes, modes, ALU/JMP codes) is defined in the specification."""
import struct


def split(code):
    assert len(code) % 8 == 0, "bytecode length must be a multiple of 8"
    out = []
    for p in range(0, len(code), 8):
        op, regs, off = struct.unpack_from("<BBh", code, p)
        out.append(dict(op=op, dst=regs & 15, src=regs >> 4, off=off, imm=list(code[p + 4:p + 8])))
    return out
