"""Build programs with the REAL ebpfcat classes and package them for spec/Ebpf.tla.

`build(cls)` instantiates an EBPF/XDP subclass while recording every map the generator creates
(create_map is interposed where ebpfcat imported it; the real call goes through when the kernel
is usable, otherwise fake descriptors are handed out and mmap is replaced by a bytearray), then
assembles it with the real `assemble()`.  Map handles in LD_IMM64 instructions are renumbered
1..k so that the specification can index its map table; nothing else is touched."""
import contextlib
import mmap as _mmap

from . import bpfdecode, kernel

TYPES = {1: "hash", 2: "array", 3: "prog", 6: "percpu", 9: "hash"}


class Built:
    def __init__(self, inst, code, maps):
        self.inst = inst
        self.code = code
        self.maps = maps                       # list of dict(fd, type, ks, vs, max) in creation order
        self.fdno = {m["fd"]: i + 1 for i, m in enumerate(maps)}
        self.insns = self._renumber(bpfdecode.split(code))

    def _renumber(self, insns):
        out = []
        for i in insns:
            if i["op"] == 0x18 and i["src"] == 1:
                fd = int.from_bytes(bytes(i["imm"]), "little")
                i = dict(i, imm=list(self.fdno[fd].to_bytes(4, "little")))
            out.append(i)
        return out

    def tla_maps(self):
        return [dict(type=m["type"], ks=m["ks"], vs=m["vs"], max=m["max"]) for m in self.maps]


@contextlib.contextmanager
def recording(use_kernel=None):
    import ebpfcat.arraymap as am
    import ebpfcat.hashmap as hm
    import ebpfcat.bpf as bpf
    if use_kernel is None:
        use_kernel = kernel.available()
    maps = []
    real = bpf.create_map
    fake_next = [1000]

    def create_map(map_type, key_size, value_size, max_entries, attributes=bpf.MapFlags(0)):
        if use_kernel:
            fd = real(map_type, key_size, value_size, max_entries, attributes)
        else:
            fake_next[0] += 1
            fd = fake_next[0]
        maps.append(dict(fd=fd, type=TYPES.get(map_type.value, str(map_type.value)), ks=key_size,
                         vs=value_size, max=max_entries))
        return fd

    def fake_mmap(fd, size):
        return bytearray(size)

    saved = (am.create_map, hm.create_map, am.mmap)
    am.create_map = hm.create_map = create_map
    if not use_kernel:
        am.mmap = fake_mmap
    try:
        yield maps
    finally:
        am.create_map, hm.create_map, am.mmap = saved


def build(cls, *args, use_kernel=None, **kwargs):
    with recording(use_kernel) as maps:
        inst = cls(*args, **kwargs)
        code = inst.assemble()
    return Built(inst, code, maps)


def case(b, pkt=bytes(64), arr=None, hashes=(), orc=(), fuel=4000, extra_programs=(), progs=None):
    """a case record for spec/EbpfRun.tla; arr: {map number: bytes}"""
    arr = arr or {}
    return dict(programs=[b.insns] + [list(p) for p in extra_programs], entry=1, maps=b.tla_maps(),
                progs=progs or [[] for _ in b.maps], orc=[list(w) for w in orc], pkt=list(pkt),
                arr=[dict(fd=k, bytes=list(v)) for k, v in sorted(arr.items())],
                hash=[dict(fd=f, key=list(k), val=list(v)) for f, k, v in hashes], fuel=fuel)
