"""Validate spec/Wide.tla against Python integers on boundary + random vectors."""
import json, os, random, sys
sys.path.insert(0, os.path.dirname(os.path.dirname(os.path.abspath(__file__))))
from harness import tlc as T


def w(v, n):
    return list((v % (1 << (8 * n))).to_bytes(n, "little"))


def s(v, n):
    v %= 1 << (8 * n)
    return v - (1 << (8 * n)) if v >> (8 * n - 1) else v


def vectors(seed=1, count=60):
    rng = random.Random(seed)
    out = []
    for n in (8, 4, 17):
        M = 1 << (8 * n)
        specials = [0, 1, 2, 3, 255, 256, M - 1, M - 2, M >> 1, (M >> 1) - 1, (M >> 1) + 1,
                    0x7fffffff, 0x80000000, 0xffffffff, 0x100000000 % M, 100000, 7, M - 7]
        vals = specials + [rng.randrange(M) for _ in range(count)] + \
            [rng.randrange(1 << rng.randrange(1, 8 * n)) for _ in range(count)]
        pairs = [(a, b) for a in specials for b in specials] + \
            [(rng.choice(vals), rng.choice(vals)) for _ in range(count * 3)]
        for a, b in pairs:
            A, B = w(a, n), w(b, n)
            out.append(dict(op="add", a=A, b=B, k=0, exp=w(a + b, n)))
            out.append(dict(op="sub", a=A, b=B, k=0, exp=w(a - b, n)))
            out.append(dict(op="mul", a=A, b=B, k=0, exp=w(a * b, n)))
            out.append(dict(op="and", a=A, b=B, k=0, exp=w(a & b, n)))
            out.append(dict(op="or", a=A, b=B, k=0, exp=w(a | b, n)))
            out.append(dict(op="xor", a=A, b=B, k=0, exp=w(a ^ b, n)))
            out.append(dict(op="ult", a=A, b=B, k=0, exp=[int(a < b)]))
            out.append(dict(op="slt", a=A, b=B, k=0, exp=[int(s(a, n) < s(b, n))]))
            if b:
                out.append(dict(op="udiv", a=A, b=B, k=0, exp=w(a // b, n)))
                out.append(dict(op="umod", a=A, b=B, k=0, exp=w(a % b, n)))
                sa, sb = s(a, n), s(b, n)
                if not (sa == -(M >> 1)) and not (sb == -(M >> 1)):
                    q = abs(sa) // abs(sb) * (1 if (sa < 0) == (sb < 0) else -1)
                    out.append(dict(op="sdivt", a=A, b=B, k=0, exp=w(q, n)))
                    out.append(dict(op="smodt", a=A, b=B, k=0, exp=w(sa - q * sb, n)))
                    out.append(dict(op="sdivf", a=A, b=B, k=0, exp=w(sa // sb, n)))
                    out.append(dict(op="smodf", a=A, b=B, k=0, exp=w(sa % sb, n)))
        for a in vals:
            A = w(a, n)
            out.append(dict(op="neg", a=A, b=A, k=0, exp=w(-a, n)))
            for k in {0, 1, 7, 8, 9, 31, 8 * n - 1, rng.randrange(8 * n)}:
                out.append(dict(op="shl", a=A, b=A, k=k, exp=w(a << k, n)))
                out.append(dict(op="shr", a=A, b=A, k=k, exp=w(a >> k, n)))
                out.append(dict(op="sar", a=A, b=A, k=k, exp=w(s(a, n) >> k, n)))
            for k in (1, 2, 4):
                out.append(dict(op="sext", a=A, b=A, k=k, exp=w(s(a % (1 << 8 * k), k), n)))
            for k in (2, 4, 8):
                if k <= n:
                    out.append(dict(op="bswap", a=A, b=A, k=k, exp=w(int.from_bytes(
                        (a % (1 << 8 * k)).to_bytes(k, "little"), "big"), n)))
            for k in (1, 2, 4, 8):
                if k < n:
                    out.append(dict(op="fitss", a=A, b=A, k=k, exp=[int(-(1 << (8 * k - 1)) <= s(a, n) < (1 << (8 * k - 1)))]))
                    out.append(dict(op="fitsu", a=A, b=A, k=k, exp=[int(a < (1 << (8 * k)))]))
        for v in (0, 1, -1, 255, -256, 2 ** 31 - 1, -2 ** 31, 65536, -65537, 100000):
            out.append(dict(op="fromint", a=w(0, n), b=w(0, n), k=v, exp=w(v, n)))
    return out


def main():
    wd = T.workdir("wide")
    T.stage(wd)
    vec = vectors()
    path = os.path.join(wd, "vec.json")
    json.dump(vec, open(path, "w"))
    res = T.run(wd, "WideTest", "WideTest.cfg", timeout=900, deadlock=False, env={"TRACE_FILE": path})
    bad = [l for l in res.out.splitlines() if "MISMATCH" in l]
    print(len(vec), "vectors", "distinct", res.distinct, "wall", round(res.wall, 1), "mismatches", len(bad))
    for l in bad[:10]:
        print(l)
    if res.error or not res.ok:
        print(res.out[-3000:])
    T.cleanup(wd)
    return 0 if (res.ok and not bad) else 1


if __name__ == "__main__":
    sys.exit(main())
