"""Predicates for known findings: each takes (case, reason) and decides from the case's own data
whether it is the recorded defect. Never an instance id."""
