"""Predicates for known findings: each takes (case, reason) and decides from the case's own data
whether it is the recorded defect. Never an instance id."""


def c01_signed_division_negative(case, reason):
    """F1: the statement contains a // or % that the DSL types as signed and one of whose exact operand
    values is negative (flag computed by spec/Dsl.tla SignedDivNeg from the case's own inputs); the
    generator emits the unsigned DIV / MOD instruction for it"""
    return case.get("verdict") == "wrong" and case.get("signed_div_neg") is True


def c01_sw_negative_in_64bit(case, reason):
    """F21: an operand is the signed 32-bit register view `sw` holding a negative value (spec flag
    SwNegative) and the statement is computed in 64 bits (an 8-byte destination, or a hash-map variable, which is
    assigned through an 8-byte temporary): the register is used without sign extension"""
    # a hash-map variable of any size is assigned through an 8-byte temporary: the expression is computed in 64 bits
    wide = case.get("dst_size") == 8 or list(case.get("dst") or [""])[0] == "hash"
    return case.get("verdict") == "wrong" and case.get("sw_negative") is True and wide


def c03_sw_negative_against_wide(case, reason):
    """F21 as it shows in C03: some comparison of the program has the signed 32-bit register view `sw`
    holding a negative value on one side while the other side counts as 64 bits wide (spec flag
    StmtsSwNeg): the register is compared without sign extension"""
    return case.get("verdict") == "wrong" and case.get("cmp_sw_negative") is True


def c22_three_nonrunning_with_reordering(case, reason):
    """F27: with three frames of a group in flight and frames returning OUT OF ORDER (never under FIFO
    delivery), the real dispatcher bytecode lets exactly three consecutive deliveries go by without
    running the group's program: one passive pass to the bus and two stale frames handed to user space"""
    tail = case.get("nonrunning_tail") or []
    return (case.get("kind") == "history" and case.get("invariant") == "KeepsRunning" and case.get("fifo") is False
            and case.get("since") == 3 and set(tail) <= {"passive-to-bus", "to-user-space"}
            and "to-user-space" in tail)


def c02_division_on_negative(case, reason):
    """F1 in fixed-point statements: the run of the case's own bytecode executes a DIV or MOD instruction while
    its dividend or divisor is negative as a signed number (flag computed by spec/Fixed.tla DivOnNegative by
    stepping the program on the case's inputs): the instruction divides unsigned"""
    return case.get("verdict") == "wrong" and case.get("div_on_negative") is True


def c04_shared_sub_frames(case, reason):
    """F34: the final values are exactly those of the store in which the locals of the sub-program instances share
    one byte memory at their real addresses while every other variable keeps its own cell (spec/VarFrame.tla
    AliasExplains, evaluated on the case's own statements and layout) - and there are two instances to share"""
    return (case.get("verdict") == "wrong" and case.get("explained_by_shared_sub_frames") is True
            and case.get("n_subs", 0) >= 2)
