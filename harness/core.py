"""Check driver: tiers, seeds, evidence, known findings, exit codes.

A check module (checks/cNN.py) defines
    PROPERTY = "C20"
    LEVEL = "model_checking"
    def run(ctx) -> None      # calls ctx.case_failed(...), ctx.cover(...), ctx.tlc_stats(...)
Exit codes: 0 held (known findings printed), 1 violation, 2 machinery failure.
"""
import hashlib
import importlib
import json
import os
import random
import sys
import time
import traceback

from . import tlc as T

VERIF = T.VERIF
REPO = os.environ.get("VERIF_REPO_OVERRIDE", "/repo")  # override only for mutation self-tests
GUARD = "TECKI_EBPFCAT_VERIF"


def setup_repo_import():
    # an override that does not exist would silently fall back to an installed or cached ebpfcat:
    # a mutant run would then test something else and look like a missed detection
    if not os.path.isdir(os.path.join(REPO, "ebpfcat")):
        print(f"MACHINERY-FAILURE: no ebpfcat package under {REPO!r} (VERIF_REPO_OVERRIDE?)", file=sys.stderr)
        sys.exit(2)
    os.environ[GUARD] = "1"
    os.environ.setdefault("PYTHONHASHSEED", "0")
    sys.dont_write_bytecode = True
    if REPO not in sys.path:
        sys.path.insert(0, REPO)


class Ctx:
    def __init__(self, prop, tier, seed, level):
        self.prop = prop
        self.tier = tier
        self.seed = seed
        self.level = level
        self.rng = random.Random(seed)
        self.t0 = time.time()
        self.states = 0
        self.transitions = 0
        self.traces = 0
        self.evaluations = 0
        self.nontrivial = set()
        self.samples = []
        self.failures = []      # (case dict, reason)
        self.known_hits = {}    # finding id -> count
        self.known_what = {}
        self.extra = {}
        self.assumptions = []
        self.exhaustive = None
        self.rule = ""
        self.workdirs = []
        self.known = load_known(prop)

    # ---- bookkeeping -------------------------------------------------------------------
    @property
    def quick(self):
        return self.tier == "quick"

    def workdir(self, tag=None):
        wd = T.workdir(tag or self.prop)
        T.stage(wd)
        self.workdirs.append(wd)
        return wd

    def tlc_stats(self, res):
        self.states += res.distinct
        self.transitions += res.generated
        for k, v in res.coverage.items():
            cov = self.extra.setdefault("action_coverage", {})
            cov[k] = cov.get(k, 0) + v

    def sample(self, s, limit=5):
        if len(self.samples) < limit:
            self.samples.append(s)

    def evaluated(self, key=None, nontrivial=True, n=1):
        """count one explored case; key identifies distinct non-trivial cases"""
        self.evaluations += n
        if nontrivial and key is not None:
            self.nontrivial.add(key if isinstance(key, (str, int)) else
                                hashlib.sha1(repr(key).encode()).hexdigest()[:16])

    def case_failed(self, case, reason):
        """a case of the real code that the specification rejects.
        case: JSON-serialisable dict with everything needed to replay and to match known findings"""
        for k in self.known:
            if os.environ.get("VERIF_NO_KNOWN"):          # for tallies by hand: report everything
                break
            if k["status"] == "open" and k["pred"](case, reason):
                self.known_hits[k["id"]] = self.known_hits.get(k["id"], 0) + 1
                self.known_what[k["id"]] = k["what"]
                return False
        self.failures.append((case, reason))
        return True

    # ---- finishing ---------------------------------------------------------------------
    def finish(self):
        for wd in self.workdirs:
            T.cleanup(wd)
        wall = time.time() - self.t0
        for kid, n in sorted(self.known_hits.items()):
            print(f"KNOWN-FINDING: property={self.prop} {kid}: {self.known_what[kid]} ({n} cases)")
        rc = 0
        shown = 0
        seen = set()
        if os.environ.get("VERIF_DUMP_FAILURES"):        # every failure, for tallying by hand
            with open(os.environ["VERIF_DUMP_FAILURES"], "w") as f:
                for case, reason in self.failures:
                    f.write(json.dumps({"case": case, "reason": reason}, default=repr) + "\n")
        for case, reason in self.failures:
            rc = 1
            h = hashlib.sha1(json.dumps(case, sort_keys=True, default=repr).encode()).hexdigest()[:12]
            if h in seen:
                continue
            seen.add(h)
            if shown >= 20:
                continue
            shown += 1
            d = os.path.join(VERIF, "replays", self.prop)
            os.makedirs(d, exist_ok=True)
            path = os.path.join(d, h + ".json")
            with open(path, "w") as f:
                json.dump({"property": self.prop, "reason": reason, "case": case}, f, indent=1,
                          default=repr)
            print(f"VIOLATION property={self.prop} replay={path}")
            print(f"  reason: {reason}"[:600])
        cov = {
            "states": self.states, "transitions": self.transitions,
            "traces_validated_against_impl": self.traces,
            "evaluations": self.evaluations, "distinct_nontrivial": len(self.nontrivial),
            "rule": self.rule, "samples": self.samples or ["(none)"],
        }
        if self.exhaustive is not None:
            cov["exhaustive"] = self.exhaustive
        cov["known_findings_hit"] = self.known_hits
        cov.update(self.extra)
        ev = {"property_id": self.prop, "tier": self.tier, "seed": self.seed,
              "level": self.level, "coverage": cov, "assumptions": self.assumptions,
              "wall_s": round(wall, 2), "violations": len(seen)}
        # evidence describes /repo; a mutation self-test (VERIF_REPO_OVERRIDE) writes its record aside
        evdir = os.path.join(VERIF, "evidence" if REPO == "/repo" else os.path.join("work", "evidence-override"))
        if REPO == "/repo" and not self.prop.startswith("C"):
            evdir = os.path.join(evdir, "extra")       # coverage beyond the listed properties (X01, X02, ...)
        os.makedirs(evdir, exist_ok=True)
        with open(os.path.join(evdir, self.prop + ".json"), "w") as f:
            json.dump(ev, f, indent=1, default=repr)
        print(f"{self.prop} {self.tier}: evaluations={self.evaluations} distinct={len(self.nontrivial)} "
              f"states={self.states} transitions={self.transitions} traces={self.traces} "
              f"violations={len(seen)} known={sum(self.known_hits.values())} wall={wall:.1f}s")
        return rc


def load_known(prop):
    from . import known
    path = os.path.join(VERIF, "known_findings.json")
    out = []
    if os.path.exists(path):
        for e in json.load(open(path)):
            if e["property"] == prop:
                e = dict(e)
                e["pred"] = getattr(known, e["predicate"]) if e["status"] == "open" else None
                out.append(e)
    return out


def main(argv):
    import argparse
    ap = argparse.ArgumentParser()
    ap.add_argument("prop")
    ap.add_argument("--tier", default=os.environ.get("VERIF_TIER", "quick"))
    ap.add_argument("--replay")
    a = ap.parse_args(argv)
    seed = int(os.environ.get("VERIF_SEED", "0") or 0)
    setup_repo_import()
    import ebpfcat
    if os.path.realpath(os.path.dirname(ebpfcat.__file__)) != os.path.realpath(os.path.join(REPO, "ebpfcat")):
        print(f"MACHINERY-FAILURE property={a.prop}: ebpfcat imported from {ebpfcat.__file__}, not from {REPO}",
              file=sys.stderr)
        return 2
    mod = importlib.import_module("checks." + a.prop.lower())
    ctx = Ctx(a.prop, a.tier if a.tier in ("quick", "thorough") else "quick", seed, mod.LEVEL)
    try:
        if a.replay:
            data = json.load(open(a.replay))
            mod.replay(ctx, data["case"])
        else:
            mod.run(ctx)
        rc = ctx.finish()
    except T.MachineryError as e:
        for wd in ctx.workdirs:
            T.cleanup(wd)
        print(f"MACHINERY-FAILURE property={a.prop}: {e}", file=sys.stderr)
        return 2
    except Exception:
        for wd in ctx.workdirs:
            T.cleanup(wd)
        traceback.print_exc()
        print(f"MACHINERY-FAILURE property={a.prop}: harness exception", file=sys.stderr)
        return 2
    return rc
